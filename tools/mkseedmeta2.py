import json, os, re, shutil, sys
NEEDS = {
"C01":"a demand entry without explicit pattern + an existing default demand pattern at first use + options.hydraulic.pattern changed before a second run",
"C02":"a head pump whose coefficients were already evaluated (a first run) + curve.points assigned + a second run",
"C03":"the same edit as C02_r2 (written independently): pump curve points assigned after a first WNTRSimulator run, then both engines",
"C04":"two time-control events inside one hydraulic step (a control reported by check() but not yet run when an earlier event shortens the step)",
"C05":"a run paused at the grid time just before a tank-level threshold crossing and continued (second run_sim)",
"C06":"hydraulic_timestep not a multiple of rule_timestep (e.g. 900/360); no rules needed",
"C07":"PDD mode + a control that changes a junction's required_pressure / minimum_pressure during the run + pressure then in the power-law range",
"C08":"a junction with a discharging leak gets cut off from all sources while the leak is active",
"C09":"the same WNTRSimulator object used for a second run_sim after reset_initial_values + a part cut off at the first solve with the link pattern of the last search",
"C10":"pause at T + a presolve control event strictly inside (T, T + hydraulic step)",
"C11":"the same WNTRSimulator object reused after reset_initial_values + a bridge link whose final status differs from its initial status",
"C12":"PDD + INP 2.2 + options.hydraulic.inpfile_pressure_units = 'KPA' + a metric flow unit",
"C13":"a check-valve pipe whose initial_status was assigned Closed after creation, then any dictionary / JSON round trip",
"C14":"a HEAD pump with a speed pattern removed with remove_link, then the pattern's usage / remove_pattern",
"C15":"a constraint that re-uses one non-leaf expression object with a nested use to the left of a later use (f(A) + A)",
"C16":"options.hydraulic.unbalanced = 'CONTINUE' + convergence_error=False + a step that exceeds the trial limit",
"C17":"two scalar RoughnessCoeff conversions in the same flow units and process with different darcy_weisbach",
"C18":"two valve segments separated by more than one valve (loop cut twice, valved parallel links)",
"C19":"split_pipe / break_pipe with add_pipe_at_end=False and split_at_point != 0.5",
"C20":"a user-supplied cost / GHG lookup table whose index is not in ascending order",
}
FIRST = {"C08","C10","C14","C18","C19"}
for i in range(1, 21):
    pid = "C%02d" % i
    src, dst = "/tmp/wtout2/" + pid, "/verif/seeded/%s_r2" % pid
    res = open("/tmp/vs2/%s.result" % pid).read()
    g = lambda k: (re.search(k + r"=(\S+)", res) or [None, None])[1]
    py = (re.search(r"pytest: (.*)", res) or [None, "?"])[1]
    if g("demo_unchanged_exit") != "0" or g("demo_changed_exit") != "1" or "302 passed" not in py or "7 failed" not in py or "4 errors" not in py:
        print(pid, "NOT CONFIRMED:", res); continue
    os.makedirs(dst, exist_ok=True)
    for f in ("patch.diff", "demo.py", "notes.md"):
        shutil.copy(os.path.join(src, f), os.path.join(dst, f))
    meta = {"property": pid, "round": 2, "needs_to_manifest": NEEDS[pid],
            "patch": "patch.diff (git -C /repo apply seeded/%s_r2/patch.diff ; undo with git -C /repo checkout -- .)" % pid,
            "demonstration": "demo.py (cd /repo && PYTHONPATH=/repo /venv/bin/python /verif/seeded/%s_r2/demo.py): exit 0 + PASS on the unchanged tree, exit 1 + FAIL with the change" % pid,
            "confirmed_by_me": {"how": "fresh scratch worktree of /repo HEAD: demo on the unchanged tree, patch applied with git apply, demo again, full pytest suite",
                                "demo_unchanged_exit": 0, "demo_changed_exit": 1, "pytest_with_change": py,
                                "baseline": "302 passed; the same 7 failures + 4 collection errors as on the unchanged tree (lists compared)"},
            "origin": "written by an independent sub-agent (second round) that saw only the property text, a scratch worktree and the site of the first-round change to avoid",
            "first_attempt": "caught by the quick tier as it stood" if pid in FIRST else ("noticed as a broken correspondence without a failing input" if pid == "C04" else "MISSED by the quick tier as it stood; the check was strengthened (DESIGN.md 14.6)"),
            "caught_by": "see tools/seedmatrix.py --round2"}
    json.dump(meta, open(os.path.join(dst, "meta.json"), "w"), indent=1)
    print(pid, "ok")
