#!/bin/sh
# Which OTHER checks notice a seeded change?  seedcross.sh "C01:C09 C08" "C02:C03" ...  -> one line per (seed, check)
for spec in "$@"; do
  s=${spec%%:*}; checks=${spec#*:}
  git -C /repo apply /verif/seeded/$s/patch.diff || { echo "$s: patch does not apply"; continue; }
  for c in $checks; do
    out=$(/venv/bin/python /verif/tools/vcheck.py $c --tier quick 2>/dev/null | grep VIOLATION | sed 's#.*replays/[^/]*/##; s#\.json.*##' | tr '\n' ' ')
    echo "seed $s  check $c : ${out:-not noticed}"
  done
  git -C /repo checkout -- .
done
