#!/usr/bin/env python3
"""run every claimed check (quick by default) on the current tree; print a summary line per property"""
import json, subprocess, sys, time, os
V = os.path.dirname(os.path.dirname(os.path.abspath(__file__)))
tier = sys.argv[1] if len(sys.argv) > 1 else "quick"
only = sys.argv[2:]
man = json.load(open(os.path.join(V, "MANIFEST.json")))
bad = 0
for c in man["checks"]:
    pid = c["property_id"]
    if only and pid not in only:
        continue
    cmd = c["quick_cmd"] if tier == "quick" else c["thorough_cmd"]
    t0 = time.time()
    r = subprocess.run(cmd, shell=True, cwd=V, capture_output=True, text=True)
    out = [l for l in r.stdout.splitlines() if l.startswith(("VIOLATION", "KNOWN-FINDING"))]
    ev = json.load(open(os.path.join(V, "evidence", pid + ".json")))
    cov = ev["coverage"]
    print("%s rc=%d %.0fs obligations=%d discharged=%d evals=%d nontrivial=%d %s" % (
        pid, r.returncode, time.time() - t0, cov["obligations"], cov["discharged"], cov["evaluations"], cov["distinct_nontrivial"],
        " | ".join(l[:90] for l in out)), flush=True)
    if r.returncode != 0:
        bad += 1
        print(r.stderr[-1500:])
sys.exit(1 if bad else 0)
