"""Normal forms of a WaterNetworkModel for round-trip comparisons (C12: INP, C13: dict/JSON), keyed by element name.
Numbers are compared to a relative precision; element order is not part of the statements."""
import math


def _num(x):
    if x is None or isinstance(x, (str, bool)):
        return x
    try:
        return float(x)
    except Exception:
        return str(x)


def close(a, b, rel):
    if isinstance(a, float) and isinstance(b, float):
        if math.isnan(a) and math.isnan(b):
            return True
        return abs(a - b) <= rel * max(1.0, abs(a), abs(b)) * 1.0 or abs(a - b) <= rel * max(abs(a), abs(b))
    if isinstance(a, (list, tuple)) and isinstance(b, (list, tuple)):
        return len(a) == len(b) and all(close(x, y, rel) for x, y in zip(a, b))
    if isinstance(a, dict) and isinstance(b, dict):
        return set(a) == set(b) and all(close(a[k], b[k], rel) for k in a)
    if isinstance(a, float) and isinstance(b, int) or isinstance(a, int) and isinstance(b, float):
        return close(float(a), float(b), rel)
    return a == b


def diff(a, b, rel, path=""):
    """list of (path, a, b) where the normal forms differ"""
    out = []
    if isinstance(a, dict) and isinstance(b, dict):
        for k in sorted(set(a) | set(b), key=str):
            if k not in a:
                out.append((path + "/" + str(k), "<missing>", b[k]))
            elif k not in b:
                out.append((path + "/" + str(k), a[k], "<missing>"))
            else:
                out += diff(a[k], b[k], rel, path + "/" + str(k))
        return out
    if isinstance(a, (list, tuple)) and isinstance(b, (list, tuple)) and len(a) == len(b):
        for i, (x, y) in enumerate(zip(a, b)):
            out += diff(x, y, rel, path + "[%d]" % i)
        return out
    if path.endswith(("minimum_pressure", "required_pressure")) and isinstance(a, float) and isinstance(b, float) and abs(a - b) <= 8e-3:
        return out      # [OPTIONS] MINIMUM/REQUIRED PRESSURE are written with two decimals (psi or m): precision of the file format
    if path.startswith("/controls"):
        rel = max(rel, 1e-5)     # rule and control thresholds are written with 6 significant digits ('{:.6g}')
    if not close(a, b, rel):
        out.append((path, a, b))
    return out


def inp_normal_form(wn, wntr):
    """what the INP format can hold (C12's statement), keyed by name"""
    S = {}
    pats = set(wn.pattern_name_list)
    pn = lambda x: x if x in pats else None        # a name that refers to no pattern ('' / default '1' without such a pattern) = no pattern
    nodes = {}
    for name, n in wn.nodes():
        d = {"type": n.node_type, "coordinates": [_num(c) for c in (n.coordinates or (0, 0))], "tag": n.tag,
             "initial_quality": _num(n.initial_quality)}
        if n.node_type == "Junction":
            d["elevation"] = _num(n.elevation)
            d["demands"] = [[_num(x.base_value), pn(x.pattern_name), x.category] for x in n.demand_timeseries_list if not (x.base_value == 0 and len(n.demand_timeseries_list) == 1)]
            d["emitter"] = _num(n.emitter_coefficient)
        elif n.node_type == "Tank":
            for a in ("elevation", "init_level", "min_level", "max_level", "diameter", "min_vol"):
                d[a] = _num(getattr(n, a))
            d["vol_curve"] = n.vol_curve_name
            d["overflow"] = bool(n.overflow)
            d["mixing_model"] = str(n.mixing_model) if n.mixing_model is not None else None
            d["bulk_coeff"] = _num(n.bulk_coeff)
        else:
            d["base_head"] = _num(n.base_head)
            d["head_pattern"] = pn(n.head_pattern_name)
        nodes[name] = d
    S["nodes"] = nodes
    links = {}
    for name, l in wn.links():
        d = {"type": l.link_type, "start": l.start_node_name, "end": l.end_node_name, "initial_status": str(l.initial_status),
             "tag": l.tag, "vertices": [[_num(c) for c in v] for v in (l.vertices or [])]}
        if l.link_type == "Pipe":
            for a in ("length", "diameter", "roughness", "minor_loss"):
                d[a] = _num(getattr(l, a))
            d["cv"] = bool(l.check_valve)
            d["bulk_coeff"] = _num(l.bulk_coeff)
            d["wall_coeff"] = _num(l.wall_coeff)
        elif l.link_type == "Pump":
            d["pump_type"] = l.pump_type
            d["power"] = _num(l.power) if l.pump_type == "POWER" else None
            d["curve"] = l.pump_curve_name if l.pump_type == "HEAD" else None
            d["speed"] = _num(l.base_speed)
            d["speed_pattern"] = pn(l.speed_pattern_name)
            d["energy_price"] = _num(l.energy_price)
            d["energy_pattern"] = l.energy_pattern
            d["efficiency"] = l.efficiency.name if l.efficiency is not None else None
        else:
            d["valve_type"] = l.valve_type
            d["diameter"] = _num(l.diameter)
            d["minor_loss"] = _num(l.minor_loss)
            d["initial_setting"] = _num(l.initial_setting) if l.valve_type != "GPV" else None
        links[name] = d
    S["links"] = links
    S["patterns"] = {n: [_num(x) for x in p.multipliers] for n, p in wn.patterns()}
    used = set()
    for _, n in wn.tanks():
        used.add(n.vol_curve_name)
    for _, l in wn.pumps():
        if l.pump_type == "HEAD":
            used.add(l.pump_curve_name)
        if l.efficiency is not None:
            used.add(l.efficiency.name)
    S["curves"] = {n: {"type": c.curve_type, "points": [[_num(a), _num(b)] for a, b in c.points]} for n, c in wn.curves() if n in used}
    S["sources"] = sorted([[s.node_name, s.source_type, _num(s.strength_timeseries.base_value), s.strength_timeseries.pattern_name]
                           for _, s in wn.sources()], key=str)
    t = wn.options.time
    S["time"] = {a: _num(getattr(t, a)) for a in ("duration", "hydraulic_timestep", "quality_timestep", "rule_timestep", "pattern_timestep",
                                                   "pattern_start", "report_timestep", "report_start", "start_clocktime", "statistic")}
    h = wn.options.hydraulic
    S["hydraulic"] = {a: _num(getattr(h, a)) for a in ("headloss", "viscosity", "specific_gravity", "trials", "accuracy", "unbalanced", "unbalanced_value",
                                                        "pattern", "demand_multiplier", "emitter_exponent")}
    S["hydraulic"]["pattern"] = pn(S["hydraulic"]["pattern"])
    S["hydraulic22"] = {a: _num(getattr(h, a)) for a in ("demand_model", "minimum_pressure", "required_pressure", "pressure_exponent", "headerror", "flowchange",
                                                          "damplimit", "checkfreq", "maxcheck")}
    if S["hydraulic22"]["demand_model"] in ("DD", "DDA"):
        # the pressure-dependent-demand parameters are only written for PDA models (they have no effect otherwise)
        for a in ("minimum_pressure", "required_pressure", "pressure_exponent"):
            S["hydraulic22"][a] = None
    q, r, e = wn.options.quality, wn.options.reaction, wn.options.energy
    S["quality"] = {a: _num(getattr(q, a)) for a in ("parameter", "trace_node", "chemical_name", "diffusivity", "tolerance", "inpfile_units")}
    S["reaction"] = {a: _num(getattr(r, a)) for a in ("bulk_order", "wall_order", "tank_order", "bulk_coeff", "wall_coeff", "limiting_potential", "roughness_correl")}
    S["energy"] = {a: _num(getattr(e, a)) for a in ("global_price", "global_pattern", "global_efficiency", "demand_charge")}
    ctl = []
    for name, c in wn.controls():
        ctl.append(control_normal_form(c))
    S["controls"] = sorted(ctl, key=str)
    return S


def _cond_nf(c):
    k = type(c).__name__
    if k in ("AndCondition", "OrCondition"):
        return [k[:-9], _cond_nf(c._condition_1), _cond_nf(c._condition_2)]
    if k == "SimTimeCondition":
        return ["SimTime", c._relation.text, float(c._threshold), c._repeat if not isinstance(c._repeat, bool) else int(c._repeat)]
    if k == "TimeOfDayCondition":
        return ["ClockTime", c._relation.text, float(c._threshold), bool(c._repeat), c._first_day]
    if k in ("ValueCondition", "TankLevelCondition"):
        return ["Value", type(c._source_obj).__name__ if not hasattr(c._source_obj, "link_type") else c._source_obj.link_type, c._source_obj.name,
                c._source_attr, c._relation.text, _num(c._threshold)]
    return [k, str(c)]


def control_normal_form(c):
    acts = lambda l: [[a.target()[0].name, a.target()[1], (str(a._value) if not isinstance(a._value, (int, float)) or isinstance(a._value, bool) else float(a._value))]
                      for a in l]
    return {"kind": "rule" if c.epanet_control_type.name == "rule" else "control", "cond": _cond_nf(c._condition),
            "then": acts(c._then_actions), "else": acts(c._else_actions or []),
            # simple controls have no priority field in the INP format
            "priority": int(c._priority) if c.epanet_control_type.name == "rule" else None}
