#!/bin/sh
# verify a round-2 seed from /tmp/wtout3/Cxx in a fresh worktree (result /tmp/vs3/Cxx.result)
id="$1"; src=/tmp/wtout3/$id
wt=/tmp/vs3/$id; out=/tmp/vs3/$id.result
mkdir -p /tmp/vs3; rm -rf "$wt"; git -C /repo worktree prune
/verif/tools/mkworktree.sh "$wt" >/dev/null || { echo "worktree failed" > "$out"; exit 1; }
cd "$wt"
{
echo "seed3 $id  repo HEAD $(git -C /repo rev-parse --short HEAD)"
PYTHONPATH="$wt" timeout 1200 /venv/bin/python "$src/demo.py" >/tmp/vs3/$id.demo0 2>&1; echo "demo_unchanged_exit=$?"
if git apply "$src/patch.diff" 2>/tmp/vs3/$id.apply; then echo "patch_applied=yes"; else echo "patch_applied=NO"; fi
PYTHONPATH="$wt" timeout 1200 /venv/bin/python "$src/demo.py" >/tmp/vs3/$id.demo1 2>&1; echo "demo_changed_exit=$?"
/venv/bin/python -m pytest -q -p no:cacheprovider --timeout=900 --continue-on-collection-errors > /tmp/vs3/$id.pytest 2>&1
echo "pytest: $(tail -1 /tmp/vs3/$id.pytest)"
grep "^FAILED\|^ERROR" /tmp/vs3/$id.pytest | sed 's/ - .*//' | sort > /tmp/vs3/$id.fails
echo "fails_md5=$(md5sum < /tmp/vs3/$id.fails | cut -c1-8)"
} > "$out" 2>&1
cd /; git -C /repo worktree remove --force "$wt"
cat "$out"
