#!/bin/sh
# verify a round-2 seed from /tmp/wtout2/Cxx in a fresh worktree (result /tmp/vs2/Cxx.result)
id="$1"; src=/tmp/wtout2/$id
wt=/tmp/vs2/$id; out=/tmp/vs2/$id.result
mkdir -p /tmp/vs2; rm -rf "$wt"; git -C /repo worktree prune
/verif/tools/mkworktree.sh "$wt" >/dev/null || { echo "worktree failed" > "$out"; exit 1; }
cd "$wt"
{
echo "seed2 $id  repo HEAD $(git -C /repo rev-parse --short HEAD)"
PYTHONPATH="$wt" timeout 1200 /venv/bin/python "$src/demo.py" >/tmp/vs2/$id.demo0 2>&1; echo "demo_unchanged_exit=$?"
if git apply "$src/patch.diff" 2>/tmp/vs2/$id.apply; then echo "patch_applied=yes"; else echo "patch_applied=NO"; fi
PYTHONPATH="$wt" timeout 1200 /venv/bin/python "$src/demo.py" >/tmp/vs2/$id.demo1 2>&1; echo "demo_changed_exit=$?"
/venv/bin/python -m pytest -q -p no:cacheprovider --timeout=900 --continue-on-collection-errors > /tmp/vs2/$id.pytest 2>&1
echo "pytest: $(tail -1 /tmp/vs2/$id.pytest)"
grep "^FAILED\|^ERROR" /tmp/vs2/$id.pytest | sed 's/ - .*//' | sort > /tmp/vs2/$id.fails
echo "fails_md5=$(md5sum < /tmp/vs2/$id.fails | cut -c1-8)"
} > "$out" 2>&1
cd /; git -C /repo worktree remove --force "$wt"
cat "$out"
