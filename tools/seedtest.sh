#!/bin/sh
# usage: seedtest.sh <seed id> <check id>...   -- apply the seeded change to /repo, run the checks (quick), undo
s="$1"; shift
git -C /repo apply /verif/seeded/$s/patch.diff || exit 2
for c in "$@"; do
  echo "== seed $s vs check $c"
  /venv/bin/python /verif/tools/vcheck.py $c --tier quick 2>/dev/null | grep -v "^KNOWN" | cut -c1-160
done
git -C /repo checkout -- .
