#!/bin/sh
# usage: verify_seed.sh Cxx  -- independently confirm a seeded change from /tmp/wtout/Cxx (or /verif/seeded/Cxx)
# 1. demo PASSES on unchanged HEAD of /repo  2. FAILS with patch  3. full test-suite result with patch == baseline
id="$1"; src="${2:-/tmp/wtout/$id}"
wt=/tmp/vs/$id; out=/tmp/vs/$id.result
rm -rf "$wt"; mkdir -p /tmp/vs
git -C /repo worktree prune
/verif/tools/mkworktree.sh "$wt" >/dev/null || { echo "worktree failed" > "$out"; exit 1; }
cd "$wt"
{
echo "seed $id  repo HEAD $(git -C /repo rev-parse --short HEAD)"
PYTHONPATH="$wt" /venv/bin/python "$src/demo.py" >/tmp/vs/$id.demo0 2>&1; echo "demo_unchanged_exit=$?"
if git apply --3way "$src/patch.diff" 2>/tmp/vs/$id.apply || git apply "$src/patch.diff" 2>>/tmp/vs/$id.apply; then echo "patch_applied=yes"; else echo "patch_applied=NO"; fi
PYTHONPATH="$wt" /venv/bin/python "$src/demo.py" >/tmp/vs/$id.demo1 2>&1; echo "demo_changed_exit=$?"
/venv/bin/python -m pytest -q -p no:cacheprovider --timeout=900 --continue-on-collection-errors > /tmp/vs/$id.pytest 2>&1
echo "pytest: $(tail -1 /tmp/vs/$id.pytest)"
grep "^FAILED\|^ERROR" /tmp/vs/$id.pytest | sed 's/ - .*//' | sort > /tmp/vs/$id.fails
echo "fails_md5=$(md5sum < /tmp/vs/$id.fails | cut -c1-8) (baseline: see /tmp/vs/baseline.fails)"
} > "$out" 2>&1
cd /; git -C /repo worktree remove --force "$wt"
cat "$out"
