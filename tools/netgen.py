"""Shared generator of small well-formed water networks (as JSON-able specs) and builder spec -> WaterNetworkModel.

All random choices come from the `rng` passed in.  Feature mix (switchable through `feat`):
loops, parallel links (also drawn in the opposite direction), several sources, tanks (cylindrical / volume curve),
pumps next to reservoirs, valves, check valves, initially closed links, multi-category demands with patterns of
co-prime lengths, negative elevations, leaks (junction / tank, on and off grid), time controls that cut parts off,
tank-level and pressure controls, rules, PDD with per-junction overrides (incl. 0).
"""
import math


def _r(rng, lo, hi, nd=3):
    return round(rng.uniform(lo, hi), nd)


def gen_spec(rng, feat=None, size=None):
    f = dict(tanks=0.6, pumps=0.25, valves=0.25, parallel=0.5, cv=0.3, closed=0.2, leaks=0.4, tank_leak=0.0,
             time_controls=0.6, level_controls=0.4, pressure_controls=0.3, rules=0.3, pdd=0.5, volcurve=0.0,
             neg_elev=0.3, multi_demand=0.5, second_res=0.3, minor=0.3)
    f.update(feat or {})
    nj = size or rng.randint(3, 7)
    spec = {"junctions": [], "reservoirs": [], "tanks": [], "pipes": [], "pumps": [], "valves": [], "patterns": {},
            "curves": {}, "controls": [], "rules": [], "leaks": [], "options": {}}
    hyd = rng.choice([3600, 3600, 1800, 900])
    spec["options"] = {"duration": hyd * rng.randint(3, 8), "hydraulic_timestep": hyd,
                       "pattern_timestep": rng.choice([hyd, 2 * hyd, 3600]), "report_timestep": rng.choice([hyd, "ALL", "ALL"]),
                       "rule_timestep": rng.choice([hyd, max(60, hyd // 6), 360]),
                       "pattern_start": rng.choice([0, 0, hyd, 2 * 3600]),
                       "demand_multiplier": rng.choice([1.0, 1.0, 0.8, 1.3]),
                       "demand_model": "PDD" if rng.random() < f["pdd"] else "DD",
                       "minimum_pressure": rng.choice([0.0, 0.0, 2.0, 5.0]), "required_pressure": rng.choice([15.0, 20.0, 30.0]),
                       "pressure_exponent": rng.choice([0.5, 0.5, 0.7, 1.0])}
    for name, n in (("pa", rng.choice([2, 3, 5])), ("pb", rng.choice([4, 7]))):
        spec["patterns"][name] = [_r(rng, 0.3, 1.8, 2) for _ in range(n)]
    # nodes
    spec["reservoirs"].append({"name": "R1", "head": _r(rng, 40, 80, 1), "pattern": None})
    if rng.random() < f["second_res"]:
        spec["reservoirs"].append({"name": "R2", "head": _r(rng, 35, 75, 1), "pattern": "pa" if rng.random() < 0.3 else None})
    for i in range(nj):
        elev = _r(rng, 0, 25, 1)
        if rng.random() < f["neg_elev"]:
            elev = -_r(rng, 1, 12, 1)
        dem = []
        if rng.random() < 0.85:
            dem.append({"base": _r(rng, 0.0005, 0.008, 4), "pattern": rng.choice([None, "pa", "pb"]), "category": "dom"})
            if rng.random() < f["multi_demand"]:
                dem.append({"base": _r(rng, 0.0002, 0.004, 4), "pattern": rng.choice(["pa", "pb"]), "category": "ind"})
        j = {"name": "J%d" % i, "elevation": elev, "demands": dem}
        if spec["options"]["demand_model"] == "PDD" and rng.random() < 0.4:
            j["minimum_pressure"] = rng.choice([0.0, 1.0, 3.0])
            j["required_pressure"] = rng.choice([10.0, 12.0, 25.0])
            j["pressure_exponent"] = rng.choice([0.5, 0.6, 1.0])
        spec["junctions"].append(j)
    ntank = (1 if rng.random() < f["tanks"] else 0) + (1 if rng.random() < f["tanks"] * 0.3 else 0)
    for i in range(ntank):
        elev = _r(rng, 25, 45, 1)
        t = {"name": "T%d" % i, "elevation": elev, "init_level": _r(rng, 2, 4, 2), "min_level": _r(rng, 0.2, 1.5, 2),
             "max_level": _r(rng, 4.5, 7, 2), "diameter": _r(rng, 4, 12, 1), "vol_curve": None}
        if rng.random() < f["volcurve"]:
            cname = "vc%d" % i
            a = math.pi * t["diameter"] ** 2 / 4
            spec["curves"][cname] = {"type": "VOLUME", "points": [[0.0, 0.0], [2.0, round(1.6 * a, 3)], [5.0, round(4.9 * a, 3)], [8.0, round(9.5 * a, 3)]]}
            t["vol_curve"] = cname
        spec["tanks"].append(t)
    jn = [j["name"] for j in spec["junctions"]]
    # spanning tree over junctions, sources attached
    def pipe(name, a, b):
        p = {"name": name, "start": a, "end": b, "length": _r(rng, 50, 900, 1), "diameter": rng.choice([0.15, 0.2, 0.25, 0.3, 0.4]),
             "roughness": rng.choice([90, 100, 120, 130, 140]), "minor_loss": (_r(rng, 0.5, 8, 1) if rng.random() < f["minor"] else 0.0),
             "status": "OPEN", "cv": False}
        return p
    k = 0
    for i in range(1, nj):
        a = jn[rng.randrange(0, i)]
        b = jn[i]
        if rng.random() < 0.5:
            a, b = b, a
        spec["pipes"].append(pipe("P%d" % k, a, b)); k += 1
    # reservoir connection: pipe or pump
    first = True
    for r in spec["reservoirs"]:
        tgt = rng.choice(jn)
        if first and rng.random() < f["pumps"]:
            if rng.random() < 0.6:
                cname = "pc_%s" % r["name"]
                q0 = _r(rng, 0.02, 0.06, 3)
                h0 = _r(rng, 20, 45, 1)
                if rng.random() < 0.5:
                    pts = [[q0, h0]]
                else:
                    pts = [[0.0, round(h0 * 1.3, 2)], [q0, h0], [round(2 * q0, 4), round(h0 * 0.3, 2)]]
                spec["curves"][cname] = {"type": "HEAD", "points": pts}
                spec["pumps"].append({"name": "PU_%s" % r["name"], "start": r["name"], "end": tgt, "type": "HEAD", "param": cname})
            else:
                spec["pumps"].append({"name": "PU_%s" % r["name"], "start": r["name"], "end": tgt, "type": "POWER", "param": _r(rng, 2000, 15000, 0)})
        else:
            spec["pipes"].append(pipe("P%d" % k, r["name"], tgt)); k += 1
        first = False
    for t in spec["tanks"]:
        tgt = rng.choice(jn)
        a, b = (t["name"], tgt) if rng.random() < 0.5 else (tgt, t["name"])
        spec["pipes"].append(pipe("P%d" % k, a, b)); k += 1
    # loops and parallel links
    for _ in range(rng.randint(0, 2)):
        a, b = rng.sample(jn, 2) if nj >= 2 else (jn[0], jn[0])
        if a != b:
            spec["pipes"].append(pipe("P%d" % k, a, b)); k += 1
    if rng.random() < f["parallel"]:
        base = rng.choice(spec["pipes"])
        a, b = base["start"], base["end"]
        if rng.random() < 0.6:
            a, b = b, a   # drawn in the opposite direction
        spec["pipes"].append(pipe("P%d" % k, a, b)); k += 1
    # valves: inserted in series on a junction-junction pipe
    if rng.random() < f["valves"]:
        cands = [p for p in spec["pipes"] if p["start"] in jn and p["end"] in jn]
        if cands:
            p = rng.choice(cands)
            mid = "JV"
            spec["junctions"].append({"name": mid, "elevation": 5.0, "demands": []})
            vt = rng.choice(["PRV", "PSV", "FCV", "TCV"])
            setting = {"PRV": _r(rng, 10, 30, 1), "PSV": _r(rng, 10, 30, 1), "FCV": _r(rng, 0.001, 0.01, 4), "TCV": _r(rng, 5, 60, 1)}[vt]
            spec["valves"].append({"name": "V1", "start": p["start"], "end": mid, "type": vt, "diameter": 0.3, "minor_loss": 0.0,
                                   "setting": setting, "status": rng.choice(["ACTIVE", "ACTIVE", "OPEN"])})
            p["start"] = mid
    for p in spec["pipes"]:
        if rng.random() < f["cv"] * 0.4:
            p["cv"] = True
        elif rng.random() < f["closed"] * 0.4:
            p["status"] = "CLOSED"
    dur, hs = spec["options"]["duration"], hyd
    link_names = [p["name"] for p in spec["pipes"] if not p["cv"]]
    # leaks
    if rng.random() < f["leaks"]:
        for _ in range(rng.randint(1, 2)):
            node = rng.choice(jn)
            st = rng.choice([0, hs, hs + 100, 2 * hs, hs // 2])
            en = rng.choice([None, st + hs, st + 2 * hs + 50, dur])
            spec["leaks"].append({"node": node, "area": _r(rng, 0.0001, 0.002, 4), "cd": rng.choice([0.75, 0.6]), "start": st, "end": en})
    if spec["tanks"] and rng.random() < f["tank_leak"]:
        spec["leaks"].append({"node": spec["tanks"][0]["name"], "area": 0.0005, "cd": 0.75, "start": hs, "end": None})
    # controls
    if rng.random() < f["time_controls"] and link_names:
        for _ in range(rng.randint(1, 3)):
            ln = rng.choice(link_names)
            t1 = rng.choice([hs, 2 * hs, hs + hs // 3, 3 * hs])
            spec["controls"].append({"kind": "time", "link": ln, "time": t1, "status": "CLOSED", "priority": rng.choice([3, 3, 1, 5])})
            if rng.random() < 0.7:
                spec["controls"].append({"kind": "time", "link": ln, "time": t1 + rng.choice([hs, 2 * hs, hs + 600]), "status": "OPEN", "priority": 3})
    if spec["tanks"] and rng.random() < f["level_controls"] and link_names:
        t = spec["tanks"][0]
        ln = rng.choice(link_names)
        lo = round(t["init_level"] - rng.uniform(0.05, 0.8), 2)
        hi = round(t["init_level"] + rng.uniform(0.05, 0.8), 2)
        spec["controls"].append({"kind": "level", "link": ln, "tank": t["name"], "op": "<", "value": lo, "status": rng.choice(["OPEN", "CLOSED"]), "priority": 3})
        spec["controls"].append({"kind": "level", "link": ln, "tank": t["name"], "op": ">", "value": hi, "status": rng.choice(["OPEN", "CLOSED"]), "priority": 3})
    if rng.random() < f["pressure_controls"] and link_names:
        jx = rng.choice(spec["junctions"])
        ln = rng.choice(link_names)
        thr = _r(rng, 2, 30, 1)
        if jx["elevation"] < 0 and rng.random() < 0.7:
            thr = round(-jx["elevation"] * rng.uniform(0.3, 0.8), 1)
        spec["controls"].append({"kind": "pressure", "link": ln, "junction": jx["name"], "op": rng.choice(["<", ">"]), "value": thr,
                                 "status": rng.choice(["OPEN", "CLOSED"]), "priority": 3})
    if rng.random() < f["rules"] and link_names:
        ln = rng.choice(link_names)
        t1 = rng.choice([hs, 2 * hs, hs + 360])
        spec["rules"].append({"link": ln, "time_ge": t1, "time_lt": t1 + rng.choice([hs, 2 * hs]), "then": "CLOSED", "else": "OPEN", "priority": rng.choice([None, 1, 5])})
    return spec


def build(spec, wntr):
    """spec -> WaterNetworkModel through the public API"""
    from wntr.network import controls as C
    wn = wntr.network.WaterNetworkModel()
    o = spec["options"]
    wn.options.time.duration = o["duration"]
    wn.options.time.hydraulic_timestep = o["hydraulic_timestep"]
    wn.options.time.pattern_timestep = o["pattern_timestep"]
    wn.options.time.rule_timestep = o["rule_timestep"]
    wn.options.time.pattern_start = o["pattern_start"]
    wn.options.time.report_timestep = o["report_timestep"]
    wn.options.hydraulic.demand_multiplier = o["demand_multiplier"]
    wn.options.hydraulic.demand_model = o["demand_model"]
    wn.options.hydraulic.minimum_pressure = o["minimum_pressure"]
    wn.options.hydraulic.required_pressure = o["required_pressure"]
    wn.options.hydraulic.pressure_exponent = o["pressure_exponent"]
    for name, mult in spec["patterns"].items():
        wn.add_pattern(name, mult)
    for name, c in spec["curves"].items():
        wn.add_curve(name, c["type"], [tuple(p) for p in c["points"]])
    for r in spec["reservoirs"]:
        wn.add_reservoir(r["name"], base_head=r["head"], head_pattern=r["pattern"], coordinates=(0, 0))
    for i, j in enumerate(spec["junctions"]):
        d = j["demands"]
        wn.add_junction(j["name"], base_demand=(d[0]["base"] if d else 0.0), demand_pattern=(d[0]["pattern"] if d else None),
                        elevation=j["elevation"], coordinates=(i + 1, (i * 7) % 5), demand_category=(d[0]["category"] if d else None))
        jn = wn.get_node(j["name"])
        for x in d[1:]:
            jn.add_demand(x["base"], x["pattern"], x["category"])
        for a in ("minimum_pressure", "required_pressure", "pressure_exponent"):
            if a in j:
                setattr(jn, a, j[a])
    for t in spec["tanks"]:
        wn.add_tank(t["name"], elevation=t["elevation"], init_level=t["init_level"], min_level=t["min_level"], max_level=t["max_level"],
                    diameter=t["diameter"], min_vol=0.0, vol_curve=t["vol_curve"], coordinates=(3, 9))
    for p in spec["pipes"]:
        wn.add_pipe(p["name"], p["start"], p["end"], length=p["length"], diameter=p["diameter"], roughness=p["roughness"],
                    minor_loss=p["minor_loss"], initial_status=p["status"], check_valve=p["cv"])
    for p in spec["pumps"]:
        wn.add_pump(p["name"], p["start"], p["end"], pump_type=p["type"], pump_parameter=p["param"])
    for v in spec["valves"]:
        wn.add_valve(v["name"], v["start"], v["end"], diameter=v["diameter"], valve_type=v["type"], minor_loss=v["minor_loss"],
                     initial_setting=v["setting"], initial_status=v["status"])
    for lk in spec["leaks"]:
        n = wn.get_node(lk["node"])
        n.add_leak(wn, area=lk["area"], discharge_coeff=lk["cd"], start_time=lk["start"], end_time=lk["end"])
    st = {"OPEN": wntr.network.LinkStatus.Open, "CLOSED": wntr.network.LinkStatus.Closed}
    for i, c in enumerate(spec["controls"]):
        link = wn.get_link(c["link"])
        act = C.ControlAction(link, "status", st[c["status"]])
        if c["kind"] == "time":
            cond = C.SimTimeCondition(wn, "=", c["time"])
        elif c["kind"] == "level":
            cond = C.ValueCondition(wn.get_node(c["tank"]), "level", c["op"], c["value"])
        else:
            cond = C.ValueCondition(wn.get_node(c["junction"]), "pressure", c["op"], c["value"])
        ctl = C.Control(cond, act, priority=c.get("priority", 3))
        wn.add_control("ctl%d" % i, ctl)
    for i, r in enumerate(spec["rules"]):
        link = wn.get_link(r["link"])
        cond = C.AndCondition(C.SimTimeCondition(wn, ">=", r["time_ge"]), C.SimTimeCondition(wn, "<", r["time_lt"]))
        kw = {}
        if r.get("priority") is not None:
            kw["priority"] = r["priority"]
        rule = C.Rule(cond, [C.ControlAction(link, "status", st[r["then"]])],
                      else_actions=[C.ControlAction(link, "status", st[r["else"]])], **kw)
        wn.add_control("rule%d" % i, rule)
    return wn
