#!/bin/sh
# Re-check every compiled property file (and everything it depends on) with Coq's independent checker and list the axioms of
# the whole context.  Writes /verif/coqchk_report.txt.  ~1 min and up to 4 GB per file; 4 at a time.
cd /verif/coq || exit 2
out=/verif/coqchk_report.txt
: > $out.tmp
ls theories/C*/Property.vo | sed 's#theories/\(C[0-9]*\)/Property.vo#\1#' | xargs -P 4 -I{} sh -c \
  'timeout 1800 coqchk -silent -o -Q theories WNTRV WNTRV.{}.Property > /verif/coq/.coqchk_{}.log 2>&1; echo "{} exit=$?"' | sort
for f in .coqchk_C*.log; do
  p=$(echo $f | sed 's/.coqchk_\(C[0-9]*\).log/\1/')
  echo "== $p" >> $out.tmp
  sed -n '/CONTEXT SUMMARY/,$p' $f >> $out.tmp
  rm -f $f
done
mv $out.tmp $out
grep -c "type-in-type: <none>" $out
