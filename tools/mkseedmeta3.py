import json, os, re, shutil, sys
NEEDS = {
"C02":"two links between the same nodes drawn in opposite directions; the reversed one closes during the run while its partner stays open; the pair is the only path to a source",
"C05":"a setting control of priority very_low (0) on a valve + a conflicting status control of priority 1-5 on the same valve, both conditions true",
"C06":"the same WNTRSimulator object continues a paused run after the tank's min_level / max_level were changed during the pause, and the tank reaches the new limit",
"C08":"two or more one-time AT TIME events (leak start / end) at different instants inside one hydraulic step",
"C09":"the same simulator object continues a paused run after a link was added or removed during the pause, that link being the only path to a source for some junction",
"C11":"a PDD model run once with EpanetSimulator.run_sim(version=2.0)",
"C12":"a rule whose clock-time threshold lies in the noon hour (12:00:00-12:59:59)",
"C13":"a junction with two or more demand entries sharing pattern and category, then any dictionary / JSON round trip",
"C14":"assigning to an element the pattern or curve name it already has, then removing that pattern / curve",
"C19":"split or break of a pipe drawn with vertices at a fraction that does not fall into the last polyline segment",
}
FIRST = {"C08","C12","C14"}
for i in (2, 5, 6, 8, 9, 11, 12, 13, 14, 19):
    pid = "C%02d" % i
    src, dst = "/tmp/wtout3/" + pid, "/verif/seeded/%s_r3" % pid
    res = open("/tmp/vs3/%s.result" % pid).read()
    g = lambda k: (re.search(k + r"=(\S+)", res) or [None, None])[1]
    py = (re.search(r"pytest: (.*)", res) or [None, "?"])[1]
    if g("demo_unchanged_exit") != "0" or g("demo_changed_exit") != "1" or "302 passed" not in py or "7 failed" not in py or "4 errors" not in py:
        print(pid, "NOT CONFIRMED:", res); continue
    os.makedirs(dst, exist_ok=True)
    for f in ("patch.diff", "demo.py", "notes.md"):
        shutil.copy(os.path.join(src, f), os.path.join(dst, f))
    meta = {"property": pid, "round": 3, "needs_to_manifest": NEEDS[pid],
            "patch": "patch.diff (git -C /repo apply seeded/%s_r3/patch.diff ; undo with git -C /repo checkout -- .)" % pid,
            "demonstration": "demo.py (cd /repo && PYTHONPATH=/repo /venv/bin/python /verif/seeded/%s_r3/demo.py): exit 0 + PASS on the unchanged tree, exit 1 + FAIL with the change" % pid,
            "confirmed_by_me": {"how": "fresh scratch worktree of /repo HEAD: demo on the unchanged tree, patch applied with git apply, demo again, full pytest suite",
                                "demo_unchanged_exit": 0, "demo_changed_exit": 1, "pytest_with_change": py,
                                "baseline": "302 passed; the same 7 failures + 4 collection errors as on the unchanged tree (lists compared)"},
            "origin": "written by an independent sub-agent (third round) that saw only the property text, a scratch worktree and the site of the first-round change to avoid",
            "first_attempt": "caught by the quick tier as it stood" if pid in FIRST else ("x" if False else "MISSED by the quick tier as it stood; the check was strengthened (DESIGN.md 14.6)"),
            "caught_by": "see tools/seedmatrix.py --round3"}
    json.dump(meta, open(os.path.join(dst, "meta.json"), "w"), indent=1)
    print(pid, "ok")
