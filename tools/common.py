"""Shared infrastructure for the WNTR Coq-proof checks.

Everything a per-property module (tools/props/cXX.py) needs:
  * building the C++ extensions from /repo's current working tree (ext_build)
  * importing wntr from /repo with those freshly built extensions (import_wntr)
  * regenerating Gen/*.v files (write_if_changed)
  * running make / coqc under a timeout and parsing their output
  * writing evidence, replays, matching known findings
"""
import fcntl
import hashlib
import importlib.abc
import importlib.util
import json
import os
import re
import shutil
import subprocess
import sys
import sysconfig
import time
from fractions import Fraction  # noqa

VERIF = os.path.dirname(os.path.dirname(os.path.abspath(__file__)))
REPO = os.environ.get("WNTR_REPO", "/repo")
COQ = os.path.join(VERIF, "coq")
THEORIES = os.path.join(COQ, "theories")
CASES = os.path.join(COQ, "cases")
EVID = os.path.join(VERIF, "evidence")
REPLAYS = os.path.join(VERIF, "replays")
CACHE = os.path.join(VERIF, ".cache")
NCPU = os.cpu_count() or 4


# ----------------------------------------------------------------------------
# C++ extensions, rebuilt from the working tree
# ----------------------------------------------------------------------------
EXTS = {
    "wntr.sim.aml._evaluator": ("wntr/sim/aml", ["evaluator.cpp", "evaluator_wrap.cpp"], ["evaluator.hpp"]),
    "wntr.sim.network_isolation._network_isolation": (
        "wntr/sim/network_isolation", ["network_isolation.cpp", "network_isolation_wrap.cpp"],
        ["network_isolation.hpp"]),
}


def _sha(paths):
    h = hashlib.sha256()
    for p in paths:
        with open(p, "rb") as f:
            h.update(p.encode() + b"\0" + f.read())
    return h.hexdigest()[:20]


def ext_build():
    """Compile both extensions from REPO's current sources (content-hash cache
    under /verif/.cache; rebuilt whenever a source differs).  Returns
    {module name: .so path}."""
    import numpy
    out = {}
    pyinc = sysconfig.get_paths()["include"]
    npinc = numpy.get_include()
    for mod, (d, srcs, hdrs) in EXTS.items():
        sd = os.path.join(REPO, d)
        files = [os.path.join(sd, s) for s in srcs + hdrs if os.path.exists(os.path.join(sd, s))]
        key = _sha(files)
        dst_dir = os.path.join(CACHE, "ext", key)
        so = os.path.join(dst_dir, mod.split(".")[-1] + ".so")
        if not os.path.exists(so):
            os.makedirs(dst_dir, exist_ok=True)
            tmp = so + ".%d.tmp" % os.getpid()
            cmd = ["g++", "-O2", "-std=c++11", "-shared", "-fPIC", "-I" + pyinc, "-I" + npinc, "-I" + sd] + \
                  [os.path.join(sd, s) for s in srcs] + ["-o", tmp]
            r = subprocess.run(cmd, capture_output=True, text=True, timeout=600)
            if r.returncode != 0:
                raise RuntimeError("extension build failed for %s:\n%s" % (mod, r.stderr[-3000:]))
            os.replace(tmp, so)
        out[mod] = so
    # drop stale cache entries (keep the 6 newest)
    root = os.path.join(CACHE, "ext")
    ents = sorted((os.path.getmtime(os.path.join(root, e)), e) for e in os.listdir(root))
    for _, e in ents[:-6]:
        shutil.rmtree(os.path.join(root, e), ignore_errors=True)
    return out


class _ExtFinder(importlib.abc.MetaPathFinder):
    def __init__(self, m):
        self.m = m

    def find_spec(self, fullname, path, target=None):
        if fullname in self.m:
            return importlib.util.spec_from_file_location(fullname, self.m[fullname])
        return None


_wntr = None


def import_wntr(build_ext=True):
    """import wntr from REPO, with the freshly compiled extensions."""
    global _wntr
    if _wntr is not None:
        return _wntr
    import warnings
    warnings.filterwarnings("ignore")
    if build_ext:
        sys.meta_path.insert(0, _ExtFinder(ext_build()))
    if REPO not in sys.path:
        sys.path.insert(0, REPO)
    import logging
    logging.disable(logging.CRITICAL)
    import wntr
    assert os.path.realpath(wntr.__file__).startswith(os.path.realpath(REPO)), wntr.__file__
    _wntr = wntr
    return wntr


# ----------------------------------------------------------------------------
# Coq
# ----------------------------------------------------------------------------
def write_if_changed(path, text):
    os.makedirs(os.path.dirname(path), exist_ok=True)
    try:
        with open(path) as f:
            if f.read() == text:
                return False
    except FileNotFoundError:
        pass
    tmp = path + ".tmp%d" % os.getpid()
    with open(tmp, "w") as f:
        f.write(text)
    os.replace(tmp, path)
    return True


class CoqLock:
    def __enter__(self):
        os.makedirs(COQ, exist_ok=True)
        self.f = open(os.path.join(COQ, ".lock"), "w")
        fcntl.flock(self.f, fcntl.LOCK_EX)
        return self

    def __exit__(self, *a):
        fcntl.flock(self.f, fcntl.LOCK_UN)
        self.f.close()


def coq_makefile():
    mk = os.path.join(COQ, "Makefile")
    proj = os.path.join(COQ, "_CoqProject")
    vs = []
    for root, _, files in os.walk(THEORIES):
        for f in sorted(files):
            if f.endswith(".v"):
                vs.append(os.path.relpath(os.path.join(root, f), COQ))
    vs.sort()
    text = "-Q theories WNTRV\n-arg -w -arg -all\n" + "\n".join(vs) + "\n"
    ch = write_if_changed(proj, text)
    if ch or not os.path.exists(mk):
        subprocess.run(["coq_makefile", "-f", "_CoqProject", "-o", "Makefile"], cwd=COQ, check=True,
                       capture_output=True)


_ERR = re.compile(r'File "([^"]+)", line (\d+), characters (\d+)-(\d+):\s*\n(?:Error|.*\nError)', re.M)


def coq_make(targets, timeout=1500):
    """make the given .vo targets (paths relative to coq/).  Returns
    (ok, log, failures) with failures = [(file, line, message)]."""
    with CoqLock():
        coq_makefile()
        cmd = ["make", "-k", "-j%d" % NCPU, "TIMED="] + list(targets)
        try:
            r = subprocess.run(cmd, cwd=COQ, capture_output=True, text=True, timeout=timeout)
            log = r.stdout + r.stderr
            ok = r.returncode == 0
        except subprocess.TimeoutExpired as e:
            log = (e.stdout or b"").decode(errors="replace") + "\nTIMEOUT"
            ok = False
    fails = []
    if not ok:
        for m in re.finditer(r'File "([^"]+)", line (\d+), characters [\d-]+:\n((?:.*\n){1,12})', log):
            if "Error" in m.group(3):
                fails.append((m.group(1), int(m.group(2)), m.group(3).strip()[:600]))
        if not fails:
            fails.append(("?", 0, log[-800:]))
    return ok, log, fails


def coqc(path, timeout=600, extra=()):
    """Compile one file (relative to coq/ or absolute) and return (ok, stdout+stderr)."""
    cmd = ["coqc", "-Q", "theories", "WNTRV", "-w", "-all"] + list(extra) + [path]
    try:
        r = subprocess.run(cmd, cwd=COQ, capture_output=True, text=True, timeout=timeout)
        return r.returncode == 0, r.stdout + r.stderr
    except subprocess.TimeoutExpired as e:
        return False, "TIMEOUT after %ds\n" % timeout + ((e.stdout or b"").decode(errors="replace"))


def coqc_many(paths, timeout=900):
    """coqc several case files in parallel. Returns {path: (ok, out)}."""
    from concurrent.futures import ThreadPoolExecutor
    with ThreadPoolExecutor(max_workers=NCPU) as ex:
        res = list(ex.map(lambda p: coqc(p, timeout), paths))
    return dict(zip(paths, res))


def theorem_line(vfile, line):
    """Name of the Theorem/Lemma enclosing `line` of a .v file (for replays)."""
    try:
        with open(vfile if os.path.isabs(vfile) else os.path.join(COQ, vfile)) as f:
            ls = f.readlines()
    except OSError:
        return None
    for i in range(min(line, len(ls)) - 1, -1, -1):
        m = re.match(r"\s*(Theorem|Lemma|Corollary|Example|Definition|Fixpoint|Goal|Fact|Remark)\s+(\w+)?", ls[i])
        if m:
            return (m.group(2) or "Goal") + " (" + m.group(1) + ")"
    return None


def parse_assumptions(out):
    """Parse the output of a Property.v compile (Print Assumptions blocks).
    Returns (number of closed theorems, sorted list of axiom names)."""
    axioms = set()
    closed = out.count("Closed under the global context")
    for ln in out.splitlines():
        m = re.match(r"^([A-Za-z_][\w']*(?:\.[\w']+)+)\s*(:|$)", ln)
        if m:
            axioms.add(m.group(1))
    return closed, sorted(axioms)


def property_theorems(vfile):
    with open(vfile) as f:
        t = f.read()
    return re.findall(r"^\s*(?:Theorem|Corollary)\s+(\w+)", t, re.M)


# ----------------------------------------------------------------------------
# numbers -> Coq text
# ----------------------------------------------------------------------------
def z(n):
    n = int(n)
    return "(%d)" % n if n < 0 else "%d" % n


def q_of_float(x):
    """exact rational of a binary64 as Coq Q literal (n # d)."""
    fr = Fraction(float(x))
    return "(%s # %d)%%Q" % (z(fr.numerator), fr.denominator)


def r_of_float(x):
    """exact rational of a binary64 as Coq R term."""
    fr = Fraction(float(x))
    if fr.denominator == 1:
        return "(%s)%%R" % z(fr.numerator) if fr.numerator >= 0 else "(%d)%%R" % fr.numerator
    return "(%s / %d)%%R" % (z(fr.numerator), fr.denominator)


def r_of_decimal(src):
    """exact rational of a decimal literal *as written in source* (e.g. '0.0254', '1e6')."""
    fr = Fraction(src)
    if fr.denominator == 1:
        return "%d" % fr.numerator
    return "(%d / %d)" % (fr.numerator, fr.denominator)


def coq_list(items):
    return "[" + "; ".join(items) + "]"


def coq_str(s):
    return '"' + str(s).replace('"', '""') + '"'


# ----------------------------------------------------------------------------
# evidence, replays, known findings
# ----------------------------------------------------------------------------
def load_known():
    p = os.path.join(VERIF, "known_findings.json")
    if not os.path.exists(p):
        return []
    with open(p) as f:
        return json.load(f).get("findings", [])


class Run:
    """One check run: collects obligations, cases, violations and writes evidence."""

    def __init__(self, pid, tier, seed):
        self.pid, self.tier, self.seed = pid, tier, seed
        self.t0 = time.time()
        self.obligations = 0
        self.discharged = 0
        self.theorems = []
        self.axioms = set()
        self.evaluations = 0
        self.nontrivial = set()
        self.samples = []
        self.dist = {}
        self.violations = []   # dicts: {key, what, input, ...}
        self.ties_broken = []  # dicts: {what, detail}
        self.notes = []
        self.trusted = []
        self.rule = ""
        self.assumptions = []
        self.extra = {}

    # -- bookkeeping ----------------------------------------------------
    def count(self, key, n=1):
        self.dist[key] = self.dist.get(key, 0) + n

    def case(self, ident, nontrivial=True, sample=None):
        self.evaluations += 1
        if nontrivial:
            self.nontrivial.add(ident if isinstance(ident, str) else json.dumps(ident, sort_keys=True, default=str))
        if sample is not None and len(self.samples) < 6:
            self.samples.append(sample)

    def obligation(self, ok, name=None):
        self.obligations += 1
        if ok:
            self.discharged += 1
        if name:
            self.theorems.append(name + ("" if ok else " [FAILED]"))

    def violation(self, key, what, **kw):
        d = {"key": key, "what": what}
        d.update(kw)
        self.violations.append(d)

    def tie_broken(self, what, detail=""):
        self.ties_broken.append({"what": what, "detail": detail[:4000]})

    # -- finish -----------------------------------------------------------
    def finish(self):
        known = [k for k in load_known() if k.get("property") == self.pid and k.get("status") == "known"]
        lines = []
        unknown = []
        seen_known = set()
        for v in self.violations:
            hit = None
            for k in known:
                if k.get("match_key") == v["key"]:
                    hit = k
                    break
            if hit:
                if hit["id"] not in seen_known:
                    seen_known.add(hit["id"])
                    lines.append("KNOWN-FINDING: property=%s %s" % (self.pid, hit["what_fails"]))
            else:
                unknown.append(v)
        rc = 0
        os.makedirs(os.path.join(REPLAYS, self.pid), exist_ok=True)
        for fn in os.listdir(os.path.join(REPLAYS, self.pid)):
            os.remove(os.path.join(REPLAYS, self.pid, fn))
        if unknown:
            rc = 1
            # one VIOLATION line per distinct key
            done = set()
            for v in unknown:
                if v["key"] in done:
                    continue
                done.add(v["key"])
                path = os.path.join(REPLAYS, self.pid, "violation_%s.json" % re.sub(r"[^\w.-]", "_", v["key"])[:80])
                with open(path, "w") as f:
                    json.dump({"property": self.pid, "kind": "violation", "seed": self.seed,
                               "ties_broken": self.ties_broken, **v}, f, indent=1, default=str)
                lines.append("VIOLATION property=%s replay=%s" % (self.pid, path))
        elif self.ties_broken:
            # a theorem or the correspondence no longer checks; no failing input found
            # unless every broken tie is explained by a known finding that was seen
            rc = 1
            path = os.path.join(REPLAYS, self.pid, "tie_broken.json")
            with open(path, "w") as f:
                json.dump({"property": self.pid, "kind": "tie-broken", "seed": self.seed,
                           "no_longer_checks": self.ties_broken}, f, indent=1, default=str)
            lines.append("VIOLATION property=%s replay=%s no-failing-input-found" % (self.pid, path))
        self.write_evidence(len(unknown) + (1 if (self.ties_broken and not unknown) else 0))
        for ln in lines:
            print(ln)
        sys.stdout.flush()
        return rc

    def write_evidence(self, nviol):
        os.makedirs(EVID, exist_ok=True)
        cov = {
            "obligations": max(self.obligations, 1),
            "discharged": self.discharged,
            "checker_cmd": "coqc 8.16.1 (full .vo build via coq_makefile; Property.v recompiled by this run with Print Assumptions); tools/vcheck.py %s --tier %s" % (self.pid, self.tier),
            "trusted_base": ["Coq 8.16.1 kernel + vm_compute (no native_compute)"] +
                            ["axiom (stdlib): " + a for a in sorted(self.axioms)] + self.trusted,
            "theorems": self.theorems,
            "evaluations": max(self.evaluations, 1),
            "distinct_nontrivial": len(self.nontrivial),
            "rule": self.rule,
            "samples": self.samples or ["(none)"],
            "input_distribution": self.dist,
            "ties_broken": self.ties_broken,
            "notes": self.notes,
        }
        cov.update(self.extra)
        ev = {
            "property_id": self.pid, "tier": self.tier, "seed": int(self.seed), "level": "proof",
            "coverage": cov, "assumptions": self.assumptions,
            "wall_s": round(time.time() - self.t0, 2), "violations": nviol,
        }
        with open(os.path.join(EVID, self.pid + ".json"), "w") as f:
            json.dump(ev, f, indent=1, default=str)


def check_property_file(run, relpath, deps_ok=True):
    """Compile theories/<relpath> (a Property.v), record one obligation per
    Theorem in it, parse Print Assumptions."""
    vfile = os.path.join(THEORIES, relpath)
    names = property_theorems(vfile)
    ok, out = coqc(os.path.join("theories", relpath), timeout=900)
    if ok:
        closed, axioms = parse_assumptions(out)
        run.axioms.update(axioms)
        for n in names:
            run.obligation(True, n)
    else:
        m = re.search(r'File "([^"]+)", line (\d+)', out)
        failing = theorem_line(m.group(1), int(m.group(2))) if m else None
        for n in names:
            run.obligation(False, n)
        run.tie_broken("theorem file %s no longer checks (at %s)" % (relpath, failing), out[-1500:])
    return ok, out


# ----------------------------------------------------------------------------
# case files: one Coq proposition per case, decided inside coqc
# ----------------------------------------------------------------------------
def run_prop_cases(prefix, header, tactic, cases, shard=300, timeout=1200, case_timeout=None):
    """cases: list of (int id, coq proposition text).  Each proposition is
    attempted with `tactic` inside coqc; returns ({id: True|False}, errors).
    A case that is absent from the output (file failed to compile) is reported
    in errors and left out of the dict."""
    os.makedirs(CASES, exist_ok=True)
    files = []
    for k in range(0, len(cases), shard):
        chunk = cases[k:k + shard]
        name = os.path.join(CASES, "%s_%03d.v" % (prefix, k // shard))
        body = [header,
                'Ltac ck n P := first [ assert P by (%s); idtac "CASE" n "OK" | idtac "CASE" n "BAD" ].' %
                (("timeout %d (%s)" % (case_timeout, tactic)) if case_timeout else tactic),
                "Goal True."]
        for cid, prop in chunk:
            body.append("ck %d%%Z (%s)." % (cid, prop))
        body.append("Abort.")
        with open(name, "w") as f:
            f.write("\n".join(body) + "\n")
        files.append(name)
    res = coqc_many(files, timeout)
    out, errors = {}, []
    for fpath in files:
        ok, txt = res[fpath]
        for m in re.finditer(r"CASE (\(?-?\d+\)?)(?:%Z)? (OK|BAD)", txt):
            out[int(m.group(1).strip("()"))] = (m.group(2) == "OK")
        if not ok:
            errors.append("%s: %s" % (os.path.basename(fpath), txt[-1200:]))
    for fpath in files:
        for ext in (".v", ".vo", ".vok", ".vos", ".glob"):
            p = fpath[:-2] + ext
            if os.path.exists(p) and not os.environ.get("VERIF_KEEP_CASES"):
                os.remove(p)
        aux = os.path.join(os.path.dirname(fpath), "." + os.path.basename(fpath)[:-2] + ".aux")
        if os.path.exists(aux):
            os.remove(aux)
    return out, errors
