#!/usr/bin/env python3
"""usage: seedmatrix.py [--no-write] [--round2 | --round3 | Cxx | Cxx_r2 | Cxx_r3 ...]
Apply every seeded change in turn, run the quick tier of the named checks (default: the property's own check), record the
violation keys in seeded/Cxx/meta.json (`caught_by`) and restore /repo.  Never run while something else reads /repo."""
import json
import os
import re
import subprocess
import sys

ROOT = os.path.dirname(os.path.dirname(os.path.abspath(__file__)))
PY = "/venv/bin/python"


def sh(cmd, **kw):
    return subprocess.run(cmd, shell=True, stdout=subprocess.PIPE, stderr=subprocess.STDOUT, text=True, **kw)


def main():
    write = "--no-write" not in sys.argv
    seeds = [a for a in sys.argv[1:] if not a.startswith("--")] or ([("C%02d_r3") % i for i in (2, 5, 6, 8, 9, 11, 12, 13, 14, 19)] if "--round3" in sys.argv else
                                                                      [("C%02d_r2" if "--round2" in sys.argv else "C%02d") % i for i in range(1, 21)])
    if sh("git -C /repo status --porcelain").stdout.strip():
        sys.exit("refusing: /repo has uncommitted changes")
    for sd in seeds:
        patch = os.path.join(ROOT, "seeded", sd, "patch.diff")
        meta_p = os.path.join(ROOT, "seeded", sd, "meta.json")
        r = sh("git -C /repo apply %s" % patch)
        if r.returncode != 0:
            print(sd, "patch does not apply:", r.stdout.strip())
            continue
        try:
            out = sh("%s %s/tools/vcheck.py %s --tier quick" % (PY, ROOT, sd[:3]), cwd=ROOT).stdout      # seeded/C07_r2 breaks property C07
        finally:
            sh("git -C /repo checkout -- .")
        keys = re.findall(r"VIOLATION property=(C\d\d) replay=\S*/(?:violation_)?([A-Za-z0-9_\-\.]+?)\.json( no-failing-input-found)?", out)
        meta = json.load(open(meta_p))
        meta["caught_by"] = ([{"check": "%s quick" % k[0], "violation": k[1] + (" (no-failing-input-found)" if k[2] else "")} for k in keys]
                             or "NOT CAUGHT by the quick tier of its own check")
        if write:
            json.dump(meta, open(meta_p, "w"), indent=1)
        print(sd, "->", meta["caught_by"], flush=True)
    print("remember: re-run the checks on the clean tree before committing evidence")


if __name__ == "__main__":
    main()
