#!/bin/sh
# usage: seedtest2.sh Cxx [check ids...]  -- apply the round-2 change to /repo, run quick checks, undo
s="$1"; shift; checks="${*:-$s}"
mkdir -p /tmp/seed2_results
git -C /repo status --short | grep -q '^ M' && { echo "repo dirty"; exit 3; }
git -C /repo apply /tmp/wtout2/$s/patch.diff || exit 2
for c in $checks; do
  echo "== seed2 $s vs check $c"
  VERIF_SEED=${VERIF_SEED:-0} /venv/bin/python /verif/tools/vcheck.py $c --tier quick 2>/dev/null | grep -v "^KNOWN" | cut -c1-200
done > /tmp/seed2_results/$s.log 2>&1
git -C /repo checkout -- .
cat /tmp/seed2_results/$s.log
