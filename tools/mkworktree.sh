#!/bin/sh
# usage: mkworktree.sh <dir>   -- scratch git worktree of /repo (HEAD) with the prebuilt extensions copied in
set -e
d="$1"
git -C /repo worktree add --detach "$d" HEAD >/dev/null 2>&1
for f in wntr/sim/aml/_evaluator.cpython-312-x86_64-linux-gnu.so wntr/sim/network_isolation/_network_isolation.cpython-312-x86_64-linux-gnu.so; do
  cp /repo/$f "$d/$f"
done
echo "$d"
