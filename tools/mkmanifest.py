#!/usr/bin/env python3
"""Writes /verif/MANIFEST.json from the table below (kept in one place so it stays valid)."""
import json
import os

VERIF = os.path.dirname(os.path.dirname(os.path.abspath(__file__)))
PY = "/venv/bin/python"

CLAIMED = {
    "C17": dict(
        text="Proof: the conversion code of wntr/epanet/util.py is translated to Gallina on every run (T1) and proved, for every "
             "FlowUnits x HydParam/QualParam x MassUnits x reaction order x real value, to be multiplication/division by the physical "
             "factor table (ft, in, gal, Imp. gal, acre-ft, psi, hp), with exact inverses and linearity. The container wrapper and the "
             "float arithmetic are tied by an interval-certified differential check of the real to_si/from_si on every table cell.",
        ref="DESIGN.md section 5 C17",
        note="Trusted: Coq kernel; stdlib real-number axioms (sig_forall_dec, sig_not_dec, functional_extensionality_dep); the "
             "ast->Gallina translator tools/translate/units.py; coq-interval; harness. Modelled not verified: binary64 rounding "
             "(compared at 1e-12 relative), numpy/pandas container conversions (exercised by the correspondence for scalar/list/array/dict).",
        technique="Coq proof over a model regenerated from source (translator) + interval-certified differential check"),
}

CLAIMED["C15"] = dict(
    text="Proof: (1) get_rpn + the stack machine of evaluator.cpp return the direct evaluation of every expression tree, for every "
         "value domain (rpn_correct, stack discipline; axiom-free); (2) the symbolic derivative rules of reverse_sd give the true "
         "partial derivative (Coquelicot is_derive) on the differentiability domain; (3) the first true condition selects the branch "
         "of a conditional constraint; (4) after any register/remove history reference counts equal the number of live referencing "
         "constraints and a leaf has a C++ object iff that number is positive. Ties, decided inside coqc: the real get_rpn output equals "
         "rpn of the tree reconstructed from the real operator DAG (exact), compiled residuals/Jacobian entries/columns equal evalR / "
         "evalR(D v .) / vars_of on random models incl. shared sub-expressions and conditional constraints (interval), and reference "
         "counts/liveness after random histories equal the model (vm_compute).",
    ref="DESIGN.md section 5 C15",
    note="Trusted: Coq kernel; stdlib real axioms + Classical_Prop.classic (via Coquelicot) for sd_correct; coq-interval; the tree "
         "dumper in tools/props/c15.py. Modelled not verified: binary64 rounding and libm (1e-9 relative), SWIG glue, std::set ordering "
         "(rows/columns are matched through the reported index attributes). Partial: asin/acos and if_else nodes are outside the "
         "derivative theorem (tied numerically only); the constant-folding smart constructors of expr.py are exercised, not modelled. "
         "Cases the interval tactic cannot decide within 12 s are cross-checked against the implementation's own interpreted evaluation "
         "and reported as undecided, not as discharged.",
    technique="Coq proof (compiler correctness by induction, Coquelicot derivatives, invariant over histories) + structural and interval-certified correspondence")

CLAIMED["C01"] = dict(
    text="Proof: the mass-balance residual row the simulator builds for a junction means D - sum(inlet flows) + sum(outlet flows) + leak, so a "
         "converged row is the junction balance within the solver tolerance; any row read back as (base, minus, plus) has that meaning; "
         "the net inflows of all nodes of any network sum to zero (discrete divergence identity: no link is counted on one side only), hence "
         "reported demand+leak totals balance within #nodes*tol; demand patterns are periodic. Ties decided inside coqc on exact rationals: "
         "every mass-balance row held by the real simulator at every solve reads back as base - MODEL inlets + MODEL outlets (+ leak iff "
         "active), and every reported step of generated DD/PDD runs satisfies inflow - outflow = demand + leak at every junction, tank and "
         "reservoir, and the DD demand formula base*pattern((t+pattern_start) div step mod n)*multiplier at every connected junction.",
    ref="DESIGN.md section 5 C01",
    note="Trusted: Coq kernel, stdlib real axioms; harness (netgen, tracing wrapper around store_results_in_network, row dumper), exact "
         "binary64->rational conversion. Modelled not verified: the Newton solver (oracle with exit contract residual inf-norm < 1e-6; the "
         "balance is re-evaluated on the reported tables, so a false 'converged' would be seen), float summation order (tolerance 1.1e-6), "
         "pandas result assembly (read through the final tables). Runs that do not converge are skipped and counted.",
    technique="Coq proof (induction over link lists, divergence identity) + structural and exact-rational correspondence on real simulator runs")

CLAIMED["C09"] = dict(
    text="Proof: the model's flagged set is exactly the junctions with no path of non-closed links to a tank or reservoir (reachability "
         "closure checked closed; soundness by induction on iterations, completeness by induction on paths), so a connected junction is "
         "never flagged -- for every topology incl. parallel links in either direction; the executable model is total (its fuel always suffices). "
         "The simulator's own data structure is modelled too (C09/Graph.v: the CSR connectivity matrix with one entry per node pair, its "
         "construction with summed duplicates and the pass over pairs with several links, its incremental update from the control change "
         "tracker): PROVED that after construction and after every update of ANY history of control actions the entry of a pair is non-zero "
         "exactly when one of its links is not closed, i.e. the matrix is the adjacency relation of the reachability theorem (induction over "
         "histories with the tracker invariant). Ties decided inside coqc: the real CSR data after _initialize_internal_graph and after every "
         "_update_internal_graph (read through the simulator's own index map, fed with the tracker's real change list) equals the model's "
         "entries; at every solve of real "
         "runs the junction and link _is_isolated flags equal the model's sets computed from the link statuses of that moment, and at every "
         "reported step demand/pressure/flow of the isolated junctions and links are zero; histories come from controls/rules/CVs.",
    ref="DESIGN.md section 5 C09",
    note="Trusted: Coq kernel (axiom-free theorems); tracing wrappers; freshly compiled _network_isolation extension. Modelled not verified: "
         "the C++ breadth-first search itself (its outcome is compared with the model at every solve), scipy's CSR layout (read through the "
         "simulator's own index map), self-loop links (not generated). Hypothesis of the history theorem: every status change between two "
         "updates is made by a control action the tracker observes (checked per traced update).",
    technique="Coq proof (graph reachability, induction) + exact differential check of isolation flags at every solve")

CLAIMED["C04"] = dict(
    text="Proof over a literal integer-time Gallina model (Lib/Sched.v) of SimTimeCondition/TimeOfDayCondition.evaluate, the two stable "
         "sorts, the presolve/rule loop and the outer loop of run_sim: AT TIME t is true exactly in the step containing t with backtrack "
         "cur-t and never twice; >, >=, < are exact; <= is exact unless the threshold was jumped over (refuted otherwise, witness); the "
         "once-only clock condition is exact; the last-applied action wins and actions are applied in ascending priority; and for the whole run of one "
         "AT TIME control (any instant, hydraulic/rule grids, duration, priority) a step is solved at exactly the instant -- off both grids too -- with "
         "the commanded status, untouched before, kept after (induction through the presolve loop and over the steps); likewise a rule IF SYSTEM TIME "
         ">= thr acts, for every threshold and grid, at the first multiple of the rule step that is >= thr (thr > 0); and of two AT TIME controls on one "
         "link at the same instant the higher priority wins in either registration order (through both stable sorts and the loop); and a WINDOW -- "
         "'on' AT TIME ts, 'off' AT TIME te on one target -- is on at a solved step exactly when ts <= time < te, with steps solved at exactly ts and te, "
         "for every grid and also when both instants lie inside one hydraulic step, and such a run exists and reaches the duration (C04/Window.v: invariant "
         "over the whole run + progress measure = total correctness); and for ANY NUMBER of AT TIME controls at pairwise distinct instants (any "
         "targets, values, priorities, grids; no rules) every solved step shows on every link the command of the latest control whose instant "
         "has been reached, no instant at which a control changes a status is stepped over, and the run exists and ends at the duration "
         "(C04/AtTimeSet.v: the two stable sorts as sorted permutations, the presolve loop over the sorted list, the steps); and with COINCIDING "
         "instants allowed -- the complete semantics of simple time controls: the winner on a link is the control with the latest instant, "
         "then the highest priority, then the last registered (C04/AtTimeAll.v: the two stable sorts yield THE list sorted lexicographically "
         "by (instant, priority, registration), groups of equal instants as run_same_backtrack takes them, the loop group by group, total "
         "correctness); and ANY set of rules IF SYSTEM TIME >= thr THEN link := v (priorities, shared targets): every solved step shows on each "
         "link the highest-priority (then last registered) rule among those true at the last multiple of the rule step, no rule instant that "
         "changes a status is stepped over, total correctness (C04/RuleSet.v); and CONTROLS AND RULES TOGETHER (C04/Mixed.v): for any AT TIME "
         "controls and any TIME >= rules the statuses at every solved step are those of an explicit per-link specification (a control since the "
         "last rule instant wins, else the winning true rule, else the latest control, else the initial status; at a coinciding instant "
         "controls act after the rules), and at EVERY time up to the end of the run the specification gives the statuses of the latest solved "
         "step -- nothing that changes a status is stepped over; total correctness; proof through the three branches of the presolve loop; and a rule with a RANGE condition and an ELSE part (TIME >= a "
         "AND TIME < b) keeps its link at the THEN value exactly while the last rule instant lies in [a, b) (C04/RuleInterval.v). The model also "
         "proves (by evaluation) what the CURRENT code does wrong: daily clock-time controls act at 2x the threshold, 'before' clock "
         "conditions are never true, rules are evaluated at t=0 -- recorded as known findings. Tie decided inside coqc: the (time, status) "
         "trace of the real simulator equals Sched.run for every generated configuration of controls and rules (exact).",
    ref="DESIGN.md section 5 C04, Appendix A",
    note="Trusted: Coq kernel (axiom-free); harness building the same configuration through the API and as a Gallina term. Modelled not "
         "verified: sim_time as a float holding integers; the hydraulic solve (irrelevant to time conditions; trivial network). Partial: the "
         "closed whole-run proofs cover every set of AT TIME controls without rules (coinciding instants and priorities included), every set of TIME >= rules, and both mixed; for clock-time, repeating, <, <= and compound conditions and for rules with ELSE parts or "
         "several actions the whole-run behaviour is established by exact trace equality on generated configurations plus the "
         "lemma-level proofs (no general functional specification of the loop is proved).",
    technique="Coq proof (arithmetic/case analysis on a transcribed scheduler, vm_compute witnesses) + exact trace correspondence")

CLAIMED["C20"] = dict(
    text="Proof: _gcd/_lcm return gcd/lcm (Euclid invariant), so the averaging period of average_expected_demand is a common multiple "
         "of 24 h and every pattern period; the mean over any whole number of periods equals the mean over one; the nearest-entry table "
         "lookup minimises the distance; the metric's expected demand equals the demand delivered in DD mode when evaluated at "
         "t + pattern_start (and differs at t when pattern_start != 0: known finding). The remaining metrics (expected demand per "
         "category and multiplier, WSA, Todini, MRI, pump power/energy/cost, the whole annual network cost -- tanks, pipes, pumps, PRVs, each "
         "charged the closest entry of a user table given in ANY row order -- and the pipe GHG lookups) are definitional formulas in the "
         "model; they are tied, not proved: every value the implementation returns on generated networks / real result tables equals the "
         "model's exact rational evaluation within 1e-9 (decided by vm_compute inside coqc).",
    ref="DESIGN.md section 5 C20",
    note="Trusted: Coq kernel (axiom-free); harness extracting inputs from wntr objects. Modelled not verified: pandas float arithmetic "
         "(1e-9 relative), default cost tables (passed explicitly), pi and the head-pump maximum-power formula (exp/log; computed by the harness "
         "from the fitted coefficients and passed as an input), tank_capacity, population, entropy.",
    technique="Coq proof (number theory, periodic sums, argmin) + exact-rational differential check of every metric")

CLAIMED["C16"] = dict(
    text="Proof over a model of run_sim's step/solve/trial skeleton under an arbitrary fault sequence (which solver calls fail, "
         "backup solver, trial limit, convergence_error): the reported times are always a prefix of the fault-free reported times; a "
         "failed step always ends the run as RuntimeError (convergence_error) or warning+error_code, never as completed; without faults "
         "the run completes with every reported time; a strictly increasing step sequence gives a strictly increasing index. Tie decided "
         "inside coqc: for generated networks the traced fault-free run gives the steps, then runs with faults injected into "
         "_solver_helper (any call index, primary/backup, lowered trial limit) must end exactly as `outcome` says, with the same index; "
         "values before the failure equal the fault-free ones; every result table is checked to be well formed (shared strictly "
         "increasing index on the report grid, one column per element, finite numbers).",
    ref="DESIGN.md section 5 C16",
    note="Trusted: Coq kernel (axiom-free); the fault-injection wrapper. Modelled not verified: the nonlinear solver (oracle: its status is "
         "the fault sequence), termination of Newton itself (bounded by MAXITER in the code), the time-stepping of controls (C04 model). "
         "Finite values and column sets are direct observations on the returned tables, not theorems.",
    technique="Coq proof (induction over steps under an arbitrary fault sequence) + exact differential check with injected solver failures")

CLAIMED["C14"] = dict(
    text="Proof over an abstract registry state machine (18 operations: add/remove of nodes, links, patterns, curves, sources, "
         "controls; end-node, pattern and curve reassignment): the invariant (unique names, every link's end nodes exist, every "
         "pattern/curve/node/link reference names an existing object) holds after EVERY operation history; a refused operation leaves "
         "the state unchanged; typed name lists partition the nodes, graph edges have existing ends, the links of a node are exactly "
         "the links with that end. Tie decided inside coqc: after every operation of random histories executed through the public API "
         "all observable views (name lists, typed lists and iterators, counts, get_links_for_node, to_graph, usage records) equal the "
         "model's views exactly; redundant implementation views are cross-checked; a refused removal must not change anything.",
    ref="DESIGN.md section 5 C14",
    note="Trusted: Coq kernel (axiom-free); harness mapping operations to API calls and views to number lists. The model's views are "
         "functions of ONE state, so their mutual consistency is by construction -- what the check establishes is that the implementation's "
         "many redundant structures track that state (bounded by the generated histories). Not modelled: re-adding an existing name, junction "
         "demand-pattern edits, describe().",
    technique="Coq proof (invariant by induction over operation histories) + exact differential check of all views after every operation")

CLAIMED["C18"] = dict(
    text="Proof: segments are modelled as the connected components of the incidence graph between links and their end nodes, cut "
         "where a valve sits; any labelling accepted by the executable predicate labels_ok has positive labels and two elements share a "
         "label exactly when they are joinable without passing a valve (soundness by induction on closure iterations, completeness by "
         "induction on paths; reuses the C09 graph lemmas); the component computation of the model is total (C18_component_total, by the C09 "
         "fuel argument), so the theorems are never vacuous. Tie decided inside coqc: the labelling returned by the real valve_segments "
         "on random multigraphs and valve layers (duplicates, parallel links, dead ends) is accepted by labels_ok, the reported sizes "
         "count the members, and num_surround / demand_increase / length_increase equal their definitions.",
    ref="DESIGN.md section 5 C18",
    note="Trusted: Coq kernel (axiom-free); harness numbering nodes/links. nx.connected_components is not modelled (oracle); its effect is "
         "validated through labels_ok on every case. The attribute formulas are definitional in the model (tied, not proved). Self-loop "
         "links are not generated.",
    technique="Coq proof (graph components characterised via a checked closure) + exact check of the implementation's labelling against it")

CLAIMED["C19"] = dict(
    text="Proof: split lengths add up to the original length and are non-negative; the new junction's elevation/coordinates are the "
         "linear interpolation (between the ends, equal to them at 0 and 1); two pipes in series with the split lengths and no minor loss "
         "have exactly the head loss of the original for every flow (refuted, with witness, when minor loss > 0: known finding); for "
         "skeletonization, after ANY sequence of trims/merges the members of the retained nodes' lists are a permutation of the original "
         "nodes and the demand entries a permutation of the original entries, hence the total demand at every time is conserved. Ties "
         "decided inside coqc on exact rationals: lengths, elevation, coordinates of real split/break calls; the skeleton map of real "
         "skeletonize calls is a partition and every retained node's demand entries (tracked by object identity) are exactly those of "
         "the nodes mapped to it; protected elements are kept. Frame conditions (all other element dictionaries unchanged, input "
         "untouched with return_copy, new pipe without check valve, unchanged hydraulics after a split) are observed on the implementation. Pipes drawn with vertices: the polyline length is additive under a cut and an interpolated point divides an axis-parallel segment proportionally (C19/Poly.v); the returned polylines of generated axis-parallel pipes keep every vertex, meet at the new junction and have drawn lengths f L and (1 - f) L (poly_split_ok, decided inside coqc).",
    ref="DESIGN.md section 5 C19",
    note="Trusted: Coq kernel (axiom-free, uses Permutation from the standard library); harness. Not modelled: pipes with vertices, merged "
         "pipe properties (equivalent roughness), the hydraulic simulation used to compare heads before/after a split (tolerance 1e-3 m).",
    technique="Coq proof (field arithmetic, Permutation invariants over merge sequences) + exact-rational and identity-based differential checks")

CLAIMED["C12"] = dict(
    text="Proof (partial for the statement as a whole): the logic of the INP text codecs is modelled in Lib/Codec.v and proved: "
         "hours:minutes:seconds and 12-hour clock texts are exact inverses of their readers for every second (incl. both 12 o'clock "
         "hours and START CLOCKTIME), and the IF/AND/OR clause list of a rule, written and read back, keeps the meaning of every condition "
         "EPANET's syntax can express (AND of OR-groups), while a OR (b AND c) provably changes meaning (known finding). Ties decided "
         "inside coqc: the real codec functions on random times and the real rule writer+reader on random condition trees equal the model "
         "exactly. Everything else in the file format (unit pairing per field, sections without a model) is exercised by whole-file "
         "write/read/compare round trips of generated models in all ten flow units and both INP versions, incl. the second cycle; a "
         "difference there is reported as a violation with the model as replay.",
    ref="DESIGN.md section 5 C12",
    note="Trusted: Coq kernel (axiom-free); Python's str/int/format for the decimal rendering of integer fields; the normal-form comparison "
         "(tools/roundtrip.py, 1e-6 relative; 1e-5 for 6-digit control thresholds; two-decimal pressure options). NOT proved: that writer and "
         "reader use the same unit parameter for every field (only exercised), float text formatting, QUALITY/REACTIONS/ENERGY/REPORT sections.",
    technique="Coq proof of the codec logic (arithmetic, induction over condition trees) + exact codec correspondence + whole-file round-trip differential")

CLAIMED["C13"] = dict(
    text="Proof (partial): controls and rules travel through the dictionary as text and are re-read with the INP codecs in SI units, "
         "so the codec theorems of C12 apply (time, clock time, expressible rule conditions); the executable coverage test is proved "
         "sound and complete (every key emitted for an element kind is one from_dict reads). The key table of from_dict is regenerated "
         "from wntr/network/io.py on every run (translator) and compared inside coqc with the keys the real to_dict emits for every "
         "element kind of generated models. The statement itself is then evaluated on the implementation: to_dict -> JSON -> from_dict "
         "-> to_dict, write_json/read_json and append-to-empty on generated models (vertices, several demands, curves, sources, active / "
         "ended / removed leaks on junctions and tanks, controls and rules) must be equal after the normalisation the property names.",
    ref="DESIGN.md section 5 C13",
    note="Trusted: Coq kernel (axiom-free); translator tools/translate/fromdict.py; the normalisation in tools/props/c13.py. Not proved: "
         "that each restored key is assigned to the attribute it came from (covered by the round-trip differential on generated models "
         "only); options sub-dictionaries.",
    technique="Coq proof of codec logic and of the coverage test + translator-regenerated key table + dictionary/JSON round-trip differential")

CLAIMED["C07"] = dict(
    text="Proof over a model whose smoothing coefficients are REGENERATED from the source on every run (cubic_spline, constants and the "
         "coefficient chain of pdd_poly_coeffs_param -> Gen/Formulas.v): the smoothing cubic interpolates values and slopes at both ends; "
         "the delivered fraction is slope*(p-Pmin) (|.| <= 1e-11 |p-Pmin|) at or below Pmin, 1 + 1e-11 (p-Preq) above Preq, the power law "
         "((p-Pmin)/(Preq-Pmin))^e between the two 5 cm bands; it is C0 and C1 at the four knots for every exponent; the matched slope is "
         "the true derivative of the power law (Coquelicot); it is non-decreasing EVERYWHERE, the smoothing bands included, for every parameter set whose "
         "two cubics lie in the Fritsch-Carlson box (C07_pdd_monotone, via a general monotonicity theorem for cubic_spline proved without calculus: "
         "Hermite form of the derivative + exactness of Simpson's rule), and coqc proves that premise (fc_box) for every generated parameter "
         "set; and it provably JUMPS when Preq-Pmin < 0.1 m, which includes the default options (known finding). "
         "Ties decided inside coqc by interval arithmetic: the residual of the real pdd row of every junction (dumped conditional "
         "expression with the parameter values the code computed) equals d - D*pdd_frac(effective Pmin, Preq, exponent) over a sweep of "
         "heads, for global options and per-junction overrides incl. 0; reported (pressure, demand) pairs of PDD runs lie on the curve.",
    ref="DESIGN.md section 5 C07",
    note="Trusted: Coq kernel; stdlib real axioms + classic (Coquelicot); coq-interval; translators chains.py/pyexpr.py; the row dumper. "
         "Modelled not verified: binary64 rounding incl. cancellation in the cubic coefficients (2e-6 on the fraction). Cases the interval "
         "tactic cannot decide in 40 s are cross-checked with a float transcription of the model and counted as undecided, never as discharged.",
    technique="Coq proof over a translator-regenerated model (field, Coquelicot derivative, interval witness) + interval-certified differential on the real constraint rows")

CLAIMED["C08"] = dict(
    text="Proof over a model whose smoothing coefficients are regenerated from the source (leak chain of leak_poly_coeffs_param, constants, "
         "cubic_spline): an active leak discharges exactly Cd*A*sqrt(2 g p) for p above the 0.1 mm band, slope*p (|.| <= 1e-11 |p|) for "
         "p <= 0, the band cubic is C0 and C1 with both neighbours and the matched slope is the true derivative of the square-root law "
         "(Coquelicot); an inactive leak reports 0; the start/end controls are AT TIME conditions, so they fire exactly in the step that "
         "contains the instant, cut back to it (C04), and over the WHOLE run the leak status is on exactly at the solved steps with start <= time < end, "
         "steps being solved at exactly start and end -- any grids, both instants possibly inside one hydraulic step (C08_leak_window_exact, "
         "an invariant through the presolve loop and over the steps). Ties decided inside coqc: interval -- residual of the real leak row (junction and "
         "tank) equals q - leak_rate(h - elev) over a head sweep, and reported leak_demand of real runs equals reported_leak with the "
         "activity decided by the MODEL window [start, end); vm_compute -- the leak-status timeline is on exactly on [start, end) and "
         "both instants are solved steps. remove_leak / reset / rerun cycles must report zero leak demand. The leak term in the mass "
         "balance is C01's row check (leak variable present iff active). Also proved: the discharge is non-decreasing in the pressure everywhere "
         "(C08_leak_monotone, through the general cubic_spline monotonicity theorem) under a premise coqc proves for every generated leak.",
    ref="DESIGN.md section 5 C08",
    note="Trusted: Coq kernel; stdlib real axioms + classic (Coquelicot); coq-interval; translator chains.py; row dumper; tracing wrapper. "
         "Modelled not verified: binary64 rounding (1e-9 relative). The whole-run window theorem is closed for a leak whose status no other control touches (the two controls add_leak "
         "registers); C08_leak_window_total also proves that the run exists and reaches the duration (D a positive multiple of the hydraulic step).",
    technique="Coq proof over a translator-regenerated model (field, Coquelicot) + interval-certified differential on real rows and reported leak demands")

CLAIMED["C02"] = dict(
    text="Proof over a model of the residual rows of constraint.py and the parameter formulas of param.py (constants regenerated from "
         "constants.py): a closed/isolated link's row is its flow; the open-pipe row vanishes iff h_start - h_end = phi(q) with phi odd and "
         "strictly increasing (so flow direction follows the head difference) for k > 0, minor >= 0; the head-pump row above the "
         "smoothing threshold vanishes iff the head gain is A - B q^C; 1-point and (after the fix) 2-point curve coefficients pass "
         "through their defining points; the power-pump row is P = rho g q dh; active PRV/PSV/FCV hold their setting; TCV and open "
         "valves obey +-r q^2 with the sign of q. Ties decided inside coqc by interval arithmetic: for every (type, status) shape the "
         "REAL row (dumped expression with the parameter values the code computed from roughness, diameter, length, minor loss, curve "
         "points, settings) equals the model row over flow sweeps of either sign and around zero; every link at sampled reported steps "
         "of generated runs satisfies the row of its reported status within the solver tolerance; pumps and check-valve pipes never "
         "report reverse flow beyond Qtol (incl. a directed low-resistance CV bypass family). Also proved: the head gain the row assigns to a head pump is STRICTLY decreasing in the flow for every flow "
         "(linear extension, smoothing cubic, curve) -- exponent > 1 unconditionally, exponent <= 1 under a Fritsch-Carlson premise that coqc proves "
         "per pump -- i.e. the pump law is strictly increasing, the hypothesis of C03's uniqueness theorem.",
    ref="DESIGN.md section 5 C02",
    note="Trusted: Coq kernel; stdlib real axioms; coq-interval; translator chains.py; row dumper. Oracle: scipy curve_fit for 3-point curves "
         "(its A,B,C are inputs). Not modelled: HW_approx='piecewise'. Partial: 'no reverse flow' for pumps/CVs is an observation on "
         "reported results (the controls that enforce it are C05's accepted-state argument), not a theorem.",
    technique="Coq proof (real analysis of the head-flow laws) + interval-certified differential on real constraint rows and reported results")

CLAIMED["C11"] = dict(
    text="Proof: a dictionary entry is a function of the attributes behind its keys; a simulation is a history of assignments to the "
         "attributes in sim_writes and to the targets of control actions -- both REGENERATED from hydraulics.py, core.py, model.py and "
         "controls.py on every run; if the write set is disjoint from the read set, no history of writes changes any read attribute "
         "(frame theorem, any history); everything the simulation and the status/setting/leak_status actions write is re-initialised by "
         "reset_initial_values (decided on the regenerated tables); a control action on base_speed provably writes the definition "
         "(known finding). Cases decided inside coqc: for each element kind of generated models the attributes behind the keys of the "
         "real to_dict are disjoint from sim_writes and the model's action targets. The statement on the implementation: to_dict "
         "before == after WNTRSimulator and EpanetSimulator runs; run / reset / run and deepcopy runs reproduce all result tables.",
    ref="DESIGN.md section 5 C11",
    note="Trusted: Coq kernel (axiom-free); translator simwrites.py (syntactic: `obj.attr = ...` targets in the named functions and the "
         "_InternalControlAction attribute strings); the reading convention key k -> attributes k, _k. Not proved: that reset restores the "
         "INITIAL value of each attribute (covered by run/reset/run equality on generated models, incl. a valve with initial setting 0).",
    technique="Coq proof (frame theorem over write histories; finite table checks on translator-regenerated write sets) + behavioural differential")

CLAIMED["C10"] = dict(
    text="Proof over Lib/Sched.v (one solved step iterated): more fuel never changes a finished run; pausing at ANY duration D1 and "
         "continuing from the state kept in the model gives exactly the uninterrupted trace (induction; several pauses by iteration); a "
         "new simulator object recomputes its rule index from the last solved time, and the continued run equals the uninterrupted one "
         "whenever that index equals the paused one; that loop invariant ((ri-1)*rule_step <= prev < ri*rule_step after every solved step) is "
         "PROVED through the whole presolve loop for every configuration whose simple controls are sim-time conditions without repeat and any "
         "rules (sorted backtracks, three branches), giving restart equivalence without side condition there; for clock / repeating conditions "
         "(whose backtracks are wrong in the code, C04 findings) it stays a per-case check; an on/off window of two AT TIME controls (a leak) paused ANYWHERE and continued by a new simulator object keeps the target on exactly on "
         "[ts, te) with steps solved at ts and te after the pause (C10_window_survives_pause, a functional statement across the restart), and so does "
         "ANY set of AT TIME controls at distinct instants (C10_control_set_survives_pause: every solved step of both parts shows the command of "
         "the latest control reached, nothing before the pause is revisited, no changing instant after it is stepped over; with coinciding instants "
         "too: C10_all_time_controls_survive_pause; and for controls AND TIME >= rules together the restart state is PROVED identical to the paused "
         "state, with the specified statuses at every step and every time of both parts, and the concatenated solved times strictly increase: "
         "C10_controls_and_rules_survive_pause, C10_controls_and_rules_times_increase); "
         "for the same fragment the solved times are PROVED strictly "
         "increasing in one run and across a pause (a time is never revisited); with the index "
         "restarted at 0 (the behaviour before the fix) the model provably steps back to t = 0. Ties decided inside coqc: for generated "
         "time-driven configurations the concatenated (time, status) trace of real runs paused at 1-3 grid points, with/without pickle, "
         "continued with NEW simulator objects equals the model's uninterrupted trace, and the invariant holds at every pause. Property "
         "on the implementation with hydraulics: uninterrupted vs paused+continued runs of generated networks (tanks, controls, rules, "
         "leaks, isolated parts) have the same strictly increasing index and the same heads/demands/flows/statuses.",
    ref="DESIGN.md section 5 C10",
    note="Trusted: Coq kernel (axiom-free); harness; pickle modelled as identity (exercised). Modelled not verified: hydraulic state carried "
         "across the pause (tank heads, statuses, leak status) -- covered by the behavioural comparison only; Newton's fresh initial guess.",
    technique="Coq proof (induction over iterated steps with fuel monotonicity) + exact trace correspondence + behavioural differential")

CLAIMED["C06"] = dict(
    text="Proof (whole run): with full steps above a limit, the crossing step cut by the whole-second backtrack and no net outflow (inflow) once "
         "the tank's links are closed (assumption on the hydraulics), the level never leaves [min - qmax/A, max + qmax/A] (induction over the reachable "
         "levels, C06_min/max_level_invariant). Per step: for a cylindrical tank the head update of update_tank_heads changes the stored volume by exactly (net inflow) x (elapsed "
         "time), over one and several steps; the whole-second backtrack floor((cur - thr) A / q) of TankLevelCondition puts the level on "
         "the crossing side of the threshold with an overshoot strictly below one second of the tank's flow, rising and falling (Flocq "
         "Zfloor) -- this is what keeps levels within [min, max] up to about two seconds of flow, since the min/max closures are "
         "such threshold controls. Ties decided inside coqc by interval arithmetic on the reported tables of real runs with every solved "
         "step reported: (head2-head1) pi d^2/4 = demand1 (t2-t1) for every pair of consecutive steps of every tank; first head = "
         "elevation + init_level. Observed on the same runs: levels within the limits +- 2 s of flow, no discharge at min level, no "
         "filling at max level. Generated networks drive small tanks to both limits with pumps/CV pipes at the tank and user controls "
         "of every priority inside the limit step.",
    ref="DESIGN.md section 5 C06",
    note="Trusted: Coq kernel; stdlib real axioms (+ Flocq's Zfloor lemmas); coq-interval; harness. Partial: 'levels stay within limits' and "
         "'no discharge at min' for the whole simulator are observations on generated runs backed by the per-threshold theorem, not a closed "
         "proof over the control loop. Volume-curve tanks are a recorded finding (np.interp clamps), excluded from the sweep.",
    technique="Coq proof (field identity, floor arithmetic over R) + interval-certified check of reported tank trajectories")

CLAIMED["C05"] = dict(
    text="Proof over a model of the post-solve control pass of run_sim (the three status properties, user and internal actions, the stable "
         "priority sort, ControlChangeTracker, accept-or-solve-again): for every link state, every set of triggered controls and priorities, "
         "a triggered command holds on the accepted state unless the internal status holds the link closed or a triggered control of >= priority "
         "conflicts (status and setting); the accepted state equals the solved state; lifted over the whole trial loop for an arbitrary solver "
         "oracle; a command that changes the status forces another solve; the tank-level backtrack lies inside the step and the earlier of two "
         "crossings has the larger backtrack (reals, Flocq Zfloor). Ties decided inside coqc: every traced post-solve pass of real runs equals "
         "after_solve (vm_compute); the truth value the implementation gave each condition equals value_cond/tank_cond on the REPORTED value (exact "
         "rationals); every traced TankLevelCondition.evaluate call (user controls and the simulator's own tank-limit controls, pre- and post-solve) has "
         "the model's truth value and, when the threshold has just been crossed, exactly the model's whole-second backtrack (Zfloor equality proved by "
         "interval); threshold crossings overshoot by < 2 s of flow (interval). The statement itself is evaluated on the reported tables of the same runs.",
    ref="DESIGN.md section 5 C05",
    note="Trusted: Coq kernel + vm_compute; stdlib real axioms for the backtrack theorems only; harness tracing wrappers; coq-interval. Modelled, not "
         "verified: which controls a solved state triggers (an oracle in the theorems; observed per pass in the tie).",
    technique="Coq proof (induction over action lists, sortedness/permutation, tracker invariant) + vm_compute differential of every traced post-solve pass")

CLAIMED["C03"] = dict(
    text="Proof: the system both engines are specified to solve -- junction balance with constant or pressure-dependent non-decreasing demand, one "
         "strictly increasing head-loss law per link -- has at most one solution (flows on every link, heads at every node tied to a source), by the "
         "discrete divergence identity over arbitrary link lists; the laws of the common feature set (H-W pipe + minor loss, signed quadratic, head pump "
         "gain for every flow) are strictly increasing, so networks of pipes, throttle/open valves and head pumps have at most one solution with NO "
         "abstract hypothesis left, demand-driven and pressure-driven (C03_unique_common_feature_set[_pdd], the latter through C07_pdd_monotone); the constant-power pump law is not (two branches, _refuted theorem -- the root of a defect found and fixed). "
         "BinFile.read's table of unit parameters and its status recoding are regenerated from the source on every run and proved equal to the "
         "quantities EPANET writes (with C17's conversion theorems). Ties decided inside coqc by interval arithmetic: on the results BOTH engines report "
         "for the same generated model every junction balances and the links obey the C02 rows of their reported status -- on the WNTR report every "
         "link kind (pipes, head/power pumps, PRV/PSV/FCV/TCV, closed links), on the EPANET report pipes, TCVs and active PRV/PSV -- so both are "
         "approximate solutions of the system of the theorem. The statement itself: WNTRSimulator vs EpanetSimulator at every report step over the INP flow units, "
         "EPANET(unit a) vs EPANET(unit b), harness-written INP texts run by the toolkit directly vs read_inpfile + WNTRSimulator, Net1-3.",
    ref="DESIGN.md section 5 C03",
    note="Partial: EPANET itself is a binary and is not modelled; the quantitative step (residual below tolerance => distance to the unique solution "
         "below a bound) is not proved, the comparison with stated tolerances stands in for it and is the failing-input search. Trusted: Coq kernel, "
         "stdlib real axioms, coq-interval, translator binunits.py, harness (tolerances, near-event filter, own INP writer), the EPANET 2.2 library.",
    technique="Coq proof (uniqueness by divergence identity, monotone laws) + regenerated BinFile table + interval-certified residual checks on both engines' reports")

NOT_YET = {
}

ALL = ["C%02d" % i for i in range(1, 21)]


def main():
    checks = []
    for pid in ALL:
        if pid not in CLAIMED:
            continue
        c = CLAIMED[pid]
        checks.append({
            "property_id": pid,
            "quick_cmd": "%s tools/vcheck.py %s --tier quick" % (PY, pid),
            "thorough_cmd": "%s tools/vcheck.py %s --tier thorough" % (PY, pid),
            "evidence_file": "/verif/evidence/%s.json" % pid,
            "replay_cmd_template": "%s tools/vcheck.py %s --replay {path}" % (PY, pid),
            "engine": "coq-proof",
            "level_claimed": {"category": "proof", "text": c["text"], "design_ref": c["ref"]},
            "level_note": c["note"],
            "technique": c["technique"],
        })
    na = [{"property_id": p, "reason": NOT_YET.get(p, "check not built yet in this round (planned: DESIGN.md section 5); not claimed until it runs clean")}
          for p in ALL if p not in CLAIMED]
    man = {
        "version": 1,
        "setup_cmd": "%s tools/vcheck.py --setup" % PY,
        "hooks": {
            "guard": "WNTR_VERIF",
            "enable": "no source hooks: tracing and fault injection are done by wrapping functions from the harness process; "
                      "checks import wntr from /repo's working tree with the C++ extensions recompiled from source",
            "baseline_off_cmd": "cd /repo && /venv/bin/python -m pytest -ra -q -p no:cacheprovider --timeout=900 --continue-on-collection-errors",
            "source_commits": [],
            "add_only": True,
        },
        "engines": [{"name": "coq-proof", "path": "/verif/coq", "serves_properties": sorted(CLAIMED),
                     "kind_free_text": "Coq 8.16.1 development (theories/), models regenerated from /repo by tools/translate or tied by "
                                       "correspondence checks evaluated inside coqc (vm_compute / interval); driver tools/vcheck.py"}],
        "checks": checks,
        "not_applicable": na,
        "notes": "See DESIGN.md. fix: commits in /repo and recorded findings are listed in known_findings.json.",
    }
    with open(os.path.join(VERIF, "MANIFEST.json"), "w") as f:
        json.dump(man, f, indent=1)
    print("claimed:", sorted(CLAIMED), "not claimed:", [x["property_id"] for x in na])


if __name__ == "__main__":
    main()
