#!/venv/bin/python
"""Driver:  vcheck.py <Cxx> --tier quick|thorough [--replay file]
            vcheck.py --setup        (regenerate Gen/*.v from /repo and build every .vo)
"""
import argparse
import importlib
import os
import sys
import traceback

HERE = os.path.dirname(os.path.abspath(__file__))
sys.path.insert(0, HERE)
os.environ.setdefault("PYTHONHASHSEED", "0")
if os.environ.get("PYTHONHASHSEED") != "0":
    os.environ["PYTHONHASHSEED"] = "0"
    os.execv(sys.executable, [sys.executable] + sys.argv)

import common  # noqa: E402

ALL = ["C%02d" % i for i in range(1, 21)]


def setup():
    from translate import regen_all
    errs = regen_all(common.REPO)
    for e in errs:
        print("translator:", e)
    ok, log, fails = common.coq_make(["all"], timeout=3000)
    if not ok:
        # a Gen file that no longer satisfies a theorem must not break setup: the
        # per-property check reports it.  Setup fails only if nothing was built.
        print(log[-3000:])
        print("setup: some targets failed (reported by the per-property checks)")
    try:
        common.ext_build()
    except Exception as e:  # reported by the checks
        print("setup: extension build failed:", e)
    return 0


def main():
    ap = argparse.ArgumentParser()
    ap.add_argument("prop", nargs="?")
    ap.add_argument("--tier", default=os.environ.get("VERIF_TIER", "quick"))
    ap.add_argument("--replay")
    ap.add_argument("--setup", action="store_true")
    a = ap.parse_args()
    if a.setup:
        sys.exit(setup())
    pid = a.prop.upper()
    seed = int(os.environ.get("VERIF_SEED", "0") or 0)
    tier = a.tier if a.tier in ("quick", "thorough") else "quick"
    run = common.Run(pid, tier, seed)
    mod = importlib.import_module("props." + pid.lower())
    try:
        mod.check(run, replay=a.replay)
    except Exception:
        tb = traceback.format_exc()
        sys.stderr.write(tb)
        run.tie_broken("check machinery raised an exception (tie cannot be established)", tb)
    sys.exit(run.finish())


if __name__ == "__main__":
    main()
