"""C16 -- runs terminate with well-formed results and never hide a failed step.

Model: C16/Model.v (steps x solves x trials under an explicit fault sequence).  Theorems: C16/Property.v.
Tie (T3, vm_compute inside coqc): the fault-free run of a generated network is traced (solver calls per step, which steps
are reported); then the same model is re-run with faults injected into wntr.sim.core._solver_helper (k-th call fails, for
primary and/or backup solver; trial limit lowered) with convergence_error True/False; how the real run ends (completed /
warning+error_code / RuntimeError) and its time index must equal `outcome`; the values reported before the failure must
equal the fault-free values exactly.  Well-formedness of every result (strictly increasing index on the report grid, one
column per element, finite numbers) is checked on every run.
"""
import math
import random
import warnings

import common
import netgen
import simrun

HEADER = """From Coq Require Import ZArith List Bool Arith.
From WNTRV Require Import C16.Model.
Import ListNotations.
Definition same (o : ending * list Z) (e : ending) (ts : list Z) : bool := ending_eqb (fst o) e && zlist_eqb (snd o) ts.
"""
TACTIC = "vm_compute; reflexivity"


class Inject:
    """wrap wntr.sim.core._solver_helper: log one entry per call; fail the calls whose index is in `fail`"""

    def __init__(self, wntr, fail=()):
        self.core = wntr.sim.core
        self.fail = set(fail)
        self.calls = []     # sim_time of each call
        self.wn = None

    def __enter__(self):
        self.orig = self.core._solver_helper
        me = self

        def wrapped(model, solver, options):
            i = len(me.calls)
            me.calls.append(None)
            if i in me.fail:
                return 0, "injected failure at solver call %d" % i, 0
            return me.orig(model, solver, options)
        self.core._solver_helper = wrapped
        return self

    def __exit__(self, *a):
        self.core._solver_helper = self.orig


def run_impl(wntr, spec, fail, backup, conv_err, trials=None, times_cb=None, unbalanced=None):
    wn = netgen.build(spec, wntr)
    if trials is not None:
        wn.options.hydraulic.trials = trials
    if unbalanced is not None:
        # EPANET's "UNBALANCED CONTINUE n" is an option of the other engine: WNTRSimulator's runs still stop at a step they cannot solve
        wn.options.hydraulic.unbalanced = "CONTINUE"
        wn.options.hydraulic.unbalanced_value = unbalanced
    sim = wntr.sim.WNTRSimulator(wn)
    call_times = []
    inj = Inject(wntr, fail)
    with inj:
        orig = wntr.sim.core._solver_helper

        def timed(model, solver, options):
            call_times.append(int(wn.sim_time))
            return orig(model, solver, options)
        wntr.sim.core._solver_helper = timed
        kw = {"convergence_error": conv_err}
        if backup:
            kw["backup_solver"] = wntr.sim.solvers.NewtonSolver
        with warnings.catch_warnings(record=True) as w:
            warnings.simplefilter("always")
            try:
                res = sim.run_sim(**kw)
                err = None
            except RuntimeError as e:
                res, err = None, "RuntimeError: %s" % e
            except Exception as e:
                res, err = None, "%s: %s" % (type(e).__name__, e)
        wntr.sim.core._solver_helper = orig
    warned = any("did not converge" in str(x.message) or "Exceeded maximum number of trials" in str(x.message) for x in w)
    return wn, res, err, warned, call_times


def wellformed(wn, res, spec):
    """direct observations on the returned tables (no model needed)"""
    import numpy as np
    nodes = wn.junction_name_list + wn.tank_name_list + wn.reservoir_name_list
    links = wn.pipe_name_list + wn.head_pump_name_list + wn.power_pump_name_list + wn.valve_name_list
    idx = None
    for key, df in list(res.node.items()) + list(res.link.items()):
        cols = list(df.columns)
        want = nodes if key in res.node and df is res.node[key] else links
        if sorted(cols) != sorted(want) or len(set(cols)) != len(cols):
            return "table %s does not have exactly one column per element" % key
        if idx is None:
            idx = list(df.index)
        elif list(df.index) != idx:
            return "tables do not share one time index"
        if not np.isfinite(df.values.astype(float)).all():
            return "table %s contains non-finite numbers" % key
    return None


def check(run, replay=None):
    wntr = common.import_wntr(build_ext=True)
    thorough = run.tier == "thorough"
    rng = random.Random(run.seed * 1237 + 16)
    run.rule = ("generated networks (netgen) x fault specs: the k-th solver call fails (k over the whole run), with/without backup "
                "solver (backup succeeds or also fails), convergence_error True/False, lowered trial limit; one case per faulty run; "
                "non-trivial = the fault hits after at least one reported step")
    run.trusted += ["fault injection wrapper around wntr.sim.core._solver_helper (harness side, no repo hook)"]
    run.assumptions += ["the nonlinear solver is an oracle whose reported status is what the fault sequence prescribes; real "
                        "non-convergence (iteration limit, singular Jacobian) enters run_sim through the same status value",
                        "the number of solves per step is taken from the traced fault-free run of the same network"]
    ok, log, fails = common.coq_make(["theories/C16/Proofs.vo"])
    if not ok:
        for f, ln, msg in fails:
            run.tie_broken("proof no longer checks: %s line %s: %s" % (f, ln, common.theorem_line(f, ln)), msg)
        for n in common.property_theorems(common.THEORIES + "/C16/Property.v"):
            run.obligation(False, n)
    else:
        common.check_property_file(run, "C16/Property.v")
    cases, meta = [], {}
    nets = 80 if thorough else 14
    done = 0
    for k in range(nets * 3):
        if done >= nets:
            break
        spec = netgen.gen_spec(rng)
        seen = set()
        spec["leaks"] = [l for l in spec["leaks"] if not (l["node"] in seen or seen.add(l["node"]))]
        try:
            wn, res, err, warned, calls = run_impl(wntr, spec, (), False, False)
        except Exception:
            continue
        if res is None or warned or res.error_code not in (None,):
            continue
        done += 1
        wf = wellformed(wn, res, spec)
        times = [int(t) for t in res.node["head"].index]
        hyd = int(wn.options.time.hydraulic_timestep)
        rep = wn.options.time.report_timestep
        if wf:
            run.violation("results_not_well_formed", wf, input={"spec": spec})
        # steps of the fault-free run: consecutive solver calls at the same time form one step
        steps = []
        for t in calls:
            if steps and steps[-1][0] == t:
                steps[-1][1] += 1
            else:
                steps.append([t, 1])
        rset = set(times)
        steps_c = "[" + "; ".join("{| s_time := %d; s_solves := %d%%nat; s_report := %s |}" % (t, n, "true" if t in rset else "false")
                                  for t, n in steps) + "]"
        grid = "true" if isinstance(rep, str) else "on_grid %d [%s]" % (int(rep), "; ".join("%d%%Z" % t for t in times))
        cases.append((len(cases), "(increasingb [%s] && %s && zlist_eqb (reported_times %s) [%s]) = true" % (
            "; ".join("%d%%Z" % t for t in times), grid, steps_c, "; ".join("%d%%Z" % t for t in times))))
        meta[len(cases) - 1] = {"check": "fault-free index", "spec": spec, "times": times, "steps": steps}
        run.case({"net": k, "ff": True}, len(times) > 1, None)
        ncalls = len(calls)
        max_solves = max(n for _, n in steps)
        run.count("max_solves_per_step=%d" % max_solves)
        head_ff = res.node["head"]
        fault_specs = []
        for _ in range(6 if thorough else 4):
            kf = rng.randrange(ncalls)
            backup = rng.random() < 0.5
            fl = [kf] + ([kf + 1] if backup and rng.random() < 0.6 else [])
            fault_specs.append((fl, backup, rng.random() < 0.5, None))
        if max_solves > 1:
            fault_specs.append(([], False, rng.random() < 0.5, max_solves - 2))     # trial limit exceeded
        if max_solves > 1:
            fault_specs.append(([], False, False, max_solves - 2))     # ... with convergence_error=False and UNBALANCED CONTINUE set (below)
        for fi, (fl, backup, conv_err, trials) in enumerate(fault_specs):
            unb = None
            if fi == len(fault_specs) - 1 and max_solves > 1:
                unb = rng.choice([0, 0, 1, 5])
                run.count("unbalanced_continue_set")
            elif rng.random() < 0.3:
                unb = 0
            try:
                wn2, res2, err2, warned2, calls2 = run_impl(wntr, spec, fl, backup, conv_err, trials, unbalanced=unb)
            except Exception as e:
                run.violation("faulty_run_crashed", "run with an injected solver failure raised %s" % e, input={"spec": spec, "fail": fl})
                continue
            if err2 is not None and not err2.startswith("RuntimeError"):
                run.violation("faulty_run_crashed", "run with an injected solver failure raised " + err2,
                              input={"spec": spec, "fail_calls": fl, "backup": backup, "convergence_error": conv_err})
                continue
            if res2 is None:
                ending, ts = "Raised", []
            else:
                ts = [int(t) for t in res2.node["head"].index]
                bad = res2.error_code is not None and int(res2.error_code) == 0
                ending = "Warned" if (bad or warned2) else "Completed"
                if bad != warned2:
                    run.violation("warning_and_error_code_disagree", "error_code set without warning or vice versa",
                                  input={"spec": spec, "fail_calls": fl})
                wf = wellformed(wn2, res2, spec) if ts else None
                if wf:
                    run.violation("results_not_well_formed", wf + " (faulty run)", input={"spec": spec, "fail_calls": fl})
                # values before the failure equal the fault-free run
                for t in ts:
                    if t in head_ff.index and not (head_ff.loc[t].values == res2.node["head"].loc[t].values).all():
                        if max(abs(head_ff.loc[t].values - res2.node["head"].loc[t].values)) > 1e-6:
                            run.violation("prefix_values_differ", "a step reported before the failure differs from the fault-free run",
                                          input={"spec": spec, "fail_calls": fl, "time": t})
                            break
            mt = wn.options.hydraulic.trials if trials is None else trials
            prop = "same (outcome %s %s (fails_of [%s]) %d%%nat %s) %s [%s] = true" % (
                "true" if backup else "false", "true" if conv_err else "false", "; ".join("%d%%nat" % i for i in fl), int(mt), steps_c,
                ending, "; ".join("%d%%Z" % t for t in ts))
            cases.append((len(cases), prop))
            meta[len(cases) - 1] = {"check": "faulty run", "spec": spec, "fail_calls": fl, "backup": backup, "convergence_error": conv_err,
                                    "trials": trials, "impl_ending": ending, "impl_times": ts, "steps": steps, "error": err2}
            run.case({"net": k, "f": fl, "b": backup, "c": conv_err, "t": trials}, bool(fl and calls[fl[0]] > 0) or trials is not None,
                     meta[len(cases) - 1] if len(cases) == 3 else None)
            run.count("ending=" + ending)
            run.count("backup" if backup else "no_backup")
    res_, errors = common.run_prop_cases("C16", HEADER, TACTIC, cases, shard=80)
    for e in errors:
        run.tie_broken("correspondence case file failed to compile", e)
    for cid, _ in cases:
        run.obligations += 1
        if res_.get(cid):
            run.discharged += 1
        elif cid in res_:
            m = meta[cid]
            if m["check"] == "faulty run":
                run.violation("failed_step_not_reported_as_specified",
                              "a run with a failing solver call ended as %s with index %s; the model (RuntimeError iff convergence_error, "
                              "else warning+error_code, steps before the failure kept) says otherwise" % (m["impl_ending"], m["impl_times"][-3:]), input=m)
            else:
                run.violation("time_index_not_well_formed", "time index not strictly increasing / off the report grid / not the solved steps", input=m)
    run.extra["networks"] = done
