"""C09 -- isolated junctions are zeroed; connected ones never are.

Theorems (C09/Property.v): the model's flagged set is exactly {junction | no path of non-closed links to a tank/reservoir}.
Tie (T3, decided inside coqc by vm_compute): at EVERY solve of real WNTRSimulator runs (freshly compiled
network_isolation extension) the junction and link `_is_isolated` flags equal the model's sets computed from the
link statuses at that moment; at every reported step the reported demand / pressure / flow of the model-isolated
junctions and links are zero.  Histories of openings/closings come from time controls, rules, tank-level and
pressure controls, check valves and pumps of generated networks with parallel links drawn in both directions.
"""
import random

import common
import netgen
import simrun
from common import q_of_float

HEADER = """From Coq Require Import QArith List Bool Arith.
From WNTRV Require Import C09.Model C09.Graph.
Import ListNotations.
Definition iso_ok links nodes sources juncs (implJ implL : list nat) : bool :=
  match isolated_model links nodes sources juncs with
  | Some iso => set_eqb iso implJ && set_eqb (isolated_links links iso) implL
  | None => false end.
Definition zero_ok links nodes sources juncs dem pres flow : bool :=
  match isolated_model links nodes sources juncs with
  | Some iso => zeros_ok iso (isolated_links links iso) dem pres flow
  | None => false end.
"""
TACTIC = "vm_compute; reflexivity"


class GraphTrace:
    """records what _initialize_internal_graph / _update_internal_graph of the real simulator leave in the CSR data array
    (read through the simulator's own link -> data index map), the change tracker's report each update consumed, and the
    open/closed flags of the links at that moment"""

    def __init__(self, wntr, link_names):
        self.wntr, self.link_names = wntr, link_names
        self.runs = []          # one record per _initialize_internal_graph: [flags, entries, updates]
        self.asym = 0

    def _entries(self, sim, wn):
        data = sim._internal_graph.data
        out = []
        for l in self.link_names:
            n1, n2 = sim._map_link_to_internal_graph_data_ndx[wn.get_link(l)]
            if int(data[n1]) != int(data[n2]):
                self.asym += 1
            out.append(int(data[n1]))
        return out

    def _flags(self, wn):
        C = self.wntr.network.LinkStatus.Closed
        return [wn.get_link(l).status != C for l in self.link_names]

    def __enter__(self):
        S = self.wntr.sim.core.WNTRSimulator
        self.o_init, self.o_upd = S._initialize_internal_graph, S._update_internal_graph
        me = self
        idx = {n: i for i, n in enumerate(self.link_names)}

        def w_init(sim):
            me.o_init(sim)
            me.runs.append([me._flags(sim._wn), me._entries(sim, sim._wn), []])

        def w_upd(sim):
            ch = [idx[o.name] for o, a in sim._change_tracker.get_changes(ref_point='graph') if a == 'status' and o.name in idx]
            me.o_upd(sim)
            if me.runs:
                me.runs[-1][2].append((ch, me._flags(sim._wn), me._entries(sim, sim._wn)))
        S._initialize_internal_graph, S._update_internal_graph = w_init, w_upd
        return self

    def __exit__(self, *a):
        S = self.wntr.sim.core.WNTRSimulator
        S._initialize_internal_graph, S._update_internal_graph = self.o_init, self.o_upd


def more_cuts(rng, spec):
    """more closed links / close-open schedules so that parts of the network get cut off and reconnected"""
    hs = spec["options"]["hydraulic_timestep"]
    names = [p["name"] for p in spec["pipes"]]
    for _ in range(rng.randint(1, 4)):
        ln = rng.choice(names)
        t1 = rng.choice([hs, 2 * hs, hs + 300, 3 * hs])
        spec["controls"].append({"kind": "time", "link": ln, "time": t1, "status": "CLOSED", "priority": 3})
        if rng.random() < 0.6:
            spec["controls"].append({"kind": "time", "link": ln, "time": t1 + rng.choice([hs, 2 * hs]), "status": "OPEN", "priority": 3})
    for p in spec["pipes"]:
        p["cv"] = False
        if rng.random() < 0.15:
            p["status"] = "CLOSED"


def check(run, replay=None):
    wntr = common.import_wntr(build_ext=True)
    thorough = run.tier == "thorough"
    rng = random.Random(run.seed * 7477 + 9)
    run.rule = ("generated networks (netgen; parallel links in both directions, dead ends, several sources, closed links) with "
                "schedules of time controls/rules/level/pressure controls that cut parts off and reconnect them; one case per solve "
                "(flags) and per reported step (zeros); non-trivial = at least one junction is isolated at that solve; distinct by "
                "(network, time, status vector)")
    run.trusted += ["tracing wrapper around store_results_in_network (reads link.status and the _is_isolated flags)",
                    "freshly compiled _network_isolation extension"]
    run.assumptions += ["every change of a link status between two matrix updates is made by a control action observed by the change "
                        "tracker (the theorem's hypothesis; checked per traced update by tracker_complete)",
                        "self-loop links are not generated (for a pair (u, u) the code collects every link at u)"]
    ok, log, fails = common.coq_make(["theories/C09/Proofs.vo", "theories/C09/GraphProofs.vo", "theories/C09/Total.vo"])
    if not ok:
        for f, ln, msg in fails:
            run.tie_broken("proof no longer checks: %s line %s: %s" % (f, ln, common.theorem_line(f, ln)), msg)
        for n in common.property_theorems(common.THEORIES + "/C09/Property.v"):
            run.obligation(False, n)
    else:
        common.check_property_file(run, "C09/Property.v")
    cases, meta = [], {}

    def add_case(prop, m):
        cases.append((len(cases), prop))
        meta[len(cases) - 1] = m
    n_nets = 300 if thorough else 60
    done = 0
    for k in range(n_nets):
        spec = netgen.gen_spec(rng, feat={"parallel": 0.8, "leaks": 0.1, "closed": 0.4, "time_controls": 0.9, "pdd": 0.3})
        more_cuts(rng, spec)
        seen = set()
        spec["leaks"] = [l for l in spec["leaks"] if not (l["node"] in seen or seen.add(l["node"]))]
        try:
            wn = netgen.build(spec, wntr)
        except Exception:
            continue
        node_names = wn.junction_name_list + wn.tank_name_list + wn.reservoir_name_list
        link_names = wn.pipe_name_list + wn.head_pump_name_list + wn.power_pump_name_list + wn.valve_name_list
        nidx = {n: i for i, n in enumerate(node_names)}
        nj = len(wn.junction_name_list)
        nodes_c = "[%s]" % "; ".join("%d%%nat" % i for i in range(len(node_names)))
        juncs_c = "[%s]" % "; ".join("%d%%nat" % i for i in range(nj))
        src_c = "[%s]" % "; ".join("%d%%nat" % i for i in range(nj, len(node_names)))
        snaps = {}
        allsnaps = []

        def cb(wn_, m):
            st = [wn_.get_link(l).status != wntr.network.LinkStatus.Closed for l in link_names]
            ij = [nidx[n] for n, j in wn_.junctions() if j._is_isolated]
            il = [i for i, l in enumerate(link_names) if wn_.get_link(l)._is_isolated]
            snap = (int(wn_.sim_time), tuple(st), tuple(ij), tuple(il))
            snaps[int(wn_.sim_time)] = snap
            allsnaps.append(snap)
        reuse = rng.random() < 0.4
        with simrun.Trace(wntr, cb), GraphTrace(wntr, link_names) as gt:
            res, err, warns, sim = simrun.run(wntr, wn)
            if reuse and res is not None:
                # the same simulator object runs the reset model a second time (flags of every solve are traced like those of the first run)
                snaps1 = dict(snaps)
                n1 = len(allsnaps)
                wn.reset_initial_values()
                err2 = None
                try:
                    import warnings as _w
                    with _w.catch_warnings():
                        _w.simplefilter("ignore")
                        sim.run_sim()
                except Exception as e:   # noqa
                    err2 = "%s: %s" % (type(e).__name__, e)
                snaps.clear()
                snaps.update(snaps1)
                run.count("simulator_object_reused")
                if simrun.converged(res, err, warns) and (err2 is not None or allsnaps[n1:] != allsnaps[:n1]):
                    first = next((i for i, (a, b) in enumerate(zip(allsnaps[:n1], allsnaps[n1:])) if a != b), min(n1, len(allsnaps) - n1))
                    run.violation("second_run_of_the_simulator_treats_cut_off_parts_differently",
                                  "C09: after reset_initial_values the same simulator object does not reproduce the isolation flags / solves of its "
                                  "first run (error: %s; first differing solve: #%d)" % (err2, first),
                                  input={"spec": spec, "second_run_error": err2, "solves_first_run": n1, "solves_second_run": len(allsnaps) - n1,
                                         "first_run_solve": list(allsnaps[first]) if first < n1 else None,
                                         "second_run_solve": list(allsnaps[n1 + first]) if n1 + first < len(allsnaps) else None})
        for (f0, e0, upds) in gt.runs:
            # the matrix bookkeeping is tied whatever became of the run (it precedes every solve)
            def nl(xs):
                return "[" + "; ".join("%d%%nat" % x for x in xs) + "]"

            def bl(xs):
                return "[" + "; ".join("true" if x else "false" for x in xs) + "]"
            lk0 = "[" + "; ".join("(%d%%nat, %d%%nat, %s)" % (nidx[wn.get_link(l).start_node_name], nidx[wn.get_link(l).end_node_name],
                                                              "true" if o else "false") for l, o in zip(link_names, f0)) + "]"
            ups = upds[:400]
            hist = "[" + "; ".join("(%s, %s, %s)" % (nl(c), bl(f), nl(e)) for c, f, e in ups) + "]"
            add_case("graph_ok %s %s %s = true" % (lk0, nl(e0), hist),
                     {"check": "connectivity matrix", "spec": spec, "links": link_names, "initial_open": f0, "initial_entries": e0,
                      "simulator_object_reused": reuse,
                      "updates": [{"tracker_changed": [link_names[i] for i in c], "open": f, "entries": e} for c, f, e in ups[:50]]})
            nflip = sum(1 for c, f, e in ups if c)
            run.case({"net": k, "graph": True, "n": len(ups)}, nflip > 0, None)
            run.count("matrix_updates", len(ups))
            run.count("matrix_updates_with_status_changes", nflip)
        if gt.asym:
            run.violation("connectivity_matrix_not_symmetric", "C09: the two entries of a link in the internal graph differ", input={"spec": spec})
        if res is None:
            continue
        done += 1

        def links_c(st):
            return "[" + "; ".join("(%d%%nat, %d%%nat, %s)" % (nidx[wn.get_link(l).start_node_name], nidx[wn.get_link(l).end_node_name],
                                                              "true" if o else "false") for l, o in zip(link_names, st)) + "]"
        seen_s = set()
        for (t, st, ij, il) in allsnaps:
            if (st, ij, il) in seen_s:
                continue
            seen_s.add((st, ij, il))
            add_case("iso_ok %s %s %s %s [%s] [%s] = true" % (links_c(st), nodes_c, src_c, juncs_c,
                                                             "; ".join("%d%%nat" % i for i in ij), "; ".join("%d%%nat" % i for i in il)),
                     {"check": "isolated flags", "spec": spec, "time": t, "open": dict(zip(link_names, st)),
                      "impl_isolated_junctions": [node_names[i] for i in ij], "impl_isolated_links": [link_names[i] for i in il]})
            run.case({"net": k, "st": st}, len(ij) > 0, None)
            run.count("solves_with_isolation" if ij else "solves_without_isolation")
        if simrun.converged(res, err, warns):
            for t in res.node["demand"].index:
                t = int(t)
                if t not in snaps:
                    continue
                st = snaps[t][1]
                dem = [float(res.node["demand"].loc[t, n]) for n in node_names]
                pre = [float(res.node["pressure"].loc[t, n]) for n in node_names]
                flo = [float(res.link["flowrate"].loc[t, l]) for l in link_names]
                add_case("zero_ok %s %s %s %s [%s] [%s] [%s] = true" % (
                    links_c(st), nodes_c, src_c, juncs_c, "; ".join(map(q_of_float, dem)), "; ".join(map(q_of_float, pre)),
                    "; ".join(map(q_of_float, flo))),
                    {"check": "reported zeros", "spec": spec, "time": t, "open": dict(zip(link_names, st)),
                     "demand": dict(zip(node_names, dem)), "pressure": dict(zip(node_names, pre)), "flow": dict(zip(link_names, flo))})
        # ---- a run paused by its own simulator object, a link removed or added during the pause, continued by the SAME object ----
        if rng.random() < 0.5 and len(spec["pipes"]) >= 2:
            try:
                wnp = netgen.build(spec, wntr)
                hs_ = spec["options"]["hydraulic_timestep"]
                T_ = spec["options"]["duration"]
                T1 = hs_ * max(1, (T_ // hs_) // 2)
                wnp.options.time.duration = T1
                simp = wntr.sim.WNTRSimulator(wnp)
                import warnings as _w
                with _w.catch_warnings():
                    _w.simplefilter("ignore")
                    simp.run_sim()
                    ctl_links = {c_["link"] for c_ in spec["controls"]} | {a_ for r_ in spec["rules"] for a_ in [r_.get("link")] if a_}
                    if rng.random() < 0.5:
                        victims = [p_["name"] for p_ in spec["pipes"] if p_["name"] not in ctl_links and not wnp.get_link(p_["name"])._is_isolated]
                        edit = ("remove", rng.choice(victims)) if victims else None
                        if edit:
                            try:
                                wnp.remove_link(edit[1])
                            except Exception:
                                edit = None
                    else:
                        a_, b_ = rng.sample(node_names, 2)
                        wnp.add_pipe("PXNEW", a_, b_, length=120.0, diameter=0.25, roughness=110.0)
                        edit = ("add", "PXNEW", a_, b_)
                    if edit:
                        ln2 = wnp.pipe_name_list + wnp.head_pump_name_list + wnp.power_pump_name_list + wnp.valve_name_list
                        snaps2 = []

                        def cb2(wn_, m):
                            st_ = [wn_.get_link(l).status != wntr.network.LinkStatus.Closed for l in ln2]
                            snaps2.append((int(wn_.sim_time), tuple(st_), tuple(nidx[n] for n, j in wn_.junctions() if j._is_isolated),
                                           tuple(i for i, l in enumerate(ln2) if wn_.get_link(l)._is_isolated)))
                        wnp.options.time.duration = T_
                        with simrun.Trace(wntr, cb2):
                            try:
                                simp.run_sim()
                            except Exception:
                                pass
                        run.count("continued by the same simulator after a link was " + ("removed" if edit[0] == "remove" else "added"))
                        seen2 = set()
                        for (t, st, ij, il) in snaps2:
                            if (st, ij, il) in seen2:
                                continue
                            seen2.add((st, ij, il))
                            lc = "[" + "; ".join("(%d%%nat, %d%%nat, %s)" % (nidx[wnp.get_link(l).start_node_name], nidx[wnp.get_link(l).end_node_name],
                                                                              "true" if o else "false") for l, o in zip(ln2, st)) + "]"
                            add_case("iso_ok %s %s %s %s [%s] [%s] = true" % (lc, nodes_c, src_c, juncs_c, "; ".join("%d%%nat" % i for i in ij), "; ".join("%d%%nat" % i for i in il)),
                                     {"check": "isolated flags", "spec": spec, "time": t, "edit_during_the_pause": list(edit), "paused_at": T1, "open": dict(zip(ln2, st)),
                                      "impl_isolated_junctions": [node_names[i] for i in ij], "impl_isolated_links": [ln2[i] for i in il]})
                            run.case({"net": k, "st": st, "edited": True}, len(ij) > 0, None)
            except Exception as e_:   # noqa
                run.count("pause-edit scenario failed: " + type(e_).__name__)
        if k < 1:
            run.samples.append({"spec": spec})
    res_, errors = common.run_prop_cases("C09", HEADER, TACTIC, cases, shard=200)
    for e in errors:
        run.tie_broken("correspondence case file failed to compile", e)
    for cid, _ in cases:
        run.obligations += 1
        if res_.get(cid):
            run.discharged += 1
        elif cid in res_:
            m = meta[cid]
            run.violation("isolation_flags_differ_from_reachability" if m["check"] == "isolated flags" else
                          "connectivity_matrix_differs_from_model" if m["check"] == "connectivity matrix" else "isolated_elements_not_zero",
                          "C09: " + m["check"] + " disagree with the model (junction cut off <-> no path of non-closed links to a source)",
                          input=m)
    run.extra["networks_simulated"] = done
    run.extra["cases_in_coq"] = len(cases)
