"""C01 -- mass conservation at every node, DD demand = base x pattern x multiplier.

Theorems: C01/Property.v (row meaning, junction balance, global balance by the divergence identity,
pattern periodicity).  Ties, all decided inside coqc (vm_compute over exact rationals):
  T2  the mass-balance row the real simulator holds for every junction at every solve (DD and PDD, leak on/off)
      reads back as  base - inlets + outlets (+ leak)  with inlets/outlets computed by the MODEL from the link list;
  T4  the reported flow / demand / leak-demand tables satisfy  inflow - outflow = demand + leak  at every node of
      every reported step (junctions, tanks, reservoirs), and in DD mode the reported demand of every connected
      junction equals the model's  sum base * pattern((t + pattern_start) div step mod n) * multiplier.
"""
import random
from fractions import Fraction as F

import common
import netgen
import simrun
from common import q_of_float

HEADER = """From Coq Require Import QArith Qabs ZArith List Bool Reals.
From WNTRV Require Import Lib.Expr Lib.ExprR C01.Model.
Import ListNotations.
"""
TACTIC = "vm_compute; reflexivity"
TOL = "(11 # 10000000)"      # solver tolerance 1e-6 (inf-norm of residuals) + 1e-7
TOLD = "(1 # 1000000000)"


def directed(rng, spec):
    """make the specific situations the property names more likely: a leaking junction that gets cut off"""
    jn = [j["name"] for j in spec["junctions"]]
    hs = spec["options"]["hydraulic_timestep"]
    deg = {n: 0 for n in jn}
    for p in spec["pipes"]:
        for e in (p["start"], p["end"]):
            if e in deg:
                deg[e] += 1
    leafs = [n for n in jn if deg[n] == 1 and not any(v["start"] == n or v["end"] == n for v in spec["valves"])
             and not any(pu["end"] == n for pu in spec["pumps"])]
    if not leafs:
        return
    n = rng.choice(leafs)
    pipe = [p for p in spec["pipes"] if n in (p["start"], p["end"])][0]
    pipe["cv"] = False
    pipe["status"] = "OPEN"
    if not any(l["node"] == n for l in spec["leaks"]):
        spec["leaks"].append({"node": n, "area": 0.001, "cd": 0.75, "start": hs, "end": None})
    spec["controls"].append({"kind": "time", "link": pipe["name"], "time": 2 * hs + rng.choice([0, 600]), "status": "CLOSED", "priority": 3})
    if rng.random() < 0.5:
        spec["controls"].append({"kind": "time", "link": pipe["name"], "time": 4 * hs, "status": "OPEN", "priority": 3})


def check(run, replay=None):
    wntr = common.import_wntr(build_ext=True)
    from wntr.sim.aml import expr as E
    thorough = run.tier == "thorough"
    rng = random.Random(run.seed * 6151 + 1)
    run.rule = ("random small networks (netgen: loops, parallel links in both directions, 1-2 reservoirs, tanks, pumps, valves, CV, "
                "closed links, multi-category demands with patterns of co-prime lengths, leaks, time/level/pressure controls, rules, "
                "DD and PDD, report step numeric or ALL) + a directed stream (leaking dead-end junction cut off by a control); "
                "one case per reported step / per dumped row; non-trivial = the network has >= 2 links with non-zero flow at that step")
    run.trusted += ["row dumper in tools/props/c15.py (tree of the real aml expression)", "netgen/simrun harness",
                    "binary64 -> exact rational conversion of reported values (python fractions)"]
    run.assumptions += ["the Newton solver is an oracle: a step it reports as converged has residual inf-norm < 1e-6 (its exit test); "
                        "the check re-evaluates the balance on the REPORTED tables, so a wrong exit test would show up here",
                        "isolated junctions (reported head = demand = 0) are excluded from the DD demand formula check (C09 decides isolation)"]
    ok, log, fails = common.coq_make(["theories/C01/Proofs.vo"])
    if not ok:
        for f, ln, msg in fails:
            run.tie_broken("proof no longer checks: %s line %s: %s" % (f, ln, common.theorem_line(f, ln)), msg)
        for n in common.property_theorems(common.THEORIES + "/C01/Property.v"):
            run.obligation(False, n)
    else:
        common.check_property_file(run, "C01/Property.v")

    from props.c15 import make_dumper
    cases, meta = [], {}

    def add_case(prop, m):
        cases.append((len(cases), prop))
        meta[len(cases) - 1] = m

    n_nets = 250 if thorough else 45
    done = 0
    skipped = 0
    for k in range(n_nets):
        spec = netgen.gen_spec(rng, feat={"tank_leak": 0.0})
        if k % 3 == 0:
            directed(rng, spec)
        # distinct leak nodes only (add_leak names its controls after the node)
        seen = set()
        spec["leaks"] = [l for l in spec["leaks"] if not (l["node"] in seen or seen.add(l["node"]))]
        try:
            wn = netgen.build(spec, wntr)
        except Exception as e:
            skipped += 1
            continue
        # the model's default demand pattern (entries without a pattern follow options.hydraulic.pattern, whatever it currently names)
        dflt0 = None
        if spec["patterns"] and rng.random() < 0.4:
            dflt0 = rng.choice(sorted(spec["patterns"]))
            wn.options.hydraulic.pattern = dflt0
            run.count("default_pattern_set")
        node_names = wn.junction_name_list + wn.tank_name_list + wn.reservoir_name_list
        link_names = wn.pipe_name_list + wn.head_pump_name_list + wn.power_pump_name_list + wn.valve_name_list
        nidx = {n: i for i, n in enumerate(node_names)}
        NL, NN = len(link_names), len(node_names)
        links_coq = "[" + "; ".join("(%d, %d)%%nat" % (nidx[wn.get_link(l).start_node_name], nidx[wn.get_link(l).end_node_name])
                                    for l in link_names) + "]"
        mode = "PDD" if wn.options.hydraulic.demand_model in ("PDD", "PDA") else "DD"
        rows = {}     # (time, junction) -> (tree text, leak var or None)

        def cb(wn_, m):
            var_no = {}
            for i, l in enumerate(link_names):
                var_no[m.flow[l]] = i
            for n_, i in nidx.items():
                if n_ in m.leak_rate:
                    var_no[m.leak_rate[n_]] = NL + i
                if hasattr(m, "demand") and n_ in m.demand:
                    var_no[m.demand[n_]] = NL + NN + i
            tree_R, _ = make_dumper(E, var_no)
            cd = m.pdd_mass_balance if mode == "PDD" else m.mass_balance
            t = int(wn_.sim_time)
            for jn_, jnode in wn_.junctions():
                if jn_ in cd:
                    try:
                        rows[(t, jn_)] = (tree_R(cd[jn_].expr), (NL + nidx[jn_]) if jnode.leak_status else None, jnode._is_isolated)
                    except Exception as e:   # unexpected shape: reported by the readback check
                        rows[(t, jn_)] = ("(ELeaf (RC 0))", None, False)
                elif not jnode._is_isolated:
                    rows[(t, jn_)] = (None, None, False)   # a connected junction without a mass balance row

        with simrun.Trace(wntr, cb):
            res, err, warns, sim = simrun.run(wntr, wn)
        if not simrun.converged(res, err, warns):
            skipped += 1
            run.count("skipped:not_converged")
            continue
        done += 1
        run.count("mode:" + mode)
        run.count("report:" + str(spec["options"]["report_timestep"]))
        for key in ("leaks", "controls", "rules", "valves", "pumps", "tanks"):
            if spec[key]:
                run.count("has_" + key)
        fl, dm, lk, hd = res.link["flowrate"], res.node["demand"], res.node["leak_demand"], res.node["head"]
        step = int(wn.options.time.pattern_timestep)
        ps = int(wn.options.time.pattern_start)
        mult = wn.options.hydraulic.demand_multiplier
        pats = spec["patterns"]
        for t in res.node["demand"].index:
            t = int(t)
            q = [float(fl.loc[t, l]) for l in link_names]
            d = [float(dm.loc[t, n]) for n in node_names]
            lq = [float(lk.loc[t, n]) for n in node_names]
            desc = {"spec": spec, "time": t}
            add_case("all_balance_ok %s %s [%s] 0%%nat [%s] = true" % (
                TOL, links_coq, "; ".join(q_of_float(x) for x in q),
                "; ".join("(%s, %s)" % (q_of_float(a), q_of_float(b)) for a, b in zip(d, lq))),
                dict(desc, check="node balance", flows=dict(zip(link_names, q)), demand=dict(zip(node_names, d)),
                     leak=dict(zip(node_names, lq))))
            nontrivial = sum(1 for x in q if abs(x) > 1e-9) >= 2
            run.case({"net": k, "t": t}, nontrivial, None)
            if mode == "DD":
                for j in spec["junctions"]:
                    nm = j["name"]
                    if float(hd.loc[t, nm]) == 0.0 and float(dm.loc[t, nm]) == 0.0:
                        continue   # isolated (C09)
                    es = "[" + "; ".join("(%s, %s)" % (q_of_float(x["base"]), "None" if (x["pattern"] or dflt0) is None else
                                                       "Some [%s]" % "; ".join(q_of_float(v) for v in pats[x["pattern"] or dflt0]))
                                         for x in j["demands"]) + "]"
                    add_case("dd_demand_ok %s %s %d%%Z %d%%Z %d%%Z %s %s = true" % (
                        TOLD, es, step, ps, t, q_of_float(mult), q_of_float(float(dm.loc[t, nm]))),
                        dict(desc, check="DD demand formula", junction=nm, reported=float(dm.loc[t, nm])))
        # rows (T2): every junction at every solve that was traced
        for (t, jn_), (tree, leakvar, iso) in rows.items():
            if tree is None:
                run.violation("connected_junction_without_balance_row", "a connected junction has no mass-balance row",
                              input={"spec": spec, "time": t, "junction": jn_})
                continue
            add_case("row_ok %s %d%%nat %s %s = true" % (links_coq, nidx[jn_], tree,
                                                        "None" if leakvar is None else "(Some %d%%nat)" % leakvar),
                     {"spec": spec, "time": t, "junction": jn_, "check": "mass balance row shape", "row": tree[:400]})
        # ---- the model is edited after its first use and simulated again: the second run must follow the CURRENT definitions
        #      (default demand pattern, pattern multipliers, base values, demand multiplier) ----
        if mode == "DD" and spec["junctions"] and rng.random() < (0.9 if thorough else 0.7):
            import copy
            pats2 = copy.deepcopy(pats)
            dflt = dflt0
            edits = []
            names = sorted(pats2)
            if names and rng.random() < 0.7:
                dflt = rng.choice([n_ for n_ in names if n_ != dflt0] or names)
                wn.options.hydraulic.pattern = dflt
                edits.append("default pattern := %s" % dflt)
            if names and rng.random() < 0.6:
                pnm = rng.choice(names)
                pats2[pnm] = [round(rng.uniform(0.3, 1.8), 2) for _ in range(rng.randint(2, 5))]
                wn.get_pattern(pnm).multipliers = list(pats2[pnm])
                edits.append("multipliers of %s := %s" % (pnm, pats2[pnm]))
            mult2 = mult
            if rng.random() < 0.5:
                mult2 = rng.choice([0.5, 0.8, 1.2])
                wn.options.hydraulic.demand_multiplier = mult2
                edits.append("demand multiplier := %s" % mult2)
            bases = {}
            for j in spec["junctions"]:
                if j["demands"] and rng.random() < 0.3:
                    nb = round(rng.uniform(0.0005, 0.004), 4)
                    wn.get_node(j["name"]).demand_timeseries_list[0].base_value = nb
                    bases[j["name"]] = nb
                    edits.append("base of %s[0] := %s" % (j["name"], nb))
            wn.reset_initial_values()
            res2, err2, warns2, sim2 = simrun.run(wntr, wn)
            if edits and simrun.converged(res2, err2, warns2):
                run.count("edited_reruns")
                dm2, hd2 = res2.node["demand"], res2.node["head"]
                for t in list(dm2.index)[:6]:
                    t = int(t)
                    for j in spec["junctions"]:
                        nm = j["name"]
                        if not j["demands"] or (float(hd2.loc[t, nm]) == 0.0 and float(dm2.loc[t, nm]) == 0.0):
                            continue
                        ents = []
                        for i, x in enumerate(j["demands"]):
                            b = bases[nm] if (i == 0 and nm in bases) else x["base"]
                            pn_ = x["pattern"] if x["pattern"] is not None else dflt
                            ents.append("(%s, %s)" % (q_of_float(b), "None" if pn_ is None else "Some [%s]" % "; ".join(q_of_float(v) for v in pats2[pn_])))
                        add_case("dd_demand_ok %s %s %d%%Z %d%%Z %d%%Z %s %s = true" % (
                            TOLD, "[" + "; ".join(ents) + "]", step, ps, t, q_of_float(mult2), q_of_float(float(dm2.loc[t, nm]))),
                            {"spec": spec, "time": t, "check": "DD demand formula after a model edit", "edits_after_first_run": edits,
                             "junction": nm, "reported": float(dm2.loc[t, nm])})
                        run.case({"net": k, "t": t, "edited": nm}, True, None)
        if k < 2:
            run.samples.append({"spec": spec})

    res_, errors = common.run_prop_cases("C01", HEADER, TACTIC, cases, shard=150)
    for e in errors:
        run.tie_broken("correspondence case file failed to compile", e)
    for cid, _ in cases:
        run.obligations += 1
        if res_.get(cid):
            run.discharged += 1
        elif cid in res_:
            m = meta[cid]
            key = {"node balance": "reported_node_balance", "DD demand formula": "dd_demand_formula",
                   "DD demand formula after a model edit": "dd_demand_formula_after_edit",
                   "mass balance row shape": "balance_row_shape"}[m["check"]]
            run.violation(key, "C01 predicate false on the implementation's output: " + m["check"], input=m)
    run.extra["networks_simulated"] = done
    run.extra["networks_skipped"] = skipped
    run.extra["cases_in_coq"] = len(cases)
