"""C08 -- leaks discharge Cd*A*sqrt(2 g p) only while active and only at positive pressure.

T1: Gen/Formulas.v (leak smoothing chain, constants, cubic_spline) regenerated from the source; C08/Proofs re-checked.
Ties decided inside coqc:
  * interval: the residual of the real leak row (junction and tank leaks; dumped conditional expression with the parameter values
    the code computed) equals  q - leak_rate(area, Cd)(h - elev)  over a sweep of heads (negative pressure, inside the 0.1 mm band,
    far above);
  * interval: reported leak_demand of real runs equals reported_leak(active, area, Cd, reported pressure), where `active` is
    decided by the MODEL window [start, end) -- so a leak that discharges outside its window or after remove_leak is caught;
  * vm_compute: the solved time steps and the leak-status timeline of real runs with on/off-grid windows equal Sched.run of the
    two AT TIME controls (window_ok, both instants are solved steps).
Also run: add_leak / run / remove_leak / reset / run cycles (the removed leak must contribute nothing).
"""
import random

import common
import netgen
import simrun
from common import r_of_float as R
from translate import regen
from props.c15 import make_dumper

HEADER = """From Coq Require Import Reals ZArith List Bool Lra.
From Interval Require Import Tactic.
From WNTRV Require Import Lib.Expr Lib.ExprR Gen.Formulas Lib.Spline Lib.SplineMono Lib.Sched C15.Model C15.Proofs C08.Model C08.Proofs C08.Mono.
Import ListNotations.
Local Open Scope R_scope.
Ltac unfold_model := cbv beta iota zeta delta [evalR eval usemR bsemR leafR cst is_const_leaf Nat.eqb cond_eval cond_select option_map].
Ltac resolve1 := first
 [ rewrite pw_2 | rewrite pw_3 | rewrite pw_1
 | match goal with |- context[ineqR ?b ?lo ?hi] =>
     first [rewrite (ineq_in b lo hi) by interval | rewrite (ineq_below b lo hi) by interval
           | rewrite (ineq_above b lo hi) by interval] end
 | match goal with |- context[Req_EM_T ?a ?b] => destruct (Req_EM_T a b); [try lra | try lra] end ].
Ltac prune_dec := repeat match goal with
  | |- context[Rle_dec ?a ?b] =>
      let H := fresh "Hd" in destruct (Rle_dec a b) as [H|H];
      [ try (exfalso; revert H; apply Rlt_not_le; interval) | try (exfalso; apply H; interval) ]
  end.
Ltac model_side := unfold leak_row, reported_leak, leak_rate, ldelta, lslope, g2, c_leak_delta, c_leak_slope; prune_dec;
  unfold leak_coeffs, cubic_spline, poly, c_leak_delta, c_leak_slope; cbv zeta;
  repeat match goal with |- context[pw ?a ?b] => rewrite (pw_pos a b) by interval end.
Ltac solve_case := match goal with
  | |- leak_box _ _ => unfold leak_box, lsec, lf2, lslope, ldelta, c_leak_slope, c_leak_delta; interval
  | _ => first [ vm_compute; reflexivity | unfold_model; repeat resolve1; model_side; interval with (i_prec 70) ]
  end.
"""
TACTIC = "solve_case"


def check(run, replay=None):
    wntr = common.import_wntr(build_ext=True)
    from wntr.sim.aml import expr as E
    from wntr.sim import hydraulics
    thorough = run.tier == "thorough"
    rng = random.Random(run.seed * 7001 + 8)
    run.rule = ("leak rows: junction and tank leaks with area in [1e-4, 2e-3], Cd in {0.6, 0.75, 1.0}, heads giving pressure -20 .. 60 m incl. the "
                "0.1 mm band; runs: generated networks with 1-3 leaks (junctions and tanks), start/end on and off the hydraulic grid, end beyond "
                "the duration or None, DD and PDD; remove_leak/reset/rerun cycles; non-trivial = a step with an active leak at positive pressure")
    run.trusted += ["translator chains.py", "row dumper (c15.py)", "coq-interval", "tracing wrapper (simrun.Trace)"]
    run.assumptions += ["rows: binary64 rounding compared at 1e-9 relative + 1e-12; reported leak demand vs law of the reported pressure: the solver tolerance 2e-6 m3/s", "isolated nodes report 0 leak demand (C09/C01)"]
    errs = regen(["Formulas.v"], common.REPO)
    for e in errs:
        run.tie_broken("translator refused the current source (model is stale)", e)
    ok, log, fails = common.coq_make(["theories/C08/Proofs.vo", "theories/C08/Mono.vo", "theories/C15/Proofs.vo", "theories/C04/Window.vo"])
    if not ok:
        for f, ln, msg in fails:
            run.tie_broken("proof no longer checks against the regenerated formulas: %s line %s: %s" % (f, ln, common.theorem_line(f, ln)), msg)
        for n in common.property_theorems(common.THEORIES + "/C08/Property.v"):
            run.obligation(False, n)
    else:
        common.check_property_file(run, "C08/Property.v")
    cases, meta = [], {}

    def add(prop, m, nt=True):
        cases.append((len(cases), prop))
        meta[len(cases) - 1] = m
        run.case(prop[:250], nt, m if len(cases) in (1, 40) else None)
        run.count(m["check"])
    # (1) rows ----------------------------------------------------------------------------------------------
    for k in range(12 if thorough else 4):
        wn = wntr.network.WaterNetworkModel()
        wn.add_reservoir("R", base_head=60.0)
        wn.add_junction("J", base_demand=0.002, elevation=rng.choice([0.0, 7.5, -4.0]))
        wn.add_tank("T", elevation=rng.choice([20.0, 31.5]), init_level=3.0, min_level=0.5, max_level=6.0, diameter=8.0)
        wn.add_pipe("P1", "R", "J", length=200.0, diameter=0.3, roughness=100)
        wn.add_pipe("P2", "J", "T", length=300.0, diameter=0.25, roughness=100)
        par = {}
        for n in ("J", "T"):
            area, cd = round(rng.uniform(1e-4, 2e-3), 6), rng.choice([0.6, 0.75, 1.0])
            wn.get_node(n).add_leak(wn, area=area, discharge_coeff=cd, start_time=0, end_time=None)
            wn.get_node(n)._leak_status = True
            par[n] = (area, cd)
        m, upd = hydraulics.create_hydraulic_model(wn)
        for n in ("J", "T"):
            if n not in m.leak_con:
                run.violation("no_leak_row_for_active_leak", "no leak row is built for an active leak on %s" % n, input={"node": n})
                continue
            area, cd = par[n]
            # the premise of C08_leak_monotone for this leak: then the discharge is non-decreasing in the pressure everywhere
            add("leak_box %s %s" % (R(area), R(cd)), {"check": "monotonicity premise (leak_box)", "node": n, "area": area, "cd": cd}, True)
            elev = wn.get_node(n).elevation
            hobj = m.head[n] if n == "J" else m.source_head[n]
            qv = m.leak_rate[n]
            ce = m.leak_con[n].expr
            sweep = [-20.0, -0.5, -1e-6, 2e-5, 5e-5, 9.9e-5, 1.5e-4, 0.01, 1.0, 25.0, 60.0]
            if not thorough:
                sweep = rng.sample(sweep, 7)
            for p in sweep:
                h = elev + p
                q = rng.choice([0.0, 0.001])
                # the head leaf is a Var for junctions and a Param for tanks: give it the value before dumping
                hobj.value = h
                qv.value = q
                var_no = {qv: 1}
                if n == "J":
                    var_no[hobj] = 0
                tree_R, _ = make_dumper(E, var_no)
                B = "[" + "; ".join("(%s, %s)" % ("None" if (c.is_leaf() and c.is_float_type()) else "Some " + tree_R(c), tree_R(e))
                                    for c, e in zip(ce._conditions, ce._exprs)) + "]"
                env = "(fun n => match n with | 0%%nat => %s | 1%%nat => %s | _ => 0 end)" % (R(h), R(q))
                add("match cond_eval %s %s with Some x => Rabs (x - leak_row %s %s %s %s %s) <= 1 / 1000000000000 + %s / 1000000000 | None => False end" % (
                    env, B, R(area), R(cd), R(elev), R(q), R(h), R(cd * area * 40)),
                    {"check": "leak row vs law", "node": n, "area": area, "cd": cd, "pressure": p, "elevation": elev}, True)
    # (2) runs ------------------------------------------------------------------------------------------------
    nets = 60 if thorough else 12
    for k in range(nets):
        spec = netgen.gen_spec(rng, feat={"leaks": 0.0, "tanks": 0.8, "rules": 0.1, "time_controls": 0.3, "pressure_controls": 0.1, "level_controls": 0.1})
        hs, dur = spec["options"]["hydraulic_timestep"], spec["options"]["duration"]
        spec["options"]["report_timestep"] = "ALL"
        nodes = [j["name"] for j in spec["junctions"]] + [t["name"] for t in spec["tanks"]]
        for n in rng.sample(nodes, min(len(nodes), rng.randint(1, 3))):
            st = rng.choice([0, hs, hs + 100, 2 * hs, hs // 2, hs + 1234])
            en = rng.choice([None, st + hs, st + 2 * hs + 50, dur, dur + hs, st + 777])
            spec["leaks"].append({"node": n, "area": round(rng.uniform(1e-4, 1.5e-3), 6), "cd": rng.choice([0.6, 0.75]), "start": st, "end": en})
        try:
            wn = netgen.build(spec, wntr)
        except Exception:
            continue
        statuses = {}

        def cb(wn_, m):
            statuses[int(wn_.sim_time)] = {l["node"]: bool(wn_.get_node(l["node"]).leak_status) for l in spec["leaks"]}
        with simrun.Trace(wntr, cb):
            res, err, warns, sim = simrun.run(wntr, wn)
        if res is None or not simrun.converged(res, err, warns):
            run.count("skipped:not_converged")
            continue
        times = [int(t) for t in res.node["leak_demand"].index]
        for lk in spec["leaks"]:
            n, st = lk["node"], lk["start"]
            en = lk["end"] if lk["end"] is not None else 10 ** 9
            desc = {"spec": spec, "leak": lk}
            # status timeline vs Sched (only when no other control can interfere with solved times: compare window + instants)
            tl = [(t, statuses.get(t, {}).get(n, False)) for t in times]
            tr = "[" + "; ".join("(%d%%Z, [%s])" % (t, "true" if s else "false") for t, s in tl) + "]"
            need = ["window_ok %d %d %s" % (st, en, tr)]
            if 0 < st <= dur:
                need.append("has_time %d %s" % (st, tr))
            if lk["end"] is not None and 0 < en <= dur:
                need.append("has_time %d %s" % (en, tr))
            add("(%s) = true" % " && ".join(need), dict(desc, check="leak window", timeline=tl), any(s for _, s in tl))
            area, cd = lk["area"], lk["cd"]
            for t in times[:: max(1, len(times) // 6)]:
                p = float(res.node["pressure"].loc[t, n])
                ld = float(res.node["leak_demand"].loc[t, n])
                active = st <= t < en
                if float(res.node["head"].loc[t, n]) == 0.0 and p == 0.0:
                    active = False        # isolated junction: zeroed (C09)
                if abs(p) < 3e-4 and abs(p) > 0:
                    continue
                # the reported value satisfies the leak row within the solver tolerance (1e-6 m3/s), not exactly
                add("Rabs (%s - reported_leak %s %s %s %s) <= 2 / 1000000" % (
                    R(ld), "true" if active else "false", R(area), R(cd), R(p)),
                    dict(desc, check="reported leak demand", time=t, pressure=p, leak_demand=ld, model_active=active), active and p > 0)
        # remove_leak + reset + rerun: the removed leak contributes nothing
        if spec["leaks"] and k % 2 == 0:
            lk = spec["leaks"][0]
            node = wn.get_node(lk["node"])
            node.remove_leak(wn)
            wn.reset_initial_values()
            res2, err2, warns2, _ = simrun.run(wntr, wn)
            if res2 is not None and simrun.converged(res2, err2, warns2):
                worst = float(res2.node["leak_demand"][lk["node"]].abs().max())
                run.case({"net": k, "removed": lk["node"]}, True, None)
                run.count("remove_leak cycles")
                if worst > 0:
                    run.violation("removed_leak_still_discharges", "after remove_leak + reset_initial_values the node still reports leak demand %.4g" % worst,
                                  input={"spec": spec, "removed": lk})
    res_, errors = common.run_prop_cases("C08", HEADER, TACTIC, cases, shard=50, case_timeout=40)
    for e in errors:
        run.tie_broken("correspondence case file failed to compile", e)
    for cid, _ in cases:
        run.obligations += 1
        if res_.get(cid):
            run.discharged += 1
        elif cid in res_:
            m = meta[cid]
            if m["check"].startswith("monotonicity premise"):
                run.obligations -= 1          # outside the box the monotonicity theorem simply does not apply to this leak
                run.count("leak_box not established for a leak")
                continue
            run.violation("leak_" + m["check"].replace(" ", "_"), "leak: %s does not match the model" % m["check"], input=m)
