"""C17 -- EPANET unit conversions.

T1: Gen/Units.v is regenerated from wntr/epanet/util.py; C17/Property.v is re-checked
    against it (the code IS multiplication by the physical factor table, inverses, linearity).
T4: to_si/from_si of the implementation are run for every table cell on random values and
    all documented container types; results are compared with the regenerated model inside
    Coq by the `interval` tactic (exact binary64 rationals, 1e-12 relative).
Search: an independent Python (Fraction) copy of the physical table is compared with the
    implementation to exhibit a concrete failing input when a theorem breaks.
"""
import math
import random
from fractions import Fraction as F

import common
from translate import regen

HEADER = """From Coq Require Import Reals List Bool ZArith Lra.
From Interval Require Import Tactic.
From WNTRV Require Import Gen.Units.
Local Open Scope R_scope.
Ltac unfold_units := cbv beta iota zeta delta [hyd_to_si hyd_from_si qual_to_si qual_from_si existsb orb andb
     hyd_param_beq qual_param_beq flow_units_beq is_traditional is_metric fu_factor mu_factor Z.eqb Pos.eqb].
"""
TACTIC = "unfold_units; interval with (i_prec 90)"

FT = F(3048, 10000)
US = {"CFS", "GPM", "MGD", "IMGD", "AFD"}
METRIC = {"LPS", "LPM", "MLD", "CMH", "CMD"}
GAL = F(3785411784, 10 ** 12)
SPEC_FLOW = {"CFS": FT ** 3, "GPM": GAL / 60, "MGD": 10 ** 6 * GAL / 86400,
             "IMGD": 10 ** 6 * F(454609, 10 ** 8) / 86400, "AFD": 43560 * FT ** 3 / 86400,
             "LPS": F(1, 1000), "LPM": F(1, 60000), "MLD": F(1000, 86400), "CMH": F(1, 3600),
             "CMD": F(1, 86400), "SI": F(1)}
MASS = {"mg": F(1, 10 ** 6), "ug": F(1, 10 ** 9), "g": F(1, 1000), "kg": F(1)}


def py_spec_hyd(p, u, dw):
    """independent physical table (float; sqrt is irrational) -- used by the failing-input search only"""
    us, me = u in US, u in METRIC
    fl = float(SPEC_FLOW[u])
    if p in ("Demand", "Flow"):
        return fl
    if p == "EmitterCoeff":
        return fl * math.sqrt(0.4333 / 0.3048) if us else fl
    if p == "PipeDiameter":
        return 0.0254 if us else 0.001 if me else 1.0
    if p == "RoughnessCoeff":
        return (0.3048e-3 if us else 0.001 if me else 1.0) if dw else 1.0
    if p in ("TankDiameter", "Elevation", "HydraulicHead", "Length", "Velocity"):
        return 0.3048 if us else 1.0
    if p == "HeadLoss":
        return 0.001
    if p == "Energy":
        return 3.6e6
    if p == "Power":
        return 745.699872 if us else 1000.0 if me else 1.0
    if p == "Pressure":
        return 0.3048 / 0.4333 if us else 1.0
    if p == "Volume":
        return 0.3048 ** 3 if us else 1.0
    raise KeyError(p)


def py_spec_qual(p, u, m, order):
    us = u in US
    mf = float(MASS[m])
    if p in ("Concentration", "Quality", "LinkQuality"):
        return mf / 0.001
    if p == "ReactionRate":
        return mf / 0.001 / 86400
    if p == "SourceMassInject":
        return mf / 60
    if p == "BulkReactionCoeff":
        return 1 / 86400 if order == 1 else 1.0
    if p == "WallReactionCoeff":
        if order == 0:
            return mf * 0.3048 ** 2 / 86400 if us else mf / 86400
        if order == 1:
            return 0.3048 / 86400 if us else 1 / 86400
        return 1.0
    if p == "WaterAge":
        return 3600.0
    raise KeyError(p)


def rand_value(rng):
    k = rng.random()
    if k < 0.1:
        return float(rng.choice([0.0, 1.0, -1.0, 1e-9, 1e9, 12.0, 0.5]))
    e = rng.uniform(-6, 6)
    v = rng.uniform(1, 10) * 10 ** e
    return -v if rng.random() < 0.2 else v


def make_container(kind, vals, np, pd):
    if kind == "scalar":
        return vals[0]
    if kind == "list":
        return list(vals)
    if kind == "array":
        return np.array(vals)
    if kind == "dict":
        return {"k%d" % i: v for i, v in enumerate(vals)}
    raise ValueError(kind)


def unpack(kind, inp, out, np):
    """returns list of output floats if the container shape/type is as documented, else an error string"""
    if kind == "scalar":
        if isinstance(out, (float, np.floating, int)):
            return [float(out)]
        return "scalar in, %s out" % type(out).__name__
    if kind == "list":
        if isinstance(out, list) and len(out) == len(inp):
            return [float(x) for x in out]
        return "list in, %s out" % type(out).__name__
    if kind == "array":
        if isinstance(out, np.ndarray) and out.shape == inp.shape:
            return [float(x) for x in out]
        return "array in, %s out" % type(out).__name__
    if kind == "dict":
        if isinstance(out, dict) and list(out.keys()) == list(inp.keys()):
            return [float(out[k]) for k in inp]
        return "dict in, %s out (keys %s)" % (type(out).__name__, list(out)[:3] if isinstance(out, dict) else "")


def check(run, replay=None):
    run.rule = ("every (HydParam x FlowUnits x darcy_weisbach) and sampled (QualParam x FlowUnits x MassUnits x "
                "reaction order) cell, both directions, random finite values, container kinds "
                "scalar/list/array/dict; a case is distinct by (cell, direction, container, values); non-trivial "
                "unless every value is 0")
    run.trusted += ["translator tools/translate/units.py + pyexpr.py (python ast -> Gallina, fail-closed)",
                    "coq-interval tactic (proof-producing; checked by the kernel)",
                    "harness tools/props/c17.py (binary64 -> exact rational, container shape comparison in Python)"]
    run.assumptions += ["floating-point rounding of the few multiplications per conversion is not modelled: "
                        "implementation results are compared with the real-number model at 1e-12 relative",
                        "pandas DataFrame input of HydParam._to_si is exercised for shape only"]
    # T1 -------------------------------------------------------------------------------------
    errs = regen(["Units.v"], common.REPO)
    for e in errs:
        run.tie_broken("translator refused the current source (model is stale)", e)
    ok, log, fails = common.coq_make(["theories/C17/Proofs.vo"])
    if not ok:
        for f, ln, msg in fails:
            run.tie_broken("proof no longer checks against the regenerated model: %s line %s: %s" %
                           (f, ln, common.theorem_line(f, ln)), msg)
        for n in common.property_theorems(common.THEORIES + "/C17/Property.v"):
            run.obligation(False, n)
    else:
        common.check_property_file(run, "C17/Property.v")

    # T4 -------------------------------------------------------------------------------------
    common.import_wntr(build_ext=False)
    import numpy as np
    import pandas as pd
    from wntr.epanet import util as U
    rng = random.Random(run.seed * 7919 + 17)
    thorough = run.tier == "thorough"
    hyd = [m.name for m in U.HydParam]
    qual = [m.name for m in U.QualParam]
    fus = [m.name for m in U.FlowUnits]
    mus = [m.name for m in U.MassUnits]
    kinds = ["scalar", "list", "array", "dict"]
    cells = []
    for p in hyd:
        for u in fus:
            for dw in (False, True):
                for d in ("to", "from"):
                    cells.append(("hyd", p, u, dw, None, d))
    qcells = []
    for p in qual:
        for u in fus:
            for m in mus:
                for order in (0, 1, 2):
                    for d in ("to", "from"):
                        qcells.append(("qual", p, u, m, order, d))
    if not thorough:
        # all "interesting" quality cells (reaction coefficients) and a sample of the rest
        keep = [c for c in qcells if c[1] in ("WallReactionCoeff", "BulkReactionCoeff")]
        rest = [c for c in qcells if c[1] not in ("WallReactionCoeff", "BulkReactionCoeff")]
        rng.shuffle(rest)
        qcells = keep[::2] + keep[1::4] + rest[:260]
    cells += qcells
    # a conversion is a function of its arguments, not of the calls made before it: the same scalar conversion with the optional arguments
    # alternating (Darcy-Weisbach roughness on / off; mass units and reaction order of the reaction coefficients), in one process
    forced_scalar = set()
    for u in fus:
        for d in ("to", "from"):
            for dw in (False, True, False, True):
                forced_scalar.add(len(cells))
                cells.append(("hyd", "RoughnessCoeff", u, dw, None, d))
        for pq in ("BulkReactionCoeff", "WallReactionCoeff"):
            for (m_, o_) in ((mus[0], 0), (mus[-1], 1), (mus[0], 2), (mus[-1], 0)):
                forced_scalar.add(len(cells))
                cells.append(("qual", pq, u, m_, o_, "to"))
    reps = 3 if thorough else 1
    cases, meta = [], {}
    cid = 0
    for rep in range(reps):
        for ci, cell in enumerate(cells):
            fam, p, u, a, b, d = cell
            kind = "scalar" if ci in forced_scalar else kinds[(ci + rep + (run.seed % 4)) % 4]
            nvals = 1 if kind == "scalar" else rng.randint(1, 3)
            vals = [rand_value(rng) for _ in range(nvals)]
            inp = make_container(kind, vals, np, pd)
            run.count("family=" + fam)
            run.count("container=" + kind)
            run.count("direction=" + d)
            fn = U.to_si if d == "to" else U.from_si
            desc = {"family": fam, "param": p, "flow_units": u, "direction": d, "container": kind, "values": vals}
            try:
                if fam == "hyd":
                    desc["darcy_weisbach"] = a
                    out = fn(U.FlowUnits[u], inp, U.HydParam[p], darcy_weisbach=a)
                else:
                    desc["mass_units"], desc["reaction_order"] = a, b
                    out = fn(U.FlowUnits[u], inp, U.QualParam[p], mass_units=U.MassUnits[a], reaction_order=b)
            except Exception as e:
                run.case(desc, True, None)
                run.count("impl_exception")
                run.violation("%s_%s_container_exception" % (fam, kind),
                              "%s_si raises %s for a %s of %s values" % (d, type(e).__name__, kind, fam),
                              input=desc, impl_output="%s: %s" % (type(e).__name__, e),
                              model_output="conv_container: same container kind, values converted elementwise")
                continue
            outs = unpack(kind, inp, out, np)
            if isinstance(outs, str):
                run.case(desc, True, None)
                run.violation("%s_%s_container_shape" % (fam, kind), "container kind not preserved: " + outs,
                              input=desc, impl_output=repr(out)[:200],
                              model_output="conv_container: same container kind")
                continue
            coqfn = {"hyd": "hyd", "qual": "qual"}[fam] + ("_to_si" if d == "to" else "_from_si")
            if fam == "hyd":
                args = "%s %s %s" % (p, u, "true" if a else "false")
            else:
                args = "%s %s %s %d" % (p, u, a, b)
            for v, y in zip(vals, outs):
                if not (math.isfinite(y)):
                    run.violation("nonfinite_output", "conversion of a finite value is not finite", input=desc,
                                  impl_output=y)
                    continue
                tol = F(abs(F(y))) / 10 ** 12
                prop = "Rabs (%s %s %s - %s) <= %s" % (coqfn, args, common.r_of_float(v), common.r_of_float(y),
                                                     "(%d / %d)" % (tol.numerator, tol.denominator))
                cases.append((cid, prop))
                meta[cid] = dict(desc, value=v, impl=y)
                cid += 1
            run.case(desc, any(v != 0 for v in vals), desc if ci % 97 == 0 else None)
    res, errors = common.run_prop_cases("C17", HEADER, TACTIC, cases, shard=250)
    for e in errors:
        run.tie_broken("correspondence case file failed to compile", e)
    nbad = 0
    for i, _ in cases:
        run.obligations += 1
        if res.get(i):
            run.discharged += 1
        elif i in res:
            nbad += 1
            m = meta[i]
            # the model and the implementation differ on this input.  Which one violates the property?
            spec = py_spec_hyd(m["param"], m["flow_units"], m.get("darcy_weisbach")) if m["family"] == "hyd" else \
                py_spec_qual(m["param"], m["flow_units"], m["mass_units"], m["reaction_order"])
            exp = m["value"] * spec if m["direction"] == "to" else m["value"] / spec
            if abs(exp - m["impl"]) > 1e-5 * abs(exp):
                run.violation("impl_vs_physical_%s_%s" % (m["family"], m["param"]),
                              "implementation result differs from the physical factor table",
                              input=m, impl_output=m["impl"], expected=exp)
            else:
                run.tie_broken("correspondence: model (Gen/Units.v) and implementation differ on a case", str(m))
    run.extra["interval_cases"] = len(cases)
    run.extra["interval_cases_bad"] = nbad

    # failing-input search when a theorem or the translator broke: implementation vs independent physical table
    if run.ties_broken and not run.violations:
        search(run, U, rng)


def search(run, U, rng):
    for p in [m.name for m in U.HydParam]:
        for u in [m.name for m in U.FlowUnits]:
            for dw in (False, True):
                for v in (1.0, 12.0, rand_value(rng)):
                    spec = py_spec_hyd(p, u, dw)
                    y = U.to_si(U.FlowUnits[u], v, U.HydParam[p], darcy_weisbach=dw)
                    yb = U.from_si(U.FlowUnits[u], y, U.HydParam[p], darcy_weisbach=dw)
                    tol = 3e-9 if p in ("Demand", "Flow", "EmitterCoeff") else 1e-12
                    desc = {"family": "hyd", "param": p, "flow_units": u, "darcy_weisbach": dw, "value": v}
                    if abs(y - v * spec) > tol * abs(v * spec) + 1e-300:
                        run.violation("search_hyd_factor_%s_%s" % (p, "US" if u in US else "metric"),
                                      "to_si differs from the physical definition", input=desc, impl_output=y,
                                      expected=v * spec)
                    if abs(yb - v) > 1e-12 * abs(v):
                        run.violation("search_hyd_inverse_%s" % p, "from_si(to_si(x)) != x", input=desc,
                                      impl_output=yb, expected=v)
    for p in [m.name for m in U.QualParam]:
        for u in [m.name for m in U.FlowUnits]:
            for m_ in [m.name for m in U.MassUnits]:
                for order in (0, 1, 2):
                    v = rand_value(rng) or 1.0
                    spec = py_spec_qual(p, u, m_, order)
                    y = U.to_si(U.FlowUnits[u], v, U.QualParam[p], mass_units=U.MassUnits[m_], reaction_order=order)
                    yb = U.from_si(U.FlowUnits[u], y, U.QualParam[p], mass_units=U.MassUnits[m_], reaction_order=order)
                    desc = {"family": "qual", "param": p, "flow_units": u, "mass_units": m_, "reaction_order": order,
                            "value": v}
                    tol = 2e-6 if p == "WallReactionCoeff" else 1e-12
                    if abs(y - v * spec) > tol * abs(v * spec):
                        run.violation("search_qual_factor_%s" % p, "to_si differs from the physical definition",
                                      input=desc, impl_output=y, expected=v * spec)
                    if abs(yb - v) > 1e-12 * abs(v):
                        run.violation("search_qual_inverse_%s" % p, "from_si(to_si(x)) != x", input=desc,
                                      impl_output=yb, expected=v)
