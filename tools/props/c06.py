"""C06 -- tank volumes integrate their net inflow and stay within their limits.

Theorems (C06/Property.v): cylindrical integration identity (one and several steps), thresholds are met by a partial time step
with an overshoot below one second of the tank's flow (rising and falling; Flocq Zfloor for the whole-second backtrack).
Ties decided inside coqc by interval arithmetic on the reported tables of real runs (report_timestep='ALL' = every solved step):
  * between consecutive solved steps  (head2 - head1) * pi d^2 / 4 = demand1 * (t2 - t1)   for every cylindrical tank;
  * the first reported head is elevation + init_level;
  * every reported level lies within [min_level - 2|q|/A, max_level + 2|q|/A];
  * a tank at (or below) its minimum level does not discharge, one at (or above) its maximum level does not fill.
Generated networks drive tanks to both limits (small tanks, long runs, demand patterns), with several links at the tank
(pumps, CV pipes) and user controls of every priority firing inside the step in which a limit is reached.
Volume-curve tanks: the clamping of np.interp outside the curve is a recorded finding; they are not part of the sweep.
"""
import random

import common
import netgen
import simrun
from common import r_of_float as R

HEADER = """From Coq Require Import Reals ZArith Lra.
From Interval Require Import Tactic.
From WNTRV Require Import C06.Model.
Local Open Scope R_scope.
Ltac solve_case := unfold volume, area, new_head; interval with (i_prec 70).
"""
TACTIC = "solve_case"
QTOL = 2.83168e-6


def tank_spec(rng):
    """networks in which tanks reach their limits"""
    spec = netgen.gen_spec(rng, feat={"tanks": 1.0, "leaks": 0.0, "valves": 0.1, "pumps": 0.3, "cv": 0.3, "level_controls": 0.3, "rules": 0.2,
                                      "time_controls": 0.8, "pressure_controls": 0.1, "pdd": 0.2, "parallel": 0.3})
    o = spec["options"]
    o["report_timestep"] = "ALL"
    o["duration"] = o["hydraulic_timestep"] * rng.randint(8, 20)
    if rng.random() < 0.5:
        # a rule step that does not divide the hydraulic step (rule instants are visited whether or not rules exist)
        if rng.random() < 0.5:
            o["hydraulic_timestep"] = 900
            o["pattern_timestep"] = rng.choice([900, 1800, 3600])
            o["duration"] = 900 * rng.randint(8, 20)
        o["rule_timestep"] = rng.choice([420, 360 if o["hydraulic_timestep"] == 900 else 700, 700, 250])
    for t in spec["tanks"]:
        t["diameter"] = round(rng.uniform(1.5, 4.0), 1)           # small: levels move fast
        t["min_level"] = round(rng.uniform(0.3, 1.0), 2)
        t["max_level"] = round(rng.uniform(3.5, 5.0), 2)
        t["init_level"] = round(rng.uniform(t["min_level"] + 0.2, t["max_level"] - 0.2), 2)
        t["elevation"] = round(rng.uniform(20.0, 45.0), 1)
    for j in spec["junctions"]:
        for d in j["demands"]:
            d["base"] = round(d["base"] * rng.choice([1, 2, 4]), 4)
    # time controls with explicit low / high priorities at off-grid instants
    names = [p["name"] for p in spec["pipes"] if not p["cv"]]
    hs = o["hydraulic_timestep"]
    for _ in range(rng.randint(1, 3)):
        if names:
            t1 = rng.randrange(1, o["duration"] // hs) * hs + rng.choice([0, 300, 1234, hs // 2])
            ln = rng.choice(names)
            spec["controls"].append({"kind": "time", "link": ln, "time": t1, "status": "CLOSED", "priority": rng.choice([0, 1, 1, 3, 5])})
            spec["controls"].append({"kind": "time", "link": ln, "time": t1 + rng.choice([hs, 700]), "status": "OPEN", "priority": rng.choice([1, 3])})
    return spec


def check(run, replay=None):
    wntr = common.import_wntr(build_ext=True)
    thorough = run.tier == "thorough"
    rng = random.Random(run.seed * 1607 + 6)
    run.rule = ("generated networks with 1-2 small cylindrical tanks (diameter 1.5-4 m, limits 0.3-5 m), 8-20 hydraulic steps, demand patterns, "
                "pumps / CV pipes / several links at the tank, user time controls of priority 0-5 at off-grid instants, level controls, rules; "
                "one case per tank per pair of consecutive solved steps; non-trivial = |tank flow| > 1e-6")
    run.trusted += ["coq-interval", "harness tools/props/c06.py (reads reported tables)"]
    run.assumptions += ["binary64 rounding at 1e-9 relative on volumes", "volume-curve tanks are excluded (recorded finding: np.interp clamps)",
                        "limit tolerance: the level change of 2 s of the step's own flow + 1e-6 m"]
    ok, log, fails = common.coq_make(["theories/C06/Proofs.vo", "theories/C05/Tank.vo", "theories/C06/Limits.vo"])
    if not ok:
        for f, ln, msg in fails:
            run.tie_broken("proof no longer checks: %s line %s: %s" % (f, ln, common.theorem_line(f, ln)), msg)
        for n in common.property_theorems(common.THEORIES + "/C06/Property.v"):
            run.obligation(False, n)
    else:
        common.check_property_file(run, "C06/Property.v")
    cases, meta = [], {}

    def add(prop, m, nt=True):
        cases.append((len(cases), prop))
        meta[len(cases) - 1] = m
        run.case(prop[:250], nt, {k: v for k, v in m.items() if k != "spec"} if len(cases) in (1, 50) else None)
        run.count(m["check"])
    nets = 80 if thorough else 16
    done = 0
    for k in range(nets * 2):
        if done >= nets:
            break
        spec = tank_spec(rng)
        if not spec["tanks"]:
            continue
        try:
            wn = netgen.build(spec, wntr)
        except Exception:
            continue
        res, err, warns, sim = simrun.run(wntr, wn)
        if not simrun.converged(res, err, warns):
            run.count("skipped:not_converged")
            continue
        done += 1
        H, D = res.node["head"], res.node["demand"]
        times = [int(t) for t in H.index]
        for t in spec["tanks"]:
            nm, d, elev = t["name"], t["diameter"], t["elevation"]
            A = 3.141592653589793 * d * d / 4
            h0 = float(H.loc[times[0], nm])
            add("Rabs (%s - (%s + %s)) <= 1 / 1000000000" % (R(h0), R(elev), R(t["init_level"])),
                {"check": "starts at init_level", "spec": spec, "tank": nm, "head0": h0})
            hit = False
            for t1, t2 in zip(times, times[1:]):
                h1, h2, q1 = float(H.loc[t1, nm]), float(H.loc[t2, nm]), float(D.loc[t1, nm])
                add("Rabs ((%s - %s) * PI * %s ^ 2 / 4 - %s * %s) <= 1 / 100000000 + Rabs (%s * %s) / 100000000" % (
                    R(h2), R(h1), R(d), R(q1), R(float(t2 - t1)), R(q1), R(float(t2 - t1))),
                    {"check": "volume integration", "spec": spec, "tank": nm, "t1": t1, "t2": t2, "head1": h1, "head2": h2, "demand1": q1}, abs(q1) > 1e-6)
            for tt in times:
                lvl = float(H.loc[tt, nm]) - elev
                q = float(D.loc[tt, nm])
                # the flow that produced the current level is the largest flow seen up to now (the level stays where an
                # earlier step left it while the tank is shut in)
                qmax = max(abs(float(D.loc[x, nm])) for x in times[: times.index(tt) + 1])
                slack = 2.0 * qmax / A + 1e-6
                if lvl < t["min_level"] - slack or lvl > t["max_level"] + slack:
                    run.violation("tank_level_outside_limits", "tank %s level %.4f at t=%d is outside [%.2f, %.2f] by more than 2 s of its flow (%.2g m)" % (
                        nm, lvl, tt, t["min_level"], t["max_level"], slack), input={"spec": spec, "tank": nm, "time": tt, "level": lvl})
                    break
                if lvl <= t["min_level"] + 1e-9:
                    hit = True
                    if q < -QTOL:
                        run.violation("tank_discharges_at_min_level", "tank %s at its minimum level (%.4f) reports net outflow %.3g" % (nm, lvl, q),
                                      input={"spec": spec, "tank": nm, "time": tt, "level": lvl, "demand": q})
                        break
                if lvl >= t["max_level"] - 1e-9:
                    hit = True
                    if q > QTOL:
                        run.violation("tank_fills_at_max_level", "tank %s at its maximum level (%.4f) reports net inflow %.3g" % (nm, lvl, q),
                                      input={"spec": spec, "tank": nm, "time": tt, "level": lvl, "demand": q})
                        break
            run.count("tank reached a limit" if hit else "tank stayed inside")
        # ---- the run is paused by its own simulator object, the limits of a tank are tightened around its current level, the SAME object continues:
        #      from then on the new limits hold ----
        if rng.random() < 0.6:
            try:
                import warnings as _w
                wnp = netgen.build(spec, wntr)
                hs_ = spec["options"]["hydraulic_timestep"]
                T_ = spec["options"]["duration"]
                T1 = hs_ * rng.choice([1, 2, 3])
                wnp.options.time.duration = T1
                simp = wntr.sim.WNTRSimulator(wnp)
                with _w.catch_warnings():
                    _w.simplefilter("ignore")
                    ra = simp.run_sim()
                    tk = rng.choice(spec["tanks"])
                    tn = wnp.get_node(tk["name"])
                    lvl0 = float(ra.node["head"][tk["name"]].iloc[-1]) - tk["elevation"]
                    new_min = round(max(tk["min_level"], lvl0 - 0.15), 3)
                    new_max = round(min(tk["max_level"], lvl0 + 0.15), 3)
                    new_min, new_max = min(new_min, round(lvl0 - 0.002, 3)), max(new_max, round(lvl0 + 0.002, 3))      # the current level is inside the new limits
                    if new_min < new_max - 0.05:
                        tn.min_level, tn.max_level = new_min, new_max
                        wnp.options.time.duration = T_
                        rb = simp.run_sim()
                        if simrun.converged(rb, None, []):
                            run.count("limits tightened during a pause")
                            Hb, Db = rb.node["head"], rb.node["demand"]
                            A_ = 3.141592653589793 * tk["diameter"] ** 2 / 4
                            qmax = max([abs(float(x)) for x in ra.node["demand"][tk["name"]].values] + [0.0])
                            for tt in [int(x) for x in Hb.index]:
                                lvl = float(Hb.loc[tt, tk["name"]]) - tk["elevation"]
                                q = float(Db.loc[tt, tk["name"]])
                                qmax = max(qmax, abs(q))
                                slack = 2.0 * qmax / A_ + 1e-6
                                run.case({"net": done, "t": tt, "paused": True}, True, None)
                                if lvl < new_min - slack or lvl > new_max + slack:
                                    run.violation("tank_level_outside_limits", "tank %s level %.4f at t=%d is outside the limits [%.3f, %.3f] set while the run was paused at %d s (slack %.2g m)" % (
                                        tk["name"], lvl, tt, new_min, new_max, T1, slack),
                                        input={"spec": spec, "tank": tk["name"], "time": tt, "level": lvl, "paused_at": T1, "new_limits": [new_min, new_max], "same_simulator_object": True})
                                    break
            except Exception as e_:   # noqa
                run.count("pause-edit scenario failed: " + type(e_).__name__)
    res_, errors = common.run_prop_cases("C06", HEADER, TACTIC, cases, shard=150, case_timeout=20)
    for e in errors:
        run.tie_broken("correspondence case file failed to compile", e)
    for cid, _ in cases:
        run.obligations += 1
        if res_.get(cid):
            run.discharged += 1
        elif cid in res_:
            m = meta[cid]
            run.violation("tank_" + m["check"].replace(" ", "_"), "tank: %s fails on reported results" % m["check"], input=m)
    # known finding: volume-curve tank, np.interp clamps below the curve -> minimum level overshot
    wn = wntr.network.WaterNetworkModel()
    wn.add_curve("vc", "VOLUME", [(0.0, 0.0), (1.0, 50.0), (2.0, 150.0), (4.0, 250.0)])
    wn.add_tank("T", elevation=30.0, init_level=1.5, min_level=0.5, max_level=4.0, diameter=8.0, vol_curve="vc")
    wn.add_junction("J", base_demand=0.02, elevation=0.0)
    wn.add_pipe("P", "T", "J", length=100.0, diameter=0.3, roughness=100)
    wn.options.time.duration = 6 * 3600
    wn.options.time.report_timestep = "ALL"
    try:
        r = wntr.sim.WNTRSimulator(wn).run_sim()
        lv = (r.node["head"]["T"] - 30.0)
        if float(lv.min()) < 0.5 - 0.05:
            run.violation("volume_curve_tank_overshoots_min_level", "a volume-curve tank drains to level %.3f although min_level = 0.5" % float(lv.min()),
                          input={"curve": [(0.0, 0.0), (1.0, 50.0), (2.0, 150.0), (4.0, 250.0)], "min_level": 0.5, "demand": 0.02})
    except Exception as e:
        run.count("volume_curve_witness_failed:" + type(e).__name__)
