"""C20 -- metrics equal their documented formulas.

Theorems: C20/Property.v (gcd/lcm/common period, mean over whole periods, nearest-entry lookup minimises, metric vs
delivered demand incl. the pattern_start finding).  Ties decided inside coqc on exact rationals (vm_compute):
  T3  _gcd / _lcm / _lcml of the implementation on random integers and lists == gcd_code / lcml_code
  T4  expected_demand (all / per category, any start/end/timestep, demand multiplier), average_expected_demand,
      water_service_availability, todini_index, modified_resilience_index (both modes), pump_power/energy/cost,
      annual_network_cost / annual_ghg_emissions table lookups  vs the model formulas, on generated networks and on the
      result tables of real simulations.
"""
import math
import random

import common
import netgen
import simrun
from common import q_of_float as Q

HEADER = """From Coq Require Import QArith Qabs ZArith List Bool.
From WNTRV Require Import C01.Model C20.Model.
Import ListNotations.
Definition tol := (1 # 1000000000).
Definition zopt_eqb (a : option Z) (b : Z) : bool := match a with Some v => Z.eqb v b | None => false end.
Definition avg_ok es step start (periods : list Z) mult cat impl : bool :=
  match lcml_code 86400 periods with
  | Some L => close (average_demand es step start (Z.to_nat (L / step)) mult cat) impl tol
  | None => false end.
"""
TACTIC = "vm_compute; reflexivity"


def centries(j, cats, pats):
    return "[" + "; ".join("(%s, %s, %d%%nat)" % (Q(x["base"]), "None" if x["pattern"] is None else
                                                  "Some [%s]" % "; ".join(Q(v) for v in pats[x["pattern"]]), cats[x["category"]])
                           for x in j["demands"]) + "]"


def check(run, replay=None):
    wntr = common.import_wntr(build_ext=True)
    import numpy as np
    import pandas as pd
    from wntr.metrics import hydraulic as MH
    thorough = run.tier == "thorough"
    rng = random.Random(run.seed * 3571 + 20)
    run.rule = ("random integer pairs/lists for gcd/lcm; generated networks with multi-category demands, patterns of co-prime lengths, "
                "pattern_start, demand multiplier != 1, random start/end/timestep/category arguments; result tables of real simulations "
                "for the resilience and pump metrics; random cost tables; non-trivial = non-zero expected value")
    run.trusted += ["harness tools/props/c20.py (extracts the metric inputs from the wntr objects)"]
    run.assumptions += ["float arithmetic of pandas is compared with exact rational formulas at 1e-9 relative",
                        "the default cost tables inside annual_network_cost are passed explicitly (their numbers are documentation, not logic)",
                        "pi as binary64 in the cylindrical tank volume; the head-pump maximum power is the harness' transcription of the documented formula from the fitted A, B, C",
                        "the maximum-pump-power formula for head pumps (exp/log) is an input computed by the harness; power pumps, pipes, tanks and PRVs are modelled"]
    ok, log, fails = common.coq_make(["theories/C20/Proofs.vo"])
    if not ok:
        for f, ln, msg in fails:
            run.tie_broken("proof no longer checks: %s line %s: %s" % (f, ln, common.theorem_line(f, ln)), msg)
        for n in common.property_theorems(common.THEORIES + "/C20/Property.v"):
            run.obligation(False, n)
    else:
        common.check_property_file(run, "C20/Property.v")
    cases, meta = [], {}

    def add(prop, m, nontrivial=True):
        cases.append((len(cases), prop))
        meta[len(cases) - 1] = m
        run.case(prop[:200], nontrivial, m if len(cases) % 400 == 1 else None)
        run.count(m["check"])

    # (a) gcd / lcm ------------------------------------------------------------------------------------
    for _ in range(300 if thorough else 60):
        x, y = rng.choice([86400, 25200, 7200, 3600 * rng.randint(1, 40), rng.randint(1, 10 ** 6)]), \
            rng.choice([25200, 18000, 900 * rng.randint(1, 50), rng.randint(1, 10 ** 5)])
        try:
            g = MH._gcd(x, y)
        except Exception as e:
            run.violation("gcd_raises", "_gcd raised %s" % e, input=[x, y])
            continue
        if g is None or g != int(g):
            run.violation("gcd_wrong", "_gcd(%d, %d) returned %r" % (x, y, g), input=[x, y], expected=math.gcd(x, y))
            continue
        add("zopt_eqb (gcd_code %d %d) %d = true" % (x, y, int(g)), {"check": "gcd", "x": x, "y": y, "impl": int(g)})
        L = [86400] + [rng.choice([2, 3, 5, 7, 4, 6]) * rng.choice([3600, 1800, 900]) for _ in range(rng.randint(1, 3))]
        try:
            l = MH._lcml(L)
            add("zopt_eqb (lcml_code %d [%s]) %d = true" % (L[0], "; ".join("%d%%Z" % v for v in L[1:]), int(l)),
                {"check": "lcml", "list": L, "impl": l}, True)
        except Exception as e:
            run.violation("lcml_raises", "_lcml raised %s" % e, input=L)

    # (b,c) expected demand ---------------------------------------------------------------------------------
    nets = 60 if thorough else 12
    for k in range(nets):
        spec = netgen.gen_spec(rng, feat={"multi_demand": 0.9, "leaks": 0.0, "time_controls": 0.0, "rules": 0.0,
                                          "level_controls": 0.0, "pressure_controls": 0.0, "valves": 0.0})
        spec["options"]["pattern_timestep"] = 3600
        spec["options"]["demand_multiplier"] = rng.choice([1.0, 1.7, 0.6, 1.3])
        spec["options"]["demand_model"] = "DD"
        spec["options"]["report_timestep"] = spec["options"]["hydraulic_timestep"]
        spec["patterns"] = {"pa": [round(rng.uniform(0.3, 1.8), 2) for _ in range(rng.choice([2, 3, 5]))],
                            "pb": [round(rng.uniform(0.3, 1.8), 2) for _ in range(rng.choice([4, 7, 6]))]}
        wn = netgen.build(spec, wntr)
        cats = {"dom": 0, "ind": 1, None: 2}
        pats = spec["patterns"]
        mult = wn.options.hydraulic.demand_multiplier
        step = int(wn.options.time.pattern_timestep)
        ps = int(wn.options.time.pattern_start)
        for cat in (None, "dom", "ind"):
            start = rng.choice([0, 0, 3600, 5400])
            ts = rng.choice([3600, 1800, 2700])
            end = start + ts * rng.randint(2, 9)
            df = wntr.metrics.expected_demand(wn, start_time=start, end_time=end, timestep=ts, category=cat)
            catc = "None" if cat is None else "(Some %d%%nat)" % cats[cat]
            for j in spec["junctions"]:
                if not j["demands"]:
                    continue
                es = centries(j, cats, pats)
                for t in list(df.index)[:: max(1, len(df.index) // 4)]:
                    v = float(df.loc[t, j["name"]])
                    add("close (metric_demand %s %d %d %s %s) %s tol = true" % (es, step, int(t), Q(mult), catc, Q(v)),
                        {"check": "expected_demand", "spec_options": spec["options"], "junction": j, "category": cat, "time": int(t),
                         "multiplier": mult, "impl": v, "patterns": pats}, v != 0)
            avg = wntr.metrics.average_expected_demand(wn, category=cat)
            periods = [len(m) * step for m in pats.values()]
            for j in spec["junctions"][:3]:
                if not j["demands"]:
                    continue
                v = float(avg[j["name"]])
                add("avg_ok %s %d %d [%s] %s %s %s = true" % (centries(j, cats, pats), step, ps, "; ".join("%d%%Z" % v for v in periods), Q(mult), catc, Q(v)),
                    {"check": "average_expected_demand", "junction": j, "category": cat, "patterns": pats, "pattern_start": ps,
                     "multiplier": mult, "impl": v}, v != 0)
        # (d) resilience / pump metrics on real results ------------------------------------------------------
        res, err, warns, sim = simrun.run(wntr, wn)
        if not simrun.converged(res, err, warns):
            continue
        head, pres, dem, flow = res.node["head"], res.node["pressure"], res.node["demand"], res.link["flowrate"]
        Pstar = rng.choice([15.0, 20.0, 30.0])
        jn, rn, pn = wn.junction_name_list, wn.reservoir_name_list, wn.pump_name_list
        tod = wntr.metrics.todini_index(head, pres, dem, flow, wn, Pstar)
        elev = pd.Series({n: wn.get_node(n).elevation for n in jn})
        mri_j = wntr.metrics.modified_resilience_index(pres[jn], elev, Pstar)
        mri_s = wntr.metrics.modified_resilience_index(pres[jn], elev, Pstar, demand=dem[jn], per_junction=False)
        exp = wntr.metrics.expected_demand(wn)
        wsa = wntr.metrics.water_service_availability(exp, dem[jn])
        for t in list(head.index)[:3]:
            jr = "[" + "; ".join("(%s, %s, %s)" % (Q(dem.loc[t, n]), Q(head.loc[t, n]), Q(pres.loc[t, n])) for n in jn) + "]"
            rr = "[" + "; ".join("(%s, %s)" % (Q(dem.loc[t, n]), Q(head.loc[t, n])) for n in rn) + "]"
            pr = "[" + "; ".join("(%s, %s, %s)" % (Q(flow.loc[t, n]), Q(head.loc[t, wn.get_link(n).start_node_name]),
                                                   Q(head.loc[t, wn.get_link(n).end_node_name])) for n in pn) + "]"
            v = float(tod.loc[t])
            if math.isfinite(v):
                add("close (todini %s %s %s %s) %s (1 # 10000000) = true" % (Q(Pstar), jr, rr, pr, Q(v)),
                    {"check": "todini_index", "time": int(t), "impl": v, "Pstar": Pstar})
            v = float(mri_s.loc[t])
            if math.isfinite(v):
                rows = "[" + "; ".join("(%s, %s, %s)" % (Q(dem.loc[t, n]), Q(pres.loc[t, n]), Q(elev[n])) for n in jn) + "]"
                add("close (mri_system %s %s) %s (1 # 10000000) = true" % (Q(Pstar), rows, Q(v)),
                    {"check": "modified_resilience_index(system)", "time": int(t), "impl": v})
            for n in jn[:2]:
                v = float(mri_j.loc[t, n])
                if math.isfinite(v):
                    add("close (mri_junction %s %s %s) %s tol = true" % (Q(Pstar), Q(pres.loc[t, n]), Q(elev[n]), Q(v)),
                        {"check": "modified_resilience_index(junction)", "time": int(t), "junction": n, "impl": v})
                if t in exp.index and float(exp.loc[t, n]) != 0:
                    v = float(wsa.loc[t, n])
                    add("close (wsa %s %s) %s tol = true" % (Q(exp.loc[t, n]), Q(dem.loc[t, n]), Q(v)),
                        {"check": "water_service_availability", "time": int(t), "junction": n, "impl": v})
        if pn:
            wn.options.energy.global_efficiency = rng.choice([75.0, 60.0, 82.5])
            wn.options.energy.global_price = rng.choice([3.61e-8, 1.2e-7])
            pw = wntr.metrics.pump_power(flow[pn], head, wn)
            en = wntr.metrics.pump_energy(flow[pn], head, wn)
            co = wntr.metrics.pump_cost(en, wn)
            rs = wn.options.time.report_timestep
            if isinstance(rs, str):
                rs = None
            for t in list(head.index)[:3]:
                for n in pn:
                    args = "%s %s %s %s" % (Q(flow.loc[t, n]), Q(head.loc[t, wn.get_link(n).start_node_name]),
                                            Q(head.loc[t, wn.get_link(n).end_node_name]), Q(wn.options.energy.global_efficiency))
                    add("close (pump_power %s) %s tol = true" % (args, Q(float(pw.loc[t, n]))),
                        {"check": "pump_power", "time": int(t), "pump": n, "impl": float(pw.loc[t, n])})
                    if rs is not None:
                        add("close (pump_cost (pump_energy %s %s) %s) %s tol = true" % (args, Q(float(rs)), Q(wn.options.energy.global_price), Q(float(co.loc[t, n]))),
                            {"check": "pump_energy_cost", "time": int(t), "pump": n, "impl": float(co.loc[t, n])})
        # cost tables (annual_network_cost: tanks, pipes, pumps, PRVs; annual_ghg_emissions: pipes); the rows of the user tables come in
        # ascending, descending or arbitrary order -- the documented rule is "the closest entry", not "the closest in a sorted table"


        def table(sizes, lo, hi):
            sizes = list(sizes)
            order = rng.choice(["ascending", "descending", "shuffled"])
            if order == "descending":
                sizes.reverse()
            elif order == "shuffled":
                rng.shuffle(sizes)
            cost = [round(rng.uniform(lo, hi), 2) for _ in sizes]
            run.count("cost_table_" + order)
            return pd.Series(cost, sizes), "[" + "; ".join("(%s, %s)" % (Q(d), Q(c)) for d, c in zip(sizes, cost)) + "]", [sizes, cost]
        diam = sorted(rng.sample([0.1, 0.15, 0.2, 0.25, 0.3, 0.35, 0.4, 0.5], 5))
        tbl, tb, tb_m = table(diam, 5, 50)
        ptbl, ptb, ptb_m = table(diam, 300, 7000)
        ttbl, ttb, ttb_m = table(sorted(rng.sample([50, 100, 200, 500, 1000, 2000, 5000], 5)), 1e4, 2e5)
        utbl, utb, utb_m = table(sorted(rng.sample([2000, 5000, 11310, 22620, 31670, 45240, 59710], 5)), 2000, 5000)
        wn2 = wntr.network.WaterNetworkModel()
        wn2.add_junction("A"); wn2.add_junction("B")
        wn2.options.energy.global_efficiency = rng.choice([75.0, 60.0, 82.5])
        pipes, tank_vols, pmax, prvd = [], [], [], []
        for i in range(rng.randint(1, 5)):
            d, L = rng.choice([0.1, 0.12, 0.175, 0.2, 0.26, 0.33, 0.45, 0.6]), round(rng.uniform(10, 500), 1)
            wn2.add_pipe("p%d" % i, "A", "B", length=L, diameter=d)
            pipes.append((d, L))
        for i in range(rng.randint(0, 3)):
            d, mx, mn = round(rng.uniform(2, 25), 1), round(rng.uniform(3, 12), 1), round(rng.uniform(0, 2), 1)
            if rng.random() < 0.35:
                wn2.add_curve("vc%d" % i, "VOLUME", [(0.0, 0.0), (mx / 2, 0.3 * d * d * mx), (mx + 1, 0.9 * d * d * (mx + 1))])
                wn2.add_tank("t%d" % i, elevation=10, init_level=mn + 0.5, min_level=mn, max_level=mx, diameter=d, vol_curve="vc%d" % i)
                xs, ys = [0.0, mx / 2, mx + 1], [0.0, 0.3 * d * d * mx, 0.9 * d * d * (mx + 1)]
                vmax = ys[1] + (ys[2] - ys[1]) * (mx - xs[1]) / (xs[2] - xs[1])
                tank_vols.append("(tank_construction_volume_curve %s %s %s)" % (Q(vmax), Q(mn), Q(mx)))
            else:
                wn2.add_tank("t%d" % i, elevation=10, init_level=mn + 0.5, min_level=mn, max_level=mx, diameter=d)
                tank_vols.append(Q(math.pi * (d / 2) ** 2 * mx))
        for i in range(rng.randint(0, 3)):
            if rng.random() < 0.5:
                P = rng.choice([1500.0, 4000.0, 9000.0, 20000.0, 33000.0, 70000.0])
                wn2.add_pump("u%d" % i, "A", "B", pump_type="POWER", pump_parameter=P)
                pmax.append("(power_pump_pmax %s %s)" % (Q(P), Q(wn2.options.energy.global_efficiency)))
            else:
                q1, h1 = rng.choice([0.01, 0.03, 0.08]), rng.choice([20.0, 35.0, 60.0])
                wn2.add_curve("hc%d" % i, "HEAD", [(q1, h1)])
                wn2.add_pump("u%d" % i, "A", "B", pump_type="HEAD", pump_parameter="hc%d" % i)
                A_, B_, C_ = wn2.get_link("u%d" % i).get_head_curve_coefficients()
                qs = (A_ / (B_ * (C_ + 1))) ** (1.0 / C_)         # flow of maximum hydraulic power q (A - B q^C)
                pmax.append(Q(9.81 * 1000 * qs * (A_ - B_ * qs ** C_) / wn2.options.energy.global_efficiency))
        for i in range(rng.randint(0, 3)):
            d = rng.choice([0.1, 0.12, 0.175, 0.2, 0.26, 0.33, 0.45, 0.6])
            vt = rng.choice(["PRV", "PRV", "TCV", "FCV"])
            wn2.add_valve("v%d" % i, "A", "B", diameter=d, valve_type=vt, initial_setting=10.0)
            if vt == "PRV":
                prvd.append(Q(d))
        v = float(wntr.metrics.annual_network_cost(wn2, tank_cost=ttbl, pipe_cost=tbl, prv_cost=ptbl, pump_cost=utbl))
        g = float(wntr.metrics.annual_ghg_emissions(wn2, pipe_ghg=tbl))
        pp = "[" + "; ".join("(%s, %s)" % (Q(d), Q(L)) for d, L in pipes) + "]"
        lst = lambda xs: "[" + "; ".join(xs) + "]"
        m_in = {"tank_table": ttb_m, "pipe_table": tb_m, "prv_table": ptb_m, "pump_table": utb_m, "pipes": pipes, "tank_volumes": tank_vols,
                "pump_pmax_over_efficiency": pmax, "prv_diameters": prvd, "efficiency": wn2.options.energy.global_efficiency}
        add("close (network_cost %s %s %s %s %s %s %s %s) %s tol = true" % (ttb, tb, ptb, utb, lst(tank_vols), pp, lst(pmax), lst(prvd), Q(v)),
            dict(m_in, check="annual_network_cost", impl=v))
        add("close (pipes_cost %s %s) %s tol = true" % (tb, pp, Q(g)), {"check": "annual_ghg_emissions", "table": tb_m, "pipes": pipes, "impl": g})

    res_, errors = common.run_prop_cases("C20", HEADER, TACTIC, cases, shard=120)
    for e in errors:
        run.tie_broken("correspondence case file failed to compile", e)
    for cid, _ in cases:
        run.obligations += 1
        if res_.get(cid):
            run.discharged += 1
        elif cid in res_:
            m = meta[cid]
            run.violation("metric_formula_" + m["check"].split("(")[0], "metric %s differs from its documented formula" % m["check"], input=m)
    # known finding: expected_demand ignores pattern_start (theorem C20_expected_eq_delivered_refuted) -- replay on the implementation
    wn = wntr.network.WaterNetworkModel()
    wn.add_pattern("p", [1.0, 2.0])
    wn.add_reservoir("R", base_head=50)
    wn.add_junction("J", base_demand=0.001, demand_pattern="p", elevation=0)
    wn.add_pipe("P", "R", "J", length=100, diameter=0.3, roughness=100)
    wn.options.time.pattern_timestep = 3600
    wn.options.time.hydraulic_timestep = 3600
    wn.options.time.pattern_start = 3600
    wn.options.time.duration = 7200
    r = wntr.sim.WNTRSimulator(wn).run_sim()
    ed = wntr.metrics.expected_demand(wn)
    if abs(float(ed.loc[0, "J"]) - float(r.node["demand"].loc[0, "J"])) > 1e-9:
        run.violation("expected_demand_ignores_pattern_start", "expected_demand(wn) at t differs from the DD demand delivered at t when pattern_start != 0",
                      input={"pattern": [1.0, 2.0], "pattern_start": 3600, "metric_t0": float(ed.loc[0, "J"]), "delivered_t0": float(r.node["demand"].loc[0, "J"])})
