"""C11 -- simulating never alters the model definition; reset + rerun reproduce results.

T1: Gen/SimWrites.v (attributes written by the simulation / by reset_initial_values / the ControlAction attribute map)
    is regenerated from hydraulics.py, core.py, model.py, controls.py on every run; C11/Property.v is re-checked against it.
Cases decided inside coqc: for every element kind of generated models, the attributes behind the keys the real to_dict emits
are disjoint from the simulation's write set and from the targets of the model's control actions (then C11_sim_frame applies).
The statement itself on the implementation: to_dict before == after for WNTRSimulator and EpanetSimulator runs of generated
models (controls on status / setting, leaks, rules, PDD); run / reset_initial_values / run gives the same results; a deepcopy
gives the same results.  Known finding: a control action on `base_speed` writes the definition (theorem ..._refuted).
"""
import copy
import json
import os
import random
import tempfile
import warnings

import common
import netgen
import simrun
from translate import regen

HEADER = """From Coq Require Import ZArith String List Bool.
From WNTRV Require Import Gen.SimWrites C11.Model.
Import ListNotations.
Local Open Scope string_scope.
"""
TACTIC = "vm_compute; reflexivity"


# Two converged Newton solutions of the same step satisfy every row within the solver tolerance (1e-6, row units) but need not be
# bit-identical when the iteration starts from different points; flows in pipes with almost no head loss are the worst conditioned.
# (seen: a pipe with ~1e-6 m of head loss carrying 2e-14 in one run and 8.6e-6 m3/s in the other: q ~ (dh/k)^0.54 turns a head residual
# of 1e-6 m into 1e-4 m3/s); heads are well conditioned and stay tight.
ABS_TOL = {"flowrate": 2e-4, "demand": 2e-4, "leak_demand": 2e-4, "velocity": 5e-3, "head": 2e-4, "pressure": 2e-4, "headloss": 2e-4}


def results_close(r1, r2, tol=1e-7):
    import numpy as np
    for grp in ("node", "link"):
        a, b = getattr(r1, grp), getattr(r2, grp)
        for key in a:
            if key not in b:
                return "table %s missing" % key
            x, y = a[key], b[key]
            if list(x.index) != list(y.index) or list(x.columns) != list(y.columns):
                return "index/columns of %s differ (%s vs %s)" % (key, list(x.index)[:6], list(y.index)[:6])
            d = np.abs(x.values.astype(float) - y.values.astype(float))
            lim = max(ABS_TOL.get(key, 0.0), tol * max(1.0, float(np.nanmax(np.abs(x.values.astype(float)))) if d.size else 1.0))
            if d.size and float(np.nanmax(d)) > lim:
                i, j = np.unravel_index(np.nanargmax(d), d.shape)
                return "%s differs at t=%s, %s: %.9g vs %.9g" % (key, x.index[i], x.columns[j], x.values[i, j], y.values[i, j])
    return None


def directed(rng, spec):
    """a valve whose initial setting is 0 and whose setting is changed by a control during the run"""
    jn = [j["name"] for j in spec["junctions"]]
    if len(jn) < 2 or spec["valves"]:
        return
    cands = [p for p in spec["pipes"] if p["start"] in jn and p["end"] in jn]
    if not cands:
        return
    p = rng.choice(cands)
    spec["junctions"].append({"name": "JV", "elevation": 5.0, "demands": []})
    spec["valves"].append({"name": "V1", "start": p["start"], "end": "JV", "type": "FCV", "diameter": 0.3, "minor_loss": 0.0,
                           "setting": 0.0, "status": "ACTIVE"})
    p["start"] = "JV"
    spec["setting_controls"] = [{"valve": "V1", "time": 2 * spec["options"]["hydraulic_timestep"], "value": 0.004}]


def build(spec, wntr):
    from wntr.network import controls as C
    wn = netgen.build(spec, wntr)
    for i, c in enumerate(spec.get("setting_controls", [])):
        v = wn.get_link(c["valve"])
        wn.add_control("sc%d" % i, C.Control(C.SimTimeCondition(wn, "=", c["time"]), C.ControlAction(v, "setting", c["value"])))
    return wn


def check(run, replay=None):
    wntr = common.import_wntr(build_ext=True)
    thorough = run.tier == "thorough"
    rng = random.Random(run.seed * 3301 + 11)
    run.rule = ("generated models (netgen: status controls, tank-level / pressure controls, rules, leaks, PDD, valves, pumps) + a directed family "
                "(valve with initial setting 0 whose setting a control changes); per model: to_dict before/after a WNTRSimulator run and an "
                "EpanetSimulator run, run/reset/run, deepcopy run; coverage cases per element kind; non-trivial = the run changes a status or setting")
    run.trusted += ["translator tools/translate/simwrites.py", "harness tools/props/c11.py"]
    run.assumptions += ["the dictionary of an element is a function of the attributes named by its keys (k or _k)",
                        "EpanetSimulator results are not compared here (C03); only that running it leaves the dictionary unchanged"]
    errs = regen(["SimWrites.v"], common.REPO)
    for e in errs:
        run.tie_broken("translator refused the current source (model is stale)", e)
    ok, log, fails = common.coq_make(["theories/C11/Proofs.vo"])
    if not ok:
        for f, ln, msg in fails:
            run.tie_broken("proof no longer checks against the regenerated write sets: %s line %s: %s" % (f, ln, common.theorem_line(f, ln)), msg)
        for n in common.property_theorems(common.THEORIES + "/C11/Property.v"):
            run.obligation(False, n)
    else:
        common.check_property_file(run, "C11/Property.v")
    cases, meta = [], {}
    nets = 60 if thorough else 14
    tmp = tempfile.mkdtemp(prefix="c11_")
    cwd = os.getcwd()
    try:
        os.chdir(tmp)
        for k in range(nets):
            spec = netgen.gen_spec(rng, feat={"leaks": 0.5, "valves": 0.5, "pumps": 0.5, "rules": 0.5, "level_controls": 0.6})
            spec["options"]["report_timestep"] = spec["options"]["hydraulic_timestep"]
            seen = set()
            spec["leaks"] = [l for l in spec["leaks"] if not (l["node"] in seen or seen.add(l["node"]))]
            if k % 3 != 2:
                directed(random.Random(run.seed * 313 + k), spec)      # own stream: the other draws stay what they are
            try:
                wn = build(spec, wntr)
            except Exception:
                continue
            desc = {"spec": spec}
            d0 = json.dumps(wn.to_dict(), sort_keys=True, default=str)
            r1, e1, w1, sim1 = simrun.run(wntr, wn)
            d1 = json.dumps(wn.to_dict(), sort_keys=True, default=str)
            run.case({"net": k, "what": "to_dict after WNTRSimulator"}, True, None)
            run.count("wntr runs")
            if d1 != d0:
                a, b = json.loads(d0), json.loads(d1)
                from props.c13 import dict_diff
                run.violation("definition_changed_by_wntr_simulator", "to_dict differs after a WNTRSimulator run: %s" % (dict_diff(a, b)[:3],), input=desc)
                continue
            if simrun.converged(r1, e1, w1):
                # reset + rerun
                wn.reset_initial_values()
                r2, e2, w2, _ = simrun.run(wntr, wn)
                run.count("reset cycles")
                if not simrun.converged(r2, e2, w2):
                    run.violation("rerun_after_reset_fails", "the run after reset_initial_values does not complete: %s %s" % (e2, w2[:1]), input=desc)
                else:
                    why = results_close(r1, r2)
                    if why:
                        run.violation("rerun_after_reset_differs", "results after reset_initial_values differ: " + why, input=desc)
                # the same simulator OBJECT used again after a reset
                wn.reset_initial_values()
                r4 = e4 = None
                w4 = []
                with warnings.catch_warnings(record=True) as w4r:
                    warnings.simplefilter("always")
                    try:
                        r4 = sim1.run_sim()
                    except Exception as e:  # noqa
                        e4 = "%s: %s" % (type(e).__name__, e)
                    w4 = [str(x.message) for x in w4r]
                run.count("simulator object reused")
                if not simrun.converged(r4, e4, w4):
                    run.violation("rerun_after_reset_fails", "the run of the SAME simulator object after reset_initial_values does not complete: %s %s" % (e4, w4[:1]), input=desc)
                else:
                    why = results_close(r1, r4)
                    if why:
                        run.violation("rerun_after_reset_differs", "results of the same simulator object after reset_initial_values differ: " + why, input=desc)
                # a third cycle and a deepcopy
                wn.reset_initial_values()
                wn_c = copy.deepcopy(wn)
                r3, e3, w3, _ = simrun.run(wntr, wn_c)
                if simrun.converged(r3, e3, w3):
                    why = results_close(r1, r3)
                    if why:
                        run.violation("deepcopy_run_differs", "results of a deepcopy differ: " + why, input=desc)
            # EPANET run leaves the definition unchanged (only models without WNTR-only features)
            if not spec["leaks"] and (k % 2 == 0 or spec["options"]["demand_model"] == "PDD"):
                wn_e = build(spec, wntr)
                de0 = json.dumps(wn_e.to_dict(), sort_keys=True, default=str)
                try:
                    with warnings.catch_warnings():
                        warnings.simplefilter("ignore")
                        pdd_ = wn_e.options.hydraulic.demand_model in ("PDD", "PDA")
                        for ver_ in ([2.0, 2.2] if pdd_ else [rng.choice([2.2, 2.0])]):      # a PDD model written in the 2.0 format loses only the 2.2 options OF THE FILE
                            wntr.sim.EpanetSimulator(wn_e).run_sim(file_prefix=os.path.join(tmp, "e%d" % k), version=ver_)
                            run.count("epanet version %s%s" % (ver_, " (PDD model)" if pdd_ else ""))
                    run.count("epanet runs")
                    if json.dumps(wn_e.to_dict(), sort_keys=True, default=str) != de0:
                        run.violation("definition_changed_by_epanet_simulator", "to_dict differs after an EpanetSimulator run", input=desc)
                except Exception as e:
                    run.count("epanet_failed:" + type(e).__name__)
            # coverage cases
            d = json.loads(d0)
            acts = set()
            for cn, c in wn.controls():
                for a in c.actions():
                    if hasattr(a, "_attribute"):
                        acts.add(a._attribute)
            seen_kind = set()
            for el in d["nodes"] + d["links"]:
                kind = el.get("node_type") or el.get("link_type")
                if kind in seen_kind:
                    continue
                seen_kind.add(kind)
                keys = list(el.keys())
                prop = "disjointb (sim_writes ++ map action_target [%s]) (reads_of [%s]) = true" % (
                    "; ".join('"%s"' % a for a in sorted(acts)), "; ".join('"%s"' % x for x in keys))
                cases.append((len(cases), prop))
                meta[len(cases) - 1] = {"check": "simulation writes disjoint from dictionary reads", "kind": kind, "keys": keys, "actions": sorted(acts)}
                run.case({"net": k, "kind": kind}, True, meta[len(cases) - 1] if k == 0 else None)
    finally:
        os.chdir(cwd)
        import shutil
        shutil.rmtree(tmp, ignore_errors=True)
    res, errors = common.run_prop_cases("C11", HEADER, TACTIC, cases, shard=200)
    for e in errors:
        run.tie_broken("correspondence case file failed to compile", e)
    for cid, _ in cases:
        run.obligations += 1
        if res.get(cid):
            run.discharged += 1
        elif cid in res:
            m = meta[cid]
            run.violation("writes_overlap_definition_" + m["kind"], "the simulation or a control action writes an attribute that to_dict reads for a %s" % m["kind"], input=m)
    # known finding: a time control on base_speed changes the definition
    from wntr.network import controls as C
    wn = wntr.network.WaterNetworkModel()
    wn.add_reservoir("R", base_head=10.0)
    wn.add_junction("J", base_demand=0.01, elevation=0.0)
    wn.add_pump("PU", "R", "J", "POWER", 5000.0)
    wn.options.time.duration = 7200
    wn.add_control("sp", C.Control(C.SimTimeCondition(wn, "=", 3600), C.ControlAction(wn.get_link("PU"), "base_speed", 0.8)))
    b = wn.get_link("PU").to_dict()["base_speed"]
    wntr.sim.WNTRSimulator(wn).run_sim()
    a = wn.get_link("PU").to_dict()["base_speed"]
    if a != b:
        run.violation("base_speed_control_changes_definition", "a control action on base_speed changes the pump's dictionary entry (%.3g -> %.3g)" % (b, a),
                      input={"control": "AT TIME 1 h PUMP PU BASE_SPEED IS 0.8"})
