"""C15 -- the compiled aml evaluator returns true residuals and Jacobian.

Theorems (coq/theories/C15/Property.v, Lib/ExprProofs.v, Lib/ExprRProofs.v):
  rpn_correct / stack discipline (any tree, any value domain), sd_correct (Coquelicot is_derive),
  conditional_selects_first_true, refcount_inv (any register/remove history).
Ties (this file), all decided inside coqc:
  T2  RPN emitted by the real get_rpn  ==  rpn(tree reconstructed from the real operator DAG)   (vm_compute, exact)
  T4  residuals / Jacobian entries of the freshly compiled evaluator  ~=  evalR tree / evalR (D v tree)  (interval)
      incl. conditional constraints, shared sub-expressions, reflected operators and constants
  T3  random register/remove/set_structure histories: reference counts and C++-object liveness == model (vm_compute)
"""
import math
import random

import common
from common import r_of_float

HEADER = """From Coq Require Import Reals ZArith List Bool Lra.
From Interval Require Import Tactic.
From WNTRV Require Import Lib.Expr Lib.ExprR C15.Model C15.Proofs.
Import ListNotations.
Local Open Scope R_scope.
Lemma pw_2m1 a : pw a (2 - 1) = a. Proof. replace (2 - 1) with 1 by lra. apply pw_1. Qed.
Lemma pw_3m1 a : pw a (3 - 1) = a * a. Proof. replace (3 - 1) with 2 by lra. apply pw_2. Qed.
Definition zl_eqb (a b : list Z) : bool := if list_eq_dec Z.eq_dec a b then true else false.
Definition same_set (a b : list nat) : bool :=
  forallb (fun x => existsb (Nat.eqb x) b) a && forallb (fun x => existsb (Nat.eqb x) a) b.
Ltac unfold_model := cbv beta iota zeta delta [evalR eval usemR bsemR leafR D cst is_const_leaf Nat.eqb
   cond_eval cond_jac cond_select option_map].
Ltac resolve1 := first
 [ rewrite pw_2 | rewrite pw_3 | rewrite pw_1 | rewrite pw_2m1 | rewrite pw_3m1
 | rewrite ifR_1 | rewrite ifR_0
 | match goal with |- context[sgn ?a] => first [rewrite (sgn_pos a) by interval | rewrite (sgn_neg a) by interval] end
 | match goal with |- context[ineqR ?b ?lo ?hi] =>
     first [rewrite (ineq_in b lo hi) by interval | rewrite (ineq_below b lo hi) by interval
           | rewrite (ineq_above b lo hi) by interval] end
 | match goal with |- context[pw ?a ?b] => rewrite (pw_pos a b) by interval end
 | match goal with |- context[asin ?a] => rewrite (asin_mid a) by interval end
 | match goal with |- context[acos ?a] => rewrite (acos_mid a) by interval end
 | match goal with |- context[Req_EM_T ?a ?b] => destruct (Req_EM_T a b); [try lra | try lra] end ].
Ltac solve_case := first [ vm_compute; reflexivity | unfold_model; repeat resolve1; interval with (i_prec 80) ].
"""
TACTIC = "solve_case"
BIG = "(10 ^ 400)"


class Skip(Exception):
    pass


# --------------------------------------------------------------------------------------------
# dumping real aml expressions as Coq trees
# --------------------------------------------------------------------------------------------
def make_dumper(E, var_no):
    UN = {E.NegationOperator: "UNeg", E.AbsOperator: "UAbs", E.SignOperator: "USign", E.ExpOperator: "UExp",
          E.LogOperator: "ULog", E.SinOperator: "USin", E.CosOperator: "UCos", E.TanOperator: "UTan",
          E.AsinOperator: "UAsin", E.AcosOperator: "UAcos", E.AtanOperator: "UAtan"}
    BIN = {E.AddOperator: "BAdd", E.SubtractOperator: "BSub", E.MultiplyOperator: "BMul",
           E.DivideOperator: "BDiv", E.PowerOperator: "BPow"}

    def leaf_R(l):
        if l.is_variable_type():
            return "(ELeaf (RV %d))" % var_no[l]
        v = float(l.value)
        if math.isinf(v):
            return "(ELeaf (RC %s))" % (BIG if v > 0 else "(- %s)" % BIG)
        if math.isnan(v):
            raise Skip("nan leaf")
        return "(ELeaf (RC %s))" % r_of_float(v)

    def dump(n, leaf):
        if n.is_leaf():
            return leaf(n)
        t = type(n)
        if t in UN:
            return "(EUn %s %s)" % (UN[t], dump(n._operand, leaf))
        if t in BIN:
            return "(EBin %s %s %s)" % (BIN[t], dump(n._operand1, leaf), dump(n._operand2, leaf))
        if t is E.InequalityOperator:
            return "(EIneq %s %s %s)" % (dump(n._body, leaf), dump(n._lb, leaf), dump(n._ub, leaf))
        if t is E.IfElseOperator:
            return "(EIf %s %s %s)" % (dump(n._if_arg, leaf), dump(n._then_arg, leaf), dump(n._else_arg, leaf))
        raise RuntimeError("unknown operator class %s" % t)

    def tree_R(expr):
        return dump(expr.last_node(), leaf_R)

    def tree_idx(expr, ndx):
        return dump(expr.last_node(), lambda l: "(ELeaf %d%%Z)" % ndx[l])

    return tree_R, tree_idx


# --------------------------------------------------------------------------------------------
# generator: expressions built through the real operator overloading
# --------------------------------------------------------------------------------------------
CONSTS = [0, 1, 2, 3, 0.5, 1.5, -1, -2.5, 1.852, 4.871, 0.25, 10, 2.0, 1.0, 0.0]


class Gen:
    def __init__(self, rng, aml, E, nvars, nparams, transcend):
        self.rng, self.aml, self.E = rng, aml, E
        self.vars = [aml.Var(self.val()) for _ in range(nvars)]
        self.params = [aml.Param(self.val()) for _ in range(nparams)]
        self.floats = [E.Float(self.rng.choice([2.0, 0.5, 3.0, -1.5]))]
        self.pool = []
        self.transcend = transcend
        self.ops_used = {}

    def val(self):
        v = round(self.rng.uniform(0.2, 3.0), 3)
        return -v if self.rng.random() < 0.3 else v

    def atom(self):
        k = self.rng.random()
        if k < 0.45:
            return self.rng.choice(self.vars)
        if k < 0.6:
            return self.rng.choice(self.params)
        if k < 0.68:
            return self.rng.choice(self.floats)
        if k < 0.8 and self.pool:
            return self.rng.choice(self.pool)     # shared sub-expression
        return self.rng.choice(CONSTS)

    def note(self, k):
        self.ops_used[k] = self.ops_used.get(k, 0) + 1

    def expr(self, depth):
        E = self.E
        if depth <= 0:
            return self.atom()
        k = self.rng.random()
        if k < 0.55:
            a, b = self.expr(depth - 1), self.expr(depth - 1)
            op = self.rng.choice("+-*/^+-*")
            if isinstance(a, (int, float)) and isinstance(b, (int, float)):
                a = self.rng.choice(self.vars)
            self.note(op)
            if op == "+":
                r = a + b
            elif op == "-":
                r = a - b
            elif op == "*":
                r = a * b
            elif op == "/":
                r = a / b
            else:
                # exponent: small literal, or (rarely) an expression with a positive base
                if self.rng.random() < 0.6:
                    r = a ** self.rng.choice([2, 3, 0.5, 1.852, 1, 0, 2.0])
                else:
                    # exponent = compound expression containing variables; base = parameter, positive constant or |expr|
                    if isinstance(b, (int, float)) or b.is_leaf():
                        b = (self.rng.choice(self.vars) + self.rng.choice(self.vars)) * 0.5
                    base = self.rng.choice([self.params[0], 3.0, 1.5, E.abs(a) if not isinstance(a, (int, float)) else 2.0])
                    if not isinstance(base, (int, float)) and base.is_leaf() and base.value <= 0:
                        base = E.abs(base) + 0.5
                    r = base ** b
        elif k < 0.8:
            a = self.expr(depth - 1)
            if isinstance(a, (int, float)):
                a = self.rng.choice(self.vars)
            fns = ["neg", "abs", "sign"] + (["exp", "log", "sin", "cos", "tan", "atan", "asin", "acos"] if self.transcend else [])
            f = self.rng.choice(fns)
            self.note(f)
            if f == "neg":
                r = -a
            elif f == "log":
                r = E.log(E.abs(a) + 0.5)
            elif f in ("asin", "acos"):
                r = getattr(E, f)(E.sin(a) * 0.75)
            else:
                r = getattr(E, f)(a)
        else:
            body = self.expr(depth - 1)
            if isinstance(body, (int, float)):
                body = self.rng.choice(self.vars)
            lb = self.rng.choice([None, -1.0, 0, 0.5])
            ub = self.rng.choice([None, 1.5, 4]) if lb is not None else self.rng.choice([0.7, 2.0])
            t, f = self.expr(depth - 1), self.expr(depth - 1)
            self.note("if_else")
            r = E.if_else(E.inequality(body, lb=lb, ub=ub), t, f)
        if not isinstance(r, (int, float)) and not r.is_leaf() and self.rng.random() < 0.5 and len(self.pool) < 6:
            self.pool.append(r)
        return r


def shared_form(g):
    """directed family: the same non-leaf expression OBJECT used several times in one constraint, nested inside other operators to the
    left and to the right of a bare use (f(A) + A, A + f(A), polynomials in A, two levels of sharing)"""
    E, rng = g.E, g.rng
    A = g.expr(1)
    if isinstance(A, (int, float)) or A.is_leaf():
        A = rng.choice(g.vars) * rng.choice(g.vars) + rng.choice(g.params)

    def f(x):
        k = rng.choice(["sq", "cube", "mul", "neg", "abs", "div", "pow"] + (["exp", "sin", "atan"] if g.transcend else []))
        g.note("shared:" + k)
        if k == "sq":
            return x ** 2
        if k == "cube":
            return x ** 3
        if k == "mul":
            return x * rng.choice(g.vars)
        if k == "neg":
            return -x
        if k == "abs":
            return E.abs(x)
        if k == "div":
            return rng.choice(g.vars) / (E.abs(x) + 1.0)
        if k == "pow":
            return (E.abs(x) + 0.5) ** 1.852
        if k == "exp":
            return E.exp(x * 0.25)
        return getattr(E, k)(x)
    form = rng.randrange(7)
    g.note("shared_form_%d" % form)
    if form == 0:
        return f(A) + A
    if form == 1:
        return A + f(A)
    if form == 2:
        return f(A) * A - f(A)
    if form == 3:
        c = [rng.choice([1.5, -2.0, 0.5, 3.0]) for _ in range(4)]
        return c[3] * A ** 3 + c[2] * A ** 2 + c[1] * A + c[0]
    if form == 4:
        return f(f(A)) / (E.abs(A) + 1.0) + A
    if form == 5:
        B = f(A)
        return f(B) + B * A
    return f(A) - A * f(A) + A


def safe_domain(E, expr, vals_override=None):
    """evaluate every operator node; reject points at / near the boundary of the domain of definition
    (where the property does not speak) and overflowing values."""
    vd = {}

    def val(n):
        return n.value if n.is_leaf() else vd[n]
    for op in expr.operators():
        t = type(op)
        try:
            if t in (E.AbsOperator, E.SignOperator):
                if abs(val(op._operand)) < 1e-3:
                    raise Skip("abs/sign near 0")
            if t is E.LogOperator and val(op._operand) < 1e-3:
                raise Skip("log domain")
            if t is E.TanOperator and abs(math.cos(val(op._operand))) < 1e-2:
                raise Skip("tan pole")
            if t in (E.AsinOperator, E.AcosOperator) and abs(val(op._operand)) > 0.99:
                raise Skip("asin domain")
            if t is E.DivideOperator and abs(val(op._operand2)) < 1e-3:
                raise Skip("division by ~0")
            if t is E.PowerOperator:
                b, e = val(op._operand1), val(op._operand2)
                if b < 1e-3 and e not in (0, 1, 2, 3):
                    raise Skip("pow base <= 0 with non-integer exponent")
                if abs(e) > 6:
                    raise Skip("huge exponent")
            if t is E.InequalityOperator:
                b = val(op._body)
                if abs(b - op._lb.value) < 1e-3 or abs(b - op._ub.value) < 1e-3:
                    raise Skip("inequality boundary")
            op.evaluate(vd)
            v = vd[op]
            if isinstance(v, (int, float)) and not isinstance(v, bool):
                if not math.isfinite(v) or abs(v) > 1e8:
                    raise Skip("overflow")
        except (ValueError, ZeroDivisionError, OverflowError, TypeError) as e:
            raise Skip("python evaluation error: %s" % e)
    return vd[expr.last_node()]


def _direct(e):
    try:
        return float(e.evaluate())
    except Exception:
        return None


def _direct_ad(e, v):
    """independent second opinion for a Jacobian entry: central finite difference of the interpreted evaluation"""
    try:
        x0 = v.value
        h = 1e-6 * max(1.0, abs(x0))
        v.value = x0 + h
        f1 = float(e.evaluate())
        v.value = x0 - h
        f0 = float(e.evaluate())
        v.value = x0
        return (f1 - f0) / (2 * h)
    except Exception:
        try:
            v.value = x0
        except Exception:
            pass
        return None


def check(run, replay=None):
    wntr = common.import_wntr(build_ext=True)
    from wntr.sim import aml
    from wntr.sim.aml import expr as E
    thorough = run.tier == "thorough"
    rng = random.Random(run.seed * 104729 + 15)
    run.rule = ("random expressions built through the real operator overloading (reflected operators, python constants, "
                "Float objects, shared sub-expressions, if_else/inequality, optionally transcendental functions), random "
                "values inside the domain of definition; models of 2-5 constraints incl. conditional constraints; "
                "register/remove histories. distinct by dumped tree text; non-trivial = tree has >= 2 operators")
    run.trusted += ["tree dumper in tools/props/c15.py (reconstructs the expression tree from the operator DAG of the real objects)",
                    "coq-interval tactic; libm of the compiled evaluator compared at 1e-9 relative",
                    "freshly compiled _evaluator extension (g++ -O2) loaded from .cache/ext"]
    run.assumptions += ["binary64 rounding is not modelled (R semantics, 1e-9 relative tolerance)",
                        "points within 1e-3 of a non-differentiable point / domain boundary are not sampled",
                        "SWIG glue and numpy array passing are exercised, not modelled"]
    # proofs ---------------------------------------------------------------------------------
    ok, log, fails = common.coq_make(["theories/C15/Proofs.vo", "theories/Lib/ExprProofs.vo", "theories/Lib/ExprRProofs.vo"])
    if not ok:
        for f, ln, msg in fails:
            run.tie_broken("proof no longer checks: %s line %s: %s" % (f, ln, common.theorem_line(f, ln)), msg)
        for n in common.property_theorems(common.THEORIES + "/C15/Property.v"):
            run.obligation(False, n)
    else:
        common.check_property_file(run, "C15/Property.v")

    cases, meta = [], {}

    def add_case(prop, m):
        cid = len(cases)
        cases.append((cid, prop))
        meta[cid] = m

    n_models = 60 if thorough else 14
    built = 0
    attempts = 0
    while built < n_models and attempts < n_models * 30:
        attempts += 1
        transcend = (attempts % 3 != 0)
        g = Gen(rng, aml, E, nvars=rng.randint(2, 4), nparams=rng.randint(1, 2), transcend=transcend)
        var_no = {v: i for i, v in enumerate(g.vars)}
        tree_R, tree_idx = make_dumper(E, var_no)
        m = aml.Model()
        for i, v in enumerate(g.vars):
            setattr(m, "v%d" % i, v)
        for i, p in enumerate(g.params):
            setattr(m, "p%d" % i, p)
        cons = []
        try:
            ncon = rng.randint(2, 4)
            tries = 0
            while len(cons) < ncon and tries < 40:
                tries += 1
                try:
                    if rng.random() < 0.25:
                        # conditional constraint: 1-2 conditions + final
                        ce = E.ConditionalExpression()
                        brs = []
                        for _ in range(rng.randint(1, 2)):
                            body = g.expr(1)
                            if isinstance(body, (int, float)):
                                body = rng.choice(g.vars)
                            c = E.inequality(body, lb=rng.choice([None, 0, -0.5]), ub=rng.choice([1.0, 2.5, None]))
                            if isinstance(c, bool):
                                raise Skip("constant condition")
                            e = shared_form(g) if rng.random() < 0.3 else g.expr(2)
                            if isinstance(e, (int, float)) or e.is_leaf():
                                e = e + rng.choice(g.vars) * 2
                            safe_domain(E, c)
                            safe_domain(E, e)
                            ce.add_condition(c, e)
                            brs.append((c, e))
                        e = g.expr(2)
                        if isinstance(e, (int, float)) or e.is_leaf():
                            e = e + rng.choice(g.vars) * 3
                        safe_domain(E, e)
                        ce.add_final_expr(e)
                        brs.append((None, e))
                        cons.append(("cond", aml.Constraint(ce), brs))
                    else:
                        e = shared_form(g) if rng.random() < 0.35 else g.expr(rng.randint(2, 3))
                        if isinstance(e, (int, float)) or e.is_leaf():
                            continue
                        safe_domain(E, e)
                        cons.append(("plain", aml.Constraint(e), e))
                except Skip:
                    continue
                except (ValueError, ZeroDivisionError, OverflowError, AssertionError):
                    continue
            if len(cons) < 2:
                continue
            for i, (_, c, _) in enumerate(cons):
                setattr(m, "c%d" % i, c)
            m.set_structure()
            res = m.evaluate_residuals()
            ev = m._evaluator
            jv, jc, jr = ev.evaluate_csr_jacobian(ev.nnz, ev.nnz, len(cons) + 1)
        except Skip:
            continue
        except Exception as e:  # building / evaluating a valid model must never fail
            run.violation("build_or_evaluate_failed_%s" % type(e).__name__,
                          "building or evaluating a valid algebraic model raised %s: %s" % (type(e).__name__, e),
                          input=[str(c[1].expr) for c in cons])
            continue
        built += 1
        env = "(fun n => match n with %s | _ => 0 end)" % " ".join(
            "| %d%%nat => %s" % (i, r_of_float(v.value)) for i, v in enumerate(g.vars))
        col_to_var = {v.index: var_no[v] for v in g.vars if v.index is not None and v._c_obj is not None}
        for kind, con, payload in cons:
            row = con.index
            r_impl = float(res[row])
            rowcols = [int(jc[k]) for k in range(jr[row], jr[row + 1])]
            rowvals = [float(jv[k]) for k in range(jr[row], jr[row + 1])]
            desc = {"kind": kind, "expr": str(con.expr)[:300], "values": {("v%d" % i): v.value for i, v in enumerate(g.vars)}}
            for k_, n_ in g.ops_used.items():
                run.count("op:" + k_, 0)
            run.count("constraint:" + kind)
            tol = lambda y: "(%d / %d)" % ((common.Fraction(abs(y)) / 10 ** 9 + common.Fraction(1, 10 ** 11)).as_integer_ratio())
            if kind == "plain":
                e = payload
                T = tree_R(e)
                # T2: rpn
                ndx = {}
                for l in list(e.get_vars()) + list(e.get_params()) + list(e.get_floats()):
                    ndx[l] = len(ndx)
                impl_rpn = e.get_rpn(ndx)
                add_case("zl_eqb (rpn (fun i : Z => i) %s) [%s] = true" %
                         (tree_idx(e, ndx), "; ".join("(%d)%%Z" % t for t in impl_rpn)),
                         dict(desc, check="rpn", impl=list(impl_rpn)))
                add_case("Rabs (evalR %s %s - %s) <= %s" % (env, T, r_of_float(r_impl), tol(r_impl)),
                         dict(desc, check="residual", impl=r_impl, second_opinion=_direct(e)))
                myvars = sorted(set(var_no[v] for v in e.get_vars()))
                try:
                    implvars = [col_to_var[c] for c in rowcols]
                except KeyError:
                    implvars = [-1]
                add_case("same_set (C15.Model.vars_of %s) [%s] = true" % (T, "; ".join("%d%%nat" % v for v in implvars)),
                         dict(desc, check="jacobian columns", impl=rowcols, expected_vars=myvars))
                for c_, jval in zip(rowcols, rowvals):
                    if c_ in col_to_var:
                        add_case("Rabs (evalR %s (D %d %s) - %s) <= %s" % (env, col_to_var[c_], T, r_of_float(jval), tol(jval)),
                                 dict(desc, check="jacobian entry d/dv%d" % col_to_var[c_], impl=jval,
                                      second_opinion=_direct_ad(e, g.vars[col_to_var[c_]])))
                nontriv = len(list(e.operators())) >= 2
                run.case(T, nontriv, desc if built % 5 == 0 else None)
            else:
                brs = payload
                B = "[" + "; ".join("(%s, %s)" % ("None" if c is None else "Some " + tree_R(c), tree_R(e)) for c, e in brs) + "]"
                add_case("match cond_eval %s %s with Some x => Rabs (x - %s) <= %s | None => False end" %
                         (env, B, r_of_float(r_impl), tol(r_impl)),
                         dict(desc, check="conditional residual", impl=r_impl, second_opinion=_direct(con.expr)))
                for c_, jval in zip(rowcols, rowvals):
                    if c_ in col_to_var:
                        add_case("match cond_jac %s %d %s with Some x => Rabs (x - %s) <= %s | None => False end" %
                                 (env, col_to_var[c_], B, r_of_float(jval), tol(jval)),
                                 dict(desc, check="conditional jacobian entry d/dv%d" % col_to_var[c_], impl=jval,
                                      second_opinion=_direct_ad(con.expr, g.vars[col_to_var[c_]])))
                run.case(B, True, None)
        for k_, n_ in g.ops_used.items():
            run.count("op:" + k_, n_)

    # T3: register / remove histories ------------------------------------------------------------
    n_hist = 40 if thorough else 10
    for h in range(n_hist):
        g = Gen(rng, aml, E, nvars=3, nparams=2, transcend=False)
        m = aml.Model()
        for i, v in enumerate(g.vars):
            setattr(m, "v%d" % i, v)
        pool = []
        while len(pool) < 5:
            try:
                e = g.expr(rng.randint(1, 3))
                if isinstance(e, (int, float)) or e.is_leaf():
                    continue
                safe_domain(E, e)
                pool.append(e)
            except (Skip, ValueError, ZeroDivisionError, OverflowError, AssertionError):
                continue
        leaf_id = {}

        def lid(l):
            if l not in leaf_id:
                leaf_id[l] = len(leaf_id)
            return leaf_id[l]
        ops, live, hist_desc = [], {}, []
        next_c = 0
        snapshot = None
        try:
            for step in range(rng.randint(4, 10)):
                if live and rng.random() < 0.4:
                    cno = rng.choice(sorted(live))
                    delattr(m, "c%d" % cno)
                    del live[cno]
                    ops.append("Rem %d%%nat" % cno)
                    hist_desc.append("remove c%d" % cno)
                else:
                    e = rng.choice(pool)
                    con = aml.Constraint(e)
                    setattr(m, "c%d" % next_c, con)
                    ls = list(m._vars_referenced_by_con[con]) + list(m._params_referenced_by_con[con]) + \
                        list(m._floats_referenced_by_con[con])
                    ops.append("Reg %d%%nat [%s]" % (next_c, "; ".join("%d%%nat" % lid(l) for l in ls)))
                    hist_desc.append("register c%d := %s" % (next_c, str(e)[:80]))
                    live[next_c] = con
                    next_c += 1
                if rng.random() < 0.3:
                    m.set_structure()
                    for v in g.vars:
                        if v._c_obj is not None:
                            v.value = g.val()
            # compare reference counts and liveness of every leaf ever seen
            impl = []
            for l, i in sorted(leaf_id.items(), key=lambda kv: kv[1]):
                alive = (l in m._var_cvar_map) or (l in m._param_cparam_map) or (l in m._float_cfloat_map)
                impl.append((m._refcounts.get(l, 0), alive))
            prop = "(let s := fold_left mstep [%s] m0 in map (fun l => (refc s l, cobj s l)) [%s]) = [%s]" % (
                "; ".join(ops), "; ".join("%d%%nat" % i for i in range(len(leaf_id))),
                "; ".join("(%d%%nat, %s)" % (c, "true" if a else "false") for c, a in impl))
            add_case(prop, {"check": "refcount history", "history": hist_desc, "impl": impl})
            run.case("hist:" + ";".join(ops), len(ops) >= 4, {"history": hist_desc} if h == 0 else None)
            run.count("history_ops", len(ops))
            # residuals of the live constraints after the history
            if live:
                m.set_structure()
                res = m.evaluate_residuals()
                var_no = {v: i for i, v in enumerate(g.vars)}
                tree_R, _ = make_dumper(E, var_no)
                env = "(fun n => match n with %s | _ => 0 end)" % " ".join(
                    "| %d%%nat => %s" % (i, r_of_float(v.value)) for i, v in enumerate(g.vars))
                for cno, con in live.items():
                    try:
                        safe_domain(E, con.expr)
                    except Skip:
                        continue
                    r_impl = float(res[con.index])
                    t = common.Fraction(abs(r_impl)) / 10 ** 9 + common.Fraction(1, 10 ** 11)
                    add_case("Rabs (evalR %s %s - %s) <= (%d / %d)" % (env, tree_R(con.expr), r_of_float(r_impl),
                                                                      t.numerator, t.denominator),
                             {"check": "residual after history", "history": hist_desc, "expr": str(con.expr)[:200],
                              "impl": r_impl, "second_opinion": _direct(con.expr)})
        except Exception as e:
            run.violation("history_failed_%s" % type(e).__name__,
                          "a valid register/remove history raised %s: %s" % (type(e).__name__, e), input=hist_desc)

    res, errors = common.run_prop_cases("C15", HEADER, TACTIC, cases, shard=40, case_timeout=12)
    for e in errors:
        run.tie_broken("correspondence case file failed to compile", e)
    undecided = 0
    for cid, _ in cases:
        run.obligations += 1
        if res.get(cid):
            run.discharged += 1
        elif cid in res:
            mm = meta[cid]
            # the Coq model could not confirm this case within its time limit.  Second opinion on the
            # implementation itself: does the compiled value differ from the implementation's own direct
            # (interpreted) evaluation / reverse-mode derivative of the same expression?
            so = mm.get("second_opinion")
            if so is not None and abs(so - mm["impl"]) <= 1e-5 * max(1.0, abs(so)):
                undecided += 1
                continue
            run.violation("compiled_vs_direct_" + mm["check"].split(" d/d")[0].replace(" ", "_"),
                          "compiled evaluator differs from direct evaluation of the expression (%s)" % mm["check"],
                          input=mm, model_output="Lib.ExprR.evalR / D / rpn on the dumped tree")
    run.obligations -= undecided   # not counted as obligations: the model timed out and the implementation agrees with itself
    run.extra["cases_undecided_by_model_within_time_limit"] = undecided
    run.extra["cases_in_coq"] = len(cases)
    run.extra["models_built"] = built
