"""C19 -- split_pipe / break_pipe / skeletonize keep what they promise to keep.

Model + theorems: C19/{Model,Proofs,Property}.v (length conservation, interpolation, series equivalence without minor loss
and its refutation with minor loss, skeleton bookkeeping: members and demand entries are only moved -- Permutation
invariants over any sequence of merges).
Ties (vm_compute inside coqc, exact rationals): on generated networks
  * split/break at random fractions (either end, pipes with vertices-free coordinates, CV pipes, reservoir/tank ends):
    lengths, junction elevation and coordinates equal the model; every other element's dictionary is unchanged; the new pipe
    has no check valve; the input model is untouched with return_copy=True; for splits without minor loss the simulated
    heads/flows of the rest of the network are unchanged;
  * skeletonize with random thresholds / option combinations / exclusion lists: the returned map is a partition of the
    original nodes; the demand entries of every retained node are exactly the entries of the nodes mapped to it (entry
    objects are tracked by identity); tanks, reservoirs, pumps, valves and elements referenced by controls are kept; the
    total expected demand is conserved at several times.
"""
import copy
import random
import warnings

import common
import netgen
import simrun
from common import q_of_float as Q

HEADER = """From Coq Require Import ZArith QArith Qabs List Bool Arith.
From WNTRV Require Import C19.Model.
Import ListNotations.
Local Open Scope nat_scope.
Definition tolq := (1 # 1000000000)%Q.
Definition nthl (l : list (list nat)) : nat -> list nat := fun i => nth i l [].
"""
TACTIC = "vm_compute; reflexivity"


def check(run, replay=None):
    wntr = common.import_wntr(build_ext=True)
    thorough = run.tier == "thorough"
    rng = random.Random(run.seed * 5003 + 19)
    run.rule = ("generated networks (netgen) x {split, break} x random fraction in [0,1] (incl. 0 and 1) x either end x return_copy; "
                "skeletonize with thresholds around the pipe diameters, all combinations of branch/series/parallel, random exclusion "
                "lists, junctions with negative and zero base demands, multi-category demands; non-trivial = fraction strictly inside "
                "(0,1) / at least one junction removed")
    run.trusted += ["harness tools/props/c19.py (element dictionaries compared in Python for the frame condition; demand entries tracked by object identity)"]
    run.assumptions += ["pipes with vertices: axis-parallel polylines only (rational lengths), the statement itself is evaluated on the returned polylines",
                        "the merged-pipe properties (equivalent roughness/diameter) of skeletonization are not part of the property"]
    ok, log, fails = common.coq_make(["theories/C19/Proofs.vo", "theories/C19/Poly.vo"])
    if not ok:
        for f, ln, msg in fails:
            run.tie_broken("proof no longer checks: %s line %s: %s" % (f, ln, common.theorem_line(f, ln)), msg)
        for n in common.property_theorems(common.THEORIES + "/C19/Property.v"):
            run.obligation(False, n)
    else:
        common.check_property_file(run, "C19/Property.v")
    cases, meta = [], {}

    def add(prop, m, nt=True):
        cases.append((len(cases), prop))
        meta[len(cases) - 1] = m
        run.case(prop[:300], nt, m if len(cases) in (1, 2) else None)
        run.count(m["check"])

    nets = 120 if thorough else 24
    for k in range(nets):
        spec = netgen.gen_spec(rng, feat={"leaks": 0.0, "rules": 0.2, "time_controls": 0.4, "pressure_controls": 0.2, "level_controls": 0.2,
                                          "cv": 0.5, "minor": 0.0, "pdd": 0.0})
        # negative / zero base demands, dead-end chains
        for j in spec["junctions"]:
            if j["demands"] and rng.random() < 0.25:
                j["demands"][0]["base"] = -abs(j["demands"][0]["base"])
            if j["demands"] and rng.random() < 0.1:
                j["demands"][0]["base"] = 0.0
        n0 = len(spec["junctions"])
        for extra in range(rng.randint(0, 2)):
            nm = "JX%d" % extra
            spec["junctions"].append({"name": nm, "elevation": 3.0, "demands": [{"base": rng.choice([0.001, -0.0015, 0.0]), "pattern": "pa", "category": "dom"}]})
            spec["pipes"].append({"name": "PX%d" % extra, "start": rng.choice(spec["junctions"][:n0])["name"], "end": nm, "length": 120.0,
                                  "diameter": 0.15, "roughness": 100, "minor_loss": 0.0, "status": "OPEN", "cv": False})
        spec["options"]["report_timestep"] = spec["options"]["hydraulic_timestep"]
        try:
            wn = netgen.build(spec, wntr)
        except Exception:
            continue
        # ---------------- split / break ------------------------------------------------------------
        for trial in range(3):
            pipe_name = rng.choice(wn.pipe_name_list)
            f = rng.choice([0.0, 1.0, 0.5, round(rng.random(), 3), round(rng.random(), 3)])
            at_end = rng.random() < 0.5
            ret_copy = rng.random() < 0.7
            mode = rng.choice(["split", "break"])
            wn0 = copy.deepcopy(wn)
            d_before = wn0.to_dict()
            pipe0 = wn0.get_link(pipe_name)
            s_node, e_node = pipe0.start_node, pipe0.end_node
            desc = {"spec": spec, "pipe": pipe_name, "fraction": f, "add_pipe_at_end": at_end, "return_copy": ret_copy, "mode": mode}
            try:
                with warnings.catch_warnings():
                    warnings.simplefilter("ignore")
                    if mode == "split":
                        wn2 = wntr.morph.split_pipe(wn0, pipe_name, "NEWP", "NEWJ", add_pipe_at_end=at_end, split_at_point=f, return_copy=ret_copy)
                        newj = ["NEWJ"]
                    else:
                        wn2 = wntr.morph.break_pipe(wn0, pipe_name, "NEWP", "NEWJ1", "NEWJ2", add_pipe_at_end=at_end, split_at_point=f, return_copy=ret_copy)
                        newj = ["NEWJ1", "NEWJ2"]
            except Exception as e:
                if isinstance(s_node, wntr.network.Reservoir) and isinstance(e_node, wntr.network.Reservoir):
                    continue
                run.violation("split_raises", "%s_pipe raised %s: %s" % (mode, type(e).__name__, e), input=desc)
                continue
            if ret_copy and wn0.to_dict() != d_before:
                run.violation("input_modified_with_return_copy", "the input model changed although return_copy=True", input=desc)
            d_after = wn2.to_dict()
            L = pipe0.length if ret_copy else None
            Lorig = [p for p in d_before["links"] if p["name"] == pipe_name][0]["length"]
            old, new = wn2.get_link(pipe_name), wn2.get_link("NEWP")
            # frame: every other node/link dictionary unchanged
            other_b = {x["name"]: x for x in d_before["nodes"] + d_before["links"] if x["name"] != pipe_name}
            other_a = {x["name"]: x for x in d_after["nodes"] + d_after["links"] if x["name"] not in (pipe_name, "NEWP") and x["name"] not in newj}
            if other_a != other_b:
                diff = [n for n in other_b if other_a.get(n) != other_b[n]][:3]
                run.violation("split_changed_other_elements", "elements other than the split pipe changed: %s" % diff, input=desc)
            if new.check_valve:
                run.violation("new_pipe_has_check_valve", "the new pipe has a check valve", input=desc)
            # which part is which
            first, second = (old, new) if at_end else (new, old)      # first = attached to the original start node
            if first.start_node_name != s_node.name or second.end_node_name != e_node.name or \
                    sorted({first.end_node_name, second.start_node_name}) != sorted(newj):
                run.violation("split_connectivity", "connectivity after %s is not start -> new junction(s) -> end" % mode, input=desc)
                continue
            add("closeq %s (fst (split_lengths %s %s)) tolq && closeq %s (snd (split_lengths %s %s)) tolq = true" % (
                Q(first.length), Q(Lorig), Q(f), Q(second.length), Q(Lorig), Q(f)),
                dict(desc, check="split lengths", impl=[first.length, second.length], original=Lorig), 0 < f < 1)
            jn = wn2.get_node(newj[0])
            if not isinstance(s_node, wntr.network.Reservoir) and not isinstance(e_node, wntr.network.Reservoir):
                add("closeq %s (interp %s %s %s) tolq = true" % (Q(jn.elevation), Q(s_node.elevation), Q(e_node.elevation), Q(f)),
                    dict(desc, check="junction elevation", impl=jn.elevation), 0 < f < 1)
            add("closeq %s (interp %s %s %s) tolq && closeq %s (interp %s %s %s) tolq = true" % (
                Q(jn.coordinates[0]), Q(s_node.coordinates[0]), Q(e_node.coordinates[0]), Q(f),
                Q(jn.coordinates[1]), Q(s_node.coordinates[1]), Q(e_node.coordinates[1]), Q(f)),
                dict(desc, check="junction coordinates", impl=list(jn.coordinates)), 0 < f < 1)
            # hydraulics of the rest unchanged (split only, no minor loss, interior point)
            if mode == "split" and 0 < f < 1 and pipe0.minor_loss == 0 and not pipe0.check_valve and trial == 0:
                r1 = simrun.run(wntr, copy.deepcopy(wn))
                r2 = simrun.run(wntr, copy.deepcopy(wn2))
                if simrun.converged(*r1[:3]) and simrun.converged(*r2[:3]):
                    h1, h2 = r1[0].node["head"], r2[0].node["head"]
                    common_t = [t for t in h1.index if t in h2.index]
                    worst = max((abs(h1.loc[t, n] - h2.loc[t, n]) for t in common_t for n in h1.columns), default=0.0)
                    run.count("hydraulics_compared")
                    if worst > 1e-3:
                        targeted = any(getattr(getattr(a, "_target_obj", None), "name", None) == pipe_name for _, c in wn.controls() for a in c.actions())
                        if targeted and int(wn.get_link(pipe_name).initial_status) == 0:
                            # recorded finding: the new half copies the initial status CLOSED but none of the controls that open the pipe
                            run.violation("split_closed_pipe_opened_by_control", "splitting pipe %s (initially CLOSED, opened by a control or rule) changes heads by %.3g m: "
                                          "the new half stays closed" % (pipe_name, worst), input=desc)
                        else:
                            run.violation("split_changed_hydraulics", "heads of the original nodes changed by %.3g m after splitting a pipe without minor loss" % worst, input=desc)
        # ---------------- skeletonize ----------------------------------------------------------------
        for trial in range(2):
            wn1 = copy.deepcopy(wn)
            node_names = list(wn1.node_name_list)
            nid = {n: i for i, n in enumerate(node_names)}
            entry_id, orig_entries = {}, []
            for n in node_names:
                node = wn1.get_node(n)
                ids = []
                if isinstance(node, wntr.network.Junction):
                    for d in node.demand_timeseries_list:
                        entry_id[id(d)] = len(entry_id)
                        ids.append(entry_id[id(d)])
                orig_entries.append(ids)
            thr = rng.choice([0.15, 0.2, 0.3, 0.5, 0.05])
            opts = dict(branch_trim=rng.random() < 0.8, series_pipe_merge=rng.random() < 0.8, parallel_pipe_merge=rng.random() < 0.8)
            excl_p = rng.sample(wn1.pipe_name_list, min(len(wn1.pipe_name_list), rng.choice([0, 0, 1])))
            excl_j = rng.sample(wn1.junction_name_list, min(len(wn1.junction_name_list), rng.choice([0, 0, 1])))
            times = [0, 3600, 7200, 5 * 3600]
            tot_before = [sum(wn1.get_node(j).demand_timeseries_list.at(t) for j in wn1.junction_name_list) for t in times]
            keep_must = wn1.tank_name_list + wn1.reservoir_name_list
            keep_links = wn1.pump_name_list + wn1.valve_name_list
            req_nodes, req_links = set(), set()
            for cn, c in wn1.controls():
                for r in c.requires():
                    if isinstance(r, wntr.network.elements.Junction):
                        req_nodes.add(r.name)
                    elif isinstance(r, wntr.network.elements.Pipe):
                        req_links.add(r.name)
            desc = {"spec": spec, "threshold": thr, "options": opts, "pipes_to_exclude": excl_p, "junctions_to_exclude": excl_j}
            try:
                with warnings.catch_warnings():
                    warnings.simplefilter("ignore")
                    wn3, smap = wntr.morph.skeletonize(wn1, thr, return_map=True, return_copy=False, pipes_to_exclude=excl_p,
                                                       junctions_to_exclude=excl_j, use_epanet=(rng.random() < 0.5), **opts)
            except Exception as e:
                run.count("skeletonize_raised:" + type(e).__name__)
                continue
            retained = list(wn3.node_name_list)
            removed = [n for n in node_names if n not in retained]
            if any(smap.get(n) for n in removed):
                run.violation("skeleton_map_removed_node_nonempty", "a removed node still has a non-empty list in the map", input=desc)
            smap_c = "[" + "; ".join("(%d, [%s])" % (nid[n], "; ".join(str(nid[x]) for x in smap[n])) for n in retained) + "]"
            add("map_partition_ok [%s] %s = true" % ("; ".join(str(i) for i in range(len(node_names))), smap_c),
                dict(desc, check="skeleton map partition", map={n: smap[n] for n in retained}), len(removed) > 0)
            fin = []
            unknown = False
            for n in node_names:
                ids = []
                if n in retained and isinstance(wn3.get_node(n), wntr.network.Junction):
                    for d in wn3.get_node(n).demand_timeseries_list:
                        if id(d) not in entry_id:
                            unknown = True
                        ids.append(entry_id.get(id(d), 9999))
                fin.append(ids)
            lst = lambda ll: "[" + "; ".join("[" + "; ".join(map(str, l)) + "]" for l in ll) + "]"
            add("entries_ok (nthl %s) %s (nthl %s) = true" % (lst(orig_entries), smap_c, lst(fin)),
                dict(desc, check="demand entries follow the map", removed=removed), len(removed) > 0)
            add("subset_ok [%s] [%s] = true" % ("; ".join(str(nid[n]) for n in keep_must + sorted(req_nodes)), "; ".join(str(nid[n]) for n in retained)),
                dict(desc, check="kept nodes", must=keep_must + sorted(req_nodes), retained=retained))
            missing = [l for l in keep_links + sorted(req_links) if l not in wn3.link_name_list]
            if missing:
                run.violation("skeletonize_removed_protected_link", "pumps/valves/control-referenced pipes were removed: %s" % missing, input=desc)
            tot_after = [sum(wn3.get_node(j).demand_timeseries_list.at(t) for j in wn3.junction_name_list) for t in times]
            for t, a, b in zip(times, tot_before, tot_after):
                if abs(a - b) > 1e-12 + 1e-9 * abs(a):
                    run.violation("skeletonize_total_demand", "total demand at t=%d changed from %.6g to %.6g" % (t, a, b), input=desc)
                    break
            run.count("junctions_removed", len(removed))
    # ---------------- pipes drawn with vertices (axis-parallel polylines: rational lengths) ---------------------------------------------
    for k in range(60 if thorough else 16):
        wnv = wntr.network.WaterNetworkModel()
        pts = [(float(rng.randrange(0, 20)) / 2, float(rng.randrange(0, 20)) / 2)]
        for _ in range(rng.randint(2, 5)):
            x, y = pts[-1]
            stepv = rng.choice([0.5, 1.0, 2.5, 4.0]) * rng.choice([1, -1])
            pts.append((x + stepv, y) if rng.random() < 0.5 else (x, y + stepv))
        wnv.add_reservoir("R", base_head=50.0, coordinates=pts[0])
        wnv.add_junction("J", base_demand=0.01, elevation=3.0, coordinates=pts[-1])
        wnv.add_pipe("P", "R", "J", length=round(rng.uniform(50, 900), 1), diameter=0.3, roughness=100)
        wnv.get_link("P").vertices = list(pts[1:-1])
        f = rng.choice([0.5, round(rng.uniform(0.02, 0.98), 3), round(rng.uniform(0.02, 0.98), 3), round(rng.uniform(0.02, 0.3), 3)])
        at_end, mode = rng.random() < 0.5, rng.choice(["split", "break"])
        desc = {"polyline": pts, "fraction": f, "add_pipe_at_end": at_end, "mode": mode}
        try:
            with warnings.catch_warnings():
                warnings.simplefilter("ignore")
                if mode == "split":
                    w2 = wntr.morph.split_pipe(wnv, "P", "NEWP", "NEWJ", add_pipe_at_end=at_end, split_at_point=f)
                else:
                    w2 = wntr.morph.break_pipe(wnv, "P", "NEWP", "NEWJ1", "NEWJ2", add_pipe_at_end=at_end, split_at_point=f)
        except Exception as e:
            run.violation("split_raises", "%s_pipe of a pipe with vertices raised %s: %s" % (mode, type(e).__name__, e), input=desc)
            continue
        old, new = w2.get_link("P"), w2.get_link("NEWP")
        first, second = (old, new) if at_end else (new, old)

        def poly(pp):
            return [tuple(pp.start_node.coordinates)] + [tuple(v) for v in pp.vertices] + [tuple(pp.end_node.coordinates)]
        cq = lambda ps: "[" + "; ".join("(%s, %s)" % (Q(float(a)), Q(float(b))) for a, b in ps) + "]"
        add("poly_split_ok %s %s %s %s tolq = true" % (cq(pts), cq(poly(first)), cq(poly(second)), Q(f)),
            dict(desc, check="split of a pipe with vertices", part1=poly(first), part2=poly(second)), True)
    res, errors = common.run_prop_cases("C19", HEADER, TACTIC, cases, shard=150)
    for e in errors:
        run.tie_broken("correspondence case file failed to compile", e)
    for cid, _ in cases:
        run.obligations += 1
        if res.get(cid):
            run.discharged += 1
        elif cid in res:
            m = meta[cid]
            run.violation("morph_" + m["check"].replace(" ", "_"), "split/break/skeletonize: %s differs from the model" % m["check"], input=m)
    # known finding: an initially closed pipe that a control opens: the new half copies CLOSED but not the control
    from wntr.network import controls as C
    wn = wntr.network.WaterNetworkModel()
    wn.add_reservoir("R", base_head=50.0, coordinates=(0, 0))
    wn.add_junction("J", base_demand=0.01, elevation=0.0, coordinates=(10, 0))
    wn.add_pipe("P", "R", "J", length=100.0, diameter=0.2, roughness=100, initial_status="CLOSED")
    wn.add_pipe("Q", "R", "J", length=5000.0, diameter=0.1, roughness=100)
    wn.add_control("open", C.Control(C.SimTimeCondition(wn, "=", 3600), C.ControlAction(wn.get_link("P"), "status", wntr.network.LinkStatus.Open)))
    wn.options.time.duration = 7200
    h1 = wntr.sim.WNTRSimulator(copy.deepcopy(wn)).run_sim().node["head"].loc[7200, "J"]
    wn2 = wntr.morph.split_pipe(wn, "P", "P2", "JM", split_at_point=0.5)
    h2 = wntr.sim.WNTRSimulator(wn2).run_sim().node["head"].loc[7200, "J"]
    if abs(h1 - h2) > 1e-3:
        run.violation("split_closed_pipe_opened_by_control", "splitting an initially CLOSED pipe that a control opens at 1 h changes the head at 2 h from %.3f to %.3f m: "
                      "the new half stays closed" % (h1, h2), input={"initial_status": "CLOSED", "control": "LINK P OPEN AT TIME 1", "head_before": float(h1), "head_after": float(h2)})
    # known finding: a split pipe with minor loss changes the hydraulics (theorem C19_split_hydraulics_minor_refuted)
    wn = wntr.network.WaterNetworkModel()
    wn.add_reservoir("R", base_head=50.0, coordinates=(0, 0))
    wn.add_junction("J", base_demand=0.05, elevation=0.0, coordinates=(10, 0))
    wn.add_pipe("P", "R", "J", length=100.0, diameter=0.2, roughness=100, minor_loss=20.0)
    wn.options.time.duration = 0
    h1 = wntr.sim.WNTRSimulator(copy.deepcopy(wn)).run_sim().node["head"].loc[0, "J"]
    wn2 = wntr.morph.split_pipe(wn, "P", "P2", "JM", split_at_point=0.5)
    h2 = wntr.sim.WNTRSimulator(wn2).run_sim().node["head"].loc[0, "J"]
    if abs(h1 - h2) > 1e-3:
        run.violation("split_doubles_minor_loss", "splitting a pipe with minor loss changes the head downstream",
                      input={"minor_loss": 20.0, "head_before": float(h1), "head_after": float(h2)})
