"""C13 -- dictionary and JSON representations round-trip the model exactly.

T1: Gen/FromDict.v (keys read by each branch of from_dict) is regenerated from wntr/network/io.py on every run.
Cases decided inside coqc: for one instance of every element kind in generated models, the keys that the real to_dict emits
are all among the keys from_dict reads (`covered ... = true`, lifted by C13_attrs_covered_iff).
Round trips (the property predicate itself, evaluated on the implementation): to_dict -> json -> from_dict -> to_dict must be
equal after the documented normalisations (tuples -> lists, empty pattern names, a junction without demands returns with one
zero demand), for generated models with vertices, several demands per junction, curves, sources, leaks (active, ended and
removed), controls and rules; write_json/read_json likewise; appending to an empty model equals creating.
"""
import copy
import json
import os
import random
import tempfile
import warnings

import common
import netgen
from props.c12 import enrich
from translate import regen

HEADER = """From Coq Require Import ZArith String List Bool.
From WNTRV Require Import Gen.FromDict C13.Model.
Import ListNotations.
Local Open Scope string_scope.
"""
TACTIC = "vm_compute; reflexivity"
# keys in the dictionary that are derived from other keys / not meant to be restored
# (Junction: the first demand repeated as flat keys; Reservoir: leak attributes of the Node base class, a reservoir cannot
#  leak; Pipe: initial_setting is always None for pipes)
DERIVED = {"Junction": ["demand_pattern"], "Tank": [], "Reservoir": ["leak", "leak_area", "leak_discharge_coeff"],
           "Pipe": ["initial_setting"], "Pump": [], "Valve": []}


def normalise(d):
    """JSON normalisation named in the property: tuples->lists (json does it), empty pattern names (a name that refers to no
    pattern of the model means 'no pattern'), a junction without demands returns with one zero demand; the flat keys that
    repeat the first demand entry are derived and dropped"""
    d = json.loads(json.dumps(d))
    pats = {p["name"] for p in d.get("patterns", [])}
    pn = lambda x: x if x in pats else None
    for n in d["nodes"]:
        if n["node_type"] == "Junction":
            dl = n.get("demand_timeseries_list") or []
            if len(dl) == 0:
                dl = [{"base_val": 0.0, "pattern_name": None, "category": None}]
            for x in dl:
                x["pattern_name"] = pn(x.get("pattern_name"))
            n["demand_timeseries_list"] = dl
            for k in ("base_demand", "demand_pattern", "demand_category", "pattern_name"):
                n.pop(k, None)
        if "head_pattern_name" in n:
            n["head_pattern_name"] = pn(n["head_pattern_name"])
    for l in d["links"]:
        if "speed_pattern_name" in l:
            l["speed_pattern_name"] = pn(l["speed_pattern_name"])
    if "options" in d and "hydraulic" in d["options"] and "pattern" in d["options"]["hydraulic"]:
        d["options"]["hydraulic"]["pattern"] = pn(d["options"]["hydraulic"]["pattern"])
    return d


def dict_diff(a, b, path=""):
    out = []
    if isinstance(a, dict) and isinstance(b, dict):
        for k in sorted(set(a) | set(b)):
            if k not in a or k not in b:
                out.append((path + "/" + k, a.get(k, "<missing>"), b.get(k, "<missing>")))
            else:
                out += dict_diff(a[k], b[k], path + "/" + k)
    elif isinstance(a, list) and isinstance(b, list):
        if len(a) != len(b):
            out.append((path, "len %d" % len(a), "len %d" % len(b)))
        else:
            for i, (x, y) in enumerate(zip(a, b)):
                nm = x.get("name", i) if isinstance(x, dict) else i
                out += dict_diff(x, y, path + "[%s]" % nm)
    elif a != b and not (isinstance(a, float) and isinstance(b, float) and a != a and b != b):
        out.append((path, a, b))
    return out


def check(run, replay=None):
    wntr = common.import_wntr(build_ext=True)
    thorough = run.tier == "thorough"
    rng = random.Random(run.seed * 6029 + 13)
    run.rule = ("generated models (netgen + enrichments of C12 + leaks that are active / ended / removed + PDD per-junction parameters); "
                "dictionary, JSON file and append round trips; one coverage case per element kind per model; non-trivial = the model has "
                "at least one control or rule and one element with optional attributes set")
    run.trusted += ["translator tools/translate/fromdict.py (keys read per from_dict branch)", "harness tools/props/c13.py (normalisation named in the property)"]
    run.assumptions += ["models are those constructible through the API by the generator; MSX/GIS extensions are not exercised"]
    errs = regen(["FromDict.v"], common.REPO)
    for e in errs:
        run.tie_broken("translator refused the current source (model is stale)", e)
    ok, log, fails = common.coq_make(["theories/C13/Proofs.vo", "theories/C12/Proofs.vo"])
    if not ok:
        for f, ln, msg in fails:
            run.tie_broken("proof no longer checks: %s line %s: %s" % (f, ln, common.theorem_line(f, ln)), msg)
        for n in common.property_theorems(common.THEORIES + "/C13/Property.v"):
            run.obligation(False, n)
    else:
        common.check_property_file(run, "C13/Property.v")
    cases, meta = [], {}
    nets = 60 if thorough else 12
    tmp = tempfile.mkdtemp(prefix="c13_")
    try:
        for k in range(nets):
            spec = netgen.gen_spec(rng, feat={"leaks": 0.8, "pdd": 0.5, "valves": 0.7, "pumps": 0.6, "volcurve": 0.3, "tank_leak": 0.3})
            spec["options"]["report_timestep"] = spec["options"]["hydraulic_timestep"]
            seen = set()
            spec["leaks"] = [l for l in spec["leaks"] if not (l["node"] in seen or seen.add(l["node"]))]
            try:
                wn = netgen.build(spec, wntr)
                enrich(wn, wntr, rng, spec)
                # a leak that was added and removed again, a junction without demands
                if wn.junction_name_list and rng.random() < 0.6:
                    jn = [j for j in wn.junction_name_list if not wn.get_node(j)._leak]
                    if jn:
                        j = wn.get_node(rng.choice(jn))
                        j.add_leak(wn, area=0.01, discharge_coeff=0.75, start_time=0, end_time=None)
                        j.remove_leak(wn)
                # attributes assigned after creation (from_dict re-creates elements through add_*, which must not re-derive them)
                S_ = wntr.network.LinkStatus
                for ln_, l_ in wn.links():
                    if rng.random() < 0.35:
                        if l_.link_type == "Valve":
                            l_.initial_status = rng.choice([S_.Open, S_.Closed, S_.Active])
                            l_.initial_setting = round(rng.uniform(1, 40), 2)
                        else:
                            l_.initial_status = rng.choice([S_.Open, S_.Closed])      # check-valve pipes included
                        run.count("initial_status assigned after creation")
                # several demand entries of one junction sharing pattern and category (as [DEMANDS] lines or skeletonize produce them)
                for jn_ in wn.junction_name_list:
                    dl_ = wn.get_node(jn_).demand_timeseries_list
                    if len(dl_) >= 1 and rng.random() < 0.3:
                        d0_ = dl_[rng.randrange(len(dl_))]
                        dl_.append((round(rng.uniform(0.0002, 0.003), 5), d0_.pattern_name, d0_.category))
                        run.count("duplicate (pattern, category) demand entry")
                if rng.random() < 0.5:
                    wn.add_junction("JEMPTY", base_demand=0.0, elevation=2.0, coordinates=(1, 1))
                    wn.get_node("JEMPTY").demand_timeseries_list.clear()
                    wn.add_pipe("PEMPTY", "JEMPTY", wn.junction_name_list[0], length=50.0, diameter=0.2, roughness=100)
            except Exception as e:
                run.count("build_failed")
                continue
            desc = {"spec": spec}
            try:
                with warnings.catch_warnings():
                    warnings.simplefilter("ignore")
                    d1 = wn.to_dict()
                    j1 = json.loads(json.dumps(d1))
                    wn2 = wntr.network.from_dict(copy.deepcopy(j1))
                    d2 = wn2.to_dict()
                    f = os.path.join(tmp, "m.json")
                    wntr.network.write_json(wn, f)
                    wn3 = wntr.network.read_json(f)
                    d3 = wn3.to_dict()
                    wn4 = wntr.network.from_dict(copy.deepcopy(j1), append=wntr.network.WaterNetworkModel())
                    d4 = wn4.to_dict()
            except Exception as e:
                run.violation("dict_roundtrip_raises", "dictionary/JSON round trip raised %s: %s" % (type(e).__name__, e), input=desc)
                continue
            n1 = normalise(d1)
            for nm, dd in (("from_dict", d2), ("read_json", d3), ("append", d4)):
                df = dict_diff(n1, normalise(dd))
                run.case({"net": k, "path": nm}, bool(d1["controls"]), None)
                run.count("roundtrip:" + nm)
                if df:
                    where = df[0][0].split("/")[1].split("[")[0]
                    last = df[0][0].split("/")[-1]
                    run.violation("dict_roundtrip_differs_%s_%s" % (where, last), "%s changed the dictionary: %s" % (nm, df[:3]), input=desc)
                    break
            # coverage cases: keys emitted for each element kind
            seen_kind = set()
            for el in d1["nodes"] + d1["links"]:
                kind = el.get("node_type") or el.get("link_type")
                if kind in seen_kind:
                    continue
                seen_kind.add(kind)
                keys = [x for x in el.keys() if x not in DERIVED.get(kind, [])]
                cases.append((len(cases), "missing [%s] restored_%s = []" % ("; ".join('"%s"' % x for x in keys), kind)))
                meta[len(cases) - 1] = {"check": "keys emitted by to_dict are read by from_dict", "kind": kind, "emitted": keys, "element": el.get("name")}
                run.case({"net": k, "kind": kind}, True, meta[len(cases) - 1] if k == 0 else None)
    finally:
        import shutil
        shutil.rmtree(tmp, ignore_errors=True)
    res, errors = common.run_prop_cases("C13", HEADER, TACTIC, cases, shard=200)
    for e in errors:
        run.tie_broken("correspondence case file failed to compile", e)
    for cid, _ in cases:
        run.obligations += 1
        if res.get(cid):
            run.discharged += 1
        elif cid in res:
            m = meta[cid]
            run.violation("attrs_not_covered_" + m["kind"], "to_dict emits keys for a %s that from_dict never reads" % m["kind"], input=m)
