"""C05 -- reported states are consistent with every conditional simple control.

Model: C05/Model.v (the three `status` properties, user / internal actions, stable priority sort, ControlChangeTracker,
the accept-or-solve-again loop of run_sim).  Theorems: C05/Property.v (accepted_consistent for status and setting commands,
accepted state = solved state, the whole trial loop, effect_forces_resolve, tank-level backtrack inside the step, two thresholds).
Ties decided inside coqc:
  * vm_compute, exact: every post-solve pass of real runs (traced on the harness side: link states before, the triggered
    post-solve and feasibility controls in check() order with priorities and actions, the tracker's reference point, link states
    after, changes_made('graph')) equals the model's after_solve;
  * vm_compute, exact rationals: the truth value the implementation gave every user condition at the accepted pass equals the model's
    value_cond / tank_cond on the value that is REPORTED for that node at that step;
  * interval: a tank-level threshold that is first met at a reported step (and whose control changed its link) is overshot by less than
    two seconds of the tank's flow.
The statement itself on the reported tables: for every reported step and every conditional simple control whose condition is true on the
reported state, the reported status / setting is the commanded one, unless the traced internal status holds the link closed or a
conflicting control of >= priority is triggered as well.
"""
import random
import struct

import common
import netgen
import simrun
from common import q_of_float as Q, r_of_float as R

HEADER = """From Coq Require Import ZArith QArith List Bool Reals.
From Interval Require Import Tactic.
From Flocq Require Import Core.Raux.
From WNTRV Require Import C05.Model C06.Model.
Import ListNotations.
Local Close Scope Q_scope.
Local Open Scope Z_scope.
Ltac solve_case := match goal with
  | |- backtrack _ _ _ _ = _ => unfold backtrack; apply Zfloor_imp; rewrite ?plus_IZR; split; interval with (i_prec 60)
  | _ => first [ vm_compute; reflexivity | interval with (i_prec 60) ]
  end.
"""
TACTIC = "solve_case"
KIND = {"Pipe": "PipeK", "Pump": "PumpK", "Valve": "ValveK"}
REL = {">=": "Ge", "<=": "Le", ">": "Gt", "<": "Lt", "=": "Eq", "<>": "Ne"}
MARGIN = 1e-7


def bits(x):
    if x is None:
        return -1
    return struct.unpack("<q", struct.pack("<d", float(x)))[0]


def cond_spec(rng, wntr):
    """a network with tanks whose levels move, plus several conditional controls (spec['cond'])"""
    spec = netgen.gen_spec(rng, feat={"tanks": 1.0, "leaks": 0.0, "valves": 0.4, "pumps": 0.4, "cv": 0.3, "closed": 0.25, "level_controls": 0.0,
                                      "pressure_controls": 0.0, "time_controls": 0.3, "rules": 0.15, "pdd": 0.3, "neg_elev": 0.4, "parallel": 0.3})
    o = spec["options"]
    o["report_timestep"] = rng.choice(["ALL", "ALL", o["hydraulic_timestep"]])
    o["duration"] = o["hydraulic_timestep"] * rng.randint(6, 14)
    for t in spec["tanks"]:
        t["diameter"] = round(rng.uniform(2.0, 5.0), 1)
        t["min_level"] = round(rng.uniform(0.2, 0.8), 2)
        t["max_level"] = round(rng.uniform(4.0, 6.0), 2)
        t["init_level"] = round(rng.uniform(1.5, 3.5), 2)
    spec["cond"] = []
    return spec


def add_conditions(rng, spec, pressures):
    """conditional controls with thresholds inside the ranges seen in a control-free run"""
    links = [(p["name"], "Pipe") for p in spec["pipes"] if not p["cv"]] + [(p["name"], "Pump") for p in spec["pumps"]] + \
            [(v["name"], "Valve") for v in spec["valves"]]
    if not links:
        return
    pr = lambda: rng.choice([0, 1, 3, 3, 3, 5])

    def command(ln, kind):
        if kind == "Valve" and rng.random() < 0.5:
            v = spec["valves"][0]
            if rng.random() < 0.5:
                return {"attr": "setting", "value": round(v["setting"] * rng.choice([0.5, 0.8, 1.5]), 4)}
            return {"attr": "status", "value": rng.choice(["OPEN", "CLOSED", "ACTIVE"])}
        return {"attr": "status", "value": rng.choice(["OPEN", "CLOSED"])}
    for ti_, t in enumerate(spec["tanks"]):
        lv = t["init_level"]
        fam = rng.choice(["hysteresis", "two", "conflict", "single", "hysteresis"] + (["setting_conflict"] * 3 if spec["valves"] else []))
        if ti_ == 0 and spec["valves"] and random.Random(int(lv * 1000) + len(spec["pipes"])).random() < 0.7:
            fam = "setting_conflict"        # decided without touching the main stream
        ln, kind = rng.choice(links)
        tattr = rng.choice(["level", "level", "pressure", "head"])
        off = t["elevation"] if tattr == "head" else 0.0
        lo, hi = round(lv - rng.uniform(0.05, 0.7), 2), round(lv + rng.uniform(0.05, 0.7), 2)
        if fam == "hysteresis":
            a, b = rng.choice([("OPEN", "CLOSED"), ("CLOSED", "OPEN")])
            spec["cond"].append({"node": t["name"], "nattr": tattr, "op": rng.choice(["<", "<="]), "thr": lo + off, "link": ln, "attr": "status", "value": a, "priority": pr()})
            spec["cond"].append({"node": t["name"], "nattr": tattr, "op": rng.choice([">", ">="]), "thr": hi + off, "link": ln, "attr": "status", "value": b, "priority": pr()})
        elif fam == "two":
            # two thresholds so close that both are crossed inside one hydraulic step, on different links
            d = rng.choice([0.002, 0.01, 0.03])
            for thr in (lo, round(lo - d, 3)):
                l2, k2 = rng.choice(links)
                spec["cond"].append(dict({"node": t["name"], "nattr": tattr, "op": "<", "thr": thr + off, "link": l2, "priority": pr()}, **command(l2, k2)))
            for thr in (hi, round(hi + d, 3)):
                l2, k2 = rng.choice(links)
                spec["cond"].append(dict({"node": t["name"], "nattr": tattr, "op": ">", "thr": thr + off, "link": l2, "priority": pr()}, **command(l2, k2)))
        elif fam == "setting_conflict":
            # a very-low-priority SETTING control (whose implicit companion re-activates the valve with the same priority) and a status control
            # of higher priority on the same valve, both true at once: the status command must win
            v = rng.choice(spec["valves"])
            up = rng.random() < 0.5
            thr1 = (hi if up else lo) + off
            thr2 = round((hi + 0.1) if up else (lo - 0.1), 2) + off
            op = ">" if up else "<"
            spec["cond"].append({"node": t["name"], "nattr": tattr, "op": op, "thr": thr1, "link": v["name"], "attr": "setting",
                                 "value": round(v["setting"] * rng.choice([0.5, 0.8, 1.5]), 4), "priority": 0})
            spec["cond"].append({"node": t["name"], "nattr": tattr, "op": op, "thr": thr2, "link": v["name"], "attr": "status",
                                 "value": rng.choice(["CLOSED", "CLOSED", "OPEN"]), "priority": rng.choice([1, 3, 5])})
        elif fam == "conflict":
            # both conditions hold at once on the same link with opposite commands
            p1 = pr()
            p2 = rng.choice([p1, p1, pr()])
            spec["cond"].append({"node": t["name"], "nattr": tattr, "op": "<", "thr": lo + off, "link": ln, "attr": "status", "value": "CLOSED", "priority": p1})
            spec["cond"].append({"node": t["name"], "nattr": tattr, "op": "<", "thr": round(lo + 0.2, 2) + off, "link": ln, "attr": "status", "value": "OPEN", "priority": p2})
        else:
            spec["cond"].append(dict({"node": t["name"], "nattr": tattr, "op": rng.choice(["<", ">", "<=", ">="]), "thr": rng.choice([lo, hi]) + off,
                                      "link": ln, "priority": pr()}, **command(ln, kind)))
    # junction pressure controls
    jn = [j for j in spec["junctions"] if j["name"] in pressures]
    for _ in range(rng.randint(1, 3)):
        if not jn:
            break
        j = rng.choice(jn)
        pmin, pmax = pressures[j["name"]]
        thr = round(rng.uniform(pmin, pmax), 2) if pmax - pmin > 0.05 else round(pmin + rng.choice([-0.5, 0.5]), 2)
        ln, kind = rng.choice(links)
        spec["cond"].append(dict({"node": j["name"], "nattr": "pressure", "op": rng.choice(["<", ">", "<=", ">="]), "thr": thr, "link": ln, "priority": pr()},
                                 **command(ln, kind)))


def add_isolation_family(rng, spec):
    """a leaf junction below the datum that a time control cuts off, with pressure controls on it (thresholds between 0 and -elevation)"""
    jn = [j["name"] for j in spec["junctions"] if j["name"] != "JV"]
    elev = -round(rng.uniform(4.0, 15.0), 1)
    spec["junctions"].append({"name": "JL", "elevation": elev, "demands": [{"base": 0.001, "pattern": None, "category": "dom"}]})
    spec["pipes"].append({"name": "PL", "start": rng.choice(jn), "end": "JL", "length": 120.0, "diameter": 0.2, "roughness": 110, "minor_loss": 0.0,
                          "status": "OPEN", "cv": False})
    hs = spec["options"]["hydraulic_timestep"]
    t1 = hs * rng.randint(1, 3)
    spec["controls"].append({"kind": "time", "link": "PL", "time": t1, "status": "CLOSED", "priority": 3})
    if rng.random() < 0.5:
        spec["controls"].append({"kind": "time", "link": "PL", "time": t1 + 2 * hs, "status": "OPEN", "priority": 3})
    others = [p["name"] for p in spec["pipes"] if not p["cv"] and p["name"] != "PL"]
    thr = round(-elev * rng.uniform(0.2, 0.8), 1)
    for op, val in rng.sample([("<", "CLOSED"), ("<", "OPEN"), (">", "OPEN"), (">", "CLOSED")], 2):
        spec["cond"].append({"node": "JL", "nattr": "pressure", "op": op, "thr": thr, "link": rng.choice(others), "attr": "status", "value": val, "priority": 3})


def build(spec, wntr, with_cond=True):
    from wntr.network import controls as C
    wn = netgen.build(spec, wntr)
    st = {"OPEN": wntr.network.LinkStatus.Open, "CLOSED": wntr.network.LinkStatus.Closed, "ACTIVE": wntr.network.LinkStatus.Active}
    if with_cond:
        for i, c in enumerate(spec["cond"]):
            link = wn.get_link(c["link"])
            val = st[c["value"]] if c["attr"] == "status" else c["value"]
            cond = C.ValueCondition(wn.get_node(c["node"]), c["nattr"], c["op"], c["thr"])
            wn.add_control("cc%d" % i, C.Control(cond, C.ControlAction(link, c["attr"], val), priority=c["priority"]))
    return wn


class Tracer:
    """harness-side tracing of the post-solve passes and of what is saved (no hook in the repository)"""

    def __init__(self, wntr, wn):
        self.wntr, self.wn = wntr, wn
        self.links = [n for n, _ in wn.links()]
        self.idx = {n: i for i, n in enumerate(self.links)}
        self.trials, self.saved, self.pending = [], {}, None
        self.unmodelled = 0
        self.tl_evals = []

    def snap(self):
        out = []
        for n in self.links:
            l = self.wn.get_link(n)
            out.append((KIND[l.link_type], int(l._user_status), int(l._internal_status), bits(getattr(l, "_setting", None))))
        return out

    def conv(self, triggered):
        C = self.wntr.network.controls
        out = []
        for c, _b in triggered:
            acts = c._then_actions if c._which == "then" else c._else_actions
            for a in acts:
                obj = a._target_obj
                if getattr(obj, "name", None) not in self.idx or not hasattr(obj, "link_type"):
                    return None
                i = self.idx[obj.name]
                if isinstance(a, C._InternalControlAction):
                    if a._internal_attr != "_internal_status" or a._property_attr != "status":
                        return None
                    out.append((int(c._priority), "InternalA %d%%nat %d" % (i, int(a._value)), c))
                elif a._attribute == "status":
                    out.append((int(c._priority), "UserA %d%%nat Status %d" % (i, int(a._value)), c))
                elif a._attribute == "setting":
                    out.append((int(c._priority), "UserA %d%%nat Setting (%d)" % (i, bits(a._value)), c))
                else:
                    return None
        return out

    def __enter__(self):
        W = self.wntr.sim.core.WNTRSimulator
        H = self.wntr.sim.hydraulics
        self.o_post, self.o_feas, self.o_save = W._run_postsolve_controls, W._run_feasibility_controls, H.save_results
        tr = self

        def capture(checker, fn, sim):
            got = []
            orig = checker.check

            def check():
                r = orig()
                got.append(list(r))
                return r
            checker.check = check
            try:
                fn(sim)
            finally:
                del checker.check
            return got[0] if got else []

        def post(sim):
            pre = tr.snap()
            ref = []
            for (obj, attr), val in sim._change_tracker._previous_values["graph"].items():
                if getattr(obj, "name", None) in tr.idx and hasattr(obj, "link_type") and attr in ("status", "setting"):
                    ref.append((tr.idx[obj.name], "Status" if attr == "status" else "Setting", int(val) if attr == "status" else bits(val)))
            trig = capture(sim._postsolve_controls, tr.o_post, sim)
            # condition values as the implementation sees them, for every user conditional control
            conds = {}
            for name, c in tr.wn.controls():
                cond = c._condition
                if hasattr(cond, "_source_obj") and hasattr(cond, "_threshold") and not hasattr(cond, "_threshold_obj"):
                    conds[name] = any(c is t for t, _ in trig)
            tr.pending = {"time": int(tr.wn.sim_time), "pre": pre, "ref": ref, "post": tr.conv(trig), "conds": conds}

        def feas(sim):
            if tr.pending is None:
                return tr.o_feas(sim)
            trig = capture(sim._feasibility_controls, tr.o_feas, sim)
            ev = tr.pending
            tr.pending = None
            ev["feas"] = tr.conv(trig)
            ev["after"] = tr.snap()
            ev["changed"] = bool(sim._change_tracker.changes_made("graph"))
            tr.trials.append(ev)

        def save(wn, node_res, link_res):
            tr.o_save(wn, node_res, link_res)
            tr.saved[int(wn.sim_time)] = {"links": tr.snap(), "trial": len(tr.trials) - 1}
        W._run_postsolve_controls, W._run_feasibility_controls, H.save_results = post, feas, save
        TL = self.wntr.network.controls.TankLevelCondition
        self.o_tl = TL.evaluate

        def tl_eval(cond):
            tank = cond._source_obj
            last, cur, q = cond._last_value, getattr(tank, cond._source_attr), tank.demand
            r = tr.o_tl(cond)
            if tank.vol_curve is None and q is not None and len(tr.tl_evals) < 4000:
                tr.tl_evals.append({"rel": cond._relation.symbol if hasattr(cond._relation, "symbol") else str(cond._relation), "thr": float(cond._threshold),
                                    "last": float(last), "cur": float(cur), "q": float(q), "d": float(tank.diameter), "state": bool(r),
                                    "backtrack": int(cond._backtrack), "time": int(tr.wn.sim_time)})
            return r
        TL.evaluate = tl_eval
        return self

    def __exit__(self, *a):
        W = self.wntr.sim.core.WNTRSimulator
        W._run_postsolve_controls, W._run_feasibility_controls = self.o_post, self.o_feas
        self.wntr.sim.hydraulics.save_results = self.o_save
        self.wntr.network.controls.TankLevelCondition.evaluate = self.o_tl


def coq_state(s):
    return "[" + "; ".join("{| lkind := %s; luser := %d; linternal := %d; lsetting := %d |}" % x for x in s) + "]"


def coq_ctls(cs):
    return "[" + "; ".join("{| prio := %d; action := %s |}" % (p, a) for p, a, _ in cs) + "]"


def truth(op, cur, thr, tank):
    """condition on the reported value: True / False / None (too close to call)"""
    if abs(cur - thr) < MARGIN:
        return None
    return {"<": cur < thr, "<=": cur < thr, ">": cur > thr, ">=": cur > thr}[op]


def check(run, replay=None):
    wntr = common.import_wntr(build_ext=True)
    thorough = run.tier == "thorough"
    rng = random.Random(run.seed * 4409 + 5)
    run.rule = ("generated networks (netgen) with 1-2 small tanks and conditional controls: hysteresis pairs, two thresholds crossed in one step, "
                "equal- and mixed-priority conflicts, level / pressure / head conditions on tanks, junction pressure conditions with thresholds inside the "
                "range seen in a control-free run, targets = pipes, pumps, valves (status incl. ACTIVE, setting), priorities 0-5, time controls and rules "
                "alongside; every 3rd network has a leaf junction below the datum that gets cut off, with pressure controls on it; "
                "one case per traced post-solve pass, per condition at an accepted pass, per threshold crossing; non-trivial = a control is triggered")
    run.trusted += ["harness tools/props/c05.py (tracing wrappers around _run_postsolve_controls / _run_feasibility_controls / save_results)", "coq-interval"]
    run.assumptions += ["conditions within 1e-7 of their threshold on the reported value are not judged (np.round(.,10) in the code)",
                        "runs that do not converge are excluded, as the property says",
                        "the flooring in TankLevelCondition is done on binary64: two seconds of flow are allowed instead of one"]
    ok, log, fails = common.coq_make(["theories/C05/Property.vo"])
    if not ok:
        for f, ln, msg in fails:
            run.tie_broken("proof no longer checks: %s line %s: %s" % (f, ln, common.theorem_line(f, ln)), msg)
        for n in common.property_theorems(common.THEORIES + "/C05/Property.v"):
            run.obligation(False, n)
    else:
        common.check_property_file(run, "C05/Property.v")
    cases, meta = [], {}

    def add(prop, m, nt=True):
        cases.append((len(cases), prop))
        meta[len(cases) - 1] = m
        run.case(prop[:250], nt, {k: v for k, v in m.items() if k != "spec"} if len(cases) in (1, 30) else None)
        run.count(m["check"])
    nets = 70 if thorough else 16
    done = tries = 0
    LS = {"OPEN": 1, "CLOSED": 0, "ACTIVE": 2}
    while done < nets and tries < nets * 4:
        tries += 1
        spec = cond_spec(rng, wntr)
        if tries % 3 == 0:
            add_isolation_family(rng, spec)
        try:
            wn0 = build(spec, wntr, with_cond=False)
        except Exception:
            continue
        r0, e0, w0, _ = simrun.run(wntr, wn0)
        if not simrun.converged(r0, e0, w0):
            continue
        P0 = r0.node["pressure"]
        add_conditions(rng, spec, {j["name"]: (float(P0[j["name"]].min()), float(P0[j["name"]].max())) for j in spec["junctions"]})
        try:
            wn = build(spec, wntr)
        except Exception:
            continue
        with Tracer(wntr, wn) as tr:
            res, err, warns, sim = simrun.run(wntr, wn)
        if not simrun.converged(res, err, warns):
            run.count("skipped:not_converged")
            continue
        done += 1
        # (1) every traced post-solve pass equals the model ------------------------------------------------------
        passes = tr.trials if thorough else tr.trials[:: max(1, len(tr.trials) // 25)]
        for ev in passes:
            if ev["post"] is None or ev["feas"] is None:
                run.count("unmodelled pass (action on a non-link target)")
                continue
            if any(not a.startswith("InternalA") for _, a, _ in ev["feas"]):
                run.violation("feasibility_control_with_user_action", "a feasibility control carries a user action (the theorems assume internal ones only)",
                              input={"spec": spec, "time": ev["time"]})
                continue
            prop = "trial_ok [%s] %s %s %s %s %s = true" % (
                "; ".join("(%d%%nat, %s, %d)" % r for r in ev["ref"]), coq_ctls(ev["post"]), coq_ctls(ev["feas"]), coq_state(ev["pre"]),
                coq_state(ev["after"]), "true" if ev["changed"] else "false")
            add(prop, {"check": "post-solve pass vs model", "spec": spec, "time": ev["time"], "triggered": [a for _, a, _ in ev["post"]],
                       "feasibility": [a for _, a, _ in ev["feas"]], "changed": ev["changed"]}, bool(ev["post"]))
        # (2) + the statement on the reported tables ---------------------------------------------------------------
        Pm, Hd, Dm = res.node["pressure"], res.node["head"], res.node["demand"]
        St, Se = res.link["status"], res.link["setting"]
        times = [int(t) for t in Pm.index]
        tanks = {t["name"]: t for t in spec["tanks"]}

        def reported(c, t):
            n = c["node"]
            if n in tanks and c["nattr"] == "head":
                return float(Hd.loc[t, n])
            return float(Pm.loc[t, n])
        for t in times:
            sv = tr.saved.get(t)
            if sv is None:
                run.tie_broken("tracing: a reported step has no traced save_results call", "t=%s" % t)
                break
            ev = tr.trials[sv["trial"]] if sv["trial"] >= 0 else None
            tv = [truth(c["op"], reported(c, t), c["thr"], c["node"] in tanks) for c in spec["cond"]]
            for k, c in enumerate(spec["cond"]):
                cur = reported(c, t)
                # (2) implementation's truth value at the accepted pass vs the model on the reported value
                if ev is not None and tv[k] is not None and ev["time"] == t and (thorough or t in times[::3]):
                    impl = ev["conds"].get("cc%d" % k)
                    fn = "tank_cond" if c["node"] in tanks else "value_cond"
                    add("%s %s %s %s = %s" % (fn, REL[c["op"]], Q(cur), Q(c["thr"]), "true" if impl else "false"),
                        {"check": "condition on the reported value", "spec": spec, "control": c, "time": t, "reported": cur, "impl_triggered": impl}, bool(impl))
                if tv[k] is not True:
                    continue
                run.count("condition true at a reported step")
                i = tr.idx[c["link"]]
                kind, user, internal, setting = sv["links"][i]
                if c["attr"] == "status":
                    want, got = LS[c["value"]], int(St.loc[t, c["link"]])
                else:
                    want, got = c["value"], float(Se.loc[t, c["link"]])
                if got == want:
                    continue
                # exceptions the property allows
                if c["attr"] == "status" and c["value"] == "OPEN" and kind != "ValveK" and internal == 0 and got == 0:
                    run.count("exception: held closed by the internal status")
                    continue
                if c["attr"] == "status" and c["value"] == "ACTIVE" and kind == "ValveK" and user == 2:
                    run.count("exception: valve commanded ACTIVE follows its own rule")
                    continue
                rivals = [c2 for k2, c2 in enumerate(spec["cond"]) if k2 != k and c2["link"] == c["link"] and c2["priority"] >= c["priority"] and tv[k2] is not False
                          and ((c2["attr"] == c["attr"] and c2["value"] != c["value"])
                               # a setting control carries an implicit "status := ACTIVE" command of its own priority
                               or (c2["attr"] == "setting" and c["attr"] == "status" and c["value"] != "ACTIVE"))]
                if rivals:
                    run.count("exception: conflicting control of >= priority")
                    continue
                run.violation("command_not_in_effect", "t=%d: %s %s %s %s holds on the reported state (%.6g) but link %s reports %s = %s instead of %s" % (
                    t, c["node"], c["nattr"], c["op"], c["thr"], cur, c["link"], c["attr"], got, want),
                    input={"spec": spec, "control": c, "time": t, "reported_value": cur, "link_state": {"user": user, "internal": internal}})
                break
        # (2b) TankLevelCondition.evaluate as the code ran it (pre- and post-solve): truth value = tank_cond on the value it read, backtrack = the
        #      model's whole-second floor when the threshold has just been crossed with a non-zero tank flow, 0 otherwise
        import math as _m
        evs = tr.tl_evals if thorough else tr.tl_evals[:: max(1, len(tr.tl_evals) // 40)]
        for e in evs:
            sym = {">=": "Ge", "<=": "Le", ">": "Gt", "<": "Lt"}.get(e["rel"])
            if sym is None or abs(e["cur"] - e["thr"]) < MARGIN or abs(e["last"] - e["thr"]) < MARGIN:
                continue
            add("tank_cond %s %s %s = %s" % (sym, Q(e["cur"]), Q(e["thr"]), "true" if e["state"] else "false"),
                {"check": "TankLevelCondition truth value", "spec": spec, "evaluation": e}, e["state"])
            ge = sym in ("Ge", "Gt")
            crossed = e["state"] and not ((e["last"] >= e["thr"]) if ge else (e["last"] <= e["thr"]))
            if crossed and e["q"] != 0.0:
                x = (e["cur"] - e["thr"]) * _m.pi / 4.0 * e["d"] ** 2 / e["q"]
                if abs(x - round(x)) < 1e-6:
                    continue           # the floor of a value this close to an integer depends on binary64 rounding
                add("backtrack %s %s %s %s = (%d)%%Z" % (R(e["cur"]), R(e["thr"]), R(e["d"]), R(e["q"]), e["backtrack"]),
                    {"check": "TankLevelCondition backtrack", "spec": spec, "evaluation": e}, True)
            elif e["backtrack"] != 0:
                run.violation("backtrack_without_crossing", "TankLevelCondition left backtrack %d although the threshold was not just crossed" % e["backtrack"],
                              input={"spec": spec, "evaluation": e})
        # (3) thresholds are met by a partial step ---------------------------------------------------------------------------------------
        crossings = []

        def partial_steps(Hd_, Pm_, Dm_, St_, times_, what, paused_at=None):
            def rep_(c, t):
                return float(Hd_.loc[t, c["node"]]) if (c["node"] in tanks and c["nattr"] == "head") else float(Pm_.loc[t, c["node"]])
            for k, c in enumerate(spec["cond"]):
                if c["node"] not in tanks or c["attr"] != "status":
                    continue
                tk = tanks[c["node"]]
                for t1, t2 in zip(times_, times_[1:]):
                    a, b = truth(c["op"], rep_(c, t1), c["thr"], True), truth(c["op"], rep_(c, t2), c["thr"], True)
                    if a is False and b is True and int(St_.loc[t1, c["link"]]) != LS[c["value"]] and int(St_.loc[t2, c["link"]]) == LS[c["value"]]:
                        q = float(Dm_.loc[t1, c["node"]])
                        over = abs(rep_(c, t2) - c["thr"])
                        crossings.append((t1, t2))
                        add("(%s <= 2 * %s / (PI * %s ^ 2 / 4) + 1 / 1000000)%%R" % (R(over), R(abs(q)), R(tk["diameter"])),
                            {"check": what, "spec": spec, "control": c, "t1": t1, "t2": t2, "overshoot": over, "tank_flow": q, "paused_at": paused_at,
                             "full_step_change": abs(q) * (t2 - t1) / (3.141592653589793 * tk["diameter"] ** 2 / 4)}, True)
        if spec["options"]["report_timestep"] == "ALL":
            partial_steps(Hd, Pm, Dm, St, times, "threshold met by a partial step")
            # ... also in a run that is paused just before a crossing and continued by a new simulator object
            hs_ = spec["options"]["hydraulic_timestep"]
            cand = sorted({(t2 // hs_) * hs_ if t2 % hs_ else t2 - hs_ for (t1, t2) in crossings})
            cand = [T1 for T1 in cand if 0 < T1 < spec["options"]["duration"]]
            import pandas as _pd
            for T1 in cand[:3]:
                try:
                    wnp = build(spec, wntr)
                    wnp.options.time.duration = T1
                    ra, ea, wa, _ = simrun.run(wntr, wnp)
                    wnp.options.time.duration = spec["options"]["duration"]
                    rb, eb, wb, _ = simrun.run(wntr, wnp)
                except Exception:
                    ra = rb = None
                if ra is not None and rb is not None and simrun.converged(ra, ea, wa) and simrun.converged(rb, eb, wb):
                    cat = lambda f: _pd.concat([f(ra), f(rb)])
                    Hp, Pp, Dp, Sp = cat(lambda r: r.node["head"]), cat(lambda r: r.node["pressure"]), cat(lambda r: r.node["demand"]), cat(lambda r: r.link["status"])
                    tp = [int(t) for t in Hp.index]
                    if len(set(tp)) == len(tp):
                        run.count("paused before a threshold crossing")
                        partial_steps(Hp, Pp, Dp, Sp, tp, "threshold met by a partial step (run paused and continued)", paused_at=T1)
    # ---- directed: a tank filling through a pipe that a level control closes; the run is paused at the grid time before the crossing and
    #      continued by a new simulator object: the threshold must still be met by a partial step ----
    from wntr.network import controls as C_
    import pandas as _pd2
    for rep in range(6 if thorough else 3):
        rr = random.Random(run.seed * 977 + rep)
        d_t, lv0 = round(rr.uniform(2.5, 4.0), 1), round(rr.uniform(1.5, 2.5), 2)
        thr_box = [None]
        hs_ = rr.choice([3600, 1800])
        len_box = [rr.choice([600.0, 900.0])]

        def mk(with_ctrl=True):
            thr_u = thr_box[0]
            w = wntr.network.WaterNetworkModel()
            w.add_reservoir("R", base_head=60.0)
            w.add_junction("J1", base_demand=0.002, elevation=5.0)
            w.add_tank("T", elevation=30.0, init_level=lv0, min_level=0.5, max_level=8.0, diameter=d_t)
            w.add_pipe("P1", "R", "J1", length=len_box[0], diameter=0.1, roughness=100)
            w.add_pipe("P2", "J1", "T", length=100.0, diameter=0.25, roughness=120)
            if with_ctrl:
                w.add_control("up", C_.Control(C_.ValueCondition(w.get_node("T"), "level", ">", thr_u), C_.ControlAction(w.get_link("P1"), "status", wntr.network.LinkStatus.Closed)))
            w.options.time.hydraulic_timestep = hs_
            w.options.time.report_timestep = "ALL"
            w.options.time.duration = 8 * hs_
            return w
        # the threshold is placed inside the third hydraulic step of the uncontrolled trajectory
        rfree, efree, wfree, _ = simrun.run(wntr, mk(False))
        if not simrun.converged(rfree, efree, wfree):
            continue
        lfree = rfree.node["head"]["T"] - 30.0
        if 2 * hs_ not in lfree.index or 3 * hs_ not in lfree.index or float(lfree.loc[3 * hs_]) - float(lfree.loc[2 * hs_]) < 0.02:
            continue
        thr_u = round(float(lfree.loc[2 * hs_]) + rr.uniform(0.3, 0.7) * (float(lfree.loc[3 * hs_]) - float(lfree.loc[2 * hs_])), 3)
        thr_box[0] = thr_u
        w0 = mk()
        r0, e0, ww0, _ = simrun.run(wntr, w0)
        if not simrun.converged(r0, e0, ww0):
            continue
        lv = r0.node["head"]["T"] - 30.0
        tms = [int(x) for x in lv.index]
        cross = [(a_, b_) for a_, b_ in zip(tms, tms[1:]) if float(lv.loc[a_]) <= thr_u < float(lv.loc[b_])]
        if not cross:
            continue
        t1_, t2_ = cross[0]
        Tp = (t2_ // hs_) * hs_ if t2_ % hs_ else t2_ - hs_
        for paused in ([None] + ([Tp] if Tp > 0 else [])):
            w1 = mk()
            if paused is None:
                ra_, rb_ = r0, None
            else:
                w1.options.time.duration = paused
                ra_, ea_, wa_, _ = simrun.run(wntr, w1)
                w1.options.time.duration = 8 * hs_
                rb_, eb_, wb_, _ = simrun.run(wntr, w1)
                if not (simrun.converged(ra_, ea_, wa_) and simrun.converged(rb_, eb_, wb_)):
                    continue
            Hc = ra_.node["head"]["T"] if rb_ is None else _pd2.concat([ra_.node["head"]["T"], rb_.node["head"]["T"]])
            Dc = ra_.node["demand"]["T"] if rb_ is None else _pd2.concat([ra_.node["demand"]["T"], rb_.node["demand"]["T"]])
            Sc = ra_.link["status"]["P1"] if rb_ is None else _pd2.concat([ra_.link["status"]["P1"], rb_.link["status"]["P1"]])
            tt_ = [int(x) for x in Hc.index]
            for a_, b_ in zip(tt_, tt_[1:]):
                if float(Hc.loc[a_]) - 30.0 <= thr_u < float(Hc.loc[b_]) - 30.0 and int(Sc.loc[b_]) == 0 and int(Sc.loc[a_]) != 0:
                    over, q_ = abs(float(Hc.loc[b_]) - 30.0 - thr_u), float(Dc.loc[a_])
                    add("(%s <= 2 * %s / (PI * %s ^ 2 / 4) + 1 / 1000000)%%R" % (R(over), R(abs(q_)), R(d_t)),
                        {"check": "threshold met by a partial step" + (" (run paused and continued)" if paused else ""), "spec": "directed: R -P1- J1 -P2- T, IF T level > %s THEN P1 CLOSED" % thr_u,
                         "control": {"node": "T", "op": ">", "thr": thr_u, "link": "P1"}, "t1": a_, "t2": b_, "overshoot": over, "tank_flow": q_, "paused_at": paused,
                         "full_step_change": abs(q_) * (b_ - a_) / (3.141592653589793 * d_t ** 2 / 4), "tank_diameter": d_t, "init_level": lv0, "hydraulic_timestep": hs_}, True)
                    run.count("directed crossing" + (" after a pause" if paused else ""))
    # ---- directed: a very-low-priority SETTING control and a status control of higher priority on one valve, both true on the reported
    #      state: the valve must show the commanded status (the implicit companion of a setting control has the priority of that control) ----
    for rep in range(4 if thorough else 2):
        rr = random.Random(run.seed * 5851 + rep)
        w = wntr.network.WaterNetworkModel()
        w.add_reservoir("R", base_head=60.0)
        w.add_junction("J0", base_demand=0.0, elevation=5.0)
        w.add_junction("J1", base_demand=0.002, elevation=5.0)
        lv0, d_t = round(rr.uniform(1.5, 2.5), 2), round(rr.uniform(2.5, 4.0), 1)
        w.add_tank("T", elevation=30.0, init_level=lv0, min_level=0.5, max_level=9.0, diameter=d_t)
        w.add_pipe("P0", "R", "J0", length=300.0, diameter=0.15, roughness=100)
        w.add_valve("V", "J0", "J1", diameter=0.15, valve_type="TCV", minor_loss=0.0, initial_setting=5.0, initial_status="ACTIVE")
        w.add_pipe("P2", "J1", "T", length=100.0, diameter=0.25, roughness=120)
        thr1 = round(lv0 + rr.uniform(0.2, 0.5), 2)
        thr2 = round(thr1 + rr.uniform(0.1, 0.4), 2)
        cmd = rr.choice(["CLOSED", "CLOSED", "OPEN"])
        prio2 = rr.choice([1, 3, 5])
        S_ = wntr.network.LinkStatus
        w.add_control("cs", C_.Control(C_.ValueCondition(w.get_node("T"), "level", ">", thr1), C_.ControlAction(w.get_link("V"), "setting", rr.choice([2.0, 20.0])), priority=0))
        w.add_control("cc", C_.Control(C_.ValueCondition(w.get_node("T"), "level", ">", thr2), C_.ControlAction(w.get_link("V"), "status", getattr(S_, cmd.capitalize())), priority=prio2))
        w.options.time.hydraulic_timestep = 1800
        w.options.time.report_timestep = 1800
        w.options.time.duration = 10 * 1800
        rd, ed, wd, _ = simrun.run(wntr, w)
        if not simrun.converged(rd, ed, wd):
            run.count("directed setting conflict: not converged")
            continue
        want = {"CLOSED": 0, "OPEN": 1}[cmd]
        for t in rd.node["head"].index:
            lvl = float(rd.node["head"].loc[t, "T"]) - 30.0
            if lvl > thr2 + 1e-6:
                got = int(rd.link["status"].loc[t, "V"])
                run.case({"directed": "setting conflict", "rep": rep, "t": int(t)}, True, None)
                run.count("directed setting conflict: both conditions true")
                if got != want:
                    run.violation("command_not_in_effect", "t=%d: T level > %s holds on the reported state (%.4f) but valve V reports status %d instead of %s (a very-low-priority "
                                  "setting control on the same valve is also true)" % (int(t), thr2, lvl, got, cmd),
                                  input={"network": "R -P0- J0 -V(TCV)- J1 -P2- T", "controls": [{"if": "T level > %s" % thr1, "then": "V setting", "priority": 0},
                                                                                                {"if": "T level > %s" % thr2, "then": "V " + cmd, "priority": prio2}],
                                         "time": int(t), "level": lvl, "reported_status": got})
                    break
    res_, errors = common.run_prop_cases("C05", HEADER, TACTIC, cases, shard=120, case_timeout=30)
    for e in errors:
        run.tie_broken("correspondence case file failed to compile", e)
    for cid, _ in cases:
        run.obligations += 1
        if res_.get(cid):
            run.discharged += 1
        elif cid in res_:
            m = meta[cid]
            if m["check"] == "post-solve pass vs model":
                run.tie_broken("correspondence: a traced post-solve pass differs from C05.Model.after_solve", str({k: v for k, v in m.items() if k != "spec"})[:2000])
            elif m["check"].startswith("TankLevelCondition"):
                run.violation("tank_level_condition_" + m["check"].split()[-1], "TankLevelCondition.evaluate differs from the model: %s" % m["evaluation"], input=m)
            elif m["check"] == "condition on the reported value":
                run.violation("condition_evaluated_off_the_reported_state", "t=%d: the implementation %s control %s although the reported value is %.6g" % (
                    m["time"], "triggered" if m["impl_triggered"] else "did not trigger", m["control"], m["reported"]), input=m)
            else:
                run.violation("threshold_overshot", "tank-level threshold overshot by %.4g m (one second of flow = %.3g m, a full step = %.3g m)" % (
                    m["overshoot"], abs(m["tank_flow"]) / (3.141592653589793 * 1), m["full_step_change"]), input=m)
