"""C18 -- valve segmentation is exactly the partition induced by the valve layer.

Model: C18/Model.v (incidence graph link<->end node, cut where a valve sits; components via the C09 closure).
Theorem: a labelling accepted by `labels_ok` has positive labels and label equality <-> joinable without passing a valve.
Tie (vm_compute inside coqc): for random multigraphs (parallel links, dead ends, self-contained parts) and random valve
layers (any subset of (link, node) pairs, duplicated rows) the labelling returned by the real valve_segments is accepted by
labels_ok, segment sizes count their members, and valve_segment_attributes (num_surround, demand_increase, length_increase)
equal the model's definitions.
"""
import random
import warnings

import common
from common import q_of_float as Q

HEADER = """From Coq Require Import ZArith QArith List Bool Arith.
From WNTRV Require Import C09.Model C18.Model.
Import ListNotations.
Local Open Scope nat_scope.
"""
TACTIC = "vm_compute; reflexivity"


def check(run, replay=None):
    wntr = common.import_wntr(build_ext=False)
    import pandas as pd
    thorough = run.tier == "thorough"
    rng = random.Random(run.seed * 2887 + 18)
    run.rule = ("random multigraphs (3-9 nodes, parallel links, dead ends, disconnected parts) x random valve layers (each (link, end node) "
                "pair with probability 0.1-0.6, rows duplicated, shuffled); one labelling case + one sizes case + attribute cases per "
                "network; non-trivial = at least two segments")
    run.trusted += ["harness tools/props/c18.py (numbers nodes/links, turns the returned pandas objects into lists)"]
    run.assumptions += ["nx.connected_components is not modelled; its effect is checked through the returned labelling on every case",
                        "links with both ends at the same node (self-loops) are not generated"]
    ok, log, fails = common.coq_make(["theories/C18/Proofs.vo", "theories/C18/Total.vo"])
    if not ok:
        for f, ln, msg in fails:
            run.tie_broken("proof no longer checks: %s line %s: %s" % (f, ln, common.theorem_line(f, ln)), msg)
        for n in common.property_theorems(common.THEORIES + "/C18/Property.v"):
            run.obligation(False, n)
    else:
        common.check_property_file(run, "C18/Property.v")
    cases, meta = [], {}

    def add(prop, m, nt=True):
        cases.append((len(cases), prop))
        meta[len(cases) - 1] = m
        run.case(prop[:300], nt, m if len(cases) in (1, 4) else None)
    nn = 400 if thorough else 70
    for k in range(nn):
        N = rng.randint(3, 9)
        wn = wntr.network.WaterNetworkModel()
        for i in range(N):
            wn.add_junction("n%d" % i, base_demand=round(rng.uniform(0, 0.01), 4), elevation=0.0)
        links = []
        for i in range(1, N):
            if rng.random() < 0.85:
                links.append((rng.randrange(i), i))
        for _ in range(rng.randint(0, 4)):
            a, b = rng.sample(range(N), 2)
            links.append((a, b))
        if links and rng.random() < 0.5:
            a, b = rng.choice(links)
            links.append((b, a) if rng.random() < 0.5 else (a, b))      # parallel link
        if not links:
            continue
        lens = []
        for i, (a, b) in enumerate(links):
            L = round(rng.uniform(10, 500), 1)
            lens.append(L)
            wn.add_pipe("l%d" % i, "n%d" % a, "n%d" % b, length=L, diameter=0.3)
        p = rng.choice([0.1, 0.3, 0.6])
        valves = [(i, n) for i, (a, b) in enumerate(links) for n in (a, b) if rng.random() < p]
        rows = list(valves)
        if rows and rng.random() < 0.5:
            rows += [rng.choice(valves) for _ in range(rng.randint(1, 2))]       # duplicated rows
        rng.shuffle(rows)
        vl = pd.DataFrame({"link": ["l%d" % i for i, n in rows], "node": ["n%d" % n for i, n in rows]}, columns=["link", "node"])
        G = wn.to_graph()
        desc = {"nodes": N, "links": links, "valve_rows": rows}
        try:
            with warnings.catch_warnings():
                warnings.simplefilter("ignore")
                node_seg, link_seg, sizes = wntr.metrics.topographic.valve_segments(G, vl)
        except Exception as e:
            run.violation("valve_segments_raises", "valve_segments raised %s: %s" % (type(e).__name__, e), input=desc)
            continue
        lab = [int(node_seg["n%d" % i]) for i in range(N)] + [int(link_seg["l%d" % i]) for i in range(len(links))]
        links_c = "[" + "; ".join("(%d, %d)" % l for l in links) + "]"
        uniq = sorted(set(rows))
        valves_c = "[" + "; ".join("(%d, %d)" % v for v in uniq) + "]"
        lab_c = "(lab_of [%s])" % "; ".join(map(str, lab))
        add("labels_ok (incidence %d %s %s) (elements %d %s) %s = true" % (N, links_c, valves_c, N, links_c, lab_c),
            dict(desc, check="segment labels", labels={"nodes": lab[:N], "links": lab[N:]}), len(set(lab)) > 1)
        sz = "[" + "; ".join("(%d, %d, %d)" % (int(idx), int(sizes.loc[idx, "link"]), int(sizes.loc[idx, "node"])) for idx in sizes.index) + "]"
        add("sizes_ok %d %s %s %s = true" % (N, links_c, lab_c, sz), dict(desc, check="segment sizes", sizes=sz))
        # attributes (valve layer without duplicates, index 0..n-1 as the function requires)
        vl2 = vl.drop_duplicates().reset_index(drop=True)
        if len(vl2) == 0:
            continue
        dem = pd.Series({"n%d" % i: wn.get_node("n%d" % i).base_demand for i in range(N)})
        ln = pd.Series({"l%d" % i: lens[i] for i in range(len(links))})
        try:
            attr = wntr.metrics.topographic.valve_segment_attributes(vl2, node_seg, link_seg, demand=dem, length=ln)
        except Exception as e:
            run.violation("valve_segment_attributes_raises", "valve_segment_attributes raised %s: %s" % (type(e).__name__, e), input=desc)
            continue
        vs = [(int(vl2.loc[i, "link"][1:]), int(vl2.loc[i, "node"][1:])) for i in range(len(vl2))]
        vs_c = "[" + "; ".join("(%d, %d)" % v for v in vs) + "]"
        demf = "(fun x => nth x [%s] 0%%Q)" % "; ".join(Q(float(dem["n%d" % i])) for i in range(N))
        lenf = "(fun x => nth x [%s] 0%%Q)" % "; ".join(Q(lens[i]) for i in range(len(links)))
        for i in range(min(len(vs), 4)):
            v = "(%d, %d)" % vs[i]
            add("Nat.eqb (num_surround %d %s %s %s %s) %d = true" % (N, links_c, vs_c, lab_c, v, int(attr.loc[i, "num_surround"])),
                dict(desc, check="num_surround", valve=vs[i], impl=int(attr.loc[i, "num_surround"])))
            add("closeQ (demand_increase %d %s %s %s) %s = true" % (N, lab_c, demf, v, Q(float(attr.loc[i, "demand_increase"]))),
                dict(desc, check="demand_increase", valve=vs[i], impl=float(attr.loc[i, "demand_increase"])))
            add("closeQ (length_increase %d %d %s %s %s) %s = true" % (N, len(links), lab_c, lenf, v, Q(float(attr.loc[i, "length_increase"]))),
                dict(desc, check="length_increase", valve=vs[i], impl=float(attr.loc[i, "length_increase"])))
    res, errors = common.run_prop_cases("C18", HEADER, TACTIC, cases, shard=120)
    for e in errors:
        run.tie_broken("correspondence case file failed to compile", e)
    for cid, _ in cases:
        run.obligations += 1
        if res.get(cid):
            run.discharged += 1
        elif cid in res:
            m = meta[cid]
            run.violation("segmentation_" + m["check"].replace(" ", "_"),
                          "valve segmentation: %s differ from the partition induced by the valve layer / its definition" % m["check"], input=m)
