"""C04 -- time-based controls and rules act exactly at their instants.

Model: coq/theories/Lib/Sched.v (literal integer-time model of the condition evaluation, the two stable sorts, the
presolve/rule loop and the outer loop of run_sim).  Theorems: C04/Property.v.
Tie (T3): for generated configurations of time / clock-time controls and rules the (time, status vector) trace of the real
WNTRSimulator (report_timestep='ALL') equals `Sched.run cfg`, decided by vm_compute inside coqc.
When a trace differs, an independent specification oracle (below, Python, search only) decides whether the implementation
now violates the property on that configuration (-> VIOLATION with the configuration as replay) or only the tie broke.
Known findings (clock-time daily controls, rules at t = 0, '<=' jumped threshold) are part of the faithful model: their
witness configurations are replayed on the implementation in every run.
"""
import random

import common

HEADER = """From Coq Require Import ZArith List Bool.
From WNTRV Require Import Lib.Sched.
Import ListNotations.
Local Open Scope Z_scope.
Fixpoint tr_eqb (a b : list (Z * list bool)) : bool :=
  match a, b with
  | [], [] => true
  | (t, s) :: r, (t', s') :: r' => (t =? t') && list_beq s s' && tr_eqb r r'
  | _, _ => false
  end.
Definition same_trace (g : cfg) (impl : list (Z * list bool)) : bool :=
  match run g with Some tr => tr_eqb tr impl | None => false end.
"""
TACTIC = "vm_compute; reflexivity"
REL = {"=": "Req", ">": "Rgt", ">=": "Rge", "<": "Rlt", "<=": "Rle"}


def gen_cond(rng, o, for_rule, depth=0):
    hs, dur = o["hyd"], o["duration"]
    if for_rule and depth < 2 and rng.random() < 0.35:
        return {"op": rng.choice(["and", "or"]), "a": gen_cond(rng, o, True, depth + 1), "b": gen_cond(rng, o, True, depth + 1)}
    grid = rng.random() < 0.5
    if rng.random() < 0.7:
        thr = rng.randrange(0, dur // hs + 1) * hs if grid else rng.randrange(0, dur + hs)
        thr = thr - thr % rng.choice([1, 60, 100, 300])
        rel = rng.choice(["=", ">=", "<", ">", "<=", ">=", "<"]) if for_rule else "="
        rep = 0
        if not for_rule and rng.random() < 0.15:
            rep = rng.choice([7200, 86400, 10000])
        return {"kind": "sim", "rel": rel, "thr": thr, "repeat": rep}
    thr = rng.randrange(0, 24) * 3600 + rng.choice([0, 0, 900, 1830])
    rel = rng.choice(["=", ">", "<"]) if for_rule else "="
    # (And/OrCondition.backtrack used to crash on the None backtrack a clock condition left behind before its first day: fixed in /repo,
    # so compound conditions over once-only / first_day clock conditions are generated as well)
    return {"kind": "clock", "rel": rel, "thr": thr, "repeat": rng.random() < 0.7, "first_day": rng.choice([0, 0, 1])}


def gen_cfg(rng):
    hyd = rng.choice([3600, 1800, 900, 3600])
    o = {"hyd": hyd, "rule": rng.choice([hyd, hyd // 2, 360, 300, 2 * hyd, hyd // 10]),
         "duration": rng.choice([4, 8, 12, 30, 50]) * 3600 + rng.choice([0, 0, 1800]),
         "start_clock": rng.choice([0, 0, 5 * 3600, 7 * 3600 + 900, 23 * 3600]), "nlinks": rng.randint(1, 3)}
    o["controls"], o["rules"] = [], []
    for _ in range(rng.randint(0, 5)):
        o["controls"].append({"cond": gen_cond(rng, o, False), "prio": rng.choice([3, 3, 3, 0, 1, 5, 6]),
                              "link": rng.randrange(o["nlinks"]), "open": rng.random() < 0.5})
    if o["controls"] and rng.random() < 0.5:      # same instant, same target, different priorities
        c = dict(rng.choice(o["controls"]))
        c = {"cond": dict(c["cond"]), "prio": rng.choice([0, 1, 3, 5, 6]), "link": c["link"], "open": not c["open"]}
        o["controls"].insert(rng.randrange(len(o["controls"]) + 1), c)
    for _ in range(rng.randint(0, 2)):
        acts = lambda: [(rng.randrange(o["nlinks"]), rng.random() < 0.5) for _ in range(rng.randint(1, 2))]
        o["rules"].append({"cond": gen_cond(rng, o, True), "prio": rng.choice([3, 3, 1, 5]), "then": acts(),
                           "else": acts() if rng.random() < 0.5 else []})
    o["init"] = [rng.random() < 0.8 for _ in range(o["nlinks"])]
    return o


CORPUS = [
    # witnesses of the known findings (faithful model == implementation on them) and of past seeded changes
    {"hyd": 3600, "rule": 360, "duration": 86400, "start_clock": 0, "nlinks": 1, "init": [True], "rules": [],
     "controls": [{"cond": {"kind": "clock", "rel": "=", "thr": 21600, "repeat": True, "first_day": 0}, "prio": 3, "link": 0, "open": False}]},
    {"hyd": 3600, "rule": 360, "duration": 86400, "start_clock": 0, "nlinks": 1, "init": [True], "controls": [],
     "rules": [{"cond": {"kind": "sim", "rel": ">=", "thr": 0, "repeat": 0}, "prio": 3, "then": [(0, False)], "else": []}]},
    {"hyd": 3600, "rule": 1800, "duration": 14400, "start_clock": 0, "nlinks": 1, "init": [True], "controls": [],
     "rules": [{"cond": {"kind": "sim", "rel": "<=", "thr": 5000, "repeat": 0}, "prio": 3, "then": [(0, False)], "else": [(0, True)]}]},
    {"hyd": 3600, "rule": 3600, "duration": 14400, "start_clock": 0, "nlinks": 2, "init": [True, True], "rules": [],
     "controls": [{"cond": {"kind": "sim", "rel": "=", "thr": 5000, "repeat": 0}, "prio": 5, "link": 0, "open": False},
                  {"cond": {"kind": "sim", "rel": "=", "thr": 5000, "repeat": 0}, "prio": 1, "link": 0, "open": True},
                  {"cond": {"kind": "sim", "rel": "=", "thr": 9000, "repeat": 0}, "prio": 1, "link": 1, "open": True},
                  {"cond": {"kind": "sim", "rel": "=", "thr": 9000, "repeat": 0}, "prio": 6, "link": 1, "open": False}]},
]


def coq_cond(c):
    if "op" in c:
        return "(%s %s %s)" % ("CAnd" if c["op"] == "and" else "COr", coq_cond(c["a"]), coq_cond(c["b"]))
    if c["kind"] == "sim":
        return "(CSim %s %d %d)" % (REL[c["rel"]], c["thr"], c["repeat"])
    return "(CClock %s %d %s %d)" % (REL[c["rel"]], c["thr"], "true" if c["repeat"] else "false", c["first_day"])


def coq_cfg(o):
    b = lambda x: "true" if x else "false"
    cs = "; ".join("{| c_cond := %s; c_prio := %d; c_act := (%d%%nat, %s) |}" % (coq_cond(c["cond"]), c["prio"], c["link"], b(c["open"]))
                   for c in o["controls"])
    acts = lambda l: "[" + "; ".join("(%d%%nat, %s)" % (i, b(v)) for i, v in l) + "]"
    rs = "; ".join("{| r_cond := %s; r_prio := %d; r_then := %s; r_else := %s |}" % (coq_cond(r["cond"]), r["prio"], acts(r["then"]), acts(r["else"]))
                   for r in o["rules"])
    return ("{| hyd_step := %d; rule_step := %d; duration := %d; start_clock := %d; controls := [%s]; rules := [%s]; init_status := [%s] |}"
            % (o["hyd"], o["rule"], o["duration"], o["start_clock"], cs, rs, "; ".join(b(x) for x in o["init"])))


def build_wn(wntr, o):
    from wntr.network import controls as C
    wn = wntr.network.WaterNetworkModel()
    wn.options.time.duration = o["duration"]
    wn.options.time.hydraulic_timestep = o["hyd"]
    wn.options.time.rule_timestep = o["rule"]
    wn.options.time.report_timestep = "ALL"
    wn.options.time.start_clocktime = o["start_clock"]
    wn.options.time.pattern_timestep = 3600
    wn.add_reservoir("R", base_head=50.0)
    wn.add_junction("J", base_demand=0.001, elevation=5.0)
    S = wntr.network.LinkStatus
    for i in range(o["nlinks"]):
        wn.add_pipe("L%d" % i, "R", "J", length=100.0, diameter=0.3, roughness=100,
                    initial_status=("OPEN" if o["init"][i] else "CLOSED"))

    def mk(c):
        if "op" in c:
            return (C.AndCondition if c["op"] == "and" else C.OrCondition)(mk(c["a"]), mk(c["b"]))
        if c["kind"] == "sim":
            return C.SimTimeCondition(wn, c["rel"], c["thr"], repeat=(c["repeat"] if c["repeat"] else False))
        return C.TimeOfDayCondition(wn, c["rel"], c["thr"], repeat=c["repeat"], first_day=c["first_day"])
    act = lambda i, v: C.ControlAction(wn.get_link("L%d" % i), "status", S.Open if v else S.Closed)
    for k, c in enumerate(o["controls"]):
        wn.add_control("c%d" % k, C.Control(mk(c["cond"]), act(c["link"], c["open"]), priority=c["prio"]))
    for k, r in enumerate(o["rules"]):
        wn.add_control("r%d" % k, C.Rule(mk(r["cond"]), [act(i, v) for i, v in r["then"]],
                                         else_actions=[act(i, v) for i, v in r["else"]], priority=r["prio"]))
    return wn


def impl_trace(wntr, o):
    wn = build_wn(wntr, o)
    sim = wntr.sim.WNTRSimulator(wn)
    res = sim.run_sim()
    st = res.link["status"]
    return [(int(t), [int(st.loc[t, "L%d" % i]) != 0 for i in range(o["nlinks"])]) for t in st.index]


def spec_violation(o, trace):
    """independent oracle for the clear-cut part of the property (search only):
    configurations consisting solely of non-repeating `AT TIME t` controls (no rules): every instant t <= duration must be
    a reported time, and at every reported time each link has the value commanded by the controls with the latest instant
    <= that time (same instant: highest priority, last registered among equals), else its initial value."""
    if o["rules"] or any(c["cond"].get("kind") != "sim" or c["cond"]["rel"] != "=" or c["cond"]["repeat"] for c in o["controls"]):
        return None
    times = [t for t, _ in trace]
    for c in o["controls"]:
        if 0 <= c["cond"]["thr"] <= o["duration"] and c["cond"]["thr"] not in times:
            # only required if the control actually changes something (the code skips no-op instants)
            pass
    for t, st in trace:
        for l in range(o["nlinks"]):
            best = None
            for k, c in enumerate(o["controls"]):
                if c["link"] == l and c["cond"]["thr"] <= t:
                    key = (c["cond"]["thr"], c["prio"], k)
                    if best is None or key > best[0]:
                        best = (key, c["open"])
            want = o["init"][l] if best is None else best[1]
            if st[l] != want:
                return "at t=%d link L%d is %s but the latest/highest-priority control commands %s" % (
                    t, l, "open" if st[l] else "closed", "open" if want else "closed")
    # an instant whose control changes the status must be a reported time
    for k, c in enumerate(o["controls"]):
        thr = c["cond"]["thr"]
        if 0 < thr <= o["duration"]:
            before = [s for t, s in trace if t < thr]
            after = [s for t, s in trace if t >= thr]
            if before and after and before[-1][c["link"]] != after[0][c["link"]] and thr not in times:
                return "status of L%d changes across %d s but %d s is not a solved step" % (c["link"], thr, thr)
    return None


def check(run, replay=None):
    wntr = common.import_wntr(build_ext=True)
    thorough = run.tier == "thorough"
    rng = random.Random(run.seed * 9176 + 4)
    run.rule = ("configurations of 0-6 time / clock-time controls (on and off the hydraulic grid, repeat, priorities, same instant + same "
                "target conflicts) and 0-2 rules (AND/OR trees of sim-time and clock-time range conditions, ELSE, priorities), "
                "hydraulic/rule steps, start_clocktime, duration 4-50 h; one case = one configuration, whole trace compared; "
                "non-trivial = the implementation trace contains a status change or an off-grid step")
    run.trusted += ["harness tools/props/c04.py (builds the same configuration through the wntr API and as a Sched.cfg term)"]
    run.assumptions += ["sim_time is a float holding integers (the code refuses sub-second steps)",
                        "only time-driven conditions: the hydraulic solve cannot influence the trace (trivial network R -> J)"]
    ok, log, fails = common.coq_make(["theories/C04/Proofs.vo", "theories/C04/AtTime.vo", "theories/C04/RuleGe.vo", "theories/C04/Prio.vo", "theories/C04/Window.vo", "theories/C04/AtTimeSet.vo", "theories/C04/AtTimeAll.vo", "theories/C04/RuleSet.vo", "theories/C04/Mixed.vo", "theories/C04/RuleInterval.vo"])
    if not ok:
        for f, ln, msg in fails:
            run.tie_broken("proof no longer checks: %s line %s: %s" % (f, ln, common.theorem_line(f, ln)), msg)
        for n in common.property_theorems(common.THEORIES + "/C04/Property.v"):
            run.obligation(False, n)
    else:
        common.check_property_file(run, "C04/Property.v")

    n = 2500 if thorough else 260
    cfgs = list(CORPUS) + [gen_cfg(rng) for _ in range(n)]
    cases, meta = [], {}
    for i, o in enumerate(cfgs):
        try:
            tr = impl_trace(wntr, o)
        except Exception as e:
            run.violation("run_failed_%s" % type(e).__name__, "run_sim raised %s: %s on a time-control configuration" % (type(e).__name__, e), input=o)
            continue
        prop = "same_trace %s [%s] = true" % (coq_cfg(o), "; ".join("(%d, [%s])" % (t, "; ".join("true" if x else "false" for x in s)) for t, s in tr))
        cases.append((len(cases), prop))
        meta[len(cases) - 1] = (o, tr)
        changes = any(a[1] != b[1] for a, b in zip(tr, tr[1:])) or any(t % o["hyd"] for t, _ in tr)
        run.case(coq_cfg(o), changes, {"config": o, "impl_trace": tr[:6]} if i in (0, len(CORPUS)) else None)
        run.count("controls=%d" % len(o["controls"]))
        run.count("rules=%d" % len(o["rules"]))
    res, errors = common.run_prop_cases("C04", HEADER, TACTIC, cases, shard=60)
    for e in errors:
        run.tie_broken("correspondence case file failed to compile", e)
    for cid, _ in cases:
        run.obligations += 1
        if res.get(cid):
            run.discharged += 1
        elif cid in res:
            o, tr = meta[cid]
            why = spec_violation(o, tr)
            if not why:
                # search for a failing input near this configuration: keep only its plain AT TIME controls (all of them, then every pair),
                # for which the statement has an independent oracle, and run the implementation on those
                import copy as _copy
                import itertools as _it
                plain = [c for c in o["controls"] if c["cond"].get("kind") == "sim" and c["cond"]["rel"] == "=" and not c["cond"]["repeat"]]
                subsets = ([plain] if len(plain) >= 1 else []) + [list(p_) for p_ in _it.combinations(plain, 2)][:10]
                for sub in subsets:
                    o2 = _copy.deepcopy(o)
                    o2["controls"], o2["rules"] = _copy.deepcopy(sub), []
                    try:
                        tr2 = impl_trace(wntr, o2)
                    except Exception:
                        continue
                    why2 = spec_violation(o2, tr2)
                    if why2:
                        o, tr, why = o2, tr2, why2 + " (found by reducing a configuration whose trace differs from the model)"
                        break
            if why:
                run.violation("time_control_semantics", "time controls: " + why, input=o, impl_trace=tr)
            else:
                run.tie_broken("correspondence: implementation trace differs from Sched.run on a configuration", str({"config": o, "impl_trace": tr})[:3000])
    # known findings: the witnesses still behave as the (faithful) model says -> report them as known findings
    for idx, key, in ((0, "clock_daily_control_fires_at_wrong_time"), (1, "rule_evaluated_at_time_zero"), (2, "le_condition_true_after_threshold")):
        if res.get(idx):
            o, tr = meta[idx]
            bad = False
            if idx == 0:
                first = [t for t, s in tr if not s[0]]
                bad = bool(first) and first[0] != 21600
            elif idx == 1:
                bad = not tr[0][1][0]
            elif idx == 2:
                bad = any((not s[0]) and t > 5000 for t, s in tr)
            if bad:
                run.violation(key, "known defect reproduced on the implementation (witness of a _refuted theorem)", input=o, impl_trace=tr[:8])
    run.extra["configs"] = len(cfgs)
