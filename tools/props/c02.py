"""C02 -- every link obeys the head-flow law of its type and reported status.

Model: C02/Model.v (rows of constraint.py, parameter formulas of param.py, pump-curve coefficients); constants from
Gen/Formulas.v (regenerated).  Theorems: C02/Property.v.
Ties decided inside coqc by interval arithmetic on exact binary64 rationals:
  * rows: for one link of every (type, status) shape -- open/closed pipe, head pump with 1-, 2-, 3-point curve, power pump,
    PRV/PSV/FCV/TCV active/open/closed -- the residual of the REAL row (dumped aml expression with the parameter values the
    code computed from roughness, diameter, length, minor loss, curve points, setting) equals the model row computed from the
    primitives, over a sweep of flows of either sign and around zero;
  * reported results of generated runs: every link at every sampled reported step satisfies the model row for its reported
    status within the solver tolerance; pumps and check-valve pipes never report reverse flow beyond Qtol.
"""
import math
import random

import common
import netgen
import simrun
from common import r_of_float as R
from translate import regen
from props.c15 import make_dumper

HEADER = """From Coq Require Import Reals ZArith List Bool Lra.
From Interval Require Import Tactic.
From WNTRV Require Import Lib.Expr Lib.ExprR Gen.Formulas Lib.Spline Lib.SplineMono Lib.SplineStrict C15.Model C15.Proofs C02.Model C02.Proofs C02.PumpMono.
Import ListNotations.
Local Open Scope R_scope.
Ltac unfold_model := cbv beta iota zeta delta [evalR eval usemR bsemR leafR cst is_const_leaf Nat.eqb cond_eval cond_select option_map].
Ltac resolve1 := first
 [ rewrite pw_2 | rewrite pw_3 | rewrite pw_1 | rewrite pw_sq
 | rewrite ifR_1 | rewrite ifR_0
 | match goal with |- context[sgn ?a] => first [rewrite (sgn_pos a) by interval | rewrite (sgn_neg a) by interval] end
 | match goal with |- context[ineqR ?b ?lo ?hi] =>
     first [rewrite (ineq_in b lo hi) by interval | rewrite (ineq_below b lo hi) by interval
           | rewrite (ineq_above b lo hi) by interval] end
 | match goal with |- context[Req_EM_T ?a ?b] => destruct (Req_EM_T a b); [try lra | try lra] end ].
Ltac prune_dec := repeat match goal with
  | |- context[Rle_dec ?a ?b] =>
      let H := fresh "Hd" in destruct (Rle_dec a b) as [H|H];
      [ try (exfalso; revert H; apply Rlt_not_le; interval) | try (exfalso; apply H; interval) ]
  end.
Ltac pw_all := repeat first
  [ rewrite Rabs_R0 | rewrite pw_sq | rewrite pw_one
  | match goal with |- context[pw ?a ?b] => rewrite (pw_pos_eq a b) by interval end
  | match goal with |- context[pw 0 ?b] => rewrite (pw_0 b) by lra end ].
Ltac model_side := unfold pipe_row, closed_row, power_pump_row, head_pump_row, head_pump_row_lo, head_pump_row_hi, q_bar, pump_poly,
  prv_active_row, psv_active_row, fcv_active_row, signed_quad_row, open_prv_psv_row, hw_resistance, minor_coeff, coeffs_1pt, coeffs_2pt,
  eps_hw, grav, c_hw_k, c_hw_exp, c_pump_q1, c_pump_q2, c_pump_slope;
  pw_all; prune_dec; unfold cubic_spline, poly; cbv zeta; pw_all.
Ltac pump_box_tac := unfold pump_box, pump_f1, pump_f2, c_pump_slope, c_pump_q1, c_pump_q2;
  repeat match goal with |- context[pw ?a ?b] => rewrite (pw_pos_eq a b) by interval end; repeat split; interval.
Ltac solve_case := match goal with
  | |- pump_box _ _ _ => pump_box_tac
  | |- and _ _ => split; lra
  | _ => unfold_model; repeat resolve1; model_side; repeat resolve1; interval with (i_prec 80)
  end.
"""
TACTIC = "solve_case"
QTOL = 2.83168e-6


def dump_row(E, con, var_no):
    tree_R, _ = make_dumper(E, var_no)
    ce = con.expr
    if type(ce).__name__ == "ConditionalExpression":
        B = "[" + "; ".join("(%s, %s)" % ("None" if (c.is_leaf() and c.is_float_type()) else "Some " + tree_R(c), tree_R(e))
                            for c, e in zip(ce._conditions, ce._exprs)) + "]"
        return "cond_eval", B
    return "plain", tree_R(ce)


def link_law(wn, ln, link, q, hs, he, st, setting):
    """the model row (C02/Model.v) that a link with reported status `st` must satisfy: (model term, its arguments, shape name)"""
    if st == 0:
        return "closed_row", R(q), "closed"
    if link.link_type == "Pipe":
        return ("pipe_row (hw_resistance %s %s %s) (minor_coeff %s %s)" % (R(link.roughness), R(link.diameter), R(link.length), R(link.minor_loss), R(link.diameter)),
                "%s %s %s" % (R(q), R(hs), R(he)), "pipe")
    if link.link_type == "Pump" and link.pump_type == "POWER":
        return "power_pump_row %s" % R(link.power), "%s %s %s" % (R(q), R(hs), R(he)), "power_pump"
    if link.link_type == "Pump":
        A, B, C = link.get_head_curve_coefficients()
        return "head_pump_row %s %s %s" % (R(A), R(B), R(C)), "%s %s %s" % (R(q), R(hs), R(he)), "head_pump"
    vt = link.valve_type
    if st == 2 and vt == "PRV":
        model, margs = "prv_active_row %s %s" % (R(setting), R(wn.get_node(link.end_node_name).elevation)), R(he)
    elif st == 2 and vt == "PSV":
        model, margs = "psv_active_row %s %s" % (R(setting), R(wn.get_node(link.start_node_name).elevation)), R(hs)
    elif st == 2 and vt == "FCV":
        model, margs = "fcv_active_row %s" % R(setting), R(q)
    elif st == 2 and vt == "TCV":
        model, margs = "signed_quad_row (minor_coeff %s %s)" % (R(setting), R(link.diameter)), "%s %s %s" % (R(q), R(hs), R(he))
    elif vt in ("PRV", "PSV"):
        model, margs = "open_prv_psv_row (minor_coeff %s %s)" % (R(link.minor_loss), R(link.diameter)), "%s %s %s" % (R(q), R(hs), R(he))
    else:
        model, margs = "signed_quad_row (minor_coeff %s %s)" % (R(link.minor_loss), R(link.diameter)), "%s %s %s" % (R(q), R(hs), R(he))
    return model, margs, vt + ("_active" if st == 2 else "_open")


def check(run, replay=None):
    wntr = common.import_wntr(build_ext=True)
    from wntr.sim.aml import expr as E
    from wntr.sim import hydraulics
    thorough = run.tier == "thorough"
    rng = random.Random(run.seed * 9241 + 2)
    run.rule = ("rows: every (link type, status) shape x random primitives (roughness 60-150, diameter 0.05-1, length 5-2000, minor loss 0-20, "
                "1/2/3-point curves, power, settings) x flows in +-[1e-9, 0.5] incl. 0 and the smoothing thresholds; reported results of "
                "generated runs incl. a directed family with a low-resistance check-valve bypass; non-trivial = |flow| > 1e-6 or status closed")
    run.trusted += ["translator chains.py (constants)", "row dumper (c15.py)", "coq-interval"]
    run.assumptions += ["scipy.optimize.curve_fit (3-point pump curves) is an oracle: its A, B, C are taken from the implementation",
                        "binary64 rounding / libm pow compared at 1e-9 relative on the rows; reported results within the solver tolerance 1e-6 "
                        "(rows in metres of head; the power-pump row is in watts and is scaled by rho*g*q)",
                        "only the default Hazen-Williams approximation is modelled (HW_approx='piecewise' is not)"]
    errs = regen(["Formulas.v"], common.REPO)
    for e in errs:
        run.tie_broken("translator refused the current source (model is stale)", e)
    ok, log, fails = common.coq_make(["theories/C02/Proofs.vo", "theories/C02/PumpMono.vo", "theories/C15/Proofs.vo"])
    if not ok:
        for f, ln, msg in fails:
            run.tie_broken("proof no longer checks against the regenerated constants: %s line %s: %s" % (f, ln, common.theorem_line(f, ln)), msg)
        for n in common.property_theorems(common.THEORIES + "/C02/Property.v"):
            run.obligation(False, n)
    else:
        common.check_property_file(run, "C02/Property.v")
    cases, meta = [], {}

    def add(prop, m, nt=True):
        cases.append((len(cases), prop))
        meta[len(cases) - 1] = m
        run.case(prop[:250], nt, m if len(cases) in (1, 60) else None)
        run.count(m["check"] + ":" + m.get("shape", ""))
    S = wntr.network.LinkStatus
    # (1) rows ----------------------------------------------------------------------------------------------------
    for rep in range(6 if thorough else 2):
        wn = wntr.network.WaterNetworkModel()
        wn.add_reservoir("R", base_head=50.0)
        for i in range(14):
            wn.add_junction("J%d" % i, base_demand=0.001, elevation=round(rng.uniform(-5, 20), 1))
        prm = {}
        C_, d_, L_, K_ = rng.choice([60.0, 100.0, 130.0, 150.0]), rng.choice([0.05, 0.15, 0.3, 1.0]), round(rng.uniform(5, 2000), 1), rng.choice([0.0, 0.0, 2.5, 20.0])
        wn.add_pipe("pipe_open", "R", "J0", length=L_, diameter=d_, roughness=C_, minor_loss=K_)
        prm["pipe_open"] = ("pipe_row (hw_resistance %s %s %s) (minor_coeff %s %s)" % (R(C_), R(d_), R(L_), R(K_), R(d_)), "qhh")
        wn.add_pipe("pipe_closed", "J0", "J1", length=100.0, diameter=0.3, roughness=100, initial_status="CLOSED")
        prm["pipe_closed"] = ("closed_row", "q")
        q0, h0 = round(rng.uniform(0.01, 0.08), 3), round(rng.uniform(15, 50), 1)
        wn.add_curve("c1", "HEAD", [(q0, h0)])
        wn.add_pump("pump_1pt", "R", "J2", "HEAD", "c1")
        prm["pump_1pt"] = ("(let '(A, B, C) := coeffs_1pt %s %s in head_pump_row A B C)" % (R(q0), R(h0)), "qhh")
        qa, ha, qb, hb = 0.0, round(rng.uniform(30, 60), 1), round(rng.uniform(0.05, 0.2), 3), round(rng.uniform(5, 25), 1)
        wn.add_curve("c2", "HEAD", [(qa, ha), (qb, hb)])
        wn.add_pump("pump_2pt", "R", "J3", "HEAD", "c2")
        prm["pump_2pt"] = ("(let '(A, B, C) := coeffs_2pt %s %s %s %s in head_pump_row A B C)" % (R(qa), R(ha), R(qb), R(hb)), "qhh")
        wn.add_curve("c3", "HEAD", [(0.0, round(h0 * 1.3, 2)), (q0, h0), (round(2 * q0, 4), round(h0 * 0.3, 2))])
        wn.add_pump("pump_3pt", "R", "J4", "HEAD", "c3")
        A3, B3, C3 = wn.get_link("pump_3pt").get_head_curve_coefficients()
        prm["pump_3pt"] = ("head_pump_row %s %s %s" % (R(A3), R(B3), R(C3)), "qhh")
        P_ = round(rng.uniform(1000, 20000), 0)
        for pn in ("pump_1pt", "pump_2pt", "pump_3pt"):
            A_, B_, C_ = wn.get_link(pn).get_head_curve_coefficients()
            if C_ <= 1.0:
                add("pump_box %s %s %s" % (R(A_), R(B_), R(C_)), {"check": "pump law premise", "shape": "pump_box", "link": pn, "coeffs": [A_, B_, C_]}, True)
            else:
                add("(0 < %s /\\ 1 < %s)%%R" % (R(B_), R(C_)), {"check": "pump law premise", "shape": "B_positive", "link": pn, "coeffs": [A_, B_, C_]}, True)
        wn.add_pump("pump_power", "R", "J5", "POWER", P_)
        prm["pump_power"] = ("power_pump_row %s" % R(P_), "qhh")
        sp, ss, sf, st = round(rng.uniform(10, 40), 1), round(rng.uniform(10, 40), 1), round(rng.uniform(0.001, 0.02), 4), round(rng.uniform(2, 80), 1)
        dv, kv = rng.choice([0.2, 0.3]), rng.choice([0.0, 3.0])
        wn.add_valve("prv_active", "J0", "J6", diameter=dv, valve_type="PRV", minor_loss=kv, initial_setting=sp, initial_status="ACTIVE")
        prm["prv_active"] = ("prv_active_row %s %s" % (R(sp), R(wn.get_node("J6").elevation)), "he")
        wn.add_valve("psv_active", "J0", "J7", diameter=dv, valve_type="PSV", minor_loss=kv, initial_setting=ss, initial_status="ACTIVE")
        prm["psv_active"] = ("psv_active_row %s %s" % (R(ss), R(wn.get_node("J0").elevation)), "hs")
        wn.add_valve("fcv_active", "J0", "J8", diameter=dv, valve_type="FCV", minor_loss=kv, initial_setting=sf, initial_status="ACTIVE")
        prm["fcv_active"] = ("fcv_active_row %s" % R(sf), "q")
        wn.add_valve("tcv_active", "J0", "J9", diameter=dv, valve_type="TCV", minor_loss=kv, initial_setting=st, initial_status="ACTIVE")
        prm["tcv_active"] = ("signed_quad_row (minor_coeff %s %s)" % (R(st), R(dv)), "qhh")
        wn.add_valve("prv_open", "J0", "J10", diameter=dv, valve_type="PRV", minor_loss=3.0, initial_setting=sp, initial_status="OPEN")
        prm["prv_open"] = ("open_prv_psv_row (minor_coeff %s %s)" % (R(3.0), R(dv)), "qhh")
        wn.add_valve("tcv_open", "J0", "J11", diameter=dv, valve_type="TCV", minor_loss=4.0, initial_setting=st, initial_status="OPEN")
        prm["tcv_open"] = ("signed_quad_row (minor_coeff %s %s)" % (R(4.0), R(dv)), "qhh")
        wn.add_valve("fcv_open", "J0", "J12", diameter=dv, valve_type="FCV", minor_loss=4.0, initial_setting=sf, initial_status="OPEN")
        prm["fcv_open"] = ("signed_quad_row (minor_coeff %s %s)" % (R(4.0), R(dv)), "qhh")
        wn.add_valve("psv_closed", "J0", "J13", diameter=dv, valve_type="PSV", minor_loss=0.0, initial_setting=ss, initial_status="CLOSED")
        prm["psv_closed"] = ("closed_row", "q")
        for ln in ("prv_open", "tcv_open", "fcv_open", "psv_closed", "pipe_closed"):
            l = wn.get_link(ln)
            l._user_status = l.initial_status
        m, upd = hydraulics.create_hydraulic_model(wn)
        rows = {}
        for dname in ("approx_hazen_williams_headloss", "head_pump_headloss", "power_pump_headloss", "prv_headloss", "psv_headloss", "tcv_headloss", "fcv_headloss"):
            for k_, c_ in getattr(m, dname).items():
                rows[k_] = c_
        for ln, (model, args) in prm.items():
            if ln not in rows:
                run.violation("row_missing", "no row was built for link %s" % ln, input={"link": ln})
                continue
            link = wn.get_link(ln)
            qv = m.flow[ln]
            sn, en = link.start_node_name, link.end_node_name
            hs_obj = m.head[sn] if sn in m.head else m.source_head[sn]
            he_obj = m.head[en] if en in m.head else m.source_head[en]
            flows = [0.0, 1e-9, 5e-9, 2e-8, -1e-9, 1e-4, -1e-4, 3e-4, 0.005, -0.004, 0.05, 0.3, -0.2, 0.5]
            if ln.startswith("pump"):
                flows = [f for f in flows if f >= 0] + [1e-8, 2 * q0]
            flows = flows if thorough else rng.sample(flows, 6)
            for q in flows:
                hs, he = round(rng.uniform(10, 60), 3), round(rng.uniform(10, 60), 3)
                qv.value, hs_obj.value, he_obj.value = q, hs, he
                var_no = {qv: 0}
                if hs_obj.is_variable_type():
                    var_no[hs_obj] = 1
                if he_obj.is_variable_type():
                    var_no[he_obj] = 2
                kind, T = dump_row(E, rows[ln], var_no)
                env = "(fun n => match n with | 0%%nat => %s | 1%%nat => %s | 2%%nat => %s | _ => 0 end)" % (R(q), R(hs), R(he))
                margs = {"qhh": "%s %s %s" % (R(q), R(hs), R(he)), "q": R(q), "he": R(he), "hs": R(hs)}[args]
                scale = 9810.0 * max(abs(q), 1e-6) * 60 if ln == "pump_power" else 100.0
                tol = "%s / 1000000000" % R(scale)
                if kind == "plain":
                    prop = "Rabs (evalR %s %s - %s %s) <= %s" % (env, T, model, margs, tol)
                else:
                    prop = "match cond_eval %s %s with Some x => Rabs (x - %s %s) <= %s | None => False end" % (env, T, model, margs, tol)
                add(prop, {"check": "row", "shape": ln, "q": q, "hs": hs, "he": he, "impl_row": float(rows[ln].expr.evaluate())}, abs(q) > 1e-6 or "closed" in ln)
    # (2) reported results ---------------------------------------------------------------------------------------------
    nets = 40 if thorough else 8
    for k in range(nets):
        spec = netgen.gen_spec(rng, feat={"leaks": 0.0, "valves": 0.8, "pumps": 0.7, "cv": 0.6, "rules": 0.1, "pdd": 0.3})
        if k == nets - 1:
            # the last network is fed by ONE reservoir through ONE pipe (no tanks, pumps, valves): its reversed twin (below) is then on a bridge
            spec = netgen.gen_spec(random.Random(run.seed * 4241 + 1), feat={"leaks": 0.0, "valves": 0.0, "pumps": 0.0, "cv": 0.0, "rules": 0.0, "pdd": 0.0, "tanks": 0.0,
                                                                              "closed": 0.0, "time_controls": 0.0, "level_controls": 0.0, "pressure_controls": 0.0})
            spec["reservoirs"] = spec["reservoirs"][:1]
            spec["pipes"] = [p_ for p_ in spec["pipes"] if p_["start"] not in ("R2",) and p_["end"] not in ("R2",)]
        if k % 2 == 0:
            # directed: a short, wide check-valve bypass in parallel with an ordinary pipe, pointing against the flow
            p0 = rng.choice(spec["pipes"])
            spec["pipes"].append({"name": "CVB", "start": p0["end"], "end": p0["start"], "length": 2.0, "diameter": 1.2, "roughness": 140,
                                  "minor_loss": 0.0, "status": "OPEN", "cv": True})
        rng2 = random.Random(run.seed * 7717 + k)      # its own stream: the families above keep their draws
        if spec["pipes"]:
            # directed: a twin of a pipe drawn in the opposite direction, closed by a time control during the run (the original keeps the part connected)
            srcs_ = {r_["name"] for r_ in spec["reservoirs"]} | {t_["name"] for t_ in spec["tanks"]}
            cand_ = [p_ for p_ in spec["pipes"] if not p_["cv"]] or spec["pipes"]
            p1 = rng2.choice([p_ for p_ in cand_ if p_["start"] in srcs_ or p_["end"] in srcs_] or cand_)      # preferably the pipe at a source (a bridge)
            spec["pipes"].append(dict(p1, name="TWIN", start=p1["end"], end=p1["start"], cv=False, status="OPEN"))
            spec["controls"].append({"kind": "time", "link": "TWIN", "time": spec["options"]["hydraulic_timestep"], "status": "CLOSED", "priority": 3})
        try:
            wn = netgen.build(spec, wntr)
        except Exception:
            continue
        res, err, warns, sim = simrun.run(wntr, wn)
        if not simrun.converged(res, err, warns):
            run.count("skipped:not_converged")
            continue
        H, Q, ST, SE, PR = res.node["head"], res.link["flowrate"], res.link["status"], res.link["setting"], res.node["pressure"]
        times = list(H.index)
        for ln, link in wn.head_pumps():
            A_, B_, C_ = link.get_head_curve_coefficients()
            # hypothesis of C02_head_gain_strict_*: B > 0 and, for exponents <= 1, the smoothing cubic in the mirrored Fritsch-Carlson box
            if C_ <= 1.0:
                add("pump_box %s %s %s" % (R(A_), R(B_), R(C_)), {"check": "pump law premise", "shape": "pump_box", "spec": spec, "link": ln, "coeffs": [A_, B_, C_]}, True)
            else:
                add("(0 < %s /\\ 1 < %s)%%R" % (R(B_), R(C_)), {"check": "pump law premise", "shape": "B_positive", "spec": spec, "link": ln, "coeffs": [A_, B_, C_]}, True)
        for t in times[:: max(1, len(times) // 4)]:
            for ln, link in wn.links():
                q, hs, he = float(Q.loc[t, ln]), float(H.loc[t, link.start_node_name]), float(H.loc[t, link.end_node_name])
                st = int(ST.loc[t, ln])
                zeroed = [(n in wn.junction_name_list and float(H.loc[t, n]) == 0.0 and float(PR.loc[t, n]) == 0.0) for n in (link.start_node_name, link.end_node_name)]
                iso = any(zeroed)
                if iso and not all(zeroed) and st != 0 and not (link.link_type == "Pipe" and link.check_valve) and link.link_type != "Pump" \
                        and max(abs(hs), abs(he)) > 1.0:
                    # an OPEN link joins a solved node to a junction reported as cut off (head and pressure zeroed): no law of an open link allows that
                    run.violation("law_reported_open_link_to_a_zeroed_junction",
                                  "%s is reported open (status %d, flow %.3g) between a solved node and a junction whose head and pressure are zeroed (%.3f / %.3f)" % (ln, st, q, hs, he),
                                  input={"check": "reported", "spec": spec, "link": ln, "time": int(t), "q": q, "hs": hs, "he": he, "status": st})
                desc = {"check": "reported", "spec": spec, "link": ln, "time": int(t), "q": q, "hs": hs, "he": he, "status": st}
                if (link.link_type == "Pump" or (link.link_type == "Pipe" and link.check_valve)) and q < -QTOL:
                    run.violation("reverse_flow_" + ("pump" if link.link_type == "Pump" else "check_valve"),
                                  "%s reports reverse flow %.3g beyond the flow tolerance" % (ln, q), input=desc)
                if iso:
                    continue
                setting = float(SE.loc[t, ln]) if link.link_type == "Valve" else 0.0
                model, margs, shape = link_law(wn, ln, link, q, hs, he, st, setting)
                tol = "1 / 500000" if st == 0 else "1 / 400000"
                add("Rabs (%s %s) <= %s" % (model, margs, tol), dict(desc, shape=shape), abs(q) > 1e-6 or st == 0)
    # (3) a pump curve edited after the model has been simulated once: the next run must lie on the CURRENT curve (coefficients from the
    #     model's own 1-/2-point formulas, not from the implementation's cached ones) ----------------------------------------------------
    for rep in range(12 if thorough else 4):
        wn = wntr.network.WaterNetworkModel()
        wn.add_reservoir("R", base_head=round(rng.uniform(5, 30), 1))
        wn.add_junction("J1", base_demand=round(rng.uniform(0.002, 0.01), 4), elevation=round(rng.uniform(0, 10), 1))
        wn.add_junction("J2", base_demand=round(rng.uniform(0.002, 0.01), 4), elevation=round(rng.uniform(0, 10), 1))
        wn.add_pipe("P1", "J1", "J2", length=round(rng.uniform(50, 800), 1), diameter=rng.choice([0.15, 0.25, 0.3]), roughness=rng.choice([90.0, 120.0]))

        def pts():
            if rng.random() < 0.5:
                return [(round(rng.uniform(0.02, 0.08), 3), round(rng.uniform(20, 60), 1))]
            return [(0.0, round(rng.uniform(40, 70), 1)), (round(rng.uniform(0.08, 0.2), 3), round(rng.uniform(5, 25), 1))]

        def law(pp):
            if len(pp) == 1:
                return "(let '(A, B, C) := coeffs_1pt %s %s in head_pump_row A B C)" % (R(pp[0][0]), R(pp[0][1]))
            return "(let '(A, B, C) := coeffs_2pt %s %s %s %s in head_pump_row A B C)" % (R(pp[0][0]), R(pp[0][1]), R(pp[1][0]), R(pp[1][1]))
        p_old, p_new = pts(), pts()
        wn.add_curve("hc", "HEAD", p_old)
        wn.add_pump("PU", "R", "J1", "HEAD", "hc")
        wn.options.time.duration = 2 * 3600
        how = rng.choice(["run_then_edit", "run_then_edit", "coefficients_then_edit", "edit_before_any_use"])
        stages = []
        if how == "run_then_edit":
            r1, e1, w1, _ = simrun.run(wntr, wn)
            if simrun.converged(r1, e1, w1):
                stages.append((r1, p_old, "first run"))
            wn.reset_initial_values()
        elif how == "coefficients_then_edit":
            wn.get_link("PU").get_head_curve_coefficients()
        wn.get_curve("hc").points = list(p_new)
        r2, e2, w2, _ = simrun.run(wntr, wn)
        if simrun.converged(r2, e2, w2):
            stages.append((r2, p_new, "run after the curve was edited (%s)" % how))
        run.count("curve_edit:" + how)
        for rr, pp, what in stages:
            for t in rr.node["head"].index:
                q, hs, he = float(rr.link["flowrate"].loc[t, "PU"]), float(rr.node["head"].loc[t, "R"]), float(rr.node["head"].loc[t, "J1"])
                if int(rr.link["status"].loc[t, "PU"]) == 0:
                    continue
                add("Rabs (%s %s %s %s) <= 1 / 400000" % (law(pp), R(q), R(hs), R(he)),
                    {"check": "reported", "shape": "head_pump_current_curve", "stage": what, "curve_points": pp, "previous_points": p_old,
                     "time": int(t), "q": q, "hs": hs, "he": he}, True)
    res_, errors = common.run_prop_cases("C02", HEADER, TACTIC, cases, shard=40, case_timeout=40)
    for e in errors:
        run.tie_broken("correspondence case file failed to compile", e)
    undecided = 0
    for cid, _ in cases:
        run.obligations += 1
        if res_.get(cid):
            run.discharged += 1
        elif cid in res_:
            m = meta[cid]
            if m["check"] == "pump law premise":
                run.obligations -= 1        # the strict-monotonicity theorem then simply does not apply to this pump curve
                run.count("pump law premise not established")
                continue
            run.violation("law_%s_%s" % (m["check"], m.get("shape", "")), "link law (%s, %s) is not satisfied / the real row differs from the model row" % (m["check"], m.get("shape")), input=m)
