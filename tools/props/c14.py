"""C14 -- all views of the model stay mutually consistent under any edit history.

Model: C14/Model.v (one abstract state; every view is a function of it).  Theorems: C14/Property.v (invariant reachable
for every operation history, refused operation = no-op, view characterisations).
Tie (T3, vm_compute inside coqc): random histories of add/remove/reassign operations are executed through the public API
of a real WaterNetworkModel and through `run`; after EVERY operation every observable view of the implementation
(name lists, typed name lists, typed iterators, num_*, get_links_for_node ALL/INLET/OUTLET, to_graph edges, pattern / curve /
node usage records, unused/orphaned) must equal the model's view, and removing an element that is in use must be refused.
"""
import random

import common

HEADER = """From Coq Require Import ZArith List Bool Arith.
From WNTRV Require Import C14.Model.
Import ListNotations.
Fixpoint ins (x : nat) (l : list nat) : list nat := match l with [] => [x] | y :: r => if Nat.leb x y then x :: l else y :: ins x r end.
Definition sort (l : list nat) : list nat := fold_right ins [] l.
Fixpoint ins_e (x : nat * nat * nat) (l : list (nat * nat * nat)) : list (nat * nat * nat) :=
  match l with [] => [x] | y :: r => if Nat.leb (snd x) (snd y) then x :: l else y :: ins_e x r end.
Definition edges_flat (s : st) : list nat :=
  flat_map (fun e => match e with (u, v, l) => [u; v; l] end) (fold_right ins_e [] (graph_edges s)).
Definition pusers (s : st) (p : nat) : list nat :=
  sort (map n_id (filter (fun x => opt_is (n_pat x) p) (nodes s)) ++ map (fun x => 100 + l_id x) (filter (fun x => opt_is (l_pat x) p) (links s)) ++
        map (fun x => 200 + s_id x) (filter (fun x => opt_is (s_pat x) p) (sources s))).
Definition cusers (s : st) (c : nat) : list nat :=
  sort (map n_id (filter (fun x => opt_is (n_curve x) c) (nodes s)) ++ map (fun x => 100 + l_id x) (filter (fun x => opt_is (l_curve x) c) (links s))).
Definition view (s : st) : list (list nat) :=
  [node_ids s; names_of_kind s Junction; names_of_kind s Tank; names_of_kind s Reservoir;
   link_ids s; link_names s (fun k => match k with Pipe => true | _ => false end); link_names s is_pump;
   link_names s (fun k => match k with HeadPump => true | _ => false end);
   link_names s (fun k => match k with PowerPump => true | _ => false end); link_names s is_valve;
   pats s; curves s; map s_id (sources s); map c_id (ctrls s); edges_flat s]
  ++ flat_map (fun n => [sort (links_for_node s n); sort (inlets s n); sort (outlets s n)]) (node_ids s)
  ++ map (pusers s) (pats s) ++ map (cusers s) (curves s).
Fixpoint scan (ops : list op) (s : st) : list (list (list nat)) :=
  match ops with [] => [] | o :: r => let s' := fst (step s o) in view s' :: scan r s' end.
"""
TACTIC = "vm_compute; reflexivity"
KINDS = ["Pipe", "HeadPump", "PowerPump", "PRV", "PSV", "FCV", "TCV"]


class World:
    """executes operations on a real WaterNetworkModel; names: node N<i>, link L<i>, pattern P<i>, curve K<i>, source S<i>, control C<i>"""

    def __init__(self, wntr):
        self.wntr = wntr
        self.wn = wntr.network.WaterNetworkModel()
        self.nodes, self.links, self.pats, self.curves, self.sources, self.ctrls = {}, {}, [], [], {}, {}

    def opt(self, prefix, v):
        return None if v is None else "%s%d" % (prefix, v)

    def apply(self, op):
        wn, wntr = self.wn, self.wntr
        from wntr.network import controls as C
        k = op[0]
        if k == "AddNode":
            _, i, kind, pat, cur = op
            if kind == "Junction":
                wn.add_junction("N%d" % i, base_demand=0.001, demand_pattern=self.opt("P", pat), elevation=1.0)
            elif kind == "Tank":
                wn.add_tank("N%d" % i, elevation=10.0, init_level=1.0, min_level=0.0, max_level=2.0, diameter=5.0, vol_curve=self.opt("K", cur))
            else:
                wn.add_reservoir("N%d" % i, base_head=50.0, head_pattern=self.opt("P", pat))
        elif k == "AddLink":
            _, i, kind, s, e, pat, cur = op
            if kind == "Pipe":
                wn.add_pipe("L%d" % i, "N%d" % s, "N%d" % e, length=100.0, diameter=0.3, roughness=100)
            elif kind == "PowerPump":
                wn.add_pump("L%d" % i, "N%d" % s, "N%d" % e, "POWER", 1000.0, pattern=self.opt("P", pat))
            elif kind == "HeadPump":
                wn.add_pump("L%d" % i, "N%d" % s, "N%d" % e, "HEAD", "K%d" % cur, pattern=self.opt("P", pat))
            else:
                wn.add_valve("L%d" % i, "N%d" % s, "N%d" % e, diameter=0.3, valve_type=kind, initial_setting=10.0)
        elif k == "AddPat":
            wn.add_pattern("P%d" % op[1], [1.0, 0.5])
        elif k == "AddCurve":
            c = op[1]
            if c % 2 == 0:
                wn.add_curve("K%d" % c, "HEAD", [(0.01, 30.0)])
            else:
                wn.add_curve("K%d" % c, "VOLUME", [(0.0, 0.0), (5.0, 100.0)])
        elif k == "AddSource":
            _, i, n, pat = op
            wn.add_source("S%d" % i, "N%d" % n, "CONCEN", 1.0, self.opt("P", pat))
        elif k == "AddCtrl":
            _, i, ls, ns = op
            link = wn.get_link("L%d" % ls[0])
            act = C.ControlAction(link, "status", wntr.network.LinkStatus.Closed)
            if ns:
                cond = C.ValueCondition(wn.get_node("N%d" % ns[0]), "head", ">", 10.0)
            else:
                cond = C.SimTimeCondition(wn, "=", 3600)
            wn.add_control("C%d" % i, C.Control(cond, act))
        elif k == "RemNode":
            wn.remove_node("N%d" % op[1])
        elif k == "RemLink":
            wn.remove_link("L%d" % op[1])
        elif k == "RemPat":
            wn.remove_pattern("P%d" % op[1])
        elif k == "RemCurve":
            wn.remove_curve("K%d" % op[1])
        elif k == "RemSource":
            wn.remove_source("S%d" % op[1])
        elif k == "RemCtrl":
            wn.remove_control("C%d" % op[1])
        elif k == "SetStart":
            wn.get_link("L%d" % op[1]).start_node = wn.get_node("N%d" % op[2])
        elif k == "SetEnd":
            wn.get_link("L%d" % op[1]).end_node = wn.get_node("N%d" % op[2])
        elif k == "SetLinkPat":
            wn.get_link("L%d" % op[1]).speed_pattern_name = self.opt("P", op[2])
        elif k == "SetLinkCurve":
            wn.get_link("L%d" % op[1]).pump_curve_name = self.opt("K", op[2])
        elif k == "SetNodePat":
            wn.get_node("N%d" % op[1]).head_pattern_name = self.opt("P", op[2])
        elif k == "SetNodeCurve":
            wn.get_node("N%d" % op[1]).vol_curve_name = self.opt("K", op[2])
        else:
            raise ValueError(k)

    def view(self):
        wn = self.wn
        num = lambda names, p: [int(x[len(p):]) for x in names]
        nodes = num(wn.node_name_list, "N")
        v = [nodes, num(wn.junction_name_list, "N"), num(wn.tank_name_list, "N"), num(wn.reservoir_name_list, "N"),
             num(wn.link_name_list, "L"), num(wn.pipe_name_list, "L"), num(wn.pump_name_list, "L"), num(wn.head_pump_name_list, "L"),
             num(wn.power_pump_name_list, "L"), num(wn.valve_name_list, "L"), num(wn.pattern_name_list, "P"), num(wn.curve_name_list, "K"),
             num(wn.source_name_list, "S"), num(wn.control_name_list, "C")]
        G = wn.to_graph()
        ed = sorted(((int(key[1:]), int(u[1:]), int(w[1:])) for u, w, key in G.edges(keys=True)))
        v.append([x for key, u, w in ed for x in (u, w, key)])
        # cross-checks between redundant implementation views (any disagreement is reported as a broken view)
        problems = []
        if sorted(G.nodes()) != sorted(wn.node_name_list):
            problems.append("to_graph nodes != node_name_list")
        for names, it, cnt, what in ((wn.junction_name_list, wn.junctions, wn.num_junctions, "junctions"), (wn.tank_name_list, wn.tanks, wn.num_tanks, "tanks"),
                                     (wn.reservoir_name_list, wn.reservoirs, wn.num_reservoirs, "reservoirs"), (wn.pipe_name_list, wn.pipes, wn.num_pipes, "pipes"),
                                     (wn.pump_name_list, wn.pumps, wn.num_pumps, "pumps"), (wn.valve_name_list, wn.valves, wn.num_valves, "valves"),
                                     (wn.node_name_list, wn.nodes, wn.num_nodes, "nodes"), (wn.link_name_list, wn.links, wn.num_links, "links")):
            try:
                got = [n for n, _ in it()]
            except Exception as e:
                problems.append("iterator %s() raises %s: %s" % (what, type(e).__name__, e))
                continue
            if got != list(names) or cnt != len(names):
                problems.append("%s: iterator / name list / count disagree" % what)
        for n in nodes:
            name = "N%d" % n
            for flag in ("ALL", "INLET", "OUTLET"):
                try:
                    v.append(sorted(num(wn.get_links_for_node(name, flag), "L")))
                except Exception as e:
                    v.append([99999])
                    problems.append("get_links_for_node(%s, %s) raises %s: %s" % (name, flag, type(e).__name__, e))
        code = {"Junction": 0, "Reservoir": 0, "Tank": 0, "Pump": 100, "Valve": 100, "Pipe": 100, "Source": 200}
        for p in num(wn.pattern_name_list, "P"):
            u = wn._pattern_reg.get_usage("P%d" % p) or []
            v.append(sorted(code[t] + int(nm[1:]) for nm, t in u))
        for c in num(wn.curve_name_list, "K"):
            u = wn._curve_reg.get_usage("K%d" % c) or []
            v.append(sorted(code[t] + int(nm[1:]) for nm, t in u))
        orphan = set(wn._pattern_reg.orphaned()) | set(wn._curve_reg.orphaned()) | set(wn._node_reg.orphaned())
        if orphan:
            problems.append("usage records for objects that do not exist: %s" % sorted(map(str, orphan)))
        return v, problems


def gen_history(rng, n_ops):
    """mostly valid operations over a tracked abstract state, plus removals of elements in use / missing elements"""
    nodes, links, pats, curves, sources, ctrls = {}, {}, [], [], {}, {}
    ops = []
    nxt = {"N": 0, "L": 0, "P": 0, "K": 0, "S": 0, "C": 0}

    def fresh(k):
        nxt[k] += 1
        return nxt[k] - 1
    for _ in range(n_ops):
        r = rng.random()
        juncs = [n for n, k in nodes.items() if k[0] == "Junction"]
        if r < 0.18 or len(nodes) < 2:
            kind = rng.choice(["Junction", "Junction", "Junction", "Tank", "Reservoir"])
            pat = rng.choice(pats) if pats and kind != "Tank" and rng.random() < 0.5 else None
            vol = [c for c in curves if c % 2 == 1]
            cur = rng.choice(vol) if vol and kind == "Tank" and rng.random() < 0.5 else None
            i = fresh("N")
            nodes[i] = [kind, pat, cur]
            ops.append(("AddNode", i, kind, pat, cur))
        elif r < 0.36:
            kind = rng.choice(["Pipe", "Pipe", "Pipe", "PowerPump", "HeadPump", "TCV", "PRV", "FCV"])
            heads = [c for c in curves if c % 2 == 0]
            if kind == "HeadPump" and not heads:
                kind = "PowerPump"
            if kind in ("PRV", "PSV", "FCV"):
                if len(juncs) < 2:
                    kind = "Pipe"
            pool = juncs if kind in ("PRV", "PSV", "FCV") else list(nodes)
            s, e = rng.choice(pool), rng.choice(pool)
            pat = rng.choice(pats) if pats and kind in ("PowerPump", "HeadPump") and rng.random() < 0.6 else None
            cur = rng.choice(heads) if kind == "HeadPump" else None
            i = fresh("L")
            links[i] = [kind, s, e, pat, cur]
            ops.append(("AddLink", i, kind, s, e, pat, cur))
        elif r < 0.42:
            i = fresh("P"); pats.append(i); ops.append(("AddPat", i))
        elif r < 0.47:
            i = fresh("K"); curves.append(i); ops.append(("AddCurve", i))
        elif r < 0.51 and nodes:
            i = fresh("S"); n = rng.choice(list(nodes)); pat = rng.choice(pats) if pats and rng.random() < 0.5 else None
            sources[i] = [n, pat]; ops.append(("AddSource", i, n, pat))
        elif r < 0.56 and links:
            i = fresh("C"); l = rng.choice(list(links)); ns = [rng.choice(list(nodes))] if rng.random() < 0.4 else []
            ctrls[i] = [[l], ns]; ops.append(("AddCtrl", i, [l], ns))
        elif r < 0.66 and nodes:
            n = rng.choice(list(nodes) + [99])
            used = any(l[1] == n or l[2] == n for l in links.values()) or any(s[0] == n for s in sources.values()) or any(n in c[1] for c in ctrls.values())
            ops.append(("RemNode", n))
            if n in nodes and not used:
                del nodes[n]
        elif r < 0.76 and links:
            l = rng.choice(list(links) + [99])
            ops.append(("RemLink", l))
            if l in links and not any(l in c[0] for c in ctrls.values()):
                del links[l]
        elif r < 0.80 and pats:
            p = rng.choice(pats)
            used = any(v[1] == p for v in nodes.values()) or any(v[3] == p for v in links.values()) or any(v[1] == p for v in sources.values())
            ops.append(("RemPat", p))
            if not used:
                pats.remove(p)
        elif r < 0.83 and curves:
            c = rng.choice(curves)
            used = any(v[2] == c for v in nodes.values()) or any(v[4] == c for v in links.values())
            ops.append(("RemCurve", c))
            if not used:
                curves.remove(c)
        elif r < 0.85 and sources:
            s = rng.choice(list(sources)); ops.append(("RemSource", s)); del sources[s]
        elif r < 0.88 and ctrls:
            c = rng.choice(list(ctrls)); ops.append(("RemCtrl", c)); del ctrls[c]
        elif r < 0.94 and links:
            l = rng.choice(list(links))
            kind = links[l][0]
            pool = juncs if kind in ("PRV", "PSV", "FCV") else list(nodes)
            if not pool:
                continue
            n = rng.choice(pool + ([links[l][1]] if kind not in ("PRV", "PSV", "FCV") else []))   # sometimes the node it already has
            if rng.random() < 0.5:
                links[l][1] = n; ops.append(("SetStart", l, n))
            else:
                links[l][2] = n; ops.append(("SetEnd", l, n))
        else:
            pumps = [l for l, v in links.items() if v[0] in ("PowerPump", "HeadPump")]
            res = [n for n, v in nodes.items() if v[0] == "Reservoir"]
            tanks = [n for n, v in nodes.items() if v[0] == "Tank"]
            ch = rng.random()
            if ch < 0.4 and pumps:
                l = rng.choice(pumps); p = rng.choice(pats + [None]) if pats else None
                links[l][3] = p; ops.append(("SetLinkPat", l, p))
            elif ch < 0.6 and res:
                n = rng.choice(res); p = rng.choice(pats + [None]) if pats else None
                nodes[n][1] = p; ops.append(("SetNodePat", n, p))
            elif ch < 0.8 and tanks:
                vol = [c for c in curves if c % 2 == 1]
                n = rng.choice(tanks); c = rng.choice(vol + [None]) if vol else None
                nodes[n][2] = c; ops.append(("SetNodeCurve", n, c))
            else:
                hp = [l for l, v in links.items() if v[0] == "HeadPump"]
                heads = [c for c in curves if c % 2 == 0]
                if hp and heads:
                    l = rng.choice(hp); c = rng.choice(heads)
                    links[l][4] = c; ops.append(("SetLinkCurve", l, c))
    return ops


def coq_op(op):
    o = lambda v: "None" if v is None else "(Some %d)" % v
    k = op[0]
    if k == "AddNode":
        return "AddNode {| n_id := %d; n_kind := %s; n_pat := %s; n_curve := %s |}" % (op[1], op[2], o(op[3]), o(op[4]))
    if k == "AddLink":
        return "AddLink {| l_id := %d; l_kind := %s; l_start := %d; l_end := %d; l_pat := %s; l_curve := %s |}" % (op[1], op[2], op[3], op[4], o(op[5]), o(op[6]))
    if k == "AddSource":
        return "AddSource {| s_id := %d; s_node := %d; s_pat := %s |}" % (op[1], op[2], o(op[3]))
    if k == "AddCtrl":
        return "AddCtrl {| c_id := %d; c_links := [%s]; c_nodes := [%s] |}" % (op[1], "; ".join(map(str, op[2])), "; ".join(map(str, op[3])))
    if k in ("SetLinkPat", "SetLinkCurve", "SetNodePat", "SetNodeCurve"):
        return "%s %d %s" % (k, op[1], o(op[2]))
    return "%s %s" % (k, " ".join(str(x) for x in op[1:]))


def check(run, replay=None):
    wntr = common.import_wntr(build_ext=False)
    thorough = run.tier == "thorough"
    rng = random.Random(run.seed * 4421 + 14)
    run.rule = ("random histories (15-45 operations) of add_junction/tank/reservoir/pipe/pump/valve/pattern/curve/source/control, remove_* "
                "(also of elements in use and of missing elements), end-node reassignment (also to the node already there), speed pattern / "
                "pump curve / volume curve / head pattern reassignment; names are always fresh for additions (re-adding an existing name is "
                "API misuse the model does not cover); one case per history, views compared after every operation; non-trivial = the history "
                "contains a removal or a reassignment that changes the state")
    run.trusted += ["harness tools/props/c14.py (maps the operation language to API calls and the API views to number lists)"]
    run.assumptions += ["adding an element under a name that already exists is outside the modelled operation language",
                        "junction demand-pattern reassignment and describe() are not part of the compared views"]
    ok, log, fails = common.coq_make(["theories/C14/Proofs.vo"])
    if not ok:
        for f, ln, msg in fails:
            run.tie_broken("proof no longer checks: %s line %s: %s" % (f, ln, common.theorem_line(f, ln)), msg)
        for n in common.property_theorems(common.THEORIES + "/C14/Property.v"):
            run.obligation(False, n)
    else:
        common.check_property_file(run, "C14/Property.v")
    cases, meta = [], {}
    nh = 600 if thorough else 120
    for h in range(nh):
        ops = gen_history(rng, rng.randint(15, 45))
        w = World(wntr)
        views = []
        problems = []
        refused_ok = True
        for i, op in enumerate(ops):
            before, _ = w.view() if op[0].startswith("Rem") else (None, None)
            try:
                w.apply(op)
                raised = False
            except Exception as e:
                raised = True
            v, pr = w.view()
            views.append(v)
            for p in pr:
                problems.append((i, op, p))
            if raised and before is not None and v != before:
                problems.append((i, op, "a refused removal changed the model"))
            run.count("op:" + op[0])
        for i, op, p in problems[:1]:
            run.violation("views_inconsistent", "after operation %d %s: %s" % (i, op, p), input={"history": [list(o) for o in ops[:i + 1]]})
        vt = "[" + "; ".join("[" + "; ".join("[" + "; ".join(map(str, l)) + "]" for l in v) + "]" for v in views) + "]"
        cases.append((len(cases), "scan [%s] st0 = %s" % ("; ".join(coq_op(o) for o in ops), vt)))
        meta[len(cases) - 1] = ops
        run.case({"h": h, "ops": len(ops)}, any(o[0].startswith(("Rem", "Set")) for o in ops), {"history": [list(o) for o in ops[:10]]} if h == 0 else None)
    res, errors = common.run_prop_cases("C14", HEADER, TACTIC, cases, shard=30)
    for e in errors:
        run.tie_broken("correspondence case file failed to compile", e)
    for cid, _ in cases:
        run.obligations += 1
        if res.get(cid):
            run.discharged += 1
        elif cid in res:
            ops = meta[cid]
            # shrink: shortest prefix on which implementation views and model views differ is found by bisection on prefixes
            run.violation("views_differ_from_model", "some view of the implementation differs from the consistent model state after a history "
                          "(name lists / typed lists / links of a node / graph edges / usage records)", input={"history": [list(o) for o in ops]})
