"""C12 -- writing a model to an EPANET INP file and reading it back preserves it.

Proved (C12/Property.v over Lib/Codec.v): time and clock-time codecs are exact inverses; the IF/AND/OR clause list of a rule
keeps the meaning of every condition EPANET's syntax can express (and provably changes  a OR (b AND c): known finding).
Ties (vm_compute inside coqc, exact): the real _sec_to_string / _str_time_to_sec / _sec_to_clock / _parse_value /
_clock_time_to_sec on random times, and the real rule writer + reader (_EpanetRule) on random condition trees, equal the model.
Glue (sections without a model) is exercised by whole-file round trips of generated models in every flow unit and both INP
versions: write, read, compare normal forms keyed by element name to 1e-6 relative; a second write/read must change nothing.
A whole-file difference is a concrete failing input of the property and is reported as a violation.
"""
import os
import random
import tempfile
import warnings

import common
import netgen
import roundtrip

HEADER = """From Coq Require Import ZArith List Bool.
From WNTRV Require Import Lib.Codec.
Import ListNotations.
Local Open Scope Z_scope.
Definition hms_eqb (a b : Z * Z * Z) : bool := match a, b with (x, y, z), (x', y', z') => (x =? x') && (y =? y') && (z =? z') end.
Definition clk_eqb (a b : Z * Z * Z * bool) : bool := match a, b with (x, y, z, p), (x', y', z', p') => (x =? x') && (y =? y') && (z =? z') && Bool.eqb p p' end.
Fixpoint ct_eqb (a b : ctree nat) : bool :=
  match a, b with
  | Atom x, Atom y => Nat.eqb x y
  | And l r, And l' r' => ct_eqb l l' && ct_eqb r r'
  | Or l r, Or l' r' => ct_eqb l l' && ct_eqb r r'
  | _, _ => false end.
Definition parse_is (t expected : ctree nat) : bool := match parse_cond (print_cond KIf t) with Some t' => ct_eqb t' expected | None => false end.
"""
TACTIC = "vm_compute; reflexivity"
UNITS = ["CFS", "GPM", "MGD", "IMGD", "AFD", "LPS", "LPM", "MLD", "CMH", "CMD"]


def enrich(wn, wntr, rng, spec):
    """features the INP format can hold beyond the netgen core: tags, vertices, quality, sources, shared volume curve,
    energy / reaction / quality options, setting and speed controls, AND/OR/ELSE/priority rules"""
    from wntr.network import controls as C
    S = wntr.network.LinkStatus
    for name, n in wn.nodes():
        if rng.random() < 0.3:
            n.tag = rng.choice(["zoneA", "zoneB"])
        if rng.random() < 0.3:
            n.initial_quality = round(rng.uniform(0, 2), 3) * 1e-3
    for name, l in wn.links():
        if rng.random() < 0.3:
            l.tag = rng.choice(["old", "new"])
        if rng.random() < 0.3:
            l.vertices = [(round(rng.uniform(0, 9), 2), round(rng.uniform(0, 9), 2)) for _ in range(rng.randint(1, 3))]
    juncs = wn.junction_name_list
    if rng.random() < 0.5 and juncs:
        wn.get_node(rng.choice(juncs)).emitter_coefficient = round(rng.uniform(0.0001, 0.001), 6)
    # a second tank sharing one volume curve
    if rng.random() < 0.5 and juncs:
        wn.add_curve("VC", "VOLUME", [(0.0, 0.0), (2.0, 60.0), (5.0, 400.0), (9.0, 900.0)])
        for i in range(2):
            tn = "TS%d" % i
            wn.add_tank(tn, elevation=30.0 + i, init_level=3.0, min_level=1.0, max_level=8.0, diameter=10.0, min_vol=0.0, vol_curve="VC", coordinates=(5 + i, 8))
            wn.add_pipe("PTS%d" % i, tn, rng.choice(juncs), length=200.0, diameter=0.3, roughness=110)
    if rng.random() < 0.5 and juncs:
        wn.add_source("src1", rng.choice(juncs), rng.choice(["CONCEN", "MASS", "SETPOINT", "FLOWPACED"]), round(rng.uniform(0.1, 3), 3) * 1e-3,
                      rng.choice([None, "pa"]))
        wn.options.quality.parameter = "CHEMICAL"
    wn.options.energy.global_efficiency = rng.choice([75.0, 68.5])
    wn.options.energy.global_price = rng.choice([0.0, 3.5e-8])
    wn.options.reaction.bulk_coeff = rng.choice([0.0, -1.2e-5])
    wn.options.time.start_clocktime = rng.choice([0, 3600 * 6, 12 * 3600 + 1800, 23 * 3600 + 59, 1800])
    wn.options.hydraulic.trials = rng.choice([40, 200])
    # EPANET 2.2 [OPTIONS] PRESSURE: the unit of REPORTED pressures; the pressure-dependent-demand limits stay in the units of the flow system
    wn.options.hydraulic.inpfile_pressure_units = rng.choice([None, None, "KPA", "PSI", "METERS"])
    links = [l for l in wn.pipe_name_list]
    # setting / speed controls and rules with value conditions
    pumps, valves, tanks = wn.pump_name_list, wn.valve_name_list, wn.tank_name_list
    k = 0
    if valves and rng.random() < 0.7:
        v = wn.get_link(valves[0])
        if v.valve_type in ("PRV", "PSV", "FCV", "TCV"):
            val = 0.004 if v.valve_type == "FCV" else 25.0
            wn.add_control("xs%d" % k, C.Control(C.SimTimeCondition(wn, "=", 7200), C.ControlAction(v, "setting", val))); k += 1
    if pumps and rng.random() < 0.7:
        p = wn.get_link(pumps[0])
        wn.add_control("xs%d" % k, C.Control(C.SimTimeCondition(wn, "=", 3600 * 3), C.ControlAction(p, "base_speed", 0.8))); k += 1
    atoms = []
    for j in rng.sample(juncs, min(2, len(juncs))):
        atoms.append(lambda j=j: C.ValueCondition(wn.get_node(j), "pressure", rng.choice(["<", ">"]), round(rng.uniform(5, 40), 1)))
    for t in tanks[:1]:
        atoms.append(lambda t=t: C.ValueCondition(wn.get_node(t), "level", rng.choice(["<", ">"]), round(rng.uniform(1.5, 4), 1)))
    atoms.append(lambda: C.SimTimeCondition(wn, rng.choice([">=", "<"]), rng.randrange(1, 20) * 1800))
    atoms.append(lambda: C.TimeOfDayCondition(wn, rng.choice([">=", "<"]), rng.choice([0, 6, 12, 13, 23]) * 3600 + rng.choice([0, 900, 1830])))
    for r in range(rng.randint(0, 2)):
        if not links:
            break
        a, b, c = rng.choice(atoms)(), rng.choice(atoms)(), rng.choice(atoms)()
        shape = rng.choice(["a", "and", "or", "and_or", "or_and_left"])
        cond = {"a": a, "and": C.AndCondition(a, b), "or": C.OrCondition(a, b), "and_or": C.AndCondition(a, C.OrCondition(b, c)),
                "or_and_left": C.AndCondition(C.OrCondition(a, b), c)}[shape]
        ln = wn.get_link(rng.choice(links))
        then = [C.ControlAction(ln, "status", rng.choice([S.Open, S.Closed]))]
        els = [C.ControlAction(ln, "status", S.Open)] if rng.random() < 0.5 else None
        wn.add_control("xr%d" % r, C.Rule(cond, then, els, priority=rng.choice([3, 1, 5])))
    return wn


def tree_gen(rng, depth, n_atoms):
    if depth == 0 or rng.random() < 0.3:
        return ("atom", rng.randrange(n_atoms))
    return (rng.choice(["and", "or"]), tree_gen(rng, depth - 1, n_atoms), tree_gen(rng, depth - 1, n_atoms))


def tree_coq(t):
    if t[0] == "atom":
        return "(Atom %d%%nat)" % t[1]
    return "(%s %s %s)" % ("And" if t[0] == "and" else "Or", tree_coq(t[1]), tree_coq(t[2]))


def check(run, replay=None):
    wntr = common.import_wntr(build_ext=True)
    from wntr.epanet import io as IO
    from wntr.network import controls as C
    thorough = run.tier == "thorough"
    rng = random.Random(run.seed * 8111 + 12)
    run.rule = ("codecs: random seconds in [0, 10 days] / [0, 86400); rule conditions: random AND/OR trees (depth <= 3) over 5 atom conditions; "
                "whole files: generated models (netgen + tags, vertices, quality, sources, shared volume curve, options, setting/speed controls, "
                "AND/OR/ELSE/priority rules) x sampled (flow unit, INP version) pairs (all 20 in the thorough tier); non-trivial = every case")
    run.trusted += ["harness tools/props/c12.py + tools/roundtrip.py (normal forms keyed by element name, 1e-6 relative)",
                    "decimal rendering/parsing of integer fields (Python str/int/format)"]
    run.assumptions += ["float text formatting (%g, %f) is modelled as exact; comparisons of whole files use 1e-6 relative",
                        "sections QUALITY/REACTIONS/ENERGY/REPORT/... have no Coq model: they are covered by the whole-file differential only",
                        "WNTR-only settings (pattern interpolation, per-junction PDD parameters, leaks, unused typed curves) are outside the statement"]
    ok, log, fails = common.coq_make(["theories/C12/Proofs.vo"])
    if not ok:
        for f, ln, msg in fails:
            run.tie_broken("proof no longer checks: %s line %s: %s" % (f, ln, common.theorem_line(f, ln)), msg)
        for n in common.property_theorems(common.THEORIES + "/C12/Property.v"):
            run.obligation(False, n)
    else:
        common.check_property_file(run, "C12/Property.v")
    cases, meta = [], {}

    def add(prop, m):
        cases.append((len(cases), prop))
        meta[len(cases) - 1] = m
        run.case(prop[:200], True, m if len(cases) % 150 == 1 else None)
        run.count(m["check"])
    b = lambda x: "true" if x else "false"
    # (1) codecs ---------------------------------------------------------------------------------------
    for _ in range(400 if thorough else 120):
        t = rng.choice([rng.randrange(0, 864000), rng.randrange(0, 86400), rng.choice([0, 43200, 45000, 900, 86399, 3600 * 12 + 59])])
        try:
            h, m, s = IO._sec_to_string(t)
            add("hms_eqb (sec_to_hms %d) (%d, %d, %d) = true" % (t, h, m, s), {"check": "_sec_to_string", "t": t, "impl": [h, m, s]})
            back = IO._str_time_to_sec("%d:%02d:%02d" % (h, m, s))
            add("hms_to_sec (%d, %d, %d) = %d" % (h, m, s, back), {"check": "_str_time_to_sec", "text": "%d:%02d:%02d" % (h, m, s), "impl": back})
        except Exception as e:
            run.violation("time_codec_raises", "time codec raised %s" % e, input={"t": t})
        tc = t % 86400
        txt = C.ControlCondition._sec_to_clock(tc)
        hh, mm, ss = txt.split()[0].split(":")
        pm = txt.split()[1] == "PM"
        add("clk_eqb (sec_to_clock %d) (%d, %d, %d, %s) = true" % (tc, int(hh), int(mm), int(ss), b(pm)), {"check": "_sec_to_clock", "t": tc, "impl": txt})
        back = C.ControlCondition._parse_value(txt)
        add("parse_clock (%d, %d, %d, %s) = %d" % (int(hh), int(mm), int(ss), b(pm), int(back)), {"check": "_parse_value(clock)", "text": txt, "impl": back})
        try:
            back2 = IO._clock_time_to_sec(txt.split()[0], txt.split()[1])
            add("clock_time_to_sec (%d, %d, %d, %s) = %d" % (int(hh), int(mm), int(ss), b(pm), int(back2)), {"check": "_clock_time_to_sec", "text": txt, "impl": back2})
        except Exception as e:
            run.violation("clock_codec_raises", "_clock_time_to_sec raised %s on %s" % (e, txt), input={"text": txt})
    # (2) rule condition trees through the real writer and reader ------------------------------------------
    wn = wntr.network.WaterNetworkModel()
    wn.add_reservoir("R", base_head=50)
    for i in range(5):
        wn.add_junction("J%d" % i, base_demand=0.001, elevation=1.0)
    wn.add_pipe("P", "R", "J0", length=100, diameter=0.3, roughness=100)
    wn_rule = wn
    atoms = [lambda i=i: C.ValueCondition(wn_rule.get_node("J%d" % i), "pressure", ">", 10.0 + i) for i in range(5)]
    for _ in range(300 if thorough else 80):
        t = tree_gen(rng, rng.randint(1, 3), 5)

        def build(t):
            if t[0] == "atom":
                return atoms[t[1]]()
            return (C.AndCondition if t[0] == "and" else C.OrCondition)(build(t[1]), build(t[2]))
        rule = C.Rule(build(t), [C.ControlAction(wn_rule.get_link("P"), "status", wntr.network.LinkStatus.Closed)], name="r")
        er = IO._EpanetRule("r", wntr.epanet.util.FlowUnits.SI, None)
        er.from_if_then_else(rule)
        text = str(er)
        parsed = IO._EpanetRule.parse_rules_lines(text.splitlines(), wntr.epanet.util.FlowUnits.SI, None)
        r2 = parsed[0].generate_control(wn_rule)

        def dump(c):
            k = type(c).__name__
            if k == "AndCondition":
                return ("and", dump(c._condition_1), dump(c._condition_2))
            if k == "OrCondition":
                return ("or", dump(c._condition_1), dump(c._condition_2))
            return ("atom", int(c._source_obj.name[1:]))
        add("parse_is %s %s = true" % (tree_coq(t), tree_coq(dump(r2._condition))), {"check": "rule condition write/read", "tree": t, "impl_readback": dump(r2._condition)})
    # (3) whole-file round trips -----------------------------------------------------------------------------
    nets = 40 if thorough else 8
    tmp = tempfile.mkdtemp(prefix="c12_")
    nfiles = 0
    try:
        for k in range(nets):
            spec = netgen.gen_spec(rng, feat={"leaks": 0.0, "pdd": 0.5, "valves": 0.6, "pumps": 0.6, "volcurve": 0.3})
            spec["options"]["report_timestep"] = spec["options"]["hydraulic_timestep"]
            for j in spec["junctions"]:
                for a in ("minimum_pressure", "required_pressure", "pressure_exponent"):
                    j.pop(a, None)
            try:
                wn = netgen.build(spec, wntr)
                enrich(wn, wntr, rng, spec)
            except Exception as e:
                run.count("build_failed")
                continue
            combos = [(u, v) for u in UNITS for v in (2.2, 2.0)]
            if not thorough:
                combos = rng.sample(combos, 4)
            if k % 4 == 1:
                # directed: pressure-dependent demand + every spelling of the 2.2 PRESSURE option, in a metric and a US flow unit system
                wn.options.hydraulic.demand_model = "PDD"
                wn.options.hydraulic.inpfile_pressure_units = ["KPA", "PSI", "METERS"][(k // 4) % 3]
                for extra in ((rng.choice(["LPS", "LPM", "MLD", "CMH", "CMD"]), 2.2), (rng.choice(["GPM", "CFS"]), 2.2)):
                    if extra not in combos:
                        combos.append(extra)
                run.count("directed: PDD with PRESSURE " + wn.options.hydraulic.inpfile_pressure_units)
            for units, version in combos:
                desc = {"spec": spec, "units": units, "version": version}
                f1, f2 = os.path.join(tmp, "a.inp"), os.path.join(tmp, "b.inp")
                try:
                    with warnings.catch_warnings():
                        warnings.simplefilter("ignore")
                        wntr.network.write_inpfile(wn, f1, units=units, version=version)
                        wn2 = wntr.network.read_inpfile(f1)
                        wntr.network.write_inpfile(wn2, f2, units=units, version=version)
                        wn3 = wntr.network.read_inpfile(f2)
                except Exception as e:
                    run.violation("inp_roundtrip_raises", "write/read of a generated model raised %s: %s" % (type(e).__name__, e), input=desc)
                    continue
                nfiles += 1
                n1, n2, n3 = (roundtrip.inp_normal_form(x, wntr) for x in (wn, wn2, wn3))
                if version == 2.0:
                    for n in (n1, n2, n3):
                        n.pop("hydraulic22")
                d12 = roundtrip.diff(n1, n2, 1e-6)
                d23 = roundtrip.diff(n2, n3, 1e-6)
                run.case({"net": k, "u": units, "v": version}, True, None)
                run.count("whole-file")
                # known finding: the category of a junction's ONLY demand has no line in the written file
                single_cat = [x for x in d12 if x[0].endswith("demands[0][2]") and x[2] is None and
                              len(n1["nodes"][x[0].split("/")[2]]["demands"]) == 1]
                if single_cat:
                    run.violation("inp_single_demand_category_lost", "the category %r of the only demand of junction %s is lost by an INP write/read" %
                                  (single_cat[0][1], single_cat[0][0].split("/")[2]), input=desc)
                    d12 = [x for x in d12 if x not in single_cat]
                    d23 = []
                if d12:
                    where = d12[0][0].split("/")[1]
                    run.violation("inp_roundtrip_differs_" + where, "INP write/read (%s, %s) changed the model: %s" % (units, version, d12[:3]), input=desc)
                elif d23:
                    run.violation("inp_second_cycle_differs", "a second write/read cycle changed the model: %s" % (d23[:3],), input=desc)
    finally:
        import shutil
        shutil.rmtree(tmp, ignore_errors=True)
    res, errors = common.run_prop_cases("C12", HEADER, TACTIC, cases, shard=200)
    for e in errors:
        run.tie_broken("correspondence case file failed to compile", e)
    for cid, _ in cases:
        run.obligations += 1
        if res.get(cid):
            run.discharged += 1
        elif cid in res:
            m = meta[cid]
            run.violation("codec_" + m["check"].split("(")[0].replace(" ", "_").replace("/", "_"), "codec %s differs from the model" % m["check"], input=m)
    run.extra["inp_files_round_tripped"] = nfiles
    # known finding: a OR (b AND c) is written "IF a OR b AND c" and read back as (a OR b) AND c
    rule = C.Rule(C.OrCondition(atoms[0](), C.AndCondition(atoms[1](), atoms[2]())),
                  [C.ControlAction(wn_rule.get_link("P"), "status", wntr.network.LinkStatus.Closed)], name="r")
    er = IO._EpanetRule("r", wntr.epanet.util.FlowUnits.SI, None)
    er.from_if_then_else(rule)
    r2 = IO._EpanetRule.parse_rules_lines(str(er).splitlines(), wntr.epanet.util.FlowUnits.SI, None)[0].generate_control(wn_rule)
    if type(r2._condition).__name__ == "AndCondition":
        run.violation("rule_or_of_and_changes_meaning", "a rule condition a OR (b AND c) is read back as (a OR b) AND c",
                      input={"written": str(er), "read_back": repr(r2._condition)})
