"""C07 -- pressure-dependent demand follows the documented pressure-demand curve.

T1: Gen/Formulas.v (cubic_spline, constants, the PDD smoothing-coefficient chain) is regenerated from the source on every run;
    Lib/Spline.v and C07/Proofs.v are re-checked against it.
Ties decided inside coqc (interval arithmetic on exact binary64 rationals):
  * the residual of the REAL pdd row of every junction (the dumped conditional aml expression with the parameter values the
    real code computed) equals  d - D * pdd_frac(eff pmin, eff pnom, eff exponent)(h - elev)  over a sweep of heads from far below
    Pmin to far above Preq (dense near the knots), for global options and per-junction overrides (incl. 0 and None);
  * reported (pressure, demand) pairs of PDD simulations lie on the curve;
  * the premise of C07_pdd_monotone (both cubics in the Fritsch-Carlson box) for every generated parameter set -- then the curve is
    non-decreasing EVERYWHERE for those parameters by the theorem; and, independently, non-decreasing across the sweep.
"""
import random

import common
import netgen
import simrun
from common import r_of_float as R
from translate import regen
from props.c15 import make_dumper

HEADER = """From Coq Require Import Reals ZArith List Bool Lra.
From Interval Require Import Tactic.
From WNTRV Require Import Lib.Expr Lib.ExprR Gen.Formulas Lib.Spline Lib.SplineMono C15.Model C15.Proofs C07.Model C07.Proofs C07.Mono.
Import ListNotations.
Local Open Scope R_scope.
Lemma pw_2m1 a : pw a (2 - 1) = a. Proof. replace (2 - 1) with 1 by lra. apply pw_1. Qed.
Ltac unfold_model := cbv beta iota zeta delta [evalR eval usemR bsemR leafR cst is_const_leaf Nat.eqb cond_eval cond_select option_map].
Ltac resolve1 := first
 [ rewrite pw_2 | rewrite pw_3 | rewrite pw_1
 | rewrite ifR_1 | rewrite ifR_0
 | match goal with |- context[sgn ?a] => first [rewrite (sgn_pos a) by interval | rewrite (sgn_neg a) by interval] end
 | match goal with |- context[ineqR ?b ?lo ?hi] =>
     first [rewrite (ineq_in b lo hi) by interval | rewrite (ineq_below b lo hi) by interval
           | rewrite (ineq_above b lo hi) by interval] end
 | match goal with |- context[Req_EM_T ?a ?b] => destruct (Req_EM_T a b); [try lra | try lra] end ].
Ltac prune_dec := repeat match goal with
  | |- context[Rle_dec ?a ?b] =>
      let H := fresh "Hd" in destruct (Rle_dec a b) as [H|H];
      [ try (exfalso; revert H; apply Rlt_not_le; interval) | try (exfalso; apply H; interval) ]
  end.
Ltac model_side := unfold pdd_row, pdd_frac; rewrite pdd_coeffs_bands; unfold delta, slope, c_pdd_smoothing_delta, c_pdd_slope; prune_dec;
  unfold band1, band2, cubic_spline, poly, delta, slope, c_pdd_smoothing_delta, c_pdd_slope; cbv zeta;
  repeat match goal with |- context[pw ?a ?b] => rewrite (pw_pos a b) by interval end.
Ltac fc_box_tac := unfold fc_box, sec1, sec2, m1, m2, f21, f12, slope, delta, c_pdd_slope, c_pdd_smoothing_delta;
  repeat match goal with |- context[pw ?a ?b] => rewrite (pw_pos' a b) by interval end; repeat split; interval.
Ltac solve_case := match goal with
  | |- fc_box _ _ _ => fc_box_tac
  | _ => unfold_model; repeat resolve1; model_side; interval with (i_prec 70)
  end.
"""
TACTIC = "solve_case"


def py_frac(pmin, pnom, e, p, delta=0.05, slope=1e-11):
    """float transcription of the Coq model C07.Model.pdd_frac -- used ONLY as a second opinion when the interval tactic
    runs out of time on a case (never to discharge an obligation)"""
    def spline(x1, x2, f1, f2, df1, df2):
        a = (2 * (f1 - f2) - (x1 - x2) * (df2 + df1)) / ((x2 - x1) ** 3)
        b = (df1 - df2 + 3 * (x2 ** 2 - x1 ** 2) * a) / (2 * (x1 - x2))
        c = df2 - 3 * x2 ** 2 * a - 2 * x2 * b
        d = f2 - x2 ** 3 * a - x2 ** 2 * b - x2 * c
        return a, b, c, d
    P = lambda k, x: k[0] * x ** 3 + k[1] * x ** 2 + k[2] * x + k[3]
    w = pnom - pmin
    if p <= pmin:
        return slope * (p - pmin)
    if p <= pmin + delta:
        return P(spline(pmin, pmin + delta, 0.0, (delta / w) ** e, slope, e * (delta / w) ** (e - 1) / w), p)
    if p <= pnom - delta:
        return ((p - pmin) / w) ** e
    if p <= pnom:
        return P(spline(pnom - delta, pnom, ((w - delta) / w) ** e, 1.0, e * ((w - delta) / w) ** (e - 1) / w, slope), p)
    return slope * (p - pnom) + 1


def check(run, replay=None):
    wntr = common.import_wntr(build_ext=True)
    from wntr.sim.aml import expr as E
    from wntr.sim import hydraulics
    thorough = run.tier == "thorough"
    rng = random.Random(run.seed * 4099 + 7)
    run.rule = ("global (Pmin, Preq, exponent) in {0,2,5} x {15,20,30,0.5} x {0.5,0.7,1.0} with Preq - Pmin >= 0.1, per-junction overrides of each "
                "parameter (None / 0 / other), requested demand incl. 0; head sweep: far below Pmin, both sides of each of the four knots, mid "
                "range, far above Preq; PDD simulations of generated networks; one case per (junction, head); non-trivial = requested demand > 0")
    run.trusted += ["translator tools/translate/chains.py + pyexpr.py", "row dumper (tools/props/c15.py)", "coq-interval"]
    run.assumptions += ["binary64 rounding of the implementation (incl. the cancellation inside the cubic coefficients) is compared with the "
                        "real-number model at 2e-6 absolute on the fraction",
                        "configurations with Preq - Pmin < 0.1 m (overlapping bands, incl. the default options) are a recorded finding and are "
                        "not part of the sweep"]
    errs = regen(["Formulas.v"], common.REPO)
    for e in errs:
        run.tie_broken("translator refused the current source (model is stale)", e)
    ok, log, fails = common.coq_make(["theories/C07/Proofs.vo", "theories/C07/Mono.vo", "theories/C15/Proofs.vo"])
    if not ok:
        for f, ln, msg in fails:
            run.tie_broken("proof no longer checks against the regenerated formulas: %s line %s: %s" % (f, ln, common.theorem_line(f, ln)), msg)
        for n in common.property_theorems(common.THEORIES + "/C07/Property.v"):
            run.obligation(False, n)
    else:
        common.check_property_file(run, "C07/Property.v")
    cases, meta = [], {}

    def add(prop, m, nt=True):
        cases.append((len(cases), prop))
        meta[len(cases) - 1] = m
        run.case(prop[:250], nt, m if len(cases) in (1, 30) else None)
        run.count(m["check"])

    nconf = 24 if thorough else 6
    for k in range(nconf):
        gp = {"minimum_pressure": rng.choice([0.0, 2.0, 5.0]) if k % 2 else rng.choice([2.0, 5.0]), "required_pressure": rng.choice([15.0, 20.0, 30.0, 7.5]),
              "pressure_exponent": rng.choice([0.5, 0.7, 1.0, 0.5])}
        wn = wntr.network.WaterNetworkModel()
        wn.options.hydraulic.demand_model = "PDD"
        for a, v in gp.items():
            setattr(wn.options.hydraulic, a, v)
        wn.add_reservoir("R", base_head=60.0)
        juncs = []
        for i in range(4):
            ov = {"minimum_pressure": rng.choice([None, None, 0.0, 1.0, 3.0]), "required_pressure": rng.choice([None, None, 10.0, 12.0, 25.0]),
                  "pressure_exponent": rng.choice([None, None, 0.5, 0.6, 1.0])}
            if i == 0:      # always one junction that overrides the minimum pressure with 0 (falsy) while the global one may be non-zero
                ov["minimum_pressure"] = 0.0
            if i == 1:      # and one without any override
                ov = {"minimum_pressure": None, "required_pressure": None, "pressure_exponent": None}
            name = "J%d" % i
            wn.add_junction(name, base_demand=rng.choice([0.002, 0.005, 0.0, 0.0013]), elevation=rng.choice([0.0, 5.0, -3.0, 12.5]))
            j = wn.get_node(name)
            for a, v in ov.items():
                setattr(j, a, v)
            wn.add_pipe("P%d" % i, "R" if i == 0 else "J%d" % (i - 1), name, length=100.0, diameter=0.3, roughness=100)
            juncs.append((name, ov))
        m, updater = hydraulics.create_hydraulic_model(wn)
        for name, ov in juncs:
            j = wn.get_node(name)
            pmin = ov["minimum_pressure"] if ov["minimum_pressure"] is not None else gp["minimum_pressure"]
            pnom = ov["required_pressure"] if ov["required_pressure"] is not None else gp["required_pressure"]
            pexp = ov["pressure_exponent"] if ov["pressure_exponent"] is not None else gp["pressure_exponent"]
            if pnom - pmin < 0.1001:
                continue
            con = m.pdd[name]
            hv, dv = m.head[name], m.demand[name]
            var_no = {hv: 0, dv: 1}
            tree_R, _ = make_dumper(E, var_no)
            ce = con.expr
            B = "[" + "; ".join("(%s, %s)" % ("None" if (c.is_leaf() and c.is_float_type()) else "Some " + tree_R(c), tree_R(e))
                                for c, e in zip(ce._conditions, ce._exprs)) + "]"
            dexp = m.expected_demand[name].value
            elev = j.elevation
            sweep = [pmin - 30.0, pmin - 0.5, pmin - 1e-3, pmin + 1e-3, pmin + 0.025, pmin + 0.049, pmin + 0.051, pmin + 0.3,
                     (pmin + pnom) / 2, pnom - 0.3, pnom - 0.051, pnom - 0.049, pnom - 0.02, pnom - 1e-3, pnom + 1e-3, pnom + 40.0]
            if not thorough:
                sweep = rng.sample(sweep, 8)
            for p in sweep:
                h = elev + p
                d = rng.choice([0.0, dexp * 0.5, 0.001])
                env = "(fun n => match n with | 0%%nat => %s | 1%%nat => %s | _ => 0 end)" % (R(h), R(d))
                hv.value, dv.value = h, d
                impl_row = float(ce.evaluate())
                tol = "(%d / 1000000000)" % max(2, int(2000 * max(dexp, 1e-6) * 1000))      # 2e-6 on the fraction, scaled by D
                add("match cond_eval %s %s with Some x => Rabs (x - pdd_row %s %s %s %s %s %s %s) <= %s | None => False end" % (
                    env, B, R(pmin), R(pnom), R(pexp), R(elev), R(dexp), R(d), R(h), tol),
                    {"check": "pdd row vs curve", "global": gp, "junction": name, "override": ov, "effective": [pmin, pnom, pexp],
                     "pressure": p, "requested_demand": dexp, "d": d, "impl_row": impl_row}, dexp > 0)
            # the premise of C07_pdd_monotone for this parameter set: both smoothing cubics lie in the Fritsch-Carlson box; when coqc proves
            # it, the theorem makes the curve non-decreasing everywhere for these parameters
            add("fc_box %s %s %s" % (R(pmin), R(pnom), R(pexp)), {"check": "monotonicity premise (fc_box)", "effective": [pmin, pnom, pexp]})
            # monotonicity across the whole sweep incl. the bands (model side): consecutive pairs
            ps = sorted(set(sweep))
            for a, b in zip(ps, ps[1:]):
                if b - a < 1e-9:
                    continue
                add("pdd_frac %s %s %s %s <= pdd_frac %s %s %s %s + 1 / 1000000000000" % (R(pmin), R(pnom), R(pexp), R(a), R(pmin), R(pnom), R(pexp), R(b)),
                    {"check": "curve non-decreasing", "effective": [pmin, pnom, pexp], "p": a, "q": b})
    # reported (pressure, demand) pairs of PDD simulations -------------------------------------------------------
    nets = 20 if thorough else 6
    for k in range(nets):
        spec = netgen.gen_spec(rng, feat={"pdd": 1.0, "leaks": 0.0, "rules": 0.0, "level_controls": 0.0, "pressure_controls": 0.0})
        spec["options"]["demand_model"] = "PDD"
        if spec["options"]["required_pressure"] - spec["options"]["minimum_pressure"] < 0.2:
            continue
        try:
            wn = netgen.build(spec, wntr)
        except Exception:
            continue
        # controls change some junctions' required (or minimum) pressure during the run: from then on each follows its NEW curve
        changed = {}
        if spec["junctions"] and rng.random() < 0.85:
            from wntr.network.controls import ControlAction, Control
            o_ = spec["options"]
            for jc in rng.sample(spec["junctions"], min(4, len(spec["junctions"]))):
                pm_, pn_ = jc.get("minimum_pressure", o_["minimum_pressure"]), jc.get("required_pressure", o_["required_pressure"])
                if rng.random() < 0.75:
                    attr_, val_ = "required_pressure", round(pn_ * rng.choice([0.6, 1.5, 2.0, 3.0]), 2)
                    ok_ = val_ - pm_ >= 0.5
                else:
                    attr_, val_ = "minimum_pressure", round(pm_ + rng.choice([1.0, 2.5]), 2)
                    ok_ = pn_ - val_ >= 0.5
                if ok_:
                    t_ch = int(o_["hydraulic_timestep"])
                    wn.add_control("chg_pdd_" + jc["name"], Control._time_control(wn, t_ch, "SIM_TIME", False, ControlAction(wn.get_node(jc["name"]), attr_, val_)))
                    changed[jc["name"]] = (jc["name"], attr_, val_, t_ch)
                    run.count("control on " + attr_)
        res, err, warns, sim = simrun.run(wntr, wn)
        if not simrun.converged(res, err, warns):
            continue
        o = spec["options"]
        ps = int(wn.options.time.pattern_start)
        mult = wn.options.hydraulic.demand_multiplier
        for t in list(res.node["demand"].index)[:(5 if changed else 3)]:
            for j in spec["junctions"]:
                name = j["name"]
                if name in changed and int(t) >= changed[name][3]:
                    j = dict(j)
                    j[changed[name][1]] = changed[name][2]
                jn = wn.get_node(name)
                p = float(res.node["pressure"].loc[t, name])
                dem = float(res.node["demand"].loc[t, name])
                if float(res.node["head"].loc[t, name]) == 0.0 and dem == 0.0:
                    continue
                pmin = j.get("minimum_pressure", o["minimum_pressure"])
                pnom = j.get("required_pressure", o["required_pressure"])
                pexp = j.get("pressure_exponent", o["pressure_exponent"])
                if pnom - pmin < 0.1001 or min(abs(p - x) for x in (pmin, pmin + 0.05, pnom - 0.05, pnom)) < 2e-3:
                    continue
                dexp = jn.demand_timeseries_list.at(int(t) + ps, multiplier=mult)
                add("Rabs (%s - %s * pdd_frac %s %s %s %s) <= 1 / 200000" % (R(dem), R(dexp), R(pmin), R(pnom), R(pexp), R(p)),
                    {"check": "reported demand on the curve", "spec_options": o, "junction": j, "time": int(t), "pressure": p, "demand": dem,
                     "requested": dexp, "parameter_changed_by_a_control": changed.get(name)}, dexp > 0)
    res_, errors = common.run_prop_cases("C07", HEADER, TACTIC, cases, shard=40, case_timeout=40)
    for e in errors:
        run.tie_broken("correspondence case file failed to compile", e)
    undecided = 0
    for cid, _ in cases:
        run.obligations += 1
        if res_.get(cid):
            run.discharged += 1
        elif cid in res_:
            m = meta[cid]
            if m["check"] == "monotonicity premise (fc_box)":
                # outside the box the theorem does not apply; monotonicity then rests on the consecutive-pair cases only
                run.obligations -= 1
                run.count("fc_box not established for a parameter set")
                continue
            # the interval tactic did not confirm the case (time limit).  Second opinion with the float transcription of the model:
            ok2 = None
            if m["check"] == "curve non-decreasing":
                pm, pn, pe = m["effective"]
                ok2 = py_frac(pm, pn, pe, m["p"]) <= py_frac(pm, pn, pe, m["q"]) + 1e-9
            elif m["check"] == "pdd row vs curve":
                pm, pn, pe = m["effective"]
                ok2 = abs(m["impl_row"] - (m["d"] - m["requested_demand"] * py_frac(pm, pn, pe, m["pressure"]))) <= 2e-6 * max(m["requested_demand"], 1e-6) * 1000
            elif m["check"] == "reported demand on the curve":
                jj, oo = m["junction"], m["spec_options"]
                pm = jj.get("minimum_pressure", oo["minimum_pressure"]); pn = jj.get("required_pressure", oo["required_pressure"])
                pe = jj.get("pressure_exponent", oo["pressure_exponent"])
                ok2 = abs(m["demand"] - m["requested"] * py_frac(pm, pn, pe, m["pressure"])) <= 5e-6
            if ok2:
                undecided += 1
                continue
            run.violation("pdd_" + m["check"].replace(" ", "_"), "PDD: %s fails" % m["check"], input=m)
    run.obligations -= undecided
    run.extra["cases_undecided_by_model_within_time_limit"] = undecided
    # known finding: default options (Preq - Pmin = 0.07 < 0.1): jump at p = 0.05 on the implementation's own row
    wn = wntr.network.WaterNetworkModel()
    wn.options.hydraulic.demand_model = "PDD"
    wn.add_reservoir("R", base_head=10.0)
    wn.add_junction("J", base_demand=0.01, elevation=0.0)
    wn.add_pipe("P", "R", "J", length=100.0, diameter=0.3, roughness=100)
    m, _ = hydraulics.create_hydraulic_model(wn)
    vals = []
    for p in (0.05 - 1e-9, 0.05 + 1e-9):
        m.head["J"].value = p
        m.demand["J"].value = 0.0
        vals.append(-m.pdd["J"].expr.evaluate() / m.expected_demand["J"].value)
    if abs(vals[1] - vals[0]) > 0.01:
        run.violation("pdd_bands_overlap_default_options", "PDD fraction jumps at p = Pmin + 0.05 when Preq - Pmin < 0.1 m",
                      input={"options": "defaults (Pmin 0, Preq 0.07, exponent 0.5)", "fraction_just_below": vals[0], "fraction_just_above": vals[1]})
