"""C03 -- WNTRSimulator and EpanetSimulator agree on models both support.

Theorems (C03/Property.v): the algebraic system both engines are specified to solve (junction balance with constant or
pressure-dependent non-decreasing demand, one strictly increasing head-loss law per link) has at most one solution -- flows, and
heads at every node tied to a source; the laws of the common feature set (Hazen-Williams pipe + minor loss, TCV / minor-loss
quadratic, head pump curve) are strictly increasing; the constant-power pump law is not (two branches, `_refuted`).
T1: Gen/BinUnits.v is regenerated from BinFile.read on every run: each result table is converted with the unit parameter of the
quantity EPANET writes there (C03_bin_table_agrees), status codes are recoded closed / open / active (C03_status_recode);
the conversions themselves are C17's theorems over Gen/Units.v.
Ties decided inside coqc (interval arithmetic on the exact binary64 / binary32 values): on the results BOTH engines report for the same
generated model, every junction balances (inflow - outflow = demand) and every open pipe obeys the C02 pipe law for the model's
resistance -- so both reports are approximate solutions of the one system the theorem speaks about.
Search / the statement itself: heads, pressures, demands, flows, tank levels and statuses of the two engines are compared at every
report step for several of the ten INP flow units (all ten in the thorough tier), DD and PDD; EPANET(unit a) against EPANET(unit b);
an INP text written by the harness itself (independent of wntr's writer) run by the EPANET toolkit directly against
read_inpfile + WNTRSimulator; the repository's example INP files likewise.
Steps at which a tank is within a few seconds of flow of a level limit or control threshold are not compared (the engines cut
the step at instants that may differ by a second); nodes in pockets without flow have no defined head and are not compared.
"""
import math
import os
import random
import shutil
import tempfile
import warnings

import common
import netgen
import simrun
from common import r_of_float as R
from translate import regen

UNITS = ["CFS", "GPM", "MGD", "IMGD", "AFD", "LPS", "LPM", "MLD", "CMH", "CMD"]
from props import c02
HEADER, TACTIC = c02.HEADER, c02.TACTIC
QTOL = 2.83168e-6


def common_spec(rng, pumps=0.5, rules=0.3):
    """a network in the feature set both engines support"""
    spec = netgen.gen_spec(rng, feat={"leaks": 0.0, "tank_leak": 0.0, "volcurve": 0.0, "pressure_controls": 0.0, "closed": 0.0, "rules": rules, "pdd": 0.4,
                                      "valves": 0.45, "pumps": pumps, "level_controls": 0.5, "time_controls": 0.6, "neg_elev": 0.2})
    o = spec["options"]
    if o["hydraulic_timestep"] % o["rule_timestep"] != 0:
        o["rule_timestep"] = o["hydraulic_timestep"] // rng.choice([1, 2, 5])   # recorded finding: rule instants when the rule step does not divide the hydraulic step
    o["report_timestep"] = o["hydraulic_timestep"]      # EPANET's own tank trajectories change with a report step of 2 x hydraulic step (seen: 9 cm)
    o["duration"] -= o["duration"] % o["report_timestep"]
    o["duration"] = max(o["duration"], o["report_timestep"] * 2)
    for j in spec["junctions"]:
        for k in ("minimum_pressure", "required_pressure", "pressure_exponent"):
            j.pop(k, None)                      # the INP format has no per-junction PDD parameters
    total = sum(d["base"] for j in spec["junctions"] for d in j["demands"])
    for v in spec["valves"]:
        if v["type"] == "FCV":
            v["setting"] = round(max(0.02, 6 * total), 4)      # never binding: a binding FCV on a bridge makes the DD model infeasible
    # a setting change on a TCV / PRV / PSV during the run
    spec["setting_controls"] = []
    for v in spec["valves"]:
        if v["type"] in ("TCV", "PRV", "PSV") and v["status"] == "ACTIVE" and rng.random() < 0.7:
            f = rng.choice([0.3, 0.6, 3.0, 10.0]) if v["type"] == "TCV" else rng.choice([0.7, 0.85, 1.2])
            spec["setting_controls"].append({"valve": v["name"], "time": o["hydraulic_timestep"] * rng.randint(1, 2), "value": round(v["setting"] * f, 3)})
    return spec


def directed_tcv(rng, spec):
    """a throttle valve on the main supply whose setting a time control and a rule change during the run"""
    if spec["valves"]:
        return
    res = spec["reservoirs"][0]["name"]
    cands = [p for p in spec["pipes"] if p["start"] == res and not p["cv"]]
    if not cands:
        return
    p = cands[0]
    spec["junctions"].append({"name": "JV", "elevation": 5.0, "demands": []})
    k0 = rng.choice([5.0, 20.0, 60.0])
    spec["valves"].append({"name": "V1", "start": "JV", "end": p["end"], "type": "TCV", "diameter": p["diameter"], "minor_loss": 0.0, "setting": k0, "status": "ACTIVE"})
    p["end"] = "JV"
    hs = spec["options"]["hydraulic_timestep"]
    spec["setting_controls"] = [{"valve": "V1", "time": hs * rng.randint(1, 2), "value": k0 * rng.choice([30.0, 100.0])}]


def build(spec, wntr):
    from props import c11
    return c11.build(spec, wntr)


def link_list(spec):
    out = [(p["name"], p["start"], p["end"], "pipe", p) for p in spec["pipes"]]
    out += [(p["name"], p["start"], p["end"], "pump", p) for p in spec["pumps"]]
    out += [(v["name"], v["start"], v["end"], "valve", v) for v in spec["valves"]]
    return out


def near_event_steps(spec, res_list):
    """report steps at which some tank is within a few seconds of flow of a limit or a control threshold, in any of the results"""
    skip = set()
    for t in spec["tanks"]:
        A = math.pi * t["diameter"] ** 2 / 4
        thr = [t["min_level"], t["max_level"]] + [c["value"] for c in spec["controls"] if c["kind"] == "level" and c["tank"] == t["name"]]
        for res in res_list:
            lv = res.node["head"][t["name"]] - t["elevation"]
            q = res.node["demand"][t["name"]]
            for tt in lv.index:
                m = 0.02 + 5.0 * abs(float(q.loc[tt])) / A
                if any(abs(float(lv.loc[tt]) - x) < m for x in thr):
                    skip.add(int(tt))
    return skip


class Restricted:
    """the rows of a result set at the given report times"""

    def __init__(self, res, times):
        self.node = {k: v.loc[times] for k, v in res.node.items()}
        self.link = {k: v.loc[times] for k, v in res.link.items()}


def event_slack(spec, res_all):
    """metres of tank level the engines may drift apart by: every partial step WNTRSimulator made (a control or tank event between grid
    points) may be cut up to 5 s apart by the other engine; 5 s of the fastest tank flow per event"""
    hs = spec["options"]["hydraulic_timestep"]
    rate = 0.0
    for t in spec["tanks"]:
        A = math.pi * t["diameter"] ** 2 / 4
        rate = max(rate, float(res_all.node["demand"][t["name"]].abs().max()) / A)
    out, n = {}, 0
    for tt in res_all.node["head"].index:
        if int(tt) % hs != 0:
            n += 1
        out[int(tt)] = n * 5.0 * rate
    return out


def inconsistent_rows(spec, res):
    """report rows whose own flows do not balance at some junction (EPANET writes the status a rule sets during the FOLLOWING step, and a zero
    flow for the link, into the row it has already solved)"""
    out = set()
    links = link_list(spec)
    Qd, Dd = res.link["flowrate"], res.node["demand"]
    for t in Qd.index:
        for j in spec["junctions"]:
            n = j["name"]
            net = sum(float(Qd.loc[t, ln]) for ln, s, e, _, _ in links if e == n) - sum(float(Qd.loc[t, ln]) for ln, s, e, _, _ in links if s == n)
            d = float(Dd.loc[t, n])
            if abs(net - d) > 2e-4 + 0.01 * abs(d):
                out.add(int(t))
                break
    return out


def hw_loss(p, q):
    """Hazen-Williams + minor head loss of pipe p at flow q (SI)"""
    k = 10.666829500036352 * p["roughness"] ** (-1.852) * p["diameter"] ** (-4.871) * p["length"]
    m = 8.0 * p["minor_loss"] / (9.81 * math.pi ** 2 * p["diameter"] ** 4)
    return math.copysign(k * abs(q) ** 1.852 + m * q * q, q)


def stop_time(spec, res_list):
    """EPANET keeps a link that a full / empty tank has temporarily closed in that state when a control closes it as well, and later reopens
    it on the tank's behalf although the control still says closed (seen: P7 reopened 10 min before its OPEN control).  From the first report
    step at which a tank with a user-controlled adjacent link sits at a limit the two engines are not compared any more."""
    controlled = {c["link"] for c in spec["controls"]} | {r["link"] for r in spec["rules"]}
    stop = None
    for t in spec["tanks"]:
        adj = [ln for ln, s, e, _, _ in link_list(spec) if t["name"] in (s, e)]
        if not any(ln in controlled for ln in adj):
            continue
        for res in res_list:
            lv = res.node["head"][t["name"]] - t["elevation"]
            for tt in lv.index:
                if float(lv.loc[tt]) >= t["max_level"] - 0.02 or float(lv.loc[tt]) <= t["min_level"] + 0.02:
                    stop = int(tt) if stop is None else min(stop, int(tt))
                    break
    return stop


def compare(spec, ra, rb, what, tol_scale=1.0, skip=(), slack=None):
    """first discrepancy between two result sets, or None"""
    slack = slack or {}
    import numpy as np
    links = link_list(spec)
    Ha, Hb = ra.node["head"], rb.node["head"]
    if [int(x) for x in Ha.index] != [int(x) for x in Hb.index]:
        return {"what": what, "table": "index", "a": [int(x) for x in Ha.index][:8], "b": [int(x) for x in Hb.index][:8]}
    Qa, Qb = ra.link["flowrate"], rb.link["flowrate"]
    Sa, Sb = ra.link["status"], rb.link["status"]
    Da, Db = ra.node["demand"], rb.node["demand"]
    Pa, Pb = ra.node["pressure"], rb.node["pressure"]
    fixed = {r["name"] for r in spec["reservoirs"]} | {t["name"] for t in spec["tanks"]}
    for t in Ha.index:
        if int(t) in skip:
            continue
        # nodes reached from a source through links that carry flow in both results
        adj = {}
        for ln, s, e, kind, _ in links:
            if abs(float(Qa.loc[t, ln])) > 1e-5 and abs(float(Qb.loc[t, ln])) > 1e-5:
                adj.setdefault(s, []).append(e)
                adj.setdefault(e, []).append(s)
        live, todo = set(fixed), list(fixed)
        while todo:
            n = todo.pop()
            for m in adj.get(n, []):
                if m not in live:
                    live.add(m)
                    todo.append(m)
        sl = slack.get(int(t), 0.0)
        for ln, s, e, kind, obj in links:
            a, b = float(Qa.loc[t, ln]), float(Qb.loc[t, ln])
            if sl < 0.02 and abs(a - b) > tol_scale * (2e-4 + 0.01 * max(abs(a), abs(b))):
                # a pipe with almost no head loss: the flow is ill-conditioned, compare what the two flows mean in head
                if not (kind == "pipe" and abs(hw_loss(obj, a) - hw_loss(obj, b)) < 0.02 * tol_scale and abs(a - b) < 2e-3):
                    return {"what": what, "table": "flowrate", "time": int(t), "name": ln, "a": a, "b": b}
            sa, sb = int(Sa.loc[t, ln]), int(Sb.loc[t, ln])
            if (sa == 0) != (sb == 0) and max(abs(a), abs(b)) > 1e-4:
                return {"what": what, "table": "status", "time": int(t), "name": ln, "a": sa, "b": sb}
        for n in Ha.columns:
            a, b = float(Da.loc[t, n]), float(Db.loc[t, n])
            if sl < 0.02 and abs(a - b) > tol_scale * (2e-4 + 0.01 * max(abs(a), abs(b))):
                return {"what": what, "table": "demand", "time": int(t), "name": n, "a": a, "b": b}
            if n not in live:
                continue
            a, b = float(Ha.loc[t, n]), float(Hb.loc[t, n])
            if abs(a - b) > tol_scale * (0.06 + 1e-3 * abs(a)) + sl:
                return {"what": what, "table": "head", "time": int(t), "name": n, "a": a, "b": b, "event_slack": sl}
            if n not in fixed or n in {x["name"] for x in spec["tanks"]}:
                a, b = float(Pa.loc[t, n]), float(Pb.loc[t, n])
                if abs(a - b) > tol_scale * (0.06 + 1e-3 * abs(a)) + sl:
                    return {"what": what, "table": "pressure", "time": int(t), "name": n, "a": a, "b": b, "event_slack": sl}
    return None


def run_epanet(wntr, wn, units, prefix):
    wn.options.hydraulic.inpfile_units = units
    with warnings.catch_warnings(record=True) as w:
        warnings.simplefilter("always")
        res = wntr.sim.EpanetSimulator(wn).run_sim(file_prefix=prefix)
    bad = [str(x.message) for x in w if "converge" in str(x.message).lower() or "unbalanced" in str(x.message).lower()]
    return res, bad


# ---- an INP writer of the harness's own (independent of wntr.epanet.io), for the reader side of the property ----------------------
FLOW_M3S = {"CFS": 0.3048 ** 3, "GPM": 6.30901964e-05, "MGD": 0.0438126364, "IMGD": 0.05261678240740741, "AFD": 0.3048 ** 3 * 43560 / 86400,
            "LPS": 1e-3, "LPM": 1e-3 / 60, "MLD": 1e3 / 86400, "CMH": 1.0 / 3600, "CMD": 1.0 / 86400}
US = {"CFS", "GPM", "MGD", "IMGD", "AFD"}


def own_inp(spec, units):
    """EPANET 2.2 INP text for the subset: junctions (one demand category each is written as the sum of base demands only when all
    share one pattern), reservoirs, tanks, pipes, head/power pumps, time + level controls, options.  Returns None if the spec uses
    something this writer does not cover."""
    if spec["valves"] or spec["rules"] or spec.get("setting_controls"):
        return None
    us = units in US
    L = (lambda x: x / 0.3048) if us else (lambda x: x)                  # length, elevation, head, level: ft | m
    Dm = (lambda x: x / 0.0254) if us else (lambda x: x * 1000.0)        # pipe diameter: in | mm
    TD = (lambda x: x / 0.3048) if us else (lambda x: x)                 # tank diameter: ft | m
    Fq = lambda x: x / FLOW_M3S[units]
    PW = (lambda x: x / 745.699872) if us else (lambda x: x / 1000.0)    # hp | kW
    out = ["[TITLE]", "harness", "", "[JUNCTIONS]"]
    for j in spec["junctions"]:
        out.append("%s %.10g" % (j["name"], L(j["elevation"])))
    out += ["", "[RESERVOIRS]"]
    for r in spec["reservoirs"]:
        out.append("%s %.10g %s" % (r["name"], L(r["head"]), r["pattern"] or ""))
    out += ["", "[TANKS]"]
    for t in spec["tanks"]:
        out.append("%s %.10g %.10g %.10g %.10g %.10g 0" % (t["name"], L(t["elevation"]), L(t["init_level"]), L(t["min_level"]), L(t["max_level"]), TD(t["diameter"])))
    out += ["", "[PIPES]"]
    for p in spec["pipes"]:
        out.append("%s %s %s %.10g %.10g %.10g %.10g %s" % (p["name"], p["start"], p["end"], L(p["length"]), Dm(p["diameter"]), p["roughness"], p["minor_loss"],
                                                           "CV" if p["cv"] else p["status"]))
    out += ["", "[PUMPS]"]
    for p in spec["pumps"]:
        out.append("%s %s %s %s" % (p["name"], p["start"], p["end"], ("HEAD %s" % p["param"]) if p["type"] == "HEAD" else ("POWER %.10g" % PW(p["param"]))))
    out += ["", "[DEMANDS]"]
    for j in spec["junctions"]:
        for d in j["demands"]:
            out.append("%s %.10g %s" % (j["name"], Fq(d["base"]), d["pattern"] or ""))
    out += ["", "[PATTERNS]"]
    for n, m in spec["patterns"].items():
        out.append("%s %s" % (n, " ".join("%.10g" % x for x in m)))
    out += ["", "[CURVES]"]
    for n, c in spec["curves"].items():
        for x, y in c["points"]:
            out.append("%s %.10g %.10g" % (n, Fq(x), L(y)))
    out += ["", "[CONTROLS]"]
    for c in spec["controls"]:
        if c["kind"] == "time":
            out.append("LINK %s %s AT TIME %d:%02d:%02d" % (c["link"], c["status"], c["time"] // 3600, c["time"] % 3600 // 60, c["time"] % 60))
        elif c["kind"] == "level":
            out.append("LINK %s %s IF NODE %s %s %.10g" % (c["link"], c["status"], c["tank"], "BELOW" if c["op"] == "<" else "ABOVE", L(c["value"])))
        else:
            return None
    o = spec["options"]
    hms = lambda s: "%d:%02d:%02d" % (s // 3600, s % 3600 // 60, s % 60)
    out += ["", "[TIMES]", "DURATION %s" % hms(o["duration"]), "HYDRAULIC TIMESTEP %s" % hms(o["hydraulic_timestep"]), "PATTERN TIMESTEP %s" % hms(o["pattern_timestep"]),
            "PATTERN START %s" % hms(o["pattern_start"]), "REPORT TIMESTEP %s" % hms(o["report_timestep"]), "REPORT START 0:00:00", "START CLOCKTIME 12 am",
            "RULE TIMESTEP %s" % hms(o["rule_timestep"]), "STATISTIC NONE"]
    out += ["", "[OPTIONS]", "UNITS %s" % units, "HEADLOSS H-W", "SPECIFIC GRAVITY 1", "VISCOSITY 1", "TRIALS 100", "ACCURACY 0.0001", "UNBALANCED CONTINUE 10",
            "PATTERN 1", "DEMAND MULTIPLIER %.10g" % o["demand_multiplier"], "QUALITY NONE"]
    if o["demand_model"] == "PDD":
        PR = (lambda x: x / 0.3048 * 0.4333) if us else (lambda x: x)         # psi | m   (EPANET: 0.4333 psi per ft of head)
        out += ["DEMAND MODEL PDA", "MINIMUM PRESSURE %.10g" % PR(o["minimum_pressure"]), "REQUIRED PRESSURE %.10g" % PR(o["required_pressure"]),
                "PRESSURE EXPONENT %.10g" % o["pressure_exponent"]]
    else:
        out += ["DEMAND MODEL DDA"]
    if not any(n == "1" for n in spec["patterns"]):
        out[out.index("[PATTERNS]") + 1:out.index("[PATTERNS]") + 1] = ["1 1.0"]
    out += ["", "[COORDINATES]"]
    for i, n in enumerate([j["name"] for j in spec["junctions"]] + [r["name"] for r in spec["reservoirs"]] + [t["name"] for t in spec["tanks"]]):
        out.append("%s %d %d" % (n, i, (i * 7) % 5))
    out += ["", "[END]", ""]
    return "\n".join(out)


def epanet_direct(wntr, inp_path, prefix):
    """run the EPANET 2.2 toolkit on an INP file as it stands and read its binary output"""
    en = wntr.epanet.toolkit.ENepanet(version=2.2)
    en.ENopen(inp_path, prefix + ".rpt", prefix + ".bin")
    en.ENsolveH()
    en.ENsolveQ()
    en.ENreport()
    en.ENclose()
    return wntr.epanet.io.BinFile().read(prefix + ".bin")


def check(run, replay=None):
    wntr = common.import_wntr(build_ext=True)
    thorough = run.tier == "thorough"
    rng = random.Random(run.seed * 9173 + 3)
    run.rule = ("generated networks in the common feature set (netgen: reservoirs incl. head patterns, tanks, H-W pipes with minor loss / CV, head and power "
                "pumps, PRV/PSV/TCV (+ never-binding FCV), demand patterns and pattern start, time controls on and off the grid, tank-level controls, rules, "
                "setting changes on valves; DD and PDD) x INP flow units (2 per model quick, all 10 thorough); harness-written INP texts in a random unit; "
                "the repository's Net1/Net2/Net3 files; non-trivial = the model has a tank, a pump, a valve or a control")
    run.trusted += ["translator tools/translate/binunits.py", "harness tools/props/c03.py (comparison tolerances, near-event filter, own INP writer)",
                    "EPANET 2.2 shared library shipped in /repo (the reference engine; not modelled)", "coq-interval"]
    run.assumptions += ["tolerances: heads/pressures 0.06 m + 1e-3 relative, flows/demands 2e-4 m3/s + 1 % (EPANET accuracy 0.001, binary32 output)",
                        "report steps within 5 s of tank flow (+2 cm) of a tank limit or level-control threshold are not compared",
                        "every partial step (event between grid points) adds 5 s of the fastest tank flow to the head/level tolerance; flows and demands are compared while that slack is < 2 cm",
                        "heads of nodes not connected to a source by links carrying flow are not compared (undetermined)",
                        "binding FCVs, pressure controls (EPANET applies them one step later), pump speed settings, leaks and per-junction PDD parameters are "
                        "outside the common feature set and not generated", "models with junctions that WNTR isolates are skipped (EPANET has no such notion)"]
    errs = regen(["BinUnits.v", "Formulas.v"], common.REPO)
    for e in errs:
        run.tie_broken("translator refused the current source (model is stale)", e)
    ok, log, fails = common.coq_make(["theories/C03/Proofs.vo", "theories/C03/Instance.vo", "theories/Gen/BinUnits.vo", "theories/C02/Proofs.vo", "theories/C02/PumpMono.vo", "theories/C15/Proofs.vo"])
    if not ok:
        for f, ln, msg in fails:
            run.tie_broken("proof no longer checks: %s line %s: %s" % (f, ln, common.theorem_line(f, ln)), msg)
        for n in common.property_theorems(common.THEORIES + "/C03/Property.v"):
            run.obligation(False, n)
    else:
        common.check_property_file(run, "C03/Property.v")
    cases, meta = [], {}

    def add(prop, m, nt=True):
        cases.append((len(cases), prop))
        meta[len(cases) - 1] = m
        run.case(prop[:250], nt, {k: v for k, v in m.items() if k != "spec"} if len(cases) in (1, 40) else None)
        run.count(m["check"])
    tmp = tempfile.mkdtemp(prefix="c03_")
    nets = 60 if thorough else 14
    done = tries = 0
    try:
        while done < nets and tries < nets * 4:
            tries += 1
            spec = common_spec(rng, 1.0, 0.0) if tries % 3 == 1 else common_spec(rng)      # every third: pumps at the sources, no rules (curve-edit family)
            if done < (10 if thorough else 3) or tries % 5 == 0:
                directed_tcv(rng, spec)
            try:
                wn = build(spec, wntr)
            except Exception:
                continue
            wn.options.time.report_timestep = "ALL"
            rw_all, ew, ww, _ = simrun.run(wntr, wn)
            if not simrun.converged(rw_all, ew, ww):
                run.count("skipped:wntr_not_converged")
                continue
            rep = list(range(0, spec["options"]["duration"] + 1, spec["options"]["report_timestep"]))
            if any(t not in rw_all.node["head"].index for t in rep):
                run.violation("report_step_not_solved", "WNTRSimulator did not solve a report step: %s" % [t for t in rep if t not in rw_all.node["head"].index][:5], input={"spec": spec})
                continue
            rw = Restricted(rw_all, rep)
            slack = event_slack(spec, rw_all)
            jn = [j["name"] for j in spec["junctions"]]
            if ((rw.node["head"][jn] == 0) & (rw.node["pressure"][jn] == 0)).values.any():
                run.count("skipped:isolated_junction")
                continue
            units = UNITS if thorough else rng.sample(UNITS, 2)
            eres = {}
            for u in units:
                try:
                    r, bad = run_epanet(wntr, build(spec, wntr), u, os.path.join(tmp, "e"))
                except Exception as e:
                    if "Error 110" in str(e) or "cannot solve" in str(e):
                        run.count("skipped:epanet_cannot_solve")          # no reference result
                        eres = None
                        break
                    run.violation("epanet_run_fails", "EpanetSimulator fails on a model WNTRSimulator solves (units %s): %s: %s" % (u, type(e).__name__, e),
                                  input={"spec": spec, "units": u})
                    eres = None
                    break
                if bad:
                    eres = None
                    run.count("skipped:epanet_not_converged")
                    break
                eres[u] = r
            if not eres:
                continue
            done += 1
            nontrivial = bool(spec["tanks"] or spec["pumps"] or spec["valves"] or spec["controls"] or spec["rules"])
            skip = near_event_steps(spec, [rw] + list(eres.values()))
            st_ = stop_time(spec, [rw_all] + list(eres.values()))
            if st_ is not None:
                skip |= {t for t in rep if t >= st_}
                run.count("models cut short: tank with a controlled link at a limit")
            if spec["rules"]:
                bad_rows = set()
                for u in units:
                    bad_rows |= inconsistent_rows(spec, eres[u])
                if len(bad_rows) > max(1, len(rep) // 4):
                    run.violation("epanet_report_inconsistent", "%d of %d rows EpanetSimulator returns do not balance at some junction" % (len(bad_rows), len(rep)),
                                  input={"spec": spec, "rows": sorted(bad_rows)})
                    continue
                if bad_rows:
                    run.count("rows skipped: EPANET row written after a rule changed a status")
                skip |= bad_rows
            run.count("demand model " + spec["options"]["demand_model"])
            for k in ("tanks", "pumps", "valves", "rules"):
                if spec[k]:
                    run.count("models with " + k)
            for u in units:
                run.case({"net": done, "units": u, "what": "WNTRSimulator vs EpanetSimulator"}, nontrivial, None)
                run.count("units " + u)
                d = compare(spec, rw, eres[u], "WNTRSimulator vs EpanetSimulator(%s)" % u, skip=skip, slack=slack)
                if d:
                    run.violation("engines_disagree_" + d["table"], "%s: %s of %s at t=%s: %s vs %s" % (d["what"], d["table"], d.get("name"), d.get("time"), d.get("a"), d.get("b")),
                                  input={"spec": spec, "units": u, "first_difference": d})
                    break
            if len(units) > 1:
                d = compare(spec, eres[units[0]], eres[units[1]], "EpanetSimulator(%s) vs EpanetSimulator(%s)" % (units[0], units[1]), tol_scale=0.25, skip=skip, slack=slack)
                run.case({"net": done, "what": "unit independence", "units": units[:2]}, nontrivial, None)
                if d:
                    run.violation("result_depends_on_inp_units", "%s: %s of %s at t=%s: %s vs %s" % (d["what"], d["table"], d.get("name"), d.get("time"), d.get("a"), d.get("b")),
                                  input={"spec": spec, "first_difference": d})
            # the model is edited after it has been simulated (a head pump's curve gets new points): both engines must follow the CURRENT curve
            hp = [p_ for p_ in spec["pumps"] if p_["type"] == "HEAD"]
            if hp and not spec["rules"] and rng.random() < 0.8:
                import copy as _copy
                spec2 = _copy.deepcopy(spec)
                f_ = rng.choice([0.7, 0.8, 1.25])
                for p_ in hp:
                    npts = [[q_, round(h_ * f_, 3)] for q_, h_ in spec2["curves"][p_["param"]]["points"]]
                    spec2["curves"][p_["param"]]["points"] = npts
                    wn.get_curve(p_["param"]).points = [tuple(x) for x in npts]
                wn.reset_initial_values()
                rw2_all, ew2, ww2, _ = simrun.run(wntr, wn)
                if simrun.converged(rw2_all, ew2, ww2) and all(t in rw2_all.node["head"].index for t in rep):
                    try:
                        wn.reset_initial_values()
                        wn.options.time.report_timestep = spec["options"]["report_timestep"]
                        re2, bad2 = run_epanet(wntr, wn, units[0], os.path.join(tmp, "e2"))
                    except Exception as ex_:
                        re2, bad2 = None, True
                        run.count("curve edit: epanet run failed (%s)" % type(ex_).__name__)
                    wn.options.time.report_timestep = "ALL"
                    rw2 = Restricted(rw2_all, rep)
                    if re2 is not None and not bad2 and not ((rw2.node["head"][jn] == 0) & (rw2.node["pressure"][jn] == 0)).values.any():
                        skip2 = near_event_steps(spec2, [rw2, re2])
                        st2 = stop_time(spec2, [rw2_all, re2])
                        if st2 is not None:
                            skip2 |= {t for t in rep if t >= st2}
                        run.case({"net": done, "what": "engines after a pump curve edit"}, True, None)
                        run.count("pump curve edited between runs")
                        d = compare(spec2, rw2, re2, "WNTRSimulator vs EpanetSimulator(%s) after the pump curve was edited" % units[0], skip=skip2,
                                    slack=event_slack(spec2, rw2_all))
                        if d:
                            run.violation("engines_disagree_" + d["table"], "%s: %s of %s at t=%s: %s vs %s" % (d["what"], d["table"], d.get("name"), d.get("time"), d.get("a"), d.get("b")),
                                          input={"spec": spec2, "units": units[0], "curve_heads_scaled_by": f_, "edited_after_first_run": True, "first_difference": d})
                # the rest of this iteration looks at the first run: restore the curve
                for p_ in hp:
                    wn.get_curve(p_["param"]).points = [tuple(x) for x in spec["curves"][p_["param"]]["points"]]
                wn.reset_initial_values()
            # both reports solve the model's equations (interval cases) -------------------------------------------------------
            eu = units[0]
            for label, res, tolq in (("wntr", rw, "1 / 100000"), ("epanet", eres[eu], "1 / 2000")):
                times = [t for t in res.node["head"].index if int(t) not in skip]
                for t in times[:: max(1, len(times) // (3 if not thorough else 6))]:
                    for j in spec["junctions"]:
                        ins = [ln for ln, s, e, _, _ in link_list(spec) if e == j["name"]]
                        outs = [ln for ln, s, e, _, _ in link_list(spec) if s == j["name"]]
                        terms = " + ".join([R(float(res.link["flowrate"].loc[t, l])) for l in ins] or ["0"]) + " - (" + \
                                " + ".join([R(float(res.link["flowrate"].loc[t, l])) for l in outs] or ["0"]) + ")"
                        add("Rabs (%s - %s) <= %s" % (terms, R(float(res.node["demand"].loc[t, j["name"]])), tolq),
                            {"check": "junction balance on the %s report" % label, "spec": spec, "time": int(t), "junction": j["name"]}, True)
                    if label == "wntr":
                        # every pump and valve obeys the C02 row of its reported status (pipes and TCVs are done for both engines below)
                        for ln_, link_ in wn.links():
                            if link_.link_type == "Pipe" or (link_.link_type == "Valve" and link_.valve_type == "TCV"):
                                continue
                            q = float(res.link["flowrate"].loc[t, ln_])
                            st_ = int(res.link["status"].loc[t, ln_])
                            hs, he = float(res.node["head"].loc[t, link_.start_node_name]), float(res.node["head"].loc[t, link_.end_node_name])
                            if st_ != 0 and abs(q) < 1e-4:
                                continue
                            setting_ = float(res.link["setting"].loc[t, ln_]) if link_.link_type == "Valve" else 0.0
                            model_, margs_, shape_ = c02.link_law(wn, ln_, link_, q, hs, he, st_, setting_)
                            add("Rabs (%s %s) <= 1 / 100000" % (model_, margs_),
                                {"check": "%s law on the wntr report" % shape_, "spec": spec, "time": int(t), "link": ln_, "q": q, "hs": hs, "he": he, "status": st_}, True)
                    else:
                        # EPANET: an active PRV / PSV holds its setting
                        for v in spec["valves"]:
                            if v["type"] not in ("PRV", "PSV") or int(res.link["status"].loc[t, v["name"]]) != 2:
                                continue
                            node = v["end"] if v["type"] == "PRV" else v["start"]
                            elev = next(j["elevation"] for j in spec["junctions"] if j["name"] == node)
                            kset = float(res.link["setting"].loc[t, v["name"]])
                            hn = float(res.node["head"].loc[t, node])
                            add("Rabs (%s - %s - %s) <= 1 / 50" % (R(hn), R(elev), R(kset)),
                                {"check": "%s holds its setting on the epanet report" % v["type"], "spec": spec, "time": int(t), "valve": v["name"], "head": hn, "setting": kset}, True)
                    for v in spec["valves"]:
                        q = float(res.link["flowrate"].loc[t, v["name"]])
                        if v["type"] != "TCV" or int(res.link["status"].loc[t, v["name"]]) != 2 or abs(q) < 1e-4:
                            continue
                        hs, he = float(res.node["head"].loc[t, v["start"]]), float(res.node["head"].loc[t, v["end"]])
                        kset = float(res.link["setting"].loc[t, v["name"]])
                        m_ = {"check": "TCV law with the reported setting on the %s report" % label, "spec": spec, "time": int(t), "valve": v["name"], "q": q, "hs": hs, "he": he,
                              "setting": kset}
                        row = "signed_quad_row (minor_coeff %s %s)" % (R(kset), R(v["diameter"]))
                        if label == "wntr":
                            add("Rabs (%s %s %s %s) <= 1 / 100000" % (row, R(q), R(hs), R(he)), m_, True)
                        else:
                            dq = 3e-4 + 0.01 * abs(q)
                            tolh = "(1 / 200 + Rabs (%s) / 100)" % R(hs - he)
                            add("- %s <= %s %s %s %s" % (tolh, row, R(q + dq), R(hs), R(he)), m_, True)
                            add("%s %s %s %s <= %s" % (row, R(q - dq), R(hs), R(he), tolh), m_, True)
                    for p in spec["pipes"]:
                        q = float(res.link["flowrate"].loc[t, p["name"]])
                        if int(res.link["status"].loc[t, p["name"]]) == 0 or abs(q) < 1e-4:
                            continue
                        hs, he = float(res.node["head"].loc[t, p["start"]]), float(res.node["head"].loc[t, p["end"]])
                        row = "pipe_row (hw_resistance %s %s %s) (minor_coeff %s %s)" % (R(p["roughness"]), R(p["diameter"]), R(p["length"]), R(p["minor_loss"]), R(p["diameter"]))
                        m_ = {"check": "pipe law on the %s report" % label, "spec": spec, "time": int(t), "pipe": p["name"], "q": q, "hs": hs, "he": he}
                        if label == "wntr":
                            add("Rabs (%s %s %s %s) <= 1 / 100000" % (row, R(q), R(hs), R(he)), m_, True)
                        else:
                            # EPANET stops at a relative flow change of 1e-3 and writes binary32: the reported state is within delta in flow of one on the law
                            dq = 3e-4 + 0.01 * abs(q)
                            tolh = "(1 / 200 + Rabs (%s) / 200)" % R(hs - he)
                            add("%s %s %s %s <= %s" % (row, R(q + dq), R(hs), R(he), tolh), m_, True)
                            add("- %s <= %s %s %s %s" % (tolh, row, R(q - dq), R(hs), R(he)), m_, True)
            # the harness's own INP text, run by the toolkit directly, against read_inpfile + WNTRSimulator ---------------------
            u = rng.choice(UNITS)
            text = own_inp(spec, u)
            if text is not None:
                path = os.path.join(tmp, "own.inp")
                open(path, "w").write(text)
                try:
                    rd = epanet_direct(wntr, path, os.path.join(tmp, "own"))
                    wn_r = wntr.network.WaterNetworkModel(path)
                    rr, er, wr, _ = simrun.run(wntr, wn_r)
                except Exception as e:
                    run.violation("own_inp_fails", "an INP text written by the harness cannot be run/read: %s: %s" % (type(e).__name__, e), input={"spec": spec, "units": u, "inp": text})
                    continue
                run.case({"net": done, "what": "harness INP: EPANET direct vs read_inpfile + WNTRSimulator", "units": u}, nontrivial, None)
                run.count("own INP " + u)
                if simrun.converged(rr, er, wr):
                    sk2 = near_event_steps(spec, [rr, rd])
                    st2 = stop_time(spec, [rr, rd])
                    if st2 is not None:
                        sk2 |= {int(t) for t in rd.node["head"].index if int(t) >= st2}
                    d = compare(spec, rr, rd, "read_inpfile+WNTRSimulator vs EPANET run directly on the INP text (%s)" % u, skip=sk2, slack=slack)
                    if d:
                        run.violation("reader_disagrees_" + d["table"], "%s: %s of %s at t=%s: %s vs %s" % (d["what"], d["table"], d.get("name"), d.get("time"), d.get("a"), d.get("b")),
                                      input={"spec": spec, "units": u, "inp": text, "first_difference": d})
                    d = compare(spec, rr, rw, "read_inpfile+WNTRSimulator vs API-built model", tol_scale=0.05, skip=sk2 | skip, slack=slack)
                    if d:
                        run.violation("reader_changes_model", "%s: %s of %s at t=%s: %s vs %s" % (d["what"], d["table"], d.get("name"), d.get("time"), d.get("a"), d.get("b")),
                                      input={"spec": spec, "units": u, "inp": text, "first_difference": d})
        # the repository's example INP files: EPANET run directly on the file against read_inpfile + WNTRSimulator --------------------
        import numpy as np
        for f in ("Net1", "Net2", "Net3"):
            path = os.path.join(common.REPO, "examples", "networks", f + ".inp")
            if not os.path.exists(path):
                continue
            try:
                rd = epanet_direct(wntr, path, os.path.join(tmp, "ex"))
                rr, er, wr, _ = simrun.run(wntr, wntr.network.WaterNetworkModel(path))
            except Exception as e:
                run.violation("example_file_fails", "%s.inp cannot be run: %s: %s" % (f, type(e).__name__, e), input={"file": f})
                continue
            run.case({"what": "example file", "file": f}, True, None)
            run.count("example files")
            if not simrun.converged(rr, er, wr):
                continue
            if [int(x) for x in rr.node["head"].index] != [int(x) for x in rd.node["head"].index]:
                run.violation("example_file_index", "%s.inp: report steps differ" % f, input={"file": f})
                continue
            for grp, key, ta, tr in (("node", "head", 0.06, 1e-3), ("node", "demand", 2e-4, 0.01), ("link", "flowrate", 2e-4, 0.01)):
                a = getattr(rr, grp)[key]
                b = getattr(rd, grp)[key][a.columns]
                av, bv = a.values.astype(float), b.values.astype(float)
                bad = np.abs(av - bv) > ta + tr * np.maximum(np.abs(av), np.abs(bv))
                if bad.any():
                    i, j = [int(x[0]) for x in np.nonzero(bad)]
                    run.violation("example_file_" + key, "%s.inp: %s of %s at t=%s: WNTRSimulator %.6g, EPANET %.6g" % (f, key, a.columns[j], a.index[i], av[i, j], bv[i, j]),
                                  input={"file": f, "table": key, "name": str(a.columns[j]), "time": int(a.index[i])})
                    break
        # known finding: EPANET also evaluates rules at every hydraulic step boundary, WNTRSimulator only at multiples of the rule step -------
        from wntr.network import controls as C

        def rule_net():
            w = wntr.network.WaterNetworkModel()
            w.add_reservoir("R", base_head=50.0)
            w.add_junction("A", base_demand=0.01, elevation=5.0)
            w.add_junction("B", base_demand=0.01, elevation=5.0)
            w.add_pipe("P1", "R", "A", length=100.0, diameter=0.3, roughness=100)
            w.add_pipe("P2", "A", "B", length=100.0, diameter=0.3, roughness=100)
            w.add_pipe("P3", "R", "B", length=2000.0, diameter=0.3, roughness=100)
            w.options.time.duration = 3600
            w.options.time.hydraulic_timestep = w.options.time.report_timestep = w.options.time.pattern_timestep = 900
            w.options.time.rule_timestep = 360
            w.add_control("r", C.Rule(C.SimTimeCondition(w, ">=", 900), [C.ControlAction(w.get_link("P2"), "status", wntr.network.LinkStatus.Closed)]))
            return w
        try:
            a = wntr.sim.WNTRSimulator(rule_net()).run_sim()
            with warnings.catch_warnings():
                warnings.simplefilter("ignore")
                b = wntr.sim.EpanetSimulator(rule_net()).run_sim(file_prefix=os.path.join(tmp, "rw"))
            sa, sb = int(a.link["status"].loc[900, "P2"]), int(b.link["status"].loc[900, "P2"])
            if sa != sb:
                run.violation("rule_step_not_dividing_hydraulic_step", "hydraulic step 900 s, rule step 360 s, rule IF SYSTEM TIME >= 0:15 THEN P2 CLOSED: at the report "
                              "step 900 s WNTRSimulator has P2 %s (it acts at 1080 s), EPANET %s" % ("open" if sa else "closed", "open" if sb else "closed"),
                              input={"hydraulic_timestep": 900, "rule_timestep": 360, "rule": "IF SYSTEM TIME >= 900 THEN PIPE P2 STATUS IS CLOSED"})
        except Exception as e:
            run.count("rule_step_witness_failed:" + type(e).__name__)
    finally:
        shutil.rmtree(tmp, ignore_errors=True)
    res_, errors = common.run_prop_cases("C03", HEADER, TACTIC, cases, shard=120, case_timeout=30)
    for e in errors:
        run.tie_broken("correspondence case file failed to compile", e)
    for cid, _ in cases:
        run.obligations += 1
        if res_.get(cid):
            run.discharged += 1
        elif cid in res_:
            m = meta[cid]
            run.violation("report_does_not_solve_the_model_" + m["check"].split(" on ")[0].replace(" ", "_") + ("_wntr" if "wntr" in m["check"] else "_epanet"),
                          "%s fails" % m["check"], input=m)
