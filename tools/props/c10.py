"""C10 -- pausing, pickling and restarting a simulation equals running it uninterrupted.

Model: Lib/Sched.v `steps` / `restart_state` (one solved step iterated; a new simulator recomputes its rule index from the last
solved time).  Theorems: C10/Property.v (pause_continue for any pause, restart_equiv under the rule-index invariant).
Ties decided inside coqc (vm_compute, exact):
  * time-driven configurations (controls + rules of C04's generator): the concatenated (time, status) trace of a real run that is
    paused at one or several hydraulic grid points, optionally pickled, and continued with a NEW simulator equals the model's
    uninterrupted `steps` trace, and the model's restart index equals the paused index at every pause (the invariant);
Property on the implementation with hydraulics: generated networks (tanks, tank-level / pressure controls, rules, leaks, isolated
parts): uninterrupted vs paused+continued runs give the same index and the same heads / demands / flows / statuses; the
continued part starts at the first hydraulic step after the pause and never goes back.
"""
import copy
import pickle
import random

import common
import netgen
import simrun
from props import c04
from props.c11 import results_close

HEADER = c04.HEADER + """
Definition split_ok (g : cfg) (pauses : list Z) (impl : list (Z * list bool)) : bool :=
  (* uninterrupted model run == implementation's concatenated trace, and at each pause the restart index equals the paused one *)
  match steps 4000 g (duration g) (init_state g) with
  | Some (tr, _) =>
      tr_eqb tr impl &&
      forallb (fun D1 => match steps 4000 g D1 (init_state g) with
                         | Some (_, s1) => match s1, restart_state g s1 with
                                           | (_, _, _, ri, _), (_, _, _, ri', _) => ri =? ri' end
                         | None => false end) pauses
  | None => false end.
"""
TACTIC = "vm_compute; reflexivity"


def impl_split_trace(wntr, o, pauses, use_pickle):
    wn = c04.build_wn(wntr, o)
    full_dur = o["duration"]
    trace = []
    for D in list(pauses) + [full_dur]:
        wn.options.time.duration = D
        if use_pickle:
            wn = pickle.loads(pickle.dumps(wn))
        sim = wntr.sim.WNTRSimulator(wn)
        res = sim.run_sim()
        st = res.link["status"]
        trace += [(int(t), [int(st.loc[t, "L%d" % i]) != 0 for i in range(o["nlinks"])]) for t in st.index]
    return trace


def concat_results(parts):
    import pandas as pd

    class R:
        pass
    r = R()
    r.node = {k: pd.concat([p.node[k] for p in parts]) for k in parts[0].node}
    r.link = {k: pd.concat([p.link[k] for p in parts]) for k in parts[0].link}
    return r


def check(run, replay=None):
    wntr = common.import_wntr(build_ext=True)
    thorough = run.tier == "thorough"
    rng = random.Random(run.seed * 2203 + 10)
    run.rule = ("time-driven configurations (C04 generator, non-crashing subset) x 1-3 pause points on the hydraulic grid x pickle yes/no; "
                "hydraulic networks (netgen: tanks, level/pressure controls, rules, leaks, closed parts) x 1-2 pause points x pickle yes/no; "
                "non-trivial = a status change happens after the first pause")
    run.trusted += ["harness tools/props/c10.py", "Python pickle (the round trip is exercised, modelled as identity)"]
    run.assumptions += ["Newton restarts from a fresh initial guess in the continued run: numeric tables are compared at 1e-6 relative"]
    ok, log, fails = common.coq_make(["theories/C10/Proofs.vo", "theories/C10/Invariant.vo", "theories/C10/Times.vo", "theories/C04/Window.vo", "theories/C04/AtTimeSet.vo", "theories/C04/AtTimeAll.vo", "theories/C04/Mixed.vo"])
    if not ok:
        for f, ln, msg in fails:
            run.tie_broken("proof no longer checks: %s line %s: %s" % (f, ln, common.theorem_line(f, ln)), msg)
        for n in common.property_theorems(common.THEORIES + "/C10/Property.v"):
            run.obligation(False, n)
    else:
        common.check_property_file(run, "C10/Property.v")
    cases, meta = [], {}
    n = 400 if thorough else 70
    b = lambda x: "true" if x else "false"
    for i in range(n):
        o = c04.gen_cfg(rng)
        o["duration"] = min(o["duration"], 12 * 3600)
        o["duration"] -= o["duration"] % o["hyd"]
        ngrid = o["duration"] // o["hyd"]
        if ngrid < 3:
            continue
        pauses = sorted(set(rng.randrange(1, ngrid) * o["hyd"] for _ in range(rng.randint(1, 3))))
        use_pickle = rng.random() < 0.5
        desc = {"config": o, "pauses": pauses, "pickle": use_pickle}
        try:
            tr = impl_split_trace(wntr, o, pauses, use_pickle)
        except Exception as e:
            run.violation("continued_run_raises", "a paused and continued run raised %s: %s" % (type(e).__name__, e), input=desc)
            continue
        times = [t for t, _ in tr]
        if any(b_ <= a_ for a_, b_ in zip(times, times[1:])):
            run.violation("continued_run_goes_back_in_time", "the concatenated time index is not strictly increasing: %s" % times[:20], input=desc)
            continue
        prop = "split_ok %s [%s] [%s] = true" % (c04.coq_cfg(o), "; ".join(str(p) for p in pauses),
                                               "; ".join("(%d, [%s])" % (t, "; ".join(b(x) for x in s)) for t, s in tr))
        cases.append((len(cases), prop))
        meta[len(cases) - 1] = dict(desc, impl_trace=tr)
        later = [s for t, s in tr if t > pauses[0]]
        run.case(prop[:300], any(x != y for x, y in zip(later, later[1:])), desc if i < 1 else None)
        run.count("pickle" if use_pickle else "no_pickle")
        run.count("pauses=%d" % len(pauses))
    res, errors = common.run_prop_cases("C10", HEADER, TACTIC, cases, shard=40)
    for e in errors:
        run.tie_broken("correspondence case file failed to compile", e)
    for cid, _ in cases:
        run.obligations += 1
        if res.get(cid):
            run.discharged += 1
        elif cid in res:
            m = meta[cid]
            # is it the property that fails?  compare with the implementation's own uninterrupted run
            try:
                full = c04.impl_trace(wntr, m["config"])
            except Exception:
                full = None
            if full is not None and full != m["impl_trace"]:
                run.violation("paused_run_differs_from_uninterrupted", "paused+continued run differs from the uninterrupted run (time-driven configuration)",
                              input=dict(m, uninterrupted=full))
            else:
                run.tie_broken("correspondence: paused run equals the uninterrupted implementation run but differs from Sched.steps", str(m)[:2500])
    # hydraulic networks: the property itself on the implementation ----------------------------------------------------
    nets = 50 if thorough else 10
    for k in range(nets):
        spec = netgen.gen_spec(rng, feat={"tanks": 0.9, "level_controls": 0.7, "rules": 0.5, "leaks": 0.4, "closed": 0.3, "time_controls": 0.7})
        spec["options"]["report_timestep"] = spec["options"]["hydraulic_timestep"]
        seen = set()
        spec["leaks"] = [l for l in spec["leaks"] if not (l["node"] in seen or seen.add(l["node"]))]
        hs, dur = spec["options"]["hydraulic_timestep"], spec["options"]["duration"]
        try:
            wn = netgen.build(spec, wntr)
        except Exception:
            continue
        rf, ef, wf, _ = simrun.run(wntr, copy.deepcopy(wn))
        if not simrun.converged(rf, ef, wf):
            continue
        ngrid = dur // hs
        pauses = sorted(set(rng.randrange(1, ngrid) * hs for _ in range(rng.randint(1, 2))))
        use_pickle = rng.random() < 0.5
        desc = {"spec": spec, "pauses": pauses, "pickle": use_pickle}
        parts, failed = [], None
        w = copy.deepcopy(wn)
        for D in pauses + [dur]:
            w.options.time.duration = D
            if use_pickle:
                w = pickle.loads(pickle.dumps(w))
            r, e, ww, _ = simrun.run(wntr, w)
            if r is None or not simrun.converged(r, e, ww):
                failed = (D, e, ww[:1])
                break
            parts.append(r)
        run.case({"net": k, "pauses": pauses, "pickle": use_pickle}, True, None)
        run.count("hydraulic networks")
        if failed:
            run.violation("continued_run_fails", "the uninterrupted run completes but the run continued after a pause at %s fails: %s %s" % (pauses, failed[1], failed[2]), input=desc)
            continue
        cat = concat_results(parts)
        times = [int(t) for t in cat.node["head"].index]
        if any(b_ <= a_ for a_, b_ in zip(times, times[1:])):
            run.violation("continued_run_goes_back_in_time", "concatenated index not strictly increasing: %s" % times, input=desc)
            continue
        why = results_close(rf, cat, tol=1e-6)
        if why:
            run.violation("paused_run_differs_from_uninterrupted", "paused+continued run differs from the uninterrupted one: " + why, input=desc)
