"""Fail-closed translation of closed-form Python arithmetic (ast) into Coq R terms.

Only what is listed here is understood; everything else raises Untranslatable
with file/line, which the driver reports as a broken tie (never papered over).
"""
import ast
from fractions import Fraction


class Untranslatable(Exception):
    pass


def fail(node, why, fname="?"):
    raise Untranslatable("%s:%s: %s: %s" % (fname, getattr(node, "lineno", "?"), why,
                                            ast.dump(node)[:200] if isinstance(node, ast.AST) else node))


def lit_source(src_lines, node):
    """exact source text of a numeric literal node"""
    return src_lines[node.lineno - 1][node.col_offset:node.end_col_offset]


def num_to_R(text):
    """decimal literal text -> exact Coq R term (no binary rounding)."""
    t = text.replace("_", "")
    fr = Fraction(t)
    if fr.denominator == 1:
        return "%d" % fr.numerator if fr.numerator >= 0 else "(%d)" % fr.numerator
    if fr.numerator < 0:
        return "(- (%d / %d))" % (-fr.numerator, fr.denominator)
    return "(%d / %d)" % (fr.numerator, fr.denominator)


class ExprTr:
    """Translate expressions to R terms.

    names: dict python-name -> coq term (variables in scope)
    attrs: dict (base-name, attr) -> coq term, e.g. ('flow_units','factor') -> 'fu_factor flow_units'
    calls: dict dotted-function-name -> callable(list of coq args) -> coq term
    """

    def __init__(self, src_lines, fname, names=None, attrs=None, calls=None, dotted=None):
        self.src = src_lines
        self.fname = fname
        self.names = dict(names or {})
        self.attrs = dict(attrs or {})
        self.calls = dict(calls or {})
        self.dotted = dict(dotted or {})  # 'math.pi' -> 'PI'

    def dotted_name(self, n):
        if isinstance(n, ast.Name):
            return n.id
        if isinstance(n, ast.Attribute):
            b = self.dotted_name(n.value)
            return None if b is None else b + "." + n.attr
        return None

    def tr(self, n):
        if isinstance(n, ast.Constant):
            if isinstance(n.value, bool) or not isinstance(n.value, (int, float)):
                fail(n, "non-numeric constant", self.fname)
            return num_to_R(lit_source(self.src, n))
        if isinstance(n, ast.Name):
            if n.id in self.names:
                return self.names[n.id]
            fail(n, "unknown name", self.fname)
        if isinstance(n, ast.Attribute):
            d = self.dotted_name(n)
            if d in self.dotted:
                return self.dotted[d]
            if isinstance(n.value, ast.Name) and (n.value.id, n.attr) in self.attrs:
                return self.attrs[(n.value.id, n.attr)]
            fail(n, "unknown attribute", self.fname)
        if isinstance(n, ast.UnaryOp):
            if isinstance(n.op, ast.USub):
                return "(- %s)" % self.tr(n.operand)
            if isinstance(n.op, ast.UAdd):
                return self.tr(n.operand)
            fail(n, "unary op", self.fname)
        if isinstance(n, ast.BinOp):
            a, b = n.left, n.right
            if isinstance(n.op, ast.Add):
                return "(%s + %s)" % (self.tr(a), self.tr(b))
            if isinstance(n.op, ast.Sub):
                return "(%s - %s)" % (self.tr(a), self.tr(b))
            if isinstance(n.op, ast.Mult):
                return "(%s * %s)" % (self.tr(a), self.tr(b))
            if isinstance(n.op, ast.Div):
                return "(%s / %s)" % (self.tr(a), self.tr(b))
            if isinstance(n.op, ast.Pow):
                return self.power(n, a, b)
            fail(n, "binary op", self.fname)
        if isinstance(n, ast.Call):
            d = self.dotted_name(n.func)
            if d in self.calls and not n.keywords:
                return self.calls[d](self, n)
            fail(n, "unknown call", self.fname)
        fail(n, "expression form", self.fname)

    def power(self, n, a, b):
        # integer literal exponent -> x ^ n ; negative integer -> / x ^ n ; otherwise Rpower via 'pw'
        if isinstance(b, ast.Constant) and isinstance(b.value, int) and not isinstance(b.value, bool):
            if b.value >= 0:
                return "(%s ^ %d)" % (self.tr(a), b.value)
            return "(1 / (%s ^ %d))" % (self.tr(a), -b.value)
        if isinstance(b, ast.UnaryOp) and isinstance(b.op, ast.USub) and isinstance(b.operand, ast.Constant) \
                and isinstance(b.operand.value, int):
            return "(1 / (%s ^ %d))" % (self.tr(a), b.operand.value)
        if isinstance(b, ast.Constant) and isinstance(b.value, float) and b.value == 0.5:
            return "(sqrt %s)" % self.tr(a)
        return "(pw %s %s)" % (self.tr(a), self.tr(b))


def call_sqrt(tr, n):
    if len(n.args) != 1:
        fail(n, "sqrt arity", tr.fname)
    return "(sqrt %s)" % tr.tr(n.args[0])


def call_power(tr, n):
    if len(n.args) != 2:
        fail(n, "power arity", tr.fname)
    return tr.power(n, n.args[0], n.args[1])


def call_abs(tr, n):
    return "(Rabs %s)" % tr.tr(n.args[0])


STD_CALLS = {"np.sqrt": call_sqrt, "math.sqrt": call_sqrt, "np.power": call_power, "math.pow": call_power,
             "abs": call_abs, "np.abs": call_abs, "float": lambda tr, n: tr.tr(n.args[0])}
STD_DOTTED = {"math.pi": "PI", "np.pi": "PI"}
