"""T1 translator: attribute write sets of the simulation and of reset_initial_values -> coq/theories/Gen/SimWrites.v

  sim_writes   : attributes assigned (obj.attr = ...) by store_results_in_network, update_tank_heads,
                 update_network_previous_values (hydraulics.py) and _get_isolated_junctions_and_links (core.py)
  reset_writes : attributes assigned by WaterNetworkModel.reset_initial_values (model.py)
  action_map   : the attribute -> private attribute map of ControlAction.__init__ (controls.py): list of (attr, private),
                 any other attribute is written under its own name
Fail-closed on missing functions.
"""
import ast
import os
from .pyexpr import Untranslatable


def _find(tree, name, cls=None):
    for n in ast.walk(tree):
        if isinstance(n, ast.FunctionDef) and n.name == name:
            return n
    return None


def _assigned_attrs(fn):
    out = []
    for n in ast.walk(fn):
        targets = []
        if isinstance(n, ast.Assign):
            targets = n.targets
        elif isinstance(n, ast.AugAssign):
            targets = [n.target]
        for t in targets:
            if isinstance(t, ast.Attribute) and isinstance(t.value, ast.Name) and t.value.id not in ("self", "results", "diagnostics"):
                if t.attr not in out:
                    out.append(t.attr)
            if isinstance(t, ast.Attribute) and isinstance(t.value, ast.Attribute) and t.value.attr == "_wn":
                if t.attr not in out:       # self._wn.sim_time = ...
                    out.append(t.attr)
            if isinstance(t, ast.Attribute) and isinstance(t.value, ast.Name) and t.value.id == "self" and fn.name == "reset_initial_values":
                if t.attr not in out:
                    out.append(t.attr)
    return out


def translate(repo):
    def parse(rel):
        f = os.path.join(repo, rel)
        return f, ast.parse(open(f).read())
    fh, th = parse("wntr/sim/hydraulics.py")
    fc, tc = parse("wntr/sim/core.py")
    fm, tm = parse("wntr/network/model.py")
    fk, tk = parse("wntr/network/controls.py")
    sim = []
    for tree, fname, names in ((th, fh, ["store_results_in_network", "update_tank_heads", "update_network_previous_values"]),
                               (tc, fc, ["_get_isolated_junctions_and_links", "run_sim", "_compute_next_timestep_and_run_presolve_controls_and_rules"])):
        for nm in names:
            fn = _find(tree, nm)
            if fn is None:
                raise Untranslatable("%s: function %s not found" % (fname, nm))
            for a in _assigned_attrs(fn):
                if a not in sim:
                    sim.append(a)
    # attributes written through _InternalControlAction(target, '<internal attribute>', value, '<property>')
    for tree in (tc, tm, tk):
        for n in ast.walk(tree):
            if isinstance(n, ast.Call) and isinstance(n.func, ast.Name) and n.func.id == "_InternalControlAction" and len(n.args) >= 2 \
                    and isinstance(n.args[1], ast.Constant) and isinstance(n.args[1].value, str):
                if n.args[1].value not in sim:
                    sim.append(n.args[1].value)
    fn = _find(tm, "reset_initial_values")
    if fn is None:
        raise Untranslatable("%s: reset_initial_values not found" % fm)
    reset = _assigned_attrs(fn)
    # ControlAction.__init__ private attribute map
    amap = []
    for n in tk.body:
        if isinstance(n, ast.ClassDef) and n.name == "ControlAction":
            init = [f for f in n.body if isinstance(f, ast.FunctionDef) and f.name == "__init__"]
            if not init:
                raise Untranslatable("%s: ControlAction.__init__ not found" % fk)
            default_ok = False
            for s in ast.walk(init[0]):
                if isinstance(s, ast.Assign) and isinstance(s.targets[0], ast.Attribute) and s.targets[0].attr == "_private_attribute":
                    if isinstance(s.value, ast.Name) and s.value.id == "attribute":
                        default_ok = True
                if isinstance(s, ast.If):
                    t = s.test
                    if isinstance(t, ast.Compare) and isinstance(t.left, ast.Name) and t.left.id == "attribute" and isinstance(t.ops[0], ast.Eq) \
                            and isinstance(t.comparators[0], ast.Constant):
                        for b in s.body:
                            if isinstance(b, ast.Assign) and isinstance(b.targets[0], ast.Attribute) and b.targets[0].attr == "_private_attribute" \
                                    and isinstance(b.value, ast.Constant):
                                amap.append((t.comparators[0].value, b.value.value))
            if not default_ok:
                raise Untranslatable("%s: ControlAction.__init__: default `_private_attribute = attribute` not found" % fk)
    if not amap:
        raise Untranslatable("%s: ControlAction private attribute map not found" % fk)
    q = lambda l: "[" + "; ".join('"%s"' % x for x in l) + "]"
    out = ["(* GENERATED by tools/translate/simwrites.py -- do not edit *)", "From Coq Require Import String List.", "Import ListNotations.",
           "Local Open Scope string_scope.", "",
           "Definition sim_writes : list string := %s." % q(sim),
           "Definition reset_writes : list string := %s." % q(reset),
           "Definition action_map : list (string * string) := [%s]." % "; ".join('("%s", "%s")' % p for p in amap)]
    return "\n".join(out) + "\n"
