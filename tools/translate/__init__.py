"""T1 translators: /repo source -> coq/theories/Gen/*.v (regenerated on every run)."""
import importlib
import os

from .pyexpr import Untranslatable

# Gen file -> translator module (each has translate(repo) -> text)
GEN = {
    "Units.v": "units",
    "FromDict.v": "fromdict",
    "Formulas.v": "chains",
    "SimWrites.v": "simwrites",
    "BinUnits.v": "binunits",
}


def regen(names, repo):
    """Regenerate the named Gen files. Returns list of error strings (translator refusals).
    On refusal the previous Gen file is left in place (theorems then speak about a stale
    model, so the caller MUST report the tie as broken)."""
    import common
    errs = []
    for n in names:
        mod = importlib.import_module("translate." + GEN[n])
        try:
            text = mod.translate(repo)
        except Untranslatable as e:
            errs.append("%s: %s" % (n, e))
            continue
        except Exception as e:  # syntax errors in the source etc.
            errs.append("%s: %s: %s" % (n, type(e).__name__, e))
            continue
        common.write_if_changed(os.path.join(common.THEORIES, "Gen", n), text)
    return errs


def regen_all(repo):
    return regen(list(GEN), repo)
