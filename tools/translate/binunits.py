"""T1: wntr/epanet/io.py BinFile.read -> Gen/BinUnits.v

Extracts, fail-closed, from the `if convert:` block of BinFile.read:
  * which HydParam each result table is converted with (assignments `self.results.<grp>[key] = HydParam.X._to_si(self.flow_units, df[col])`,
    and the masked `headloss[...] = to_si(self.flow_units, ..., HydParam.X)` / `setting[:, linktype == EN.T] = to_si(...)` forms);
  * the recoding of EPANET's link status codes (status[status <op> k] = v), as an ordered list of (op, k, v).
Anything else that touches these tables makes the translator refuse.
"""
import ast
import os

from .pyexpr import Untranslatable


def _find_read(tree):
    for n in ast.walk(tree):
        if isinstance(n, ast.ClassDef) and n.name == "BinFile":
            for f in n.body:
                if isinstance(f, ast.FunctionDef) and f.name == "read":
                    return f
    raise Untranslatable("BinFile.read not found")


def _hydparam(node):
    # HydParam.X
    if isinstance(node, ast.Attribute) and isinstance(node.value, ast.Name) and node.value.id == "HydParam":
        return node.attr
    return None


def _is_flow_units(n):
    return isinstance(n, ast.Attribute) and n.attr == "flow_units" and isinstance(n.value, ast.Name) and n.value.id == "self"


def translate(repo):
    src = open(os.path.join(repo, "wntr/epanet/io.py")).read()
    f = _find_read(ast.parse(src))
    block = None
    for n in ast.walk(f):
        if isinstance(n, ast.If) and isinstance(n.test, ast.Name) and n.test.id == "convert":
            block = n
    if block is None:
        raise Untranslatable("`if convert:` block not found in BinFile.read")
    table, recode = [], []
    for st in ast.walk(ast.Module(body=block.body, type_ignores=[])):
        if not isinstance(st, ast.Assign) or len(st.targets) != 1:
            continue
        tg, val = st.targets[0], st.value
        # self.results.node['demand'] = HydParam.Demand._to_si(self.flow_units, df['demand'])
        if (isinstance(tg, ast.Subscript) and isinstance(tg.value, ast.Attribute) and tg.value.attr in ("node", "link")
                and isinstance(tg.value.value, ast.Attribute) and tg.value.value.attr == "results"):
            key = tg.slice.value if isinstance(tg.slice, ast.Constant) else None
            if key in ("demand", "head", "pressure", "flowrate", "velocity"):
                if not (isinstance(val, ast.Call) and isinstance(val.func, ast.Attribute) and val.func.attr == "_to_si" and _hydparam(val.func.value)
                        and len(val.args) == 2 and _is_flow_units(val.args[0])):
                    raise Untranslatable("results.%s[%r] is not HydParam.X._to_si(self.flow_units, df[...]) (line %d)" % (tg.value.attr, key, st.lineno))
                col = val.args[1]
                want = {"demand": "demand", "head": "head", "pressure": "pressure", "flowrate": "flow", "velocity": "velocity"}[key]
                if not (isinstance(col, ast.Subscript) and isinstance(col.slice, ast.Constant) and col.slice.value == want):
                    raise Untranslatable("results.%s[%r] is not read from df[%r] (line %d)" % (tg.value.attr, key, want, st.lineno))
                table.append(("%s.%s" % (tg.value.attr, key), _hydparam(val.func.value)))
            continue
        # headloss[:, linktype < 2] = to_si(self.flow_units, headloss[:, linktype < 2], HydParam.HeadLoss)
        if isinstance(tg, ast.Subscript) and isinstance(tg.value, ast.Name) and tg.value.id in ("headloss", "setting"):
            if not (isinstance(val, ast.Call) and isinstance(val.func, ast.Name) and val.func.id == "to_si" and len(val.args) == 3
                    and _is_flow_units(val.args[0]) and _hydparam(val.args[2])):
                raise Untranslatable("%s[...] is not to_si(self.flow_units, ..., HydParam.X) (line %d)" % (tg.value.id, st.lineno))
            if ast.dump(val.args[1]) != ast.dump(ast.Subscript(value=tg.value, slice=tg.slice, ctx=ast.Load())):
                raise Untranslatable("%s[...] converted from a different slice (line %d)" % (tg.value.id, st.lineno))
            sl = tg.slice
            mask = sl.elts[1] if isinstance(sl, ast.Tuple) and len(sl.elts) == 2 else None
            if not (isinstance(mask, ast.Compare) and isinstance(mask.left, ast.Name) and mask.left.id == "linktype" and len(mask.ops) == 1):
                raise Untranslatable("unrecognised mask on %s (line %d)" % (tg.value.id, st.lineno))
            op, rhs = mask.ops[0], mask.comparators[0]
            if tg.value.id == "headloss":
                if isinstance(op, ast.Lt) and isinstance(rhs, ast.Constant) and rhs.value == 2:
                    name = "headloss.pipe"
                elif isinstance(op, ast.GtE) and isinstance(rhs, ast.Constant) and rhs.value == 2:
                    name = "headloss.pump_valve"
                else:
                    raise Untranslatable("unrecognised headloss mask (line %d)" % st.lineno)
            else:
                if not (isinstance(op, ast.Eq) and isinstance(rhs, ast.Attribute) and isinstance(rhs.value, ast.Name) and rhs.value.id == "EN"):
                    raise Untranslatable("unrecognised setting mask (line %d)" % st.lineno)
                name = "setting." + rhs.attr
            table.append((name, _hydparam(val.args[2])))
            continue
        # status[status <= 2] = 0
        if isinstance(tg, ast.Subscript) and isinstance(tg.value, ast.Name) and tg.value.id == "status":
            m = tg.slice
            if not (isinstance(m, ast.Compare) and isinstance(m.left, ast.Name) and m.left.id == "status" and len(m.ops) == 1
                    and isinstance(m.comparators[0], ast.Constant) and isinstance(val, ast.Constant)):
                raise Untranslatable("unrecognised status recoding (line %d)" % st.lineno)
            op = {ast.LtE: "RLe", ast.Eq: "REq", ast.GtE: "RGe", ast.Lt: "RLt", ast.Gt: "RGt"}.get(type(m.ops[0]))
            if op is None:
                raise Untranslatable("unrecognised status comparison (line %d)" % st.lineno)
            recode.append((op, int(m.comparators[0].value), int(val.value)))
    if not table or not recode:
        raise Untranslatable("no conversions found in BinFile.read")
    out = ["(* GENERATED by tools/translate/binunits.py from wntr/epanet/io.py BinFile.read -- do not edit *)",
           "From Coq Require Import String List ZArith.", "Import ListNotations.", "Local Open Scope string_scope.",
           "Inductive rop := RLe | REq | RGe | RLt | RGt.",
           "Definition bin_table : list (string * string) :=", "  [ " + ";\n    ".join('("%s", "%s")' % kv for kv in table) + " ].",
           "Definition status_recode : list (rop * Z * Z) :=", "  [ " + "; ".join("(%s, %d, %d)%%Z" % r for r in recode) + " ]."]
    return "\n".join(out) + "\n"
