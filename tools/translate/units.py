"""T1 translator: wntr/epanet/util.py  ->  coq/theories/Gen/Units.v

Translates, from the source as it is now:
  * FlowUnits members and their factor expressions (exact decimals of the source literals)
  * FlowUnits.is_traditional / is_metric membership lists
  * MassUnits members and factors
  * HydParam / QualParam member names
  * the if/elif chains of HydParam._to_si/_from_si and QualParam._to_si/_from_si
    as Gallina functions R -> R (the container pre/post-amble is recognised and
    skipped; container behaviour is tied by the correspondence check instead)
Fail-closed: unknown syntax raises Untranslatable.
"""
import ast
import os
from .pyexpr import ExprTr, Untranslatable, fail, STD_CALLS, STD_DOTTED

SRC = "wntr/epanet/util.py"

CONTAINER_VARS = {"original_data_type", "data_keys", "data_index", "data_columns"}


def _class(tree, name, fname):
    for n in tree.body:
        if isinstance(n, ast.ClassDef) and n.name == name:
            return n
    raise Untranslatable("%s: class %s not found" % (fname, name))


def _method(cls, name, fname):
    for n in cls.body:
        if isinstance(n, ast.FunctionDef) and n.name == name:
            return n
    raise Untranslatable("%s: %s.%s not found" % (fname, cls.name, name))


def _members(cls):
    out = []
    for n in cls.body:
        if isinstance(n, ast.Assign) and len(n.targets) == 1 and isinstance(n.targets[0], ast.Name):
            out.append((n.targets[0].id, n.value))
    return out


def _enum_list(node, enum, fname):
    """[Enum.A, Enum.B] -> ['A','B']"""
    if not isinstance(node, (ast.List, ast.Tuple)):
        fail(node, "expected list of %s members" % enum, fname)
    out = []
    for e in node.elts:
        if isinstance(e, ast.Attribute) and isinstance(e.value, ast.Name) and e.value.id == enum:
            out.append(e.attr)
        else:
            fail(e, "expected %s.<member>" % enum, fname)
    return out


class CondTr:
    def __init__(self, etr, enum, beq, fname):
        self.etr, self.enum, self.beq, self.fname = etr, enum, beq, fname

    def tr(self, n):
        if isinstance(n, ast.BoolOp):
            op = "andb" if isinstance(n.op, ast.And) else "orb"
            parts = [self.tr(v) for v in n.values]
            out = parts[0]
            for p in parts[1:]:
                out = "(%s %s %s)" % (op, out, p)
            return out
        if isinstance(n, ast.UnaryOp) and isinstance(n.op, ast.Not):
            return "(negb %s)" % self.tr(n.operand)
        if isinstance(n, ast.Compare) and len(n.ops) == 1:
            l, op, r = n.left, n.ops[0], n.comparators[0]
            if isinstance(l, ast.Name) and l.id == "self":
                if isinstance(op, ast.In):
                    ms = _enum_list(r, self.enum, self.fname)
                    return "(existsb (%s self) [%s])" % (self.beq, "; ".join(ms))
                if isinstance(op, (ast.Is, ast.Eq)) and isinstance(r, ast.Attribute) \
                        and isinstance(r.value, ast.Name) and r.value.id == self.enum:
                    return "(%s self %s)" % (self.beq, r.attr)
            if isinstance(l, ast.Name) and l.id == "reaction_order" and isinstance(op, ast.Eq) \
                    and isinstance(r, ast.Constant) and isinstance(r.value, int):
                return "(Z.eqb reaction_order %d)" % r.value
            fail(n, "comparison", self.fname)
        if isinstance(n, ast.Name) and n.id == "darcy_weisbach":
            return "darcy_weisbach"
        if isinstance(n, ast.Attribute) and isinstance(n.value, ast.Name) and n.value.id == "flow_units" \
                and n.attr in ("is_traditional", "is_metric"):
            return "(%s flow_units)" % n.attr
        fail(n, "condition", self.fname)


def _is_container_stmt(s):
    """the pre/post-amble that converts containers: recognised, not translated."""
    if isinstance(s, ast.Assign) and len(s.targets) == 1 and isinstance(s.targets[0], ast.Name) \
            and s.targets[0].id in CONTAINER_VARS:
        return True
    if isinstance(s, ast.If):
        t = s.test
        if isinstance(t, ast.Call) and isinstance(t.func, ast.Name) and t.func.id == "isinstance":
            ok = all(_container_body(b) for b in s.body) and all(
                _is_container_stmt(o) or _container_body(o) for o in s.orelse)
            return ok
        if isinstance(t, ast.Compare) and isinstance(t.left, ast.Name) and t.left.id == "original_data_type":
            return True
    return False


def _container_body(s):
    # assignments inside an isinstance branch: bookkeeping vars, or data = <re-wrap of data>
    if isinstance(s, ast.Assign) and len(s.targets) == 1 and isinstance(s.targets[0], ast.Name):
        return s.targets[0].id in CONTAINER_VARS or s.targets[0].id == "data"
    if isinstance(s, ast.If):
        return _is_container_stmt(s)
    return False


def _block(stmts, etr, ctr, fname, indent):
    """translate a statement list that only updates `data`; returns a Coq term for the final data."""
    pad = " " * indent
    if not stmts:
        return "data"
    s, rest = stmts[0], stmts[1:]
    if isinstance(s, ast.Expr) and isinstance(s.value, ast.Constant) and isinstance(s.value.value, str):
        return _block(rest, etr, ctr, fname, indent)
    if isinstance(s, ast.Pass):
        return _block(rest, etr, ctr, fname, indent)
    if isinstance(s, ast.Assign):
        if len(s.targets) != 1 or not isinstance(s.targets[0], ast.Name) or s.targets[0].id != "data":
            fail(s, "assignment to something other than data", fname)
        e = etr.tr(s.value)
        return "let data := %s in\n%s%s" % (e, pad, _block(rest, etr, ctr, fname, indent))
    if isinstance(s, ast.If):
        c = ctr.tr(s.test)
        a = _block(s.body, etr, ctr, fname, indent + 2)
        b = _block(s.orelse, etr, ctr, fname, indent + 2)
        t = "(if %s\n%s  then %s\n%s  else %s)" % (c, pad, a, pad, b)
        if rest:
            return "let data := %s in\n%s%s" % (t, pad, _block(rest, etr, ctr, fname, indent))
        return t
    fail(s, "statement", fname)


def _conv_fn(fn, enum, beq, coqname, params, src_lines, fname):
    body = list(fn.body)
    core = []
    for s in body:
        if isinstance(s, ast.Expr) and isinstance(s.value, ast.Constant):
            continue
        if _is_container_stmt(s):
            continue
        if isinstance(s, ast.If) and isinstance(s.test, ast.Compare) and isinstance(s.test.left, ast.Name) \
                and s.test.left.id == "mass_units" and isinstance(s.test.ops[0], ast.Is):
            # `if mass_units is None: mass_units = MassUnits.mg` -- default handling, mass_units is not optional in the model
            continue
        if isinstance(s, ast.Return):
            if not (isinstance(s.value, ast.Name) and s.value.id == "data"):
                fail(s, "return of something other than data", fname)
            continue
        core.append(s)
    etr = ExprTr(src_lines, fname, names={"data": "data"},
                 attrs={("flow_units", "factor"): "(fu_factor flow_units)",
                        ("mass_units", "factor"): "(mu_factor mass_units)"},
                 calls=STD_CALLS, dotted=STD_DOTTED)
    ctr = CondTr(etr, enum, beq, fname)
    term = _block(core, etr, ctr, fname, 2)
    return "Definition %s (self : %s) %s (data : R) : R :=\n  %s.\n" % (coqname, enum_type(enum), params, term)


def enum_type(enum):
    return {"HydParam": "hyd_param", "QualParam": "qual_param"}[enum]


def translate(repo):
    fname = os.path.join(repo, SRC)
    with open(fname) as f:
        src = f.read()
    src_lines = src.splitlines()
    tree = ast.parse(src)
    out = ["(* GENERATED by tools/translate/units.py from %s -- do not edit *)" % SRC,
           "From Coq Require Import Reals List Bool ZArith.", "Import ListNotations.",
           "Local Open Scope R_scope.", ""]

    # FlowUnits
    fu = _class(tree, "FlowUnits", fname)
    etr0 = ExprTr(src_lines, fname, calls=STD_CALLS, dotted=STD_DOTTED)
    mem = []
    for name, val in _members(fu):
        if not (isinstance(val, ast.Tuple) and len(val.elts) == 2):
            fail(val, "FlowUnits member is not (id, factor)", fname)
        if not (isinstance(val.elts[0], ast.Constant) and isinstance(val.elts[0].value, int)):
            fail(val, "FlowUnits id", fname)
        mem.append((name, val.elts[0].value, etr0.tr(val.elts[1])))
    out.append("Inductive flow_units := %s." % " | ".join(m[0] for m in mem))
    out.append("Scheme Equality for flow_units.")
    out.append("Definition all_flow_units : list flow_units := [%s]." % "; ".join(m[0] for m in mem))
    out.append("Definition fu_id (u : flow_units) : Z := match u with %s end%%Z." %
               " ".join("| %s => %d" % (m[0], m[1]) for m in mem))
    out.append("Definition fu_factor (u : flow_units) : R :=\n  match u with\n%s\n  end." %
               "\n".join("  | %s => %s" % (m[0], m[2]) for m in mem))
    names = [m[0] for m in mem]
    for prop in ("is_traditional", "is_metric"):
        fn = _method(fu, prop, fname)
        rets = [s for s in fn.body if isinstance(s, ast.Return)]
        if len(rets) != 1 or not isinstance(rets[0].value, ast.Compare) or \
                not isinstance(rets[0].value.ops[0], ast.In):
            fail(fn, "%s is not `return self in [...]`" % prop, fname)
        others = [s for s in fn.body if not isinstance(s, ast.Return)
                  and not (isinstance(s, ast.Expr) and isinstance(s.value, ast.Constant))]
        if others:
            fail(others[0], "unexpected statement in %s" % prop, fname)
        ms = _enum_list(rets[0].value.comparators[0], "FlowUnits", fname)
        for m_ in ms:
            if m_ not in names:
                fail(rets[0], "unknown member %s" % m_, fname)
        out.append("Definition %s (u : flow_units) : bool := existsb (flow_units_beq u) [%s]." % (prop, "; ".join(ms)))
    out.append("")

    # MassUnits
    mu = _class(tree, "MassUnits", fname)
    mem = []
    for name, val in _members(mu):
        if not (isinstance(val, ast.Tuple) and len(val.elts) == 2):
            fail(val, "MassUnits member", fname)
        mem.append((name, etr0.tr(val.elts[1])))
    out.append("Inductive mass_units := %s." % " | ".join(m[0] for m in mem))
    out.append("Definition all_mass_units : list mass_units := [%s]." % "; ".join(m[0] for m in mem))
    out.append("Definition mu_factor (m : mass_units) : R :=\n  match m with\n%s\n  end." %
               "\n".join("  | %s => %s" % m for m in mem))
    out.append("")

    # Param enums
    for enum in ("HydParam", "QualParam"):
        cls = _class(tree, enum, fname)
        ms = [m[0] for m in _members(cls)]
        ty = enum_type(enum)
        out.append("Inductive %s := %s." % (ty, " | ".join(ms)))
        out.append("Scheme Equality for %s." % ty)
        out.append("Definition all_%s : list %s := [%s]." % (ty, ty, "; ".join(ms)))
    out.append("")

    hp = _class(tree, "HydParam", fname)
    qp = _class(tree, "QualParam", fname)
    out.append(_conv_fn(_method(hp, "_to_si", fname), "HydParam", "hyd_param_beq", "hyd_to_si",
                        "(flow_units : flow_units) (darcy_weisbach : bool)", src_lines, fname))
    out.append(_conv_fn(_method(hp, "_from_si", fname), "HydParam", "hyd_param_beq", "hyd_from_si",
                        "(flow_units : flow_units) (darcy_weisbach : bool)", src_lines, fname))
    out.append(_conv_fn(_method(qp, "_to_si", fname), "QualParam", "qual_param_beq", "qual_to_si",
                        "(flow_units : flow_units) (mass_units : mass_units) (reaction_order : Z)", src_lines, fname))
    out.append(_conv_fn(_method(qp, "_from_si", fname), "QualParam", "qual_param_beq", "qual_from_si",
                        "(flow_units : flow_units) (mass_units : mass_units) (reaction_order : Z)", src_lines, fname))
    return "\n".join(out) + "\n"


if __name__ == "__main__":
    import sys
    print(translate(sys.argv[1] if len(sys.argv) > 1 else "/repo"))
