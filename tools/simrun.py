"""Run the real WNTRSimulator on a spec/model and collect what the checks need."""
import warnings


def run(wntr, wn, trace=None, **kw):
    """returns (results or None, error string or None, list of warnings)"""
    sim = wntr.sim.WNTRSimulator(wn)
    with warnings.catch_warnings(record=True) as w:
        warnings.simplefilter("always")
        try:
            res = sim.run_sim(**kw)
            return res, None, [str(x.message) for x in w], sim
        except Exception as e:  # noqa
            return None, "%s: %s" % (type(e).__name__, e), [str(x.message) for x in w], sim


def converged(res, err, warns):
    """the run completed without any failed step (results.error_code stays None; no non-convergence warning)"""
    if err is not None or res is None:
        return False
    if getattr(res, "error_code", None) is not None:
        return False
    for m in warns:
        ml = m.lower()
        if "did not converge" in ml or "failed to converge" in ml or "exceeded maximum number of trials" in ml:
            return False
    return True


class Trace:
    """Wraps wntr.sim.hydraulics.store_results_in_network (called after every solve): `cb(wn, m)` is called
    after the results of a solve have been stored in the network.  The last call at a given sim_time before
    the step is saved corresponds to the reported step."""

    def __init__(self, wntr, cb):
        self.wntr, self.cb = wntr, cb

    def __enter__(self):
        H = self.wntr.sim.hydraulics
        self.orig = H.store_results_in_network
        cb, orig = self.cb, self.orig

        def wrapped(wn, m):
            orig(wn, m)
            cb(wn, m)
        H.store_results_in_network = wrapped
        return self

    def __exit__(self, *a):
        self.wntr.sim.hydraulics.store_results_in_network = self.orig
