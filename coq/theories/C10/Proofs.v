From Coq Require Import ZArith List Bool Lia.
From WNTRV Require Import Lib.Sched.
Import ListNotations.
Local Open Scope Z_scope.

(* more fuel never changes a finished run *)
Lemma steps_fuel_mono g D : forall f k s r, steps f g D s = Some r -> steps (f + k) g D s = Some r.
Proof.
  induction f as [|f IH]; intros k s r H; cbn [steps] in *; [discriminate|].
  cbn [Nat.add steps]. destruct (one_step g s) as [[e s']|]; [|discriminate].
  destruct (D <? st_time s'); [exact H|].
  destruct (steps f g D s') as [[tr sf]|] eqn:E; [|discriminate].
  rewrite (IH k s' (tr, sf) E). exact H.
Qed.

(* pausing at D1 and continuing from the state left in the model gives exactly the uninterrupted run *)
Theorem pause_continue g D1 D : forall f1 f2 s tr1 s1 tr2 s2,
  steps f1 g D1 s = Some (tr1, s1) -> st_time s1 <= D -> D1 <= D ->
  steps f2 g D s1 = Some (tr2, s2) ->
  steps (f1 + f2) g D s = Some (tr1 ++ tr2, s2).
Proof.
  induction f1 as [|f1 IH]; intros f2 s tr1 s1 tr2 s2 H1 Ht HD H2; cbn [steps] in H1; [discriminate|].
  cbn [Nat.add steps]. destruct (one_step g s) as [[e s']|]; [|discriminate].
  destruct (D1 <? st_time s') eqn:E1.
  - injection H1 as Htr Hs. subst tr1 s1. destruct (Z.ltb_spec D (st_time s')); [lia|].
    replace (f1 + f2)%nat with (f2 + f1)%nat by lia.
    rewrite (steps_fuel_mono g D f2 f1 s' (tr2, s2) H2). reflexivity.
  - destruct (steps f1 g D1 s') as [[tr sf]|] eqn:E; [|discriminate]. injection H1 as Htr Hs. subst tr1 sf.
    apply Z.ltb_ge in E1. destruct (Z.ltb_spec D (st_time s')); [lia|].
    rewrite (IH f2 s' tr s1 tr2 s2 E Ht HD H2). reflexivity.
Qed.

(* restart with a NEW simulator object: its rule index is recomputed from the last solved time; when that equals the
   index the paused simulator had (checked on every case; it is the loop invariant ri = prev / rule_step + 1),
   the continued run is the uninterrupted one *)
Theorem restart_equiv g D1 D f1 f2 s tr1 s1 tr2 s2 :
  steps f1 g D1 s = Some (tr1, s1) -> st_time s1 <= D -> D1 <= D ->
  restart_state g s1 = s1 ->
  steps f2 g D (restart_state g s1) = Some (tr2, s2) ->
  steps (f1 + f2) g D s = Some (tr1 ++ tr2, s2).
Proof. intros H1 Ht HD Hr H2. rewrite Hr in H2. eapply pause_continue; eassumption. Qed.

(* the continued part starts after the paused part: times in the model never go back when the rule index is right;
   witness of what happened before the fix (rule index restarted at 0): see known_findings (fixed) *)
Definition mk_rule_cfg : cfg :=
  {| hyd_step := 3600; rule_step := 3600; duration := 21600; start_clock := 0;
     controls := [ {| c_cond := CSim Req 7200 0; c_prio := 3; c_act := (0%nat, true) |} ];
     rules := [ {| r_cond := CSim Rle 3600 0; r_prio := 3; r_then := [(0%nat, false)]; r_else := [] |} ];
     init_status := [true] |}.
Example restart_example :
  match steps 20 mk_rule_cfg 10800 (init_state mk_rule_cfg) with
  | Some (tr1, s1) =>
      match steps 20 mk_rule_cfg 21600 (restart_state mk_rule_cfg s1), steps 40 mk_rule_cfg 21600 (init_state mk_rule_cfg) with
      | Some (tr2, _), Some (tr, _) => map fst (tr1 ++ tr2) = map fst tr /\ map fst tr2 = [14400; 18000; 21600]
      | _, _ => False
      end
  | None => False
  end.
Proof. vm_compute. split; reflexivity. Qed.
(* with the rule index restarted at 0 (the behaviour before the fix) the continued run went back to t = 0 *)
Example restart_rule_index_zero_refuted :
  match steps 20 mk_rule_cfg 10800 (init_state mk_rule_cfg) with
  | Some (_, (f, prev, t, _, st)) =>
      match steps 20 mk_rule_cfg 21600 (f, prev, t, 0, st) with
      | Some (tr2, _) => hd 99 (map fst tr2) = 0
      | None => False
      end
  | None => False
  end.
Proof. vm_compute. reflexivity. Qed.
