(* C10 -- property theorems only. *)
From Coq Require Import ZArith List Bool.
From Coq Require Import Sorted.
From WNTRV Require Import Lib.Sched C10.Proofs C10.Invariant C10.Times.
Import ListNotations.
Local Open Scope Z_scope.

(* pausing at any D1 and continuing from the state kept in the model equals the uninterrupted run -- several pauses by iteration *)
Theorem C10_pause_continue : forall g D1 D f1 f2 s tr1 s1 tr2 s2,
  steps f1 g D1 s = Some (tr1, s1) -> st_time s1 <= D -> D1 <= D ->
  steps f2 g D s1 = Some (tr2, s2) ->
  steps (f1 + f2) g D s = Some (tr1 ++ tr2, s2).
Proof. exact pause_continue. Qed.
(* with a new simulator object (rule index recomputed from the last solved time) -- partial: the hypothesis that the recomputed
   index equals the paused one is the loop invariant ri = prev / rule_step + 1, checked on every case, not proved for the loop *)
Theorem C10_restart_equiv_partial : forall g D1 D f1 f2 s tr1 s1 tr2 s2,
  steps f1 g D1 s = Some (tr1, s1) -> st_time s1 <= D -> D1 <= D ->
  restart_state g s1 = s1 ->
  steps f2 g D (restart_state g s1) = Some (tr2, s2) ->
  steps (f1 + f2) g D s = Some (tr1 ++ tr2, s2).
Proof. exact restart_equiv. Qed.
(* ... and the invariant IS proved for every configuration whose simple controls are sim-time conditions without repeat (AT TIME t,
   TIME >= t, ...; any rules): after every solved step (ri - 1) * rule_step <= prev < ri * rule_step, so a new simulator object
   recomputes the very index the paused one had and the continued run is the uninterrupted one -- no side condition left *)
Theorem C10_rule_index_invariant : forall g D f tr s, simple_cfg g -> steps f g D (init_state g) = Some (tr, s) -> tight_state g s.
Proof. exact rule_index_invariant. Qed.
Theorem C10_restart_equiv_sim_time_controls : forall g D1 D f1 f2 tr1 s1 tr2 s2, simple_cfg g ->
  steps f1 g D1 (init_state g) = Some (tr1, s1) -> st_time s1 <= D -> D1 <= D ->
  steps f2 g D (restart_state g s1) = Some (tr2, s2) ->
  steps (f1 + f2) g D (init_state g) = Some (tr1 ++ tr2, s2).
Proof. exact restart_equiv_simple. Qed.
(* the solved times of a run strictly increase -- a time is never revisited, neither in one run nor across a pause -- for sim-time controls *)
Theorem C10_times_strictly_increasing : forall g D f tr s, simple_cfg g -> steps f g D (init_state g) = Some (tr, s) ->
  StronglySorted Z.lt (map fst tr) /\ forall e, In e tr -> 0 <= fst e.
Proof. exact run_times_increasing. Qed.
Theorem C10_continued_times_after_pause : forall g D f s tr s', simple_cfg g -> after_state g s -> steps f g D s = Some (tr, s') ->
  StronglySorted Z.lt (map fst tr) /\ (forall e, In e tr -> match s with (_, prev, _, _, _) => prev < fst e end).
Proof. intros g D f s tr s' Hg. exact (steps_times_increasing g D Hg f s tr s'). Qed.
Theorem C10_fuel_irrelevant : forall g D f k s r, steps f g D s = Some r -> steps (f + k) g D s = Some r.
Proof. exact steps_fuel_mono. Qed.
Print Assumptions C10_pause_continue.
Print Assumptions C10_restart_equiv_partial.
Print Assumptions C10_rule_index_invariant.
Print Assumptions C10_times_strictly_increasing.
Print Assumptions C10_restart_equiv_sim_time_controls.
