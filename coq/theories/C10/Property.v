(* C10 -- property theorems only. *)
From Coq Require Import ZArith List Bool.
From Coq Require Import Sorted.
From WNTRV Require Import Lib.Sched C10.Proofs C10.Invariant C10.Times C04.Window C04.AtTimeSet C04.AtTimeAll C04.Mixed.
Import ListNotations.
Local Open Scope Z_scope.

(* pausing at any D1 and continuing from the state kept in the model equals the uninterrupted run -- several pauses by iteration *)
Theorem C10_pause_continue : forall g D1 D f1 f2 s tr1 s1 tr2 s2,
  steps f1 g D1 s = Some (tr1, s1) -> st_time s1 <= D -> D1 <= D ->
  steps f2 g D s1 = Some (tr2, s2) ->
  steps (f1 + f2) g D s = Some (tr1 ++ tr2, s2).
Proof. exact pause_continue. Qed.
(* with a new simulator object (rule index recomputed from the last solved time) -- partial: the hypothesis that the recomputed
   index equals the paused one is the loop invariant ri = prev / rule_step + 1, checked on every case, not proved for the loop *)
Theorem C10_restart_equiv_partial : forall g D1 D f1 f2 s tr1 s1 tr2 s2,
  steps f1 g D1 s = Some (tr1, s1) -> st_time s1 <= D -> D1 <= D ->
  restart_state g s1 = s1 ->
  steps f2 g D (restart_state g s1) = Some (tr2, s2) ->
  steps (f1 + f2) g D s = Some (tr1 ++ tr2, s2).
Proof. exact restart_equiv. Qed.
(* ... and the invariant IS proved for every configuration whose simple controls are sim-time conditions without repeat (AT TIME t,
   TIME >= t, ...; any rules): after every solved step (ri - 1) * rule_step <= prev < ri * rule_step, so a new simulator object
   recomputes the very index the paused one had and the continued run is the uninterrupted one -- no side condition left *)
Theorem C10_rule_index_invariant : forall g D f tr s, simple_cfg g -> steps f g D (init_state g) = Some (tr, s) -> tight_state g s.
Proof. exact rule_index_invariant. Qed.
Theorem C10_restart_equiv_sim_time_controls : forall g D1 D f1 f2 tr1 s1 tr2 s2, simple_cfg g ->
  steps f1 g D1 (init_state g) = Some (tr1, s1) -> st_time s1 <= D -> D1 <= D ->
  steps f2 g D (restart_state g s1) = Some (tr2, s2) ->
  steps (f1 + f2) g D (init_state g) = Some (tr1 ++ tr2, s2).
Proof. exact restart_equiv_simple. Qed.
(* the solved times of a run strictly increase -- a time is never revisited, neither in one run nor across a pause -- for sim-time controls *)
Theorem C10_times_strictly_increasing : forall g D f tr s, simple_cfg g -> steps f g D (init_state g) = Some (tr, s) ->
  StronglySorted Z.lt (map fst tr) /\ forall e, In e tr -> 0 <= fst e.
Proof. exact run_times_increasing. Qed.
Theorem C10_continued_times_after_pause : forall g D f s tr s', simple_cfg g -> after_state g s -> steps f g D s = Some (tr, s') ->
  StronglySorted Z.lt (map fst tr) /\ (forall e, In e tr -> match s with (_, prev, _, _, _) => prev < fst e end).
Proof. intros g D f s tr s' Hg. exact (steps_times_increasing g D Hg f s tr s'). Qed.
(* a functional statement across a pause: an on/off window (e.g. a leak) paused at ANY duration D1 and continued with a NEW simulator object
   to any D': over both parts the target is on exactly at the solved steps with ts <= time < te, the continued part lies after the pause,
   and steps are solved at exactly ts and te whenever the continued run gets that far (wherever the pause fell relative to them) *)
Theorem C10_window_survives_pause : forall ts te hs rs sc D l st0 p D1 D' f1 tr1 s1 f2 tr2 s2,
  0 < rs -> 0 < hs -> 0 < ts < te -> (l < length st0)%nat -> nth l st0 true = false ->
  steps f1 (gw ts te hs rs sc D l st0 p) D1 (init_state (gw ts te hs rs sc D l st0 p)) = Some (tr1, s1) ->
  steps f2 (gw ts te hs rs sc D l st0 p) D' (restart_state (gw ts te hs rs sc D l st0 p) s1) = Some (tr2, s2) ->
  (forall e, In e (tr1 ++ tr2) -> nth l (snd e) false = active ts te (fst e)) /\
  (forall e, In e tr2 -> s_prev s1 < fst e) /\
  (forall x, x = ts \/ x = te -> x <= s_prev s2 -> In x (map fst (tr1 ++ tr2))).
Proof.
  intros ts te hs rs sc D l st0 p D1 D' f1 tr1 s1 f2 tr2 s2 H1 H2 H3 H4 H5 H6 H7.
  exact (window_survives_pause ts te hs rs sc D l st0 p H1 H2 H3 H4 D1 D' f1 tr1 s1 f2 tr2 s2 H5 H6 H7).
Qed.
(* the same for ANY set of AT TIME controls at distinct instants: paused anywhere, continued by a new simulator object to any duration, every
   solved step of both parts shows on every link the command of the latest control reached (is_S, see C04), the continued part lies after
   the pause and steps over no instant at which a control changes a status *)
Theorem C10_control_set_survives_pause : forall cs hs rs sc D st0, 0 < rs -> 0 < hs -> (forall a, In a cs -> 0 < a_thr a) -> NoDup (map a_thr cs) ->
  forall D1 D' f1 tr1 s1 f2 tr2 s2,
  steps f1 (gs cs hs rs sc D st0) D1 (init_state (gs cs hs rs sc D st0)) = Some (tr1, s1) ->
  steps f2 (gs cs hs rs sc D st0) D' (restart_state (gs cs hs rs sc D st0) s1) = Some (tr2, s2) ->
  (forall e, In e (tr1 ++ tr2) -> is_S cs st0 (fst e) (snd e)) /\ (forall e, In e tr2 -> s_prev s1 < fst e) /\
  (forall a, In a cs -> s_prev s1 < a_thr a <= s_prev s2 ->
     In (a_thr a) (map fst tr2) \/ exists st, (st = s_st s1 \/ In st (map snd tr2)) /\ is_S cs st0 (a_thr a) st).
Proof.
  intros cs hs rs sc D st0 H1 H2 H3 H4 D1 D' f1 tr1 s1 f2 tr2 s2 H5 H6.
  exact (at_time_set_survives_pause cs hs rs sc D st0 H1 H2 H3 H4 D1 D' f1 tr1 s1 f2 tr2 s2 H5 H6).
Qed.
(* ... and with coinciding instants allowed (is_W: latest instant, then priority, then registration; see C04) *)
Theorem C10_all_time_controls_survive_pause : forall cs hs rs sc D st0, 0 < rs -> 0 < hs -> (forall x, In x cs -> 0 < x_thr x) -> StronglySorted R_id cs ->
  forall D1 D' f1 tr1 s1 f2 tr2 s2,
  steps f1 (ga cs hs rs sc D st0) D1 (init_state (ga cs hs rs sc D st0)) = Some (tr1, s1) ->
  steps f2 (ga cs hs rs sc D st0) D' (restart_state (ga cs hs rs sc D st0) s1) = Some (tr2, s2) ->
  (forall e, In e (tr1 ++ tr2) -> is_W cs st0 (fst e) (snd e)) /\ (forall e, In e tr2 -> s_prev s1 < fst e) /\
  (forall x, In x cs -> s_prev s1 < x_thr x <= s_prev s2 ->
     In (x_thr x) (map fst tr2) \/ exists st, (st = s_stA s1 \/ In st (map snd tr2)) /\ is_W cs st0 (x_thr x) st).
Proof.
  intros cs hs rs sc D st0 H1 H2 H3 H4 D1 D' f1 tr1 s1 f2 tr2 s2 H5 H6.
  exact (at_time_all_survives_pause cs hs rs sc D st0 H1 H2 H3 H4 D1 D' f1 tr1 s1 f2 tr2 s2 H5 H6).
Qed.
(* simple controls AND rules: the new simulator object recomputes EXACTLY the rule index of the paused one (restart_state = identity on every
   state a run can be paused in), so the continued run is the continuation of the uninterrupted one; every step of both parts and every
   time in between shows the specified statuses (is_M, see C04) *)
Theorem C10_controls_and_rules_survive_pause : forall cs rl hs rs sc D st0, 0 < rs -> 0 < hs -> (forall x, In x cs -> 0 < x_thr x) ->
  (forall x, In x rl -> 0 < x_thr x) -> StronglySorted R_id cs -> StronglySorted R_id rl ->
  forall D1 D' f1 tr1 s1 f2 tr2 s2,
  steps f1 (gm cs rl hs rs sc D st0) D1 (init_state (gm cs rl hs rs sc D st0)) = Some (tr1, s1) ->
  steps f2 (gm cs rl hs rs sc D st0) D' (restart_state (gm cs rl hs rs sc D st0) s1) = Some (tr2, s2) ->
  restart_state (gm cs rl hs rs sc D st0) s1 = s1 /\
  (forall e, In e (tr1 ++ tr2) -> is_M cs rl rs st0 (fst e) (snd e)) /\ (forall e, In e tr2 -> s_prev s1 < fst e) /\
  (forall T', s_prev s1 <= T' <= s_prev s2 -> is_M cs rl rs st0 T' (status_at (s_stA s1) tr2 T')).
Proof.
  intros cs rl hs rs sc D st0 H1 H2 H3 H4 H5 H6 D1 D' f1 tr1 s1 f2 tr2 s2 H7 H8.
  exact (mixed_survives_pause cs rl hs rs sc D st0 H1 H2 H3 H4 H5 H6 D1 D' f1 tr1 s1 f2 tr2 s2 H7 H8).
Qed.
(* ... and the concatenated solved times of the paused run and of its continuation strictly increase: no time is revisited *)
Theorem C10_controls_and_rules_times_increase : forall cs rl hs rs sc D st0, 0 < rs -> 0 < hs -> (forall x, In x cs -> 0 < x_thr x) ->
  (forall x, In x rl -> 0 < x_thr x) -> StronglySorted R_id cs -> StronglySorted R_id rl ->
  forall D1 D' f1 tr1 s1 f2 tr2 s2,
  steps f1 (gm cs rl hs rs sc D st0) D1 (init_state (gm cs rl hs rs sc D st0)) = Some (tr1, s1) ->
  steps f2 (gm cs rl hs rs sc D st0) D' (restart_state (gm cs rl hs rs sc D st0) s1) = Some (tr2, s2) ->
  StronglySorted Z.lt (map fst (tr1 ++ tr2)).
Proof.
  intros cs rl hs rs sc D st0 H1 H2 H3 H4 H5 H6 D1 D' f1 tr1 s1 f2 tr2 s2 H7 H8.
  exact (mixed_pause_times_increasing cs rl hs rs sc D st0 H1 H2 H3 H4 H5 H6 D1 D' f1 tr1 s1 f2 tr2 s2 H7 H8).
Qed.
Theorem C10_fuel_irrelevant : forall g D f k s r, steps f g D s = Some r -> steps (f + k) g D s = Some r.
Proof. exact steps_fuel_mono. Qed.
Print Assumptions C10_pause_continue.
Print Assumptions C10_restart_equiv_partial.
Print Assumptions C10_rule_index_invariant.
Print Assumptions C10_times_strictly_increasing.
Print Assumptions C10_window_survives_pause.
Print Assumptions C10_control_set_survives_pause.
Print Assumptions C10_all_time_controls_survive_pause.
Print Assumptions C10_controls_and_rules_survive_pause.
Print Assumptions C10_controls_and_rules_times_increase.
Print Assumptions C10_restart_equiv_sim_time_controls.
