(* C10 -- property theorems only. *)
From Coq Require Import ZArith List Bool.
From WNTRV Require Import Lib.Sched C10.Proofs.
Import ListNotations.
Local Open Scope Z_scope.

(* pausing at any D1 and continuing from the state kept in the model equals the uninterrupted run -- several pauses by iteration *)
Theorem C10_pause_continue : forall g D1 D f1 f2 s tr1 s1 tr2 s2,
  steps f1 g D1 s = Some (tr1, s1) -> st_time s1 <= D -> D1 <= D ->
  steps f2 g D s1 = Some (tr2, s2) ->
  steps (f1 + f2) g D s = Some (tr1 ++ tr2, s2).
Proof. exact pause_continue. Qed.
(* with a new simulator object (rule index recomputed from the last solved time) -- partial: the hypothesis that the recomputed
   index equals the paused one is the loop invariant ri = prev / rule_step + 1, checked on every case, not proved for the loop *)
Theorem C10_restart_equiv_partial : forall g D1 D f1 f2 s tr1 s1 tr2 s2,
  steps f1 g D1 s = Some (tr1, s1) -> st_time s1 <= D -> D1 <= D ->
  restart_state g s1 = s1 ->
  steps f2 g D (restart_state g s1) = Some (tr2, s2) ->
  steps (f1 + f2) g D s = Some (tr1 ++ tr2, s2).
Proof. exact restart_equiv. Qed.
Theorem C10_fuel_irrelevant : forall g D f k s r, steps f g D s = Some r -> steps (f + k) g D s = Some r.
Proof. exact steps_fuel_mono. Qed.
Print Assumptions C10_pause_continue.
Print Assumptions C10_restart_equiv_partial.
