(* C10 -- the rule-index invariant of the time-stepping loop, for configurations whose simple controls are sim-time conditions
   without repeat (AT TIME t / time >= t ...): after every solved step  (ri - 1) * rule_step <= prev < ri * rule_step,
   hence a new simulator object recomputes exactly the index the paused one had. *)
From Coq Require Import ZArith List Bool Lia Sorted.
From WNTRV Require Import Lib.Sched C10.Proofs.
Import ListNotations.
Local Open Scope Z_scope.

Definition simple_cond (c : tcond) : bool := match c with CSim _ _ rep => rep =? 0 | _ => false end.
Definition simple_cfg (g : cfg) : Prop :=
  0 < rule_step g /\ 0 < hyd_step g /\ forall c, In c (controls g) -> simple_cond (c_cond c) = true.

(* ---- backtracks of simple conditions lie inside the step ---- *)
Lemma eval_sim_backtrack r thr cur prev b : prev < cur -> eval_sim r thr 0 cur prev = (true, b) -> 0 <= b /\ prev < cur - b.
Proof.
  intros Hlt. unfold eval_sim. cbn [Z.ltb andb]. simpl.
  destruct r.
  - destruct (Z.ltb_spec prev thr) as [H1|H1]; destruct (Z.leb_spec thr cur) as [H2|H2]; simpl; intros E; inversion E; subst; lia.
  - destruct (Z.ltb_spec thr cur) as [H1|H1]; intros E; inversion E; subst; lia.
  - destruct (Z.leb_spec thr cur) as [H1|H1]; [destruct (Z.ltb_spec prev thr) as [H2|H2]|]; intros E; inversion E; subst; lia.
  - destruct (Z.ltb_spec cur thr) as [H1|H1]; intros E; inversion E; subst; lia.
  - destruct (Z.leb_spec cur thr) as [H1|H1]; [|destruct (Z.ltb_spec prev thr) as [H2|H2]]; intros E; inversion E; subst; lia.
Qed.

Lemma check_controls_in sc t prev cs c b : In (c, b) (check_controls sc t prev cs) ->
  In c cs /\ eval_cond sc t prev (c_cond c) = (true, b).
Proof.
  unfold check_controls. rewrite in_flat_map. intros (c0 & Hin & H).
  destruct (eval_cond sc t prev (c_cond c0)) as [v b0] eqn:E. destruct v; [|destruct H].
  destruct H as [H|[]]. inversion H; subst. split; [exact Hin|exact E].
Qed.

(* ---- stable insertion sort: membership and order ---- *)
Section SortFacts.
  Context {A : Type} (le : A -> A -> bool).
  Lemma insert_in x l e : In e (insert_stable le x l) <-> x = e \/ In e l.
  Proof.
    induction l as [|y r IH]; simpl; [tauto|]. destruct (le y x); simpl; [rewrite IH|]; tauto.
  Qed.
  Lemma sort_in_aux l acc e : In e (fold_left (fun acc x => insert_stable le x acc) l acc) <-> In e l \/ In e acc.
  Proof.
    revert acc; induction l as [|x l IH]; intros acc; simpl; [tauto|]. rewrite IH, insert_in. tauto.
  Qed.
  Lemma sort_in l e : In e (sort_stable le l) <-> In e l.
  Proof. unfold sort_stable. rewrite sort_in_aux. simpl. tauto. Qed.
End SortFacts.

Definition desc (a b : control * Z) : Prop := snd b <= snd a.
Definition le_desc (a b : control * Z) : bool := Z.leb (snd b) (snd a).
Lemma insert_forall (P : control * Z -> Prop) x l : P x -> Forall P l -> Forall P (insert_stable le_desc x l).
Proof.
  intros Hx Hl. apply Forall_forall. intros e He. apply insert_in in He. destruct He as [<-|He]; [exact Hx|].
  rewrite Forall_forall in Hl. apply Hl, He.
Qed.
Lemma insert_sorted x l : StronglySorted desc l -> StronglySorted desc (insert_stable le_desc x l).
Proof.
  induction l as [|y r IH]; intros Hs; simpl; [constructor; constructor|].
  inversion Hs as [|? ? Hr Hy]; subst. unfold le_desc at 1. destruct (Z.leb_spec (snd x) (snd y)) as [H|H].
  - constructor; [apply IH; exact Hr|]. apply insert_forall; [exact H|exact Hy].
  - constructor; [exact Hs|]. constructor; [unfold desc; lia|].
    eapply Forall_impl; [|exact Hy]. intros z Hz. unfold desc in *. lia.
Qed.
Lemma sort_sorted l : StronglySorted desc (sort_stable le_desc l).
Proof.
  unfold sort_stable. assert (H : forall acc, StronglySorted desc acc -> StronglySorted desc (fold_left (fun acc x => insert_stable le_desc x acc) l acc)).
  { induction l as [|x l IH]; intros acc Ha; simpl; [exact Ha|]. apply IH, insert_sorted, Ha. }
  apply H. constructor.
Qed.
Lemma sorted_skipn n (l : list (control * Z)) : StronglySorted desc l -> StronglySorted desc (skipn n l).
Proof.
  revert l; induction n as [|n IH]; intros l Hs; simpl; [exact Hs|]. destruct l as [|x r]; [constructor|].
  inversion Hs; subst. apply IH; assumption.
Qed.
Lemma zero_sorted (l : list (control * Z)) : StronglySorted desc (map (fun cb => (fst cb, 0)) l).
Proof.
  induction l as [|x r IH]; simpl; constructor; [exact IH|]. apply Forall_forall. intros e He.
  apply in_map_iff in He. destruct He as (y & <- & _). unfold desc; simpl; lia.
Qed.

(* ---- run_same_backtrack consumes a prefix of the rest ---- *)
Lemma run_same_suffix rest b : forall st cnt st' cnt', run_same_backtrack rest b st cnt = (st', cnt') ->
  exists k, cnt' = (cnt + k)%nat /\ (k <= length rest)%nat.
Proof.
  induction rest as [|[c b'] r IH]; intros st cnt st' cnt' H; simpl in H.
  - inversion H; subst. exists 0%nat. simpl. lia.
  - destruct (b' =? b).
    + apply IH in H. destruct H as (k & -> & Hk). exists (S k). simpl. lia.
    + inversion H; subst. exists 0%nat. simpl. lia.
Qed.
Lemma in_skipn_more {A} (l : list A) n k e : In e (skipn (n + k) l) -> In e (skipn n l).
Proof.
  revert l; induction n as [|n IH]; intros l H; simpl in *.
  - revert l H; induction k as [|k IHk]; intros l H; simpl in H; [exact H|]. destruct l as [|x r]; [destruct H|]. right. apply IHk, H.
  - destruct l as [|x r]; [simpl in H; destruct (n + k)%nat; exact H|]. apply IH, H.
Qed.

(* ---- the loop keeps  (ri - 1) rs <= every instant still to come ---- *)
Lemma presolve_loop_inv g prev ref L t : 0 < rule_step g -> StronglySorted desc L ->
  forall fuel cnt ri st t1 ri1 st1,
  (ri - 1) * rule_step g <= t ->
  (forall c b, In (c, b) (skipn cnt L) -> 0 <= b /\ (ri - 1) * rule_step g <= t - b) ->
  presolve_loop fuel g prev ref L cnt t ri st = Some (t1, ri1, st1) ->
  (ri1 - 1) * rule_step g <= t1 < ri1 * rule_step g.
Proof.
  intros Hrs Hsort. set (rs := rule_step g) in *.
  induction fuel as [|fuel IH]; intros cnt ri st t1 ri1 st1 Ht Hrest H; [discriminate|].
  cbn [presolve_loop] in H. fold rs in H.
  destruct (negb (Nat.ltb cnt (length L)) && negb (ri * rs <=? t)) eqn:Eexit.
  { inversion H; subst. apply andb_true_iff in Eexit. destruct Eexit as [_ E2]. apply negb_true_iff, Z.leb_gt in E2. lia. }
  (* the rules-only continuation, usable whenever ri * rs <= every instant still to come *)
  assert (Honly : ri * rs <= t -> (forall c b, In (c, b) (skipn cnt L) -> ri * rs <= t - b) ->
     (let t' := ri * rs in let st' := run_rules (start_clock g) t' prev (rules g) st in
      if negb (list_beq st' ref) then Some (t', ri + 1, st') else presolve_loop fuel g prev ref L cnt t (ri + 1) st') = Some (t1, ri1, st1) ->
     (ri1 - 1) * rs <= t1 < ri1 * rs).
  { intros Hle Hall Ho. cbv zeta in Ho. destruct (negb (list_beq _ ref)).
    - inversion Ho; subst. lia.
    - eapply (IH cnt (ri + 1)); [lia| |exact Ho].
      intros c b Hin. destruct (Hrest c b Hin) as [Hb _]. split; [exact Hb|]. specialize (Hall c b Hin). lia. }
  destruct (skipn cnt L) as [|[c b] rest'] eqn:Erest.
  - (* no control left: cnt >= length L, so ri * rs <= t *)
    apply Honly; [|intros c b []|exact H].
    assert (Hc : Nat.ltb cnt (length L) = false).
    { apply Nat.ltb_ge. destruct (le_lt_dec (length L) cnt) as [Hl|Hl]; [exact Hl|].
      exfalso. assert (length (skipn cnt L) = (length L - cnt)%nat) by apply skipn_length. rewrite Erest in H0. simpl in H0. lia. }
    rewrite Hc in Eexit. simpl in Eexit. apply negb_false_iff, Z.leb_le in Eexit. exact Eexit.
  - assert (Hhead : 0 <= b /\ (ri - 1) * rs <= t - b) by (apply (Hrest c b); left; reflexivity).
    assert (Hdom : forall c' b', In (c', b') ((c, b) :: rest') -> b' <= b).
    { pose proof (sorted_skipn cnt L Hsort) as Hs. rewrite Erest in Hs. inversion Hs as [|? ? _ Hf]; subst.
      intros c' b' [E|Hin]; [inversion E; lia|]. rewrite Forall_forall in Hf. apply (Hf (c', b') Hin). }
    destruct (Z.ltb_spec (t - b) (ri * rs)) as [Hlt|Hge].
    + destruct (run_same_backtrack ((c, b) :: rest') b st cnt) as [st' cnt'] eqn:Erun.
      destruct (negb (list_beq st' ref)); [inversion H; subst; lia|].
      destruct (run_same_suffix _ _ _ _ _ _ Erun) as (k & -> & _).
      apply (IH (cnt + k)%nat ri st' t1 ri1 st1); [exact Ht| |exact H].
      intros c' b' Hin. apply (Hrest c' b'). rewrite <- Erest. apply (in_skipn_more L cnt k). exact Hin.
    + destruct (Z.eqb_spec (t - b) (ri * rs)) as [Heq|Hne].
      * destruct (run_same_backtrack ((c, b) :: rest') b (run_rules (start_clock g) (t - b) prev (rules g) st) cnt) as [st' cnt'] eqn:Erun.
        destruct (negb (list_beq st' ref)); [inversion H; subst; lia|].
        destruct (run_same_suffix _ _ _ _ _ _ Erun) as (k & -> & _).
        apply (IH (cnt + k)%nat (ri + 1) st' t1 ri1 st1); [lia| |exact H].
        intros c' b' Hin. apply (in_skipn_more L cnt k) in Hin. rewrite Erest in Hin. destruct (Hrest c' b' Hin) as [Hb' _]. split; [exact Hb'|].
        specialize (Hdom c' b' Hin). lia.
      * apply Honly; [lia| |exact H]. intros c' b' Hin. specialize (Hdom c' b' Hin). lia.
Qed.

(* ---- one solved step ---- *)
Definition inv_state (g : cfg) (s : sstate) : Prop :=
  match s with (_, prev, t, ri, _) => prev < t /\ (ri - 1) * rule_step g <= prev end.
Definition tight_state (g : cfg) (s : sstate) : Prop :=
  match s with (first, prev, t, ri, _) => first = false /\ prev < t /\ (ri - 1) * rule_step g <= prev < ri * rule_step g end.

Lemma presolve_inv g first prev t ri st fuel t1 ri1 st1 : simple_cfg g -> prev < t -> (ri - 1) * rule_step g <= prev ->
  presolve fuel g first prev t ri st = Some (t1, ri1, st1) -> (ri1 - 1) * rule_step g <= t1 < ri1 * rule_step g.
Proof.
  intros (Hrs & Hhs & Hsimple) Hlt Hri. unfold presolve.
  set (L0 := check_controls (start_clock g) t prev (controls g)).
  set (L1 := sort_stable _ L0). set (L2 := sort_stable _ L1).
  assert (HL2 : forall c b, In (c, b) L2 -> 0 <= b /\ prev < t - b).
  { intros c b Hin. unfold L2 in Hin. apply sort_in in Hin. unfold L1 in Hin. apply sort_in in Hin.
    apply check_controls_in in Hin. destruct Hin as [Hc He]. specialize (Hsimple c Hc).
    destruct (c_cond c) as [r thr rep| | |]; simpl in Hsimple; try discriminate. apply Z.eqb_eq in Hsimple. subst rep.
    simpl in He. apply (eval_sim_backtrack r thr t prev b Hlt He). }
  intros H. destruct first.
  - eapply (presolve_loop_inv g prev st _ t Hrs (zero_sorted L2)); [| |exact H]; [lia|].
    intros c b Hin. simpl in Hin. apply in_map_iff in Hin. destruct Hin as ([c0 b0] & E & _). inversion E; subst. lia.
  - eapply (presolve_loop_inv g prev st L2 t Hrs); [apply sort_sorted| | |exact H]; [lia|].
    intros c b Hin. simpl in Hin. destruct (HL2 c b Hin). lia.
Qed.

Lemma one_step_inv g s e s' : simple_cfg g -> inv_state g s -> one_step g s = Some (e, s') -> tight_state g s'.
Proof.
  intros Hg Hinv H. destruct s as [[[[first prev] t] ri] st]. destruct Hinv as [Hlt Hri]. unfold one_step in H.
  destruct (presolve _ g first prev t ri st) as [[[t1 ri1] st1]|] eqn:E; [|discriminate]. inversion H; subst. clear H.
  pose proof (presolve_inv g first prev t ri st _ t1 ri1 st1 Hg Hlt Hri E) as Hb. destruct Hg as (Hrs & Hhs & _).
  unfold tight_state. split; [reflexivity|]. split; [|exact Hb].
  pose proof (Z.mod_pos_bound (t1 + hyd_step g) (hyd_step g) Hhs). lia.
Qed.
Lemma tight_inv g s : tight_state g s -> inv_state g s.
Proof. destruct s as [[[[first prev] t] ri] st]. unfold tight_state, inv_state. intros (_ & H1 & H2 & _). split; assumption. Qed.

Lemma steps_tight g D : simple_cfg g -> forall f s tr s', inv_state g s -> steps f g D s = Some (tr, s') -> tight_state g s'.
Proof.
  intros Hg. induction f as [|f IH]; intros s tr s' Hinv H; cbn [steps] in H; [discriminate|].
  destruct (one_step g s) as [[e s1]|] eqn:E1; [|discriminate].
  pose proof (one_step_inv g s e s1 Hg Hinv E1) as Ht1.
  destruct (D <? st_time s1); [inversion H; subst; exact Ht1|].
  destruct (steps f g D s1) as [[tr1 sf]|] eqn:E2; [|discriminate]. inversion H; subst.
  apply (IH s1 tr1 s'); [apply tight_inv; exact Ht1|exact E2].
Qed.

(* a new simulator object recomputes exactly the rule index the paused one had *)
Lemma restart_tight g s : 0 < rule_step g -> tight_state g s -> restart_state g s = s.
Proof.
  intros Hrs. destruct s as [[[[first prev] t] ri] st]. unfold tight_state, restart_state. intros (-> & _ & Hlo & Hhi).
  assert (E : prev / rule_step g = ri - 1).
  { symmetry. apply (Z.div_unique prev (rule_step g) (ri - 1) (prev - rule_step g * (ri - 1))); lia. }
  rewrite E. replace (ri - 1 + 1) with ri by lia. reflexivity.
Qed.
Lemma init_inv g : 0 < rule_step g -> inv_state g (init_state g).
Proof. intros H. unfold inv_state, init_state. lia. Qed.

(* pausing a run of a configuration with sim-time controls anywhere, building a NEW simulator and continuing equals the uninterrupted run *)
Theorem restart_equiv_simple g D1 D f1 f2 tr1 s1 tr2 s2 : simple_cfg g ->
  steps f1 g D1 (init_state g) = Some (tr1, s1) -> st_time s1 <= D -> D1 <= D ->
  steps f2 g D (restart_state g s1) = Some (tr2, s2) ->
  steps (f1 + f2) g D (init_state g) = Some (tr1 ++ tr2, s2).
Proof.
  intros Hg H1 Ht HD H2. pose proof Hg as (Hrs & _).
  apply (restart_equiv g D1 D f1 f2 (init_state g) tr1 s1 tr2 s2 H1 Ht HD); [|exact H2].
  apply restart_tight; [exact Hrs|]. apply (steps_tight g D1 Hg f1 (init_state g) tr1 s1); [apply init_inv; exact Hrs|exact H1].
Qed.
(* the invariant itself, for every reachable state *)
Theorem rule_index_invariant g D f tr s : simple_cfg g -> steps f g D (init_state g) = Some (tr, s) -> tight_state g s.
Proof. intros Hg H. pose proof Hg as (Hrs & _). apply (steps_tight g D Hg f (init_state g) tr s); [apply init_inv; exact Hrs|exact H]. Qed.

(* non-vacuity: the example configuration of C10.Proofs is simple, and a run of it exists *)
Example simple_example : simple_cfg mk_rule_cfg.
Proof. unfold simple_cfg, mk_rule_cfg; simpl. repeat split; try lia. intros c [<-|[]]. reflexivity. Qed.
