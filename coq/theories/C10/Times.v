(* C10 / C16 -- the solved times of a run strictly increase: every solved step lies strictly after the previous one (never a time is
   revisited), for every configuration whose simple controls are sim-time conditions without repeat (any rules). *)
From Coq Require Import ZArith List Bool Lia Sorted.
From WNTRV Require Import Lib.Sched C10.Proofs C10.Invariant.
Import ListNotations.
Local Open Scope Z_scope.

Lemma presolve_loop_after_prev g prev ref L t : 0 < rule_step g -> prev < t ->
  forall fuel cnt ri st t1 ri1 st1,
  prev < ri * rule_step g ->
  (forall c b, In (c, b) (skipn cnt L) -> prev < t - b) ->
  presolve_loop fuel g prev ref L cnt t ri st = Some (t1, ri1, st1) -> prev < t1.
Proof.
  intros Hrs Hpt. set (rs := rule_step g) in *.
  induction fuel as [|fuel IH]; intros cnt ri st t1 ri1 st1 Hri Hrest H; [discriminate|].
  cbn [presolve_loop] in H. fold rs in H.
  destruct (negb (Nat.ltb cnt (length L)) && negb (ri * rs <=? t)); [inversion H; subst; lia|].
  assert (Honly : (let t' := ri * rs in let st' := run_rules (start_clock g) t' prev (rules g) st in
      if negb (list_beq st' ref) then Some (t', ri + 1, st') else presolve_loop fuel g prev ref L cnt t (ri + 1) st') = Some (t1, ri1, st1) -> prev < t1).
  { intros Ho. cbv zeta in Ho. destruct (negb (list_beq _ ref)); [inversion Ho; subst; lia|].
    eapply (IH cnt (ri + 1)); [nia|exact Hrest|exact Ho]. }
  destruct (skipn cnt L) as [|[c b] rest'] eqn:Erest; [apply Honly; exact H|].
  assert (Hb : prev < t - b) by (apply (Hrest c b); left; reflexivity).
  destruct (t - b <? ri * rs).
  - destruct (run_same_backtrack ((c, b) :: rest') b st cnt) as [st' cnt'] eqn:Erun.
    destruct (negb (list_beq st' ref)); [inversion H; subst; lia|].
    destruct (run_same_suffix _ _ _ _ _ _ Erun) as (k & -> & _).
    eapply (IH (cnt + k)%nat ri); [exact Hri| |exact H].
    intros c' b' Hin. apply (Hrest c' b'). rewrite <- Erest. apply (in_skipn_more L cnt k). exact Hin.
  - destruct (t - b =? ri * rs).
    + destruct (run_same_backtrack ((c, b) :: rest') b (run_rules (start_clock g) (t - b) prev (rules g) st) cnt) as [st' cnt'] eqn:Erun.
      destruct (negb (list_beq st' ref)); [inversion H; subst; lia|].
      destruct (run_same_suffix _ _ _ _ _ _ Erun) as (k & -> & _).
      eapply (IH (cnt + k)%nat (ri + 1)); [nia| |exact H].
      intros c' b' Hin. apply (Hrest c' b'). rewrite <- Erest. apply (in_skipn_more L cnt k). exact Hin.
    + apply Honly; exact H.
Qed.

Lemma presolve_after_prev g first prev t ri st fuel t1 ri1 st1 : simple_cfg g -> prev < t -> prev < ri * rule_step g ->
  presolve fuel g first prev t ri st = Some (t1, ri1, st1) -> prev < t1.
Proof.
  intros (Hrs & Hhs & Hsimple) Hlt Hri. unfold presolve.
  set (L0 := check_controls (start_clock g) t prev (controls g)).
  set (L1 := sort_stable _ L0). set (L2 := sort_stable _ L1).
  assert (HL2 : forall c b, In (c, b) L2 -> prev < t - b).
  { intros c b Hin. unfold L2 in Hin. apply sort_in in Hin. unfold L1 in Hin. apply sort_in in Hin.
    apply check_controls_in in Hin. destruct Hin as [Hc He]. specialize (Hsimple c Hc).
    destruct (c_cond c) as [r thr rep| | |]; simpl in Hsimple; try discriminate. apply Z.eqb_eq in Hsimple. subst rep.
    simpl in He. apply (eval_sim_backtrack r thr t prev b Hlt He). }
  intros H. destruct first.
  - eapply (presolve_loop_after_prev g prev st _ t Hrs Hlt); [exact Hri| |exact H].
    intros c b Hin. simpl in Hin. apply in_map_iff in Hin. destruct Hin as ([c0 b0] & E & _). inversion E; subst. lia.
  - eapply (presolve_loop_after_prev g prev st L2 t Hrs Hlt); [exact Hri| |exact H].
    intros c b Hin. simpl in Hin. apply (HL2 c b Hin).
Qed.

(* state between steps: the next rule instant and the next grid time both lie after the last solved time *)
Definition after_state (g : cfg) (s : sstate) : Prop :=
  match s with (_, prev, t, ri, _) => prev < t /\ (ri - 1) * rule_step g <= prev < ri * rule_step g end.
Lemma init_after g : 0 < rule_step g -> after_state g (init_state g).
Proof. intros H. unfold after_state, init_state. lia. Qed.

Lemma one_step_after g s e s' : simple_cfg g -> after_state g s -> one_step g s = Some (e, s') ->
  after_state g s' /\ (match s with (_, prev, _, _, _) => prev < fst e end) /\ (match s' with (_, prev', _, _, _) => prev' = fst e end).
Proof.
  intros Hg Ha H. destruct s as [[[[first prev] t] ri] st]. destruct Ha as (Hlt & Hlo & Hhi). unfold one_step in H.
  destruct (presolve _ g first prev t ri st) as [[[t1 ri1] st1]|] eqn:E; [|discriminate]. inversion H; subst. clear H.
  pose proof (presolve_inv g first prev t ri st _ t1 ri1 st1 Hg Hlt Hlo E) as Hb.
  pose proof (presolve_after_prev g first prev t ri st _ t1 ri1 st1 Hg Hlt Hhi E) as Hp.
  destruct Hg as (Hrs & Hhs & _). simpl. repeat split; try lia.
  pose proof (Z.mod_pos_bound (t1 + hyd_step g) (hyd_step g) Hhs). lia.
Qed.

Theorem steps_times_increasing g D : simple_cfg g -> forall f s tr s', after_state g s -> steps f g D s = Some (tr, s') ->
  StronglySorted Z.lt (map fst tr) /\ (forall e, In e tr -> match s with (_, prev, _, _, _) => prev < fst e end).
Proof.
  intros Hg. induction f as [|f IH]; intros s tr s' Ha H; cbn [steps] in H; [discriminate|].
  destruct (one_step g s) as [[e s1]|] eqn:E1; [|discriminate].
  destruct (one_step_after g s e s1 Hg Ha E1) as (Ha1 & Hprev & Hp1).
  destruct (D <? st_time s1).
  - inversion H; subst. simpl. split; [constructor; constructor|]. intros e' [<-|[]]. exact Hprev.
  - destruct (steps f g D s1) as [[tr1 sf]|] eqn:E2; [|discriminate]. inversion H; subst.
    destruct (IH s1 tr1 s' Ha1 E2) as (Hs & Hall). simpl. split.
    + constructor; [exact Hs|]. apply Forall_forall. intros x Hx. apply in_map_iff in Hx. destruct Hx as (e' & <- & He').
      specialize (Hall e' He'). destruct s1 as [[[[f1 p1] t1'] r1] st1']. subst p1. exact Hall.
    + intros e' [<-|He']; [exact Hprev|]. specialize (Hall e' He'). destruct s as [[[[f0 p0] t0] r0] st0]. destruct s1 as [[[[f1 p1] t1'] r1] st1'].
      subst p1. simpl in *. lia.
Qed.

(* from the start of a simulation: the time index is strictly increasing and starts at or after 0 *)
Theorem run_times_increasing g D f tr s : simple_cfg g -> steps f g D (init_state g) = Some (tr, s) ->
  StronglySorted Z.lt (map fst tr) /\ forall e, In e tr -> 0 <= fst e.
Proof.
  intros Hg H. pose proof Hg as (Hrs & _). destruct (steps_times_increasing g D Hg f (init_state g) tr s (init_after g Hrs) H) as (H1 & H2).
  split; [exact H1|]. intros e He. specialize (H2 e He). simpl in H2. lia.
Qed.
