From Coq Require Import Reals List Arith Lra Lia.
From WNTRV Require Import C01.Model C01.Proofs C02.Model C02.Proofs C03.Model Lib.ExprR.
Import ListNotations.
Local Open Scope R_scope.

(* ---- discrete divergence identity ---- *)
Lemma sum_nodes_scaled_indicator (g : nat -> R) (x : R) (k : nat) nodes : NoDup nodes -> In k nodes ->
  sum_nodes (fun n => g n * (if Nat.eqb k n then x else 0)) nodes = g k * x.
Proof.
  intros Hnd Hin. rewrite (sum_nodes_ext _ (fun n => if Nat.eqb k n then g k * x else 0)).
  - apply sum_nodes_indicator; assumption.
  - intros n. destruct (Nat.eqb_spec k n) as [->|]; lra.
Qed.
Lemma sum_nodes_minus f g nodes : sum_nodes (fun n => f n - g n) nodes = sum_nodes f nodes - sum_nodes g nodes.
Proof. induction nodes as [|n nodes IH]; unfold sum_nodes in *; cbn [fold_right]; [lra|]. rewrite IH. lra. Qed.

Lemma divergence x g links nodes : forall i, NoDup nodes -> (forall s e, In (s, e) links -> In s nodes /\ In e nodes) ->
  work x g links i = - sum_nodes (fun n => g n * (inflowR x links i n - outflowR x links i n)) nodes.
Proof.
  induction links as [|[s e] links IH]; intros i Hnd Hends; cbn [work inflowR outflowR].
  - rewrite (sum_nodes_ext _ (fun _ => 0)) by (intros; lra). rewrite sum_nodes_zero. lra.
  - destruct (Hends s e (or_introl eq_refl)) as [Hs He].
    rewrite (IH (S i) Hnd) by (intros s' e' H; apply Hends; right; exact H).
    rewrite (sum_nodes_ext (fun n => g n * ((if Nat.eqb e n then x i else 0) + inflowR x links (S i) n - ((if Nat.eqb s n then x i else 0) + outflowR x links (S i) n)))
               (fun n => (g n * (if Nat.eqb e n then x i else 0) - g n * (if Nat.eqb s n then x i else 0)) + g n * (inflowR x links (S i) n - outflowR x links (S i) n)))
      by (intros; lra).
    rewrite sum_nodes_plus, sum_nodes_minus, !sum_nodes_scaled_indicator by assumption. lra.
Qed.

Lemma inflow_linear q q' links : forall i n, inflowR (fun k => q k - q' k) links i n = inflowR q links i n - inflowR q' links i n.
Proof. induction links as [|[s e] links IH]; intros i n; cbn [inflowR]; [lra|]. rewrite IH. destruct (Nat.eqb e n); lra. Qed.
Lemma outflow_linear q q' links : forall i n, outflowR (fun k => q k - q' k) links i n = outflowR q links i n - outflowR q' links i n.
Proof. induction links as [|[s e] links IH]; intros i n; cbn [outflowR]; [lra|]. rewrite IH. destruct (Nat.eqb s n); lra. Qed.

Lemma work_terms_zero x g links : forall i,
  (forall k s e, nth_error links k = Some (s, e) -> 0 <= x (i + k)%nat * (g s - g e)) ->
  work x g links i <= 0 ->
  forall k s e, nth_error links k = Some (s, e) -> x (i + k)%nat * (g s - g e) = 0.
Proof.
  induction links as [|[s0 e0] links IH]; intros i Hpos Hle k s e Hk; [destruct k; discriminate|].
  cbn [work] in Hle.
  assert (H0 : 0 <= x i * (g s0 - g e0)) by (specialize (Hpos 0%nat s0 e0 eq_refl); rewrite Nat.add_0_r in Hpos; exact Hpos).
  assert (Hrest : forall k s e, nth_error links k = Some (s, e) -> 0 <= x (S i + k)%nat * (g s - g e)).
  { intros k' s' e' H'. specialize (Hpos (S k') s' e' H'). replace (S i + k')%nat with (i + S k')%nat by lia. exact Hpos. }
  assert (Hw : 0 <= work x g links (S i)).
  { clear - Hrest. revert i Hrest. induction links as [|[s e] links IH]; intros i Hrest; cbn [work]; [lra|].
    assert (0 <= x (S i) * (g s - g e)) by (specialize (Hrest 0%nat s e eq_refl); rewrite Nat.add_0_r in Hrest; exact Hrest).
    assert (0 <= work x g links (S (S i))).
    { apply IH. intros k s' e' H'. specialize (Hrest (S k) s' e' H'). replace (S (S i) + k)%nat with (S i + S k)%nat by lia. exact Hrest. }
    lra. }
  destruct k as [|k]; simpl in Hk.
  - inversion Hk; subst. rewrite Nat.add_0_r. lra.
  - replace (i + S k)%nat with (S i + k)%nat by lia. apply (IH (S i) Hrest); [lra|exact Hk].
Qed.

(* ---- uniqueness of the flows ---- *)
Section Unique.
Variables (links : list link) (nodes : list nat) (fixed : nat -> bool) (src : nat -> R).
Variables (dem : nat -> R -> R) (phi : nat -> R -> R) (dom : nat -> R -> Prop).
Hypothesis Hnd : NoDup nodes.
Hypothesis Hends : forall s e, In (s, e) links -> In s nodes /\ In e nodes.
Hypothesis Hphi : forall i a b, dom i a -> dom i b -> a < b -> phi i a < phi i b.      (* every head-loss law strictly increasing *)
Hypothesis Hdem : forall n a b, a <= b -> dem n a <= dem n b.                           (* demand non-decreasing in head (DD: constant) *)

Theorem unique_flows z z' : solves links nodes fixed src dem phi dom z -> solves links nodes fixed src dem phi dom z' ->
  forall i, (i < length links)%nat -> flow z i = flow z' i.
Proof.
  intros (Hf & Hb & Hl) (Hf' & Hb' & Hl') i Hi.
  set (x := fun k => flow z k - flow z' k). set (g := fun n => head z n - head z' n).
  assert (Hterm : forall k s e, nth_error links k = Some (s, e) -> 0 <= x (0 + k)%nat * (g s - g e)).
  { intros k s e Hk. destruct (Hl k s e Hk) as (Hd & E). destruct (Hl' k s e Hk) as (Hd' & E'). unfold x, g. simpl.
    replace (head z s - head z' s - (head z e - head z' e)) with (phi k (flow z k) - phi k (flow z' k)) by lra.
    destruct (Rtotal_order (flow z k) (flow z' k)) as [Hlt|[Heq|Hgt]].
    - pose proof (Hphi k _ _ Hd Hd' Hlt). nra.
    - rewrite Heq. lra.
    - pose proof (Hphi k _ _ Hd' Hd Hgt). nra. }
  assert (Hw : work x g links 0 <= 0).
  { rewrite (divergence x g links nodes 0 Hnd Hends).
    assert (Hs : 0 <= sum_nodes (fun n => g n * (inflowR x links 0 n - outflowR x links 0 n)) nodes); [|lra].
    assert (Hn : forall n, In n nodes -> 0 <= g n * (inflowR x links 0 n - outflowR x links 0 n)).
    { intros n Hin. unfold x. rewrite inflow_linear, outflow_linear. destruct (fixed n) eqn:Fx.
      - unfold g. rewrite (Hf n Hin Fx), (Hf' n Hin Fx). lra.
      - pose proof (Hb n Hin Fx) as B. pose proof (Hb' n Hin Fx) as B'. unfold netinR in B, B'.
        replace (inflowR (flow z) links 0 n - inflowR (flow z') links 0 n - (outflowR (flow z) links 0 n - outflowR (flow z') links 0 n))
          with (dem n (head z n) - dem n (head z' n)) by lra.
        unfold g. destruct (Rle_dec (head z n) (head z' n)) as [Hle|Hgt].
        + pose proof (Hdem n _ _ Hle). nra.
        + assert (Hle : head z' n <= head z n) by lra. pose proof (Hdem n _ _ Hle). nra. }
    clear - Hn. induction nodes as [|n l IH]; unfold sum_nodes in *; cbn [fold_right]; [lra|].
    assert (0 <= g n * (inflowR x links 0 n - outflowR x links 0 n)) by (apply Hn; left; reflexivity).
    assert (0 <= fold_right (fun n0 a => g n0 * (inflowR x links 0 n0 - outflowR x links 0 n0) + a) 0 l) by (apply IH; intros m Hm; apply Hn; right; exact Hm).
    lra. }
  destruct (nth_error links i) as [[s e]|] eqn:Hk; [|apply nth_error_None in Hk; lia].
  pose proof (work_terms_zero x g links 0 Hterm Hw i s e Hk) as Hz. simpl in Hz.
  destruct (Hl i s e Hk) as (Hd & E). destruct (Hl' i s e Hk) as (Hd' & E'). unfold x, g in Hz.
  replace (head z s - head z' s - (head z e - head z' e)) with (phi i (flow z i) - phi i (flow z' i)) in Hz by lra.
  destruct (Rtotal_order (flow z i) (flow z' i)) as [Hlt|[Heq|Hgt]]; [|exact Heq|].
  - pose proof (Hphi i _ _ Hd Hd' Hlt). nra.
  - pose proof (Hphi i _ _ Hd' Hd Hgt). nra.
Qed.

(* ... and of the heads at every node tied to a fixed-head node by links *)
Theorem unique_heads z z' : solves links nodes fixed src dem phi dom z -> solves links nodes fixed src dem phi dom z' ->
  forall n, anchored links nodes fixed n -> head z n = head z' n.
Proof.
  intros Hz Hz' n Ha. pose proof (unique_flows z z' Hz Hz') as Hq.
  destruct Hz as (Hf & Hb & Hl). destruct Hz' as (Hf' & Hb' & Hl').
  induction Ha as [n Hin Fx|s e Hin Ha IH|s e Hin Ha IH].
  - rewrite (Hf n Hin Fx), (Hf' n Hin Fx). reflexivity.
  - destruct (In_nth_error _ _ Hin) as (i & Hi).
    assert (Hlt : (i < length links)%nat) by (apply nth_error_Some; unfold link in *; rewrite Hi; discriminate).
    pose proof (Hl i s e Hi) as (_ & E). pose proof (Hl' i s e Hi) as (_ & E'). rewrite (Hq i Hlt) in E. lra.
  - destruct (In_nth_error _ _ Hin) as (i & Hi).
    assert (Hlt : (i < length links)%nat) by (apply nth_error_Some; unfold link in *; rewrite Hi; discriminate).
    pose proof (Hl i s e Hi) as (_ & E). pose proof (Hl' i s e Hi) as (_ & E'). rewrite (Hq i Hlt) in E. lra.
Qed.
End Unique.

(* ---- the laws of the common feature set are strictly increasing ---- *)
Lemma hw_pipe_increasing k mk a b : 0 < k -> 0 <= mk -> a < b -> phi k mk a < phi k mk b.
Proof. apply hw_strict_mono. Qed.
(* TCV / minor loss: signed quadratic r q |q| *)
Definition quad_law (r q : R) : R := r * (q * Rabs q).
Lemma quad_increasing r a b : 0 < r -> a < b -> quad_law r a < quad_law r b.
Proof.
  intros Hr Hab. unfold quad_law. apply Rmult_lt_compat_l; [exact Hr|].
  destruct (Rle_dec 0 a) as [Ha|Ha].
  - rewrite !Rabs_pos_eq by lra. nra.
  - destruct (Rle_dec 0 b) as [Hb|Hb].
    + rewrite (Rabs_left a) by lra. rewrite (Rabs_pos_eq b) by lra. nra.
    + rewrite !Rabs_left by lra. nra.
Qed.
(* head pump on its curve: h_start - h_end = B q^C - A, increasing for q > 0 *)
Lemma head_pump_increasing A B C a b : 0 < B -> 0 < C -> 0 < a -> a < b -> B * Rpower a C - A < B * Rpower b C - A.
Proof.
  intros HB HC Ha Hab. assert (Rpower a C < Rpower b C) by (apply Rlt_Rpower_l; [exact HC|split; assumption]).
  assert (B * Rpower a C < B * Rpower b C) by (apply Rmult_lt_compat_l; assumption). lra.
Qed.
(* constant-power pumps are the exception: the law has two branches, forward (q > 0, head gain) and reverse (q < 0, head drop) *)
Lemma power_pump_two_branches P q : 0 < P -> 0 < q ->
  let dh := P / (1000 * (981 / 100) * q) in power_law P q dh /\ power_law P (- q) (- dh) /\ q <> - q.
Proof. intros HP Hq dh. unfold power_law, dh. repeat split; try (field; lra). lra. Qed.
