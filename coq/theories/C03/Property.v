(* C03 -- property theorems only. *)
From Coq Require Import Reals List ZArith String Bool Lra.
From WNTRV Require Import C01.Model C02.Model C03.Model C03.Proofs C03.Instance C07.Model C07.Mono Gen.BinUnits.
Import ListNotations.

(* Both engines are specified to solve the same system; for fixed statuses, source heads and (pressure-dependent, non-decreasing)
   demands it has at most one solution when every link law is strictly increasing: two engines that both solve it agree. *)
Theorem C03_unique_flows : forall links nodes fixed src dem phi (dom : nat -> R -> Prop),
  NoDup nodes -> (forall s e, In (s, e) links -> In s nodes /\ In e nodes) ->
  (forall i a b, dom i a -> dom i b -> (a < b)%R -> (phi i a < phi i b)%R) ->
  (forall n a b, (a <= b)%R -> (dem n a <= dem n b)%R) ->
  forall z z', solves links nodes fixed src dem phi dom z -> solves links nodes fixed src dem phi dom z' ->
  forall i, (i < List.length links)%nat -> flow z i = flow z' i.
Proof. exact unique_flows. Qed.
Theorem C03_unique_heads : forall links nodes fixed src dem phi (dom : nat -> R -> Prop),
  NoDup nodes -> (forall s e, In (s, e) links -> In s nodes /\ In e nodes) ->
  (forall i a b, dom i a -> dom i b -> (a < b)%R -> (phi i a < phi i b)%R) ->
  (forall n a b, (a <= b)%R -> (dem n a <= dem n b)%R) ->
  forall z z', solves links nodes fixed src dem phi dom z -> solves links nodes fixed src dem phi dom z' ->
  forall n, anchored links nodes fixed n -> head z n = head z' n.
Proof. exact unique_heads. Qed.
(* the laws of the common feature set satisfy the hypothesis ... *)
Theorem C03_hw_pipe_increasing : forall k mk a b, (0 < k)%R -> (0 <= mk)%R -> (a < b)%R -> (phi k mk a < phi k mk b)%R.
Proof. exact hw_pipe_increasing. Qed.
Theorem C03_quad_increasing : forall r a b, (0 < r)%R -> (a < b)%R -> (quad_law r a < quad_law r b)%R.
Proof. exact quad_increasing. Qed.
Theorem C03_head_pump_increasing : forall A B C a b, (0 < B)%R -> (0 < C)%R -> (0 < a)%R -> (a < b)%R ->
  (B * Rpower a C - A < B * Rpower b C - A)%R.
Proof. exact head_pump_increasing. Qed.
(* ... so that, with no abstract hypothesis left: a network of Hazen-Williams pipes (with minor loss), throttle / open valves and head pumps with
   exponent > 1 has at most one solution -- demand-driven (any non-decreasing demand, constants included) and pressure-driven with the PDD
   curve of C07 in the Fritsch-Carlson box *)
Theorem C03_unique_common_feature_set : forall links nodes fixed src dem (kinds : list law_kind),
  NoDup nodes -> (forall s e, In (s, e) links -> In s nodes /\ In e nodes) ->
  (forall l, In l kinds -> law_wf l) -> List.length kinds = List.length links ->
  (forall n a b, (a <= b)%R -> (dem n a <= dem n b)%R) ->
  let phi_ := fun i q => law (nth i kinds (QuadL 1)) q in
  forall z z', solves links nodes fixed src dem phi_ (fun _ _ => True) z -> solves links nodes fixed src dem phi_ (fun _ _ => True) z' ->
  (forall i, (i < List.length links)%nat -> flow z i = flow z' i) /\ (forall n, anchored links nodes fixed n -> head z n = head z' n).
Proof. exact unique_flows_common. Qed.
Theorem C03_unique_common_feature_set_pdd : forall links nodes fixed src (kinds : list law_kind) (D elev : nat -> R) pmin pnom pexp,
  NoDup nodes -> (forall s e, In (s, e) links -> In s nodes /\ In e nodes) ->
  (forall l, In l kinds -> law_wf l) -> List.length kinds = List.length links ->
  (forall n, (0 <= D n)%R) -> (0 < pexp)%R -> (2 * delta <= pnom - pmin)%R -> fc_box pmin pnom pexp ->
  let phi_ := fun i q => law (nth i kinds (QuadL 1)) q in
  let dem_ := fun n h => (D n * pdd_frac pmin pnom pexp (h - elev n))%R in
  forall z z', solves links nodes fixed src dem_ phi_ (fun _ _ => True) z -> solves links nodes fixed src dem_ phi_ (fun _ _ => True) z' ->
  (forall i, (i < List.length links)%nat -> flow z i = flow z' i) /\ (forall n, anchored links nodes fixed n -> head z n = head z' n).
Proof. exact unique_flows_common_pdd. Qed.
(* non-vacuity of the uniqueness theorems: a reservoir (node 0, head 10) feeding a junction (node 1, demand 2) through a throttle valve with
   r = 1: flow 2, head 10 - 1 * 2 * |2| = 6 *)
Example C03_solves_inhabited :
  solves [(0%nat, 1%nat)] [0%nat; 1%nat] (fun n => Nat.eqb n 0) (fun _ => 10%R) (fun _ _ => 2%R) (fun i q => law (nth i [QuadL 1%R] (QuadL 1%R)) q)
         (fun _ _ => True) {| flow := fun _ => 2%R; head := fun n => if Nat.eqb n 0 then 10%R else 6%R |}
  /\ law_wf (QuadL 1%R).
Proof.
  split; [|simpl; lra]. unfold solves. simpl. repeat split.
  - intros n [<-|[<-|[]]]; simpl; intros; try discriminate; reflexivity.
  - intros n [<-|[<-|[]]]; simpl; intros H; try discriminate. unfold netinR; simpl. lra.
  - destruct i as [|[|i]]; simpl in H; inversion H; subst. simpl. unfold quad_law. rewrite Rabs_pos_eq by lra. lra.
Qed.
(* ... except the constant-power pump, whose law has a forward and a reverse branch (refutes uniqueness for such models; the
   reverse branch is what WNTRSimulator sometimes converges to -- recorded finding) *)
Theorem C03_power_pump_two_branches_refuted : forall P q, (0 < P)%R -> (0 < q)%R ->
  let dh := (P / (1000 * (981 / 100) * q))%R in power_law P q dh /\ power_law P (- q) (- dh) /\ q <> (- q)%R.
Proof. exact power_pump_two_branches. Qed.

(* BinFile.read, regenerated from the source: every result table is converted with the unit parameter of the quantity EPANET
   writes there, and the status codes are recoded closed / open / active *)
Fixpoint recode (rules : list (rop * Z * Z)) (c : Z) : Z :=
  match rules with
  | [] => c
  | (op, k, v) :: r =>
      let hit := match op with RLe => (c <=? k)%Z | REq => (c =? k)%Z | RGe => (c >=? k)%Z | RLt => (c <? k)%Z | RGt => (c >? k)%Z end in
      recode r (if hit then v else c)
  end.
Theorem C03_bin_table_agrees : table_agrees bin_table = true.
Proof. vm_compute. reflexivity. Qed.
Theorem C03_status_recode : forall c, In c [0; 1; 2; 3; 4; 5; 6; 7]%Z -> recode status_recode c = expected_status c.
Proof. intros c H. simpl in H. repeat (destruct H as [<-|H]; [vm_compute; reflexivity|]). destruct H. Qed.

Print Assumptions C03_unique_flows.
Print Assumptions C03_unique_heads.
Print Assumptions C03_unique_common_feature_set.
Print Assumptions C03_unique_common_feature_set_pdd.
Print Assumptions C03_hw_pipe_increasing.
Print Assumptions C03_quad_increasing.
Print Assumptions C03_head_pump_increasing.
Print Assumptions C03_power_pump_two_branches_refuted.
Print Assumptions C03_bin_table_agrees.
Print Assumptions C03_status_recode.
