(* C03 -- what both engines are specified to compute: a flow per link and a head per node such that every junction balances
   its (possibly pressure-dependent) demand and every link obeys a head-loss law h_start - h_end = phi_i(q_i).
   Links, flows and node bookkeeping are those of C01.Model (netinR = inflow - outflow). *)
From Coq Require Import Reals List Arith Lra.
From WNTRV Require Import C01.Model.
Import ListNotations.
Local Open Scope R_scope.

(* sum over links of x_i * (g(start_i) - g(end_i)) *)
Fixpoint work (x g : nat -> R) (links : list link) (i : nat) : R :=
  match links with
  | [] => 0
  | (s, e) :: r => x i * (g s - g e) + work x g r (S i)
  end.

Record solution := { flow : nat -> R; head : nat -> R }.

(* the algebraic system for fixed statuses, source heads and expected demands *)
Definition solves (links : list link) (nodes : list nat) (fixed : nat -> bool) (src : nat -> R)
                  (dem : nat -> R -> R) (phi : nat -> R -> R) (dom : nat -> R -> Prop) (z : solution) : Prop :=
  (forall n, In n nodes -> fixed n = true -> head z n = src n) /\
  (forall n, In n nodes -> fixed n = false -> netinR (flow z) links n = dem n (head z n)) /\
  (forall i s e, nth_error links i = Some (s, e) -> dom i (flow z i) /\ head z s - head z e = phi i (flow z i)).

(* nodes whose head is pinned by a path of links to a fixed-head node *)
Inductive anchored (links : list link) (nodes : list nat) (fixed : nat -> bool) : nat -> Prop :=
| anch_fixed n : In n nodes -> fixed n = true -> anchored links nodes fixed n
| anch_fwd s e : In (s, e) links -> anchored links nodes fixed s -> anchored links nodes fixed e
| anch_bwd s e : In (s, e) links -> anchored links nodes fixed e -> anchored links nodes fixed s.

(* constant-power pump: P = rho g q (h_end - h_start) *)
Definition power_law (P q dh : R) : Prop := P = 1000 * (981 / 100) * q * dh.

(* table of BinFile.read: which unit conversion each result table gets (names of HydParam members); the table extracted from the
   source (Gen/BinUnits.v) must be this one *)
From Coq Require Import String.
Local Open Scope string_scope.
Definition expected_bin_table : list (string * string) :=
  [ ("node.demand", "Demand"); ("node.head", "HydraulicHead"); ("node.pressure", "Pressure");
    ("link.flowrate", "Flow"); ("link.velocity", "Velocity");
    ("headloss.pipe", "HeadLoss"); ("headloss.pump_valve", "Length");
    ("setting.PIPE", "RoughnessCoeff"); ("setting.PRV", "Pressure"); ("setting.PSV", "Pressure"); ("setting.PBV", "Pressure");
    ("setting.FCV", "Flow") ].
Fixpoint lookup (k : string) (l : list (string * string)) : option string :=
  match l with [] => None | (a, b) :: r => if String.eqb a k then Some b else lookup k r end.
Definition table_agrees (t : list (string * string)) : bool :=
  forallb (fun kv => match lookup (fst kv) t with Some v => String.eqb v (snd kv) | None => false end) expected_bin_table
  && Nat.eqb (List.length t) (List.length expected_bin_table).

(* BinFile.read recodes EPANET's link status (0 XHEAD, 1 TEMPCLOSED, 2 CLOSED, 3 OPEN, 4 ACTIVE, 5 XFLOW, 6 XFCV, 7 XPRESSURE) by a
   sequence of masked assignments status[status <op> k] = v, applied in order to the already modified array *)
From Coq Require Import ZArith.
Definition expected_status (code : Z) : Z :=
  if (code <=? 2)%Z then 0%Z else if (code =? 4)%Z then 2%Z else 1%Z.     (* closed / active / open *)
