(* C03 -- the uniqueness theorem instantiated: networks made of Hazen-Williams pipes (with minor loss), throttle / open valves (signed
   quadratic loss) and head pumps with exponent > 1 have at most one solution -- no abstract monotonicity hypothesis left. *)
From Coq Require Import Reals List Arith Lra Lia.
From WNTRV Require Import C01.Model C02.Model C02.Proofs C02.PumpMono C03.Model C03.Proofs.
Import ListNotations.
Local Open Scope R_scope.

Inductive law_kind :=
| PipeL (k mk : R)            (* h_s - h_e = phi k mk q *)
| QuadL (r : R)               (* h_s - h_e = r q |q| *)
| PumpL (A B C : R).          (* h_e - h_s = head_gain A B C q *)
Definition law (l : law_kind) (q : R) : R :=
  match l with PipeL k mk => phi k mk q | QuadL r => quad_law r q | PumpL A B C => - head_gain A B C q end.
Definition law_wf (l : law_kind) : Prop :=
  match l with PipeL k mk => 0 < k /\ 0 <= mk | QuadL r => 0 < r | PumpL A B C => 1 < C /\ 0 < B end.

Lemma law_strict l a b : law_wf l -> a < b -> law l a < law l b.
Proof.
  destruct l as [k mk|r|A B C]; simpl; intros Hwf Hab.
  - destruct Hwf. apply hw_strict_mono; assumption.
  - apply quad_increasing; assumption.
  - destruct Hwf. pose proof (head_gain_strict_hi A B C a b H H0 Hab). lra.
Qed.

Theorem unique_flows_common links nodes fixed src dem (kinds : list law_kind) :
  NoDup nodes -> (forall s e, In (s, e) links -> In s nodes /\ In e nodes) ->
  (forall l, In l kinds -> law_wf l) -> length kinds = length links ->
  (forall n a b, a <= b -> dem n a <= dem n b) ->
  let phi_ := fun i q => law (nth i kinds (QuadL 1)) q in
  forall z z', solves links nodes fixed src dem phi_ (fun _ _ => True) z -> solves links nodes fixed src dem phi_ (fun _ _ => True) z' ->
  (forall i, (i < length links)%nat -> flow z i = flow z' i) /\ (forall n, anchored links nodes fixed n -> head z n = head z' n).
Proof.
  intros Hnd Hends Hwf Hlen Hdem phi_ z z' Hz Hz'.
  assert (Hphi : forall i a b, True -> True -> a < b -> phi_ i a < phi_ i b).
  { intros i a b _ _ Hab. unfold phi_. apply law_strict; [|exact Hab].
    destruct (lt_dec i (length kinds)) as [Hi|Hi]; [apply Hwf, nth_In; exact Hi|]. rewrite nth_overflow by lia. simpl. lra. }
  split.
  - apply (unique_flows links nodes fixed src dem phi_ (fun _ _ => True) Hnd Hends Hphi Hdem z z' Hz Hz').
  - apply (unique_heads links nodes fixed src dem phi_ (fun _ _ => True) Hnd Hends Hphi Hdem z z' Hz Hz').
Qed.

(* pressure-dependent demand: the demand function of the PDD model is non-decreasing in the head (C07_pdd_monotone), so PDD networks of these
   elements have at most one solution too *)
From WNTRV Require Import C07.Model C07.Proofs C07.Mono.
Theorem unique_flows_common_pdd links nodes fixed src (kinds : list law_kind) (D elev : nat -> R) pmin pnom pexp :
  NoDup nodes -> (forall s e, In (s, e) links -> In s nodes /\ In e nodes) ->
  (forall l, In l kinds -> law_wf l) -> length kinds = length links ->
  (forall n, 0 <= D n) -> 0 < pexp -> 2 * delta <= pnom - pmin -> fc_box pmin pnom pexp ->
  let phi_ := fun i q => law (nth i kinds (QuadL 1)) q in
  let dem_ := fun n h => D n * pdd_frac pmin pnom pexp (h - elev n) in
  forall z z', solves links nodes fixed src dem_ phi_ (fun _ _ => True) z -> solves links nodes fixed src dem_ phi_ (fun _ _ => True) z' ->
  (forall i, (i < length links)%nat -> flow z i = flow z' i) /\ (forall n, anchored links nodes fixed n -> head z n = head z' n).
Proof.
  intros Hnd Hends Hwf Hlen HD He Hw Hbox phi_ dem_ z z' Hz Hz'.
  apply (unique_flows_common links nodes fixed src dem_ kinds Hnd Hends Hwf Hlen); [|exact Hz|exact Hz'].
  intros n a b Hab. unfold dem_. apply Rmult_le_compat_l; [apply HD|]. apply pdd_monotone; try assumption. lra.
Qed.
