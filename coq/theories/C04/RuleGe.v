(* C04 -- one rule IF SYSTEM TIME >= thr THEN link := v through the whole run: it acts at the first multiple of the rule step that is
   >= thr (for thr > 0; for thr <= 0 it acts at t = 0, before the first hydraulic solution -- the recorded finding), a step is solved at
   that instant, nothing changes before, the value is kept after. *)
From Coq Require Import ZArith List Bool Lia.
From WNTRV Require Import Lib.Sched C04.AtTime.
Import ListNotations.
Local Open Scope Z_scope.

Lemma set_nth_idem st l v : nth l st v = v -> set_nth st l v = st.
Proof. revert l; induction st as [|x r IH]; intros [|l] H; simpl in *; auto; [congruence|]. rewrite IH; auto. Qed.
Lemma nth_set_nth st l v : (l < length st)%nat -> nth l (set_nth st l v) v = v.
Proof. revert l; induction st as [|x r IH]; intros [|l] H; simpl in *; auto; try lia. apply IH. lia. Qed.

Section OneRule.
Variables (thr hs rs sc D : Z) (l : nat) (v : bool) (st0 : list bool) (p : Z).
Definition rl : rule := {| r_cond := CSim Rge thr 0; r_prio := p; r_then := [(l, v)]; r_else := [] |}.
Definition g2 : cfg := {| hyd_step := hs; rule_step := rs; duration := D; start_clock := sc; controls := []; rules := [rl]; init_status := st0 |}.
Hypothesis Hrs : 0 < rs.

Lemma run_rules_g2 t' prev st : run_rules sc t' prev (rules g2) st = if thr <=? t' then set_nth st l v else st.
Proof.
  unfold run_rules, check_rules, g2, rl; simpl. unfold eval_sim; simpl.
  destruct (thr <=? t'); [destruct (prev <? thr)|]; reflexivity.
Qed.

(* the loop without presolve controls: walks over the rule instants ri, ri+1, ... <= t *)
Lemma loop_rule prev t st : (l < length st)%nat -> forall fuel ri, 0 <= ri -> (Z.to_nat (t / rs + 1 - ri) < fuel)%nat ->
  (nth l st v <> v /\ exists j, ri <= j /\ j * rs <= t /\ thr <= j * rs /\ (forall i, ri <= i < j -> i * rs < thr) /\
       presolve_loop fuel g2 prev st [] 0 t ri st = Some (j * rs, j + 1, set_nth st l v))
  \/ ((nth l st v = v \/ forall i, ri <= i -> i * rs <= t -> i * rs < thr) /\
       exists ri', ri <= ri' /\ t < ri' * rs /\ (ri' = ri \/ (ri' - 1) * rs <= t) /\ presolve_loop fuel g2 prev st [] 0 t ri st = Some (t, ri', st)).
Proof.
  intros Hl. induction fuel as [|fuel IH]; intros ri Hri Hf; [lia|].
  cbn [presolve_loop]. cbn [length Nat.ltb Nat.leb negb andb skipn]. simpl rule_step. simpl start_clock.
  destruct (Z.leb_spec (ri * rs) t) as [Hle|Hgt]; cbn [negb andb].
  2:{ right. split; [right; intros i Hi Hit; nia|]. exists ri. split; [lia|]. split; [lia|]. split; [left; reflexivity|reflexivity]. }
  rewrite run_rules_g2.
  assert (Hfuel : (Z.to_nat (t / rs + 1 - (ri + 1)) < fuel)%nat).
  { assert (ri <= t / rs) by (apply Z.div_le_lower_bound; lia). lia. }
  destruct (Z.leb_spec thr (ri * rs)) as [Hthr|Hthr].
  - destruct (Bool.bool_dec (nth l st v) v) as [Hsame|Hdiff].
    + (* the command changes nothing: keep walking *)
      rewrite (set_nth_idem st l v Hsame), list_beq_refl. cbn [negb].
      destruct (IH (ri + 1) ltac:(lia) Hfuel) as [(Hn & _)|(_ & ri' & H1 & H2 & H3 & E)]; [congruence|].
      right. split; [left; exact Hsame|]. exists ri'. split; [lia|]. split; [lia|]. split; [right; destruct H3 as [->|H3]; lia|exact E].
    + left. split; [exact Hdiff|]. exists ri. rewrite (list_beq_set_nth st l v Hl Hdiff). cbn [negb].
      split; [lia|]. split; [lia|]. split; [lia|]. split; [intros i Hi; lia|reflexivity].
  - rewrite list_beq_refl. cbn [negb].
    destruct (IH (ri + 1) ltac:(lia) Hfuel) as [(Hn & j & H1 & H2 & H3 & H4 & E)|(Hc & ri' & H1 & H2 & H3' & E)].
    + left. split; [exact Hn|]. exists j. split; [lia|]. split; [lia|]. split; [lia|]. split; [|exact E]. intros i Hi. destruct (Z.eq_dec i ri) as [->|]; [lia|apply H4; lia].
    + right. split.
      * destruct Hc as [Hc|Hc]; [left; exact Hc|right]. intros i Hi Hit. destruct (Z.eq_dec i ri) as [->|]; [lia|apply Hc; lia].
      * exists ri'. split; [lia|]. split; [lia|]. split; [right; destruct H3' as [->|H3']; lia|exact E].
Qed.

Local Opaque presolve_loop.
Definition nxt (t : Z) : Z := t + hs - (t + hs) mod hs.

Theorem rule_one_step first prev t ri st : 0 <= t -> 0 <= ri -> (l < length st)%nat ->
  (nth l st v <> v /\ exists j, ri <= j /\ j * rs <= t /\ thr <= j * rs /\ (forall i, ri <= i < j -> i * rs < thr) /\
     one_step g2 (first, prev, t, ri, st) = Some ((j * rs, set_nth st l v), (false, j * rs, nxt (j * rs), j + 1, set_nth st l v)))
  \/ ((nth l st v = v \/ forall i, ri <= i -> i * rs <= t -> i * rs < thr) /\
     exists ri', ri <= ri' /\ t < ri' * rs /\ (ri' = ri \/ (ri' - 1) * rs <= t) /\
     one_step g2 (first, prev, t, ri, st) = Some ((t, st), (false, t, nxt t, ri', st))).
Proof.
  intros Ht Hri Hl. unfold one_step, presolve, nxt. simpl controls. simpl hyd_step. simpl rule_step.
  unfold check_controls; simpl flat_map. unfold sort_stable; simpl fold_left.
  assert (Hf : (Z.to_nat (t / rs + 1 - ri) < 1 + Z.to_nat (t / rs) + 4)%nat) by (assert (0 <= t / rs) by (apply Z.div_pos; lia); lia).
  assert (EL : (if first then map (fun cb : control * Z => (fst cb, 0)) [] else []) = ([] : list (control * Z))) by (destruct first; reflexivity).
  rewrite EL. simpl length.
  destruct (loop_rule prev t st Hl (1 + Z.to_nat (t / rs) + 4) ri Hri Hf) as [(Hn & j & H1 & H2 & H3 & H4 & E)|(Hc & ri' & H1 & H2 & H3 & E)].
  - left. split; [exact Hn|]. exists j. repeat split; try assumption. cbn [Nat.add] in E. cbn [Nat.add]. rewrite E. reflexivity.
  - right. split; [exact Hc|]. exists ri'. repeat split; try assumption. cbn [Nat.add] in E. cbn [Nat.add]. rewrite E. reflexivity.
Qed.

(* ---- the whole run ---- *)
Definition J : Z := (thr + rs - 1) / rs.                  (* index of the first rule instant >= thr *)
Lemma J_spec : (J - 1) * rs < thr <= J * rs.
Proof. unfold J. pose proof (Z.div_mod (thr + rs - 1) rs ltac:(lia)). pose proof (Z.mod_pos_bound (thr + rs - 1) rs Hrs). nia. Qed.

Lemma tail_noop st : 0 < hs -> (l < length st)%nat -> nth l st v = v -> forall n prev t ri, 0 <= t -> 0 <= ri -> (Z.to_nat (D - t) < n)%nat ->
  exists tr s, steps n g2 D (false, prev, t, ri, st) = Some (tr, s) /\ forall e, In e tr -> snd e = st /\ t <= fst e.
Proof.
  intros Hhs Hl Hsame. induction n as [|n IH]; intros prev t ri Ht Hri Hn; [lia|].
  destruct (rule_one_step false prev t ri st Ht Hri Hl) as [(Hd & _)|(_ & ri' & H1 & H2 & H3 & E)]; [congruence|].
  cbn [steps]. rewrite E. cbn [st_time]. unfold nxt.
  pose proof (Z.mod_pos_bound (t + hs) hs Hhs) as Hm.
  destruct (Z.ltb_spec D (t + hs - (t + hs) mod hs)) as [Hd|Hd].
  - eexists; eexists; split; [reflexivity|]. intros e [<-|[]]. simpl. split; [reflexivity|lia].
  - destruct (IH t (t + hs - (t + hs) mod hs) ri' ltac:(lia) ltac:(lia) ltac:(lia)) as (tr & s & Es & Htr).
    rewrite Es. eexists; eexists; split; [reflexivity|]. intros e [<-|He]; [simpl; split; [reflexivity|lia]|].
    destruct (Htr e He). split; [assumption|lia].
Qed.

Theorem rule_ge_acts_at_first_instant : 0 < hs -> D mod hs = 0 -> 0 < thr -> J * rs <= D -> (l < length st0)%nat -> nth l st0 v <> v ->
  exists f tr s, steps f g2 D (init_state g2) = Some (tr, s) /\
    In (J * rs, set_nth st0 l v) tr /\
    (forall e, In e tr -> (fst e < J * rs -> snd e = st0) /\ (J * rs <= fst e -> snd e = set_nth st0 l v)).
Proof.
  intros Hhs HD Hthr HJD Hl Hn. pose proof J_spec as [HJ1 HJ2].
  assert (Hgen : forall n first prev t ri, 0 <= t -> t mod hs = 0 -> t <= D -> 0 <= ri <= J -> (Z.to_nat (J * rs - t) < n)%nat ->
            exists f tr s, steps f g2 D (first, prev, t, ri, st0) = Some (tr, s) /\ In (J * rs, set_nth st0 l v) tr /\
              (forall e, In e tr -> (fst e < J * rs -> snd e = st0) /\ (J * rs <= fst e -> snd e = set_nth st0 l v))).
  { induction n as [|n IH]; intros first prev t ri Ht Hgrid HtD [Hri HriJ] Hn'; [lia|].
    destruct (rule_one_step first prev t ri st0 Ht Hri Hl) as [(_ & j & H1 & H2 & H3 & H4 & E)|([Hc|Hc] & ri' & H1 & H2 & H3 & E)]; [| congruence |].
    - (* the rule acts inside this step: j is the first instant >= thr, i.e. J *)
      assert (j = J).
      { destruct (Z.lt_trichotomy j J) as [Hlt|[Heq|Hgt]]; [|exact Heq|].
        - assert (j * rs <= (J - 1) * rs) by nia. lia.
        - specialize (H4 J ltac:(lia)). lia. }
      subst j. pose proof (Z.mod_pos_bound (J * rs + hs) hs Hhs) as Hm.
      assert (Hlen : (l < length (set_nth st0 l v))%nat) by (rewrite set_nth_length; exact Hl).
      destruct (Z.ltb_spec D (nxt (J * rs))) as [Hd|Hd].
      + exists 1%nat. cbn [steps]. rewrite E. cbn [st_time]. destruct (Z.ltb_spec D (nxt (J * rs))); [|lia].
        eexists; eexists; split; [reflexivity|]. split; [left; reflexivity|]. intros e [<-|[]]. simpl. split; [lia|reflexivity].
      + unfold nxt in Hd. destruct (tail_noop (set_nth st0 l v) Hhs Hlen (nth_set_nth st0 l v Hl) (S (Z.to_nat (D - nxt (J * rs)))) (J * rs) (nxt (J * rs)) (J + 1)
                    ltac:(unfold nxt; lia) ltac:(lia) ltac:(lia)) as (tr & s & Es & Htr).
        exists (S (S (Z.to_nat (D - nxt (J * rs))))). cbn [steps]. rewrite E. cbn [st_time].
        destruct (Z.ltb_spec D (nxt (J * rs))); [unfold nxt in *; lia|]. cbn [steps] in Es. rewrite Es.
        eexists; eexists; split; [reflexivity|]. split; [left; reflexivity|].
        intros e [<-|He]; [simpl; split; [lia|reflexivity]|]. destruct (Htr e He) as [Q1 Q2]. unfold nxt in Q2. split; [lia|intros _; exact Q1].
    - (* no instant <= t has reached thr: J * rs > t; a silent step on the grid *)
      assert (HtJ : t < J * rs).
      { destruct (Z.le_gt_cases (J * rs) t) as [Hle|Hgt]; [|exact Hgt]. specialize (Hc J ltac:(lia) Hle). lia. }
      assert (Hri' : 0 <= ri' <= J).
      { split; [lia|]. destruct H3 as [->|H3]; [lia|]. destruct (Z.le_gt_cases ri' J) as [|Hgt]; [assumption|].
        assert (J <= ri' - 1) by lia. assert (J * rs <= (ri' - 1) * rs) by nia. lia. }
      assert (Enext : nxt t = t + hs).
      { unfold nxt. rewrite Z.add_mod by lia. rewrite Hgrid, Z.mod_same by lia. simpl. rewrite Z.mod_0_l by lia. lia. }
      assert (HnextD : t + hs <= D).
      { assert (Hd : D = hs * (D / hs)) by (pose proof (Z.div_mod D hs ltac:(lia)); lia).
        assert (Ht' : t = hs * (t / hs)) by (pose proof (Z.div_mod t hs ltac:(lia)); lia).
        assert (t < D) by lia. assert (t / hs < D / hs) by nia. nia. }
      destruct (IH false t (t + hs) ri' ltac:(lia) ltac:(rewrite Z.add_mod by lia; rewrite Hgrid, Z.mod_same by lia; simpl; apply Z.mod_0_l; lia) HnextD Hri' ltac:(lia))
        as (f & tr & s & Es & Hin & Hall).
      exists (S f). cbn [steps]. rewrite E. cbn [st_time]. rewrite Enext. destruct (Z.ltb_spec D (t + hs)); [lia|].
      rewrite Es. eexists; eexists; split; [reflexivity|]. split; [right; exact Hin|].
      intros e [<-|He]; [simpl; split; [reflexivity|lia]|apply Hall; exact He]. }
  assert (0 <= J) by (unfold J; apply Z.div_pos; lia).
  apply (Hgen (S (Z.to_nat (J * rs))) true (-1) 0 0); try lia; try (apply Z.mod_0_l; lia).
Qed.
End OneRule.
