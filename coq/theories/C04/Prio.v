(* C04 -- two AT TIME controls on the same link at the same instant with different priorities, in either registration order: the command of
   the higher priority is what the link has after the step that contains the instant. *)
From Coq Require Import ZArith List Bool Lia.
From WNTRV Require Import Lib.Sched C04.AtTime.
Import ListNotations.
Local Open Scope Z_scope.

Lemma nth_set_nth_same st l v d : (l < length st)%nat -> nth l (set_nth st l v) d = v.
Proof. revert l; induction st as [|x r IH]; intros [|l] H; simpl in *; auto; try lia. apply IH. lia. Qed.
Lemma set_nth_set_nth st l v w : set_nth (set_nth st l v) l w = set_nth st l w.
Proof. revert l; induction st as [|x r IH]; intros [|l]; simpl; auto. rewrite IH. reflexivity. Qed.

Lemma set_nth_idem_l st l v : nth l st v = v -> set_nth st l v = st.
Proof. revert l; induction st as [|x r IH]; intros [|l] H; simpl in *; auto; [congruence|]. rewrite IH; auto. Qed.

Section TwoControls.
Variables (thr hs rs sc D : Z) (l : nat) (vlo vhi : bool) (st0 : list bool) (plo phi : Z) (lo_first : bool).
Hypothesis Hrs : 0 < rs.
Hypothesis Hprio : plo < phi.
Definition clo : control := {| c_cond := CSim Req thr 0; c_prio := plo; c_act := (l, vlo) |}.
Definition chi : control := {| c_cond := CSim Req thr 0; c_prio := phi; c_act := (l, vhi) |}.
Definition g3 : cfg := {| hyd_step := hs; rule_step := rs; duration := D; start_clock := sc;
                          controls := if lo_first then [clo; chi] else [chi; clo]; rules := []; init_status := st0 |}.

(* whatever the registration order, the list handed to the loop is [low priority; high priority], both with backtrack t - thr *)
Lemma presolve_list prev t : prev < thr <= t ->
  let L0 := check_controls sc t prev (controls g3) in
  let L1 := sort_stable (fun a b : control * Z => Z.leb (c_prio (fst a)) (c_prio (fst b))) L0 in
  sort_stable (fun a b : control * Z => Z.leb (snd b) (snd a)) L1 = [(clo, t - thr); (chi, t - thr)].
Proof.
  intros [H1 H2]. assert (E1 : (prev <? thr) = true) by (apply Z.ltb_lt; lia). assert (E2 : (thr <=? t) = true) by (apply Z.leb_le; lia).
  unfold g3, check_controls. destruct lo_first; simpl; unfold eval_sim; simpl; rewrite ?E1, ?E2; simpl; unfold sort_stable; simpl;
    repeat (match goal with |- context[Z.leb ?a ?b] => destruct (Z.leb_spec a b); try lia end; simpl); reflexivity.
Qed.

(* the loop with both controls due b seconds before t *)
Lemma loop_two prev t st b : (l < length st)%nat -> 0 <= t - b -> 0 <= b ->
  forall fuel ri, 0 <= ri -> (Z.to_nat (t / rs + 1 - ri) + 2 < fuel)%nat ->
  exists t1 ri1, presolve_loop fuel g3 prev st [(clo, b); (chi, b)] 0 t ri st = Some (t1, ri1, set_nth st l vhi).
Proof.
  intros Hl Hb Hb0. induction fuel as [|fuel IH]; intros ri Hri Hf; [lia|].
  cbn [presolve_loop]. cbn [length Nat.ltb Nat.leb negb andb skipn]. simpl rule_step. simpl start_clock.
  replace (rules g3) with (@nil rule) by reflexivity.
  assert (Erun : forall s0, run_same_backtrack [(clo, b); (chi, b)] b s0 0 = (set_nth s0 l vhi, 2%nat)).
  { intros s0. cbn [run_same_backtrack]. rewrite ?Z.eqb_refl. cbn [run_same_backtrack]. rewrite ?Z.eqb_refl. cbn [run_same_backtrack].
    unfold run_actions, clo, chi; cbn [fold_left c_act fst snd]. rewrite set_nth_set_nth. reflexivity. }
  (* once both controls have run without changing anything (the link already had vhi), the rest of the loop only walks rule instants *)
  assert (Hidle : nth l st vhi = vhi -> forall fuel' ri', 0 <= ri' -> (Z.to_nat (t / rs + 1 - ri') < fuel')%nat ->
            exists t1 ri1, presolve_loop fuel' g3 prev st [(clo, b); (chi, b)] 2 t ri' st = Some (t1, ri1, st)).
  { intros Hsame. induction fuel' as [|fuel' IH']; intros ri' Hri' Hf'; [lia|].
    cbn [presolve_loop]. cbn [length Nat.ltb Nat.leb negb andb skipn]. simpl rule_step. simpl start_clock. replace (rules g3) with (@nil rule) by reflexivity.
    destruct (Z.leb_spec (ri' * rs) t) as [Hle|Hgt]; simpl.
    - unfold run_rules; simpl. rewrite list_beq_refl. simpl. apply IH'; [lia|]. assert (ri' <= t / rs) by (apply Z.div_le_lower_bound; lia). lia.
    - exists t, ri'. reflexivity. }
  destruct (Bool.bool_dec (nth l st vhi) vhi) as [Hsame|Hdiff].
  - (* no change: continue; the result state is st = set_nth st l vhi *)
    rewrite (set_nth_idem_l st l vhi Hsame) in *.
    destruct (Z.ltb_spec (t - b) (ri * rs)) as [Hlt|Hge].
    + rewrite Erun. rewrite (set_nth_idem_l st l vhi Hsame), list_beq_refl. cbn [negb]. apply Hidle; [exact Hsame|lia|lia].
    + destruct (Z.eqb_spec (t - b) (ri * rs)) as [Heq|Hne].
      * unfold run_rules at 1; simpl fold_left. rewrite Erun. rewrite (set_nth_idem_l st l vhi Hsame), list_beq_refl. cbn [negb].
        apply Hidle; [exact Hsame|lia|]. assert (ri <= t / rs) by (apply Z.div_le_lower_bound; lia). lia.
      * unfold run_rules; simpl. rewrite list_beq_refl. simpl. apply IH; [lia|].
        assert (ri <= (t - b) / rs) by (apply Z.div_le_lower_bound; lia). assert (ri <= t / rs) by (apply Z.div_le_lower_bound; lia). lia.
  - destruct (Z.ltb_spec (t - b) (ri * rs)) as [Hlt|Hge].
    + rewrite Erun. rewrite (list_beq_set_nth st l vhi Hl Hdiff). cbn [negb]. eexists; eexists; reflexivity.
    + destruct (Z.eqb_spec (t - b) (ri * rs)) as [Heq|Hne].
      * unfold run_rules at 1; simpl fold_left. rewrite Erun. rewrite (list_beq_set_nth st l vhi Hl Hdiff). cbn [negb]. eexists; eexists; reflexivity.
      * unfold run_rules; simpl. rewrite list_beq_refl. simpl. apply IH; [lia|].
        assert (ri <= (t - b) / rs) by (apply Z.div_le_lower_bound; lia). assert (ri <= t / rs) by (apply Z.div_le_lower_bound; lia). lia.
Qed.

Local Opaque presolve_loop.
(* the step that contains the instant: whatever the registration order and the state of the link, the link ends with the command of the
   higher priority *)
Theorem priority_wins_one_step prev t ri st : 0 < hs -> prev < thr <= t -> 0 <= thr -> 0 <= ri -> (l < length st)%nat ->
  exists t1 ri1, one_step g3 (false, prev, t, ri, st) = Some ((t1, set_nth st l vhi), (false, t1, t1 + hs - (t1 + hs) mod hs, ri1, set_nth st l vhi))
    /\ nth l (set_nth st l vhi) (negb vhi) = vhi.
Proof.
  intros Hhs Hin Hthr Hri Hl. unfold one_step, presolve. pose proof (presolve_list prev t Hin) as EL. cbv zeta in EL.
  replace (start_clock g3) with sc by reflexivity. rewrite EL. replace (rule_step g3) with rs by reflexivity. replace (hyd_step g3) with hs by reflexivity.
  destruct (loop_two prev t st (t - thr) Hl ltac:(lia) ltac:(lia) (S (length (controls g3)) + Z.to_nat (t / rs) + 4) ri Hri) as (t1 & ri1 & E).
  { assert (0 <= t / rs) by (apply Z.div_pos; lia). replace (length (controls g3)) with 2%nat by (unfold g3; destruct lo_first; reflexivity). lia. }
  rewrite E. exists t1, ri1. split; [reflexivity|]. apply nth_set_nth_same. exact Hl.
Qed.
End TwoControls.

