(* C04 -- property theorems only. `_refuted` theorems are facts about the faithful model of the CURRENT code
   (the correspondence check replays their witnesses on the implementation); see known_findings.json. *)
From Coq Require Import ZArith List Bool Sorted Lia.
From WNTRV Require Import Lib.Sched C04.Proofs C04.AtTime C04.RuleGe C04.Prio C04.Window C04.AtTimeSet C04.AtTimeAll C04.RuleSet C04.Mixed C04.RuleInterval.
Import ListNotations.
Local Open Scope Z_scope.

(* AT TIME t: true exactly in the step (prev, cur] that contains t, and the step is cut back to t *)
Theorem C04_simtime_eq_fires_iff : forall thr cur prev b,
  eval_sim Req thr 0 cur prev = (true, b) <-> (prev < thr <= cur /\ b = cur - thr).
Proof. exact simtime_eq_fires_iff. Qed.
Theorem C04_simtime_eq_fires_once : forall thr cur prev cur',
  fst (eval_sim Req thr 0 cur prev) = true -> cur <= cur' -> fst (eval_sim Req thr 0 cur' cur) = false.
Proof. exact simtime_eq_not_twice. Qed.
(* sim-time range conditions *)
Theorem C04_simtime_gt_exact : forall thr cur prev, fst (eval_sim Rgt thr 0 cur prev) = true <-> thr < cur.
Proof. exact simtime_gt_exact. Qed.
Theorem C04_simtime_ge_exact : forall thr cur prev, fst (eval_sim Rge thr 0 cur prev) = true <-> thr <= cur.
Proof. exact simtime_ge_exact. Qed.
Theorem C04_simtime_lt_exact : forall thr cur prev, fst (eval_sim Rlt thr 0 cur prev) = true <-> cur < thr.
Proof. exact simtime_lt_exact. Qed.
Theorem C04_simtime_le_exact_partial : forall thr cur prev,
  ~ (prev < thr < cur) -> (fst (eval_sim Rle thr 0 cur prev) = true <-> cur <= thr).
Proof. exact simtime_le_exact_partial. Qed.
Theorem C04_simtime_le_exact_refuted : exists thr cur prev, fst (eval_sim Rle thr 0 cur prev) = true /\ ~ cur <= thr.
Proof. exact simtime_le_exact_refuted. Qed.
(* clock-time conditions *)
Theorem C04_clock_eq_once_fires_iff : forall thr cur prev b,
  0 <= cur -> 0 <= thr -> eval_clock Req thr false 0 0 cur prev = (true, b) <-> (prev < thr <= cur /\ b = cur - thr).
Proof. exact clock_eq_once_fires_iff. Qed.
Theorem C04_clock_eq_daily_refuted :
  exists thr sc prev cur, fst (eval_clock Req thr true 0 sc cur prev) = true /\ ~ clock_instant_in thr sc prev cur.
Proof. exact clock_eq_daily_refuted. Qed.
Theorem C04_clock_eq_daily_misses_refuted :
  exists thr sc prev cur, clock_instant_in thr sc prev cur /\ fst (eval_clock Req thr true 0 sc cur prev) = false.
Proof. exact clock_eq_daily_misses. Qed.
Theorem C04_clock_before_never_true_refuted : forall thr rep fd sc cur prev,
  fst (eval_clock Rlt thr rep fd sc cur prev) = false.
Proof. exact clock_lt_never. Qed.
(* several controls on one target at one instant: the last applied wins; they are applied in ascending priority *)
Theorem C04_last_applied_wins : forall acts st l v,
  (l < length st)%nat ->
  (exists pre post, acts = pre ++ (l, v) :: post /\ forall a, In a post -> fst a <> l) ->
  nth l (run_actions acts st) false = v.
Proof. exact run_actions_last. Qed.

(* whole-run witnesses (evaluated on the executable scheduler model) *)
Definition mk (cs : list control) (rs : list rule) : cfg :=
  {| hyd_step := 3600; rule_step := 360; duration := 86400; start_clock := 0;
     controls := cs; rules := rs; init_status := [true] |}.
Definition first_closed (tr : option (list (Z * list bool))) : option Z :=
  match tr with
  | Some l => match filter (fun e => negb (nth 0 (snd e) true)) l with e :: _ => Some (fst e) | [] => None end
  | None => None
  end.
(* one control AT TIME 5000 s (off the hydraulic grid) closes the link at exactly 5000 s *)
Example C04_at_time_control_example :
  first_closed (run (mk [{| c_cond := CSim Req 5000 0; c_prio := 3; c_act := (0%nat, false) |}] [])) = Some 5000.
Proof. vm_compute. reflexivity. Qed.
(* ... and for EVERY instant, grid, duration and priority: through the whole presolve loop (rule instants in between included) a step is
   solved at exactly thr -- also off both grids -- with the commanded status; before it the statuses are the initial ones, after it
   the commanded one; D a multiple of the hydraulic step, 0 < thr <= D, the command changes the link *)
Theorem C04_at_time_control_exact : forall thr hs rs sc D l v st0 p, 0 < rs -> 0 < hs -> D mod hs = 0 -> 0 < thr <= D ->
  (l < length st0)%nat -> nth l st0 v <> v ->
  exists f tr s, steps f (g1 thr hs rs sc D l v st0 p) D (init_state (g1 thr hs rs sc D l v st0 p)) = Some (tr, s) /\
    In (thr, set_nth st0 l v) tr /\
    (forall e, In e tr -> (fst e < thr -> snd e = st0) /\ (thr <= fst e -> snd e = set_nth st0 l v)).
Proof. intros. apply at_time_control_exact; assumption. Qed.
(* one step of it, from any state of the run: cut at thr when thr lies in (prev, t], untouched otherwise *)
Theorem C04_at_time_fires_exactly : forall thr hs rs sc D l v st0 p prev t ri st, 0 < rs -> 0 < hs -> prev < thr <= t -> 0 <= thr -> 0 <= ri ->
  (l < length st)%nat -> nth l st v <> v ->
  exists ri', 0 <= ri' /\ one_step (g1 thr hs rs sc D l v st0 p) (false, prev, t, ri, st) =
     Some ((thr, set_nth st l v), (false, thr, thr + hs - (thr + hs) mod hs, ri', set_nth st l v)).
Proof. intros. apply at_time_fires_exactly; assumption. Qed.
Theorem C04_at_time_silent_otherwise : forall thr hs rs sc D l v st0 p first prev t ri st, 0 < rs -> 0 <= t -> 0 <= ri -> ~ (prev < thr <= t) ->
  exists ri', 0 <= ri' /\ one_step (g1 thr hs rs sc D l v st0 p) (first, prev, t, ri, st) = Some ((t, st), (false, t, t + hs - (t + hs) mod hs, ri', st)).
Proof. intros. apply at_time_silent_otherwise; assumption. Qed.
(* AT CLOCKTIME 6:00 AM (daily) closes the link at 43200 s instead of 21600 s *)
Theorem C04_clock_control_daily_refuted :
  first_closed (run (mk [{| c_cond := CClock Req 21600 true 0; c_prio := 3; c_act := (0%nat, false) |}] [])) = Some 43200.
Proof. vm_compute. reflexivity. Qed.
(* two AT TIME controls on one link at the same instant with different priorities, in either registration order, from any state of the run:
   after the step that contains the instant the link has the command of the HIGHER priority *)
Theorem C04_priority_wins_one_step : forall thr hs rs sc D l vlo vhi st0 plo phi lo_first prev t ri st,
  0 < rs -> plo < phi -> 0 < hs -> prev < thr <= t -> 0 <= thr -> 0 <= ri -> (l < length st)%nat ->
  exists t1 ri1, one_step (g3 thr hs rs sc D l vlo vhi st0 plo phi lo_first) (false, prev, t, ri, st) =
      Some ((t1, set_nth st l vhi), (false, t1, t1 + hs - (t1 + hs) mod hs, ri1, set_nth st l vhi))
    /\ nth l (set_nth st l vhi) (negb vhi) = vhi.
Proof. intros. apply priority_wins_one_step; assumption. Qed.
(* a WINDOW: "on" AT TIME ts and "off" AT TIME te (0 < ts < te) on one target, any grids, any run length, from an "off" start: at every
   solved step the target is on exactly when ts <= time < te, and steps are solved at exactly ts and at exactly te whenever the run gets
   that far -- also when both instants lie inside ONE hydraulic step (the case in which a scheduler that looks at each due control once
   would lose the second) *)
Theorem C04_window_exact : forall ts te hs rs sc D l st0 p f tr sf,
  0 < rs -> 0 < hs -> 0 < ts < te -> (l < length st0)%nat -> nth l st0 true = false ->
  steps f (gw ts te hs rs sc D l st0 p) D (init_state (gw ts te hs rs sc D l st0 p)) = Some (tr, sf) ->
  (forall e, In e tr -> nth l (snd e) false = active ts te (fst e) /\ snd e = set_nth st0 l (active ts te (fst e))) /\
  (ts <= s_prev sf -> In ts (map fst tr)) /\ (te <= s_prev sf -> In te (map fst tr)).
Proof. intros ts te hs rs sc D l st0 p f tr sf H1 H2 H3 H4 H5 H6. exact (window_exact ts te hs rs sc D l st0 p H1 H2 H3 H4 f tr sf H5 H6). Qed.
(* ... and the run exists and reaches the duration: total correctness for D a positive multiple of the hydraulic step *)
Theorem C04_window_total : forall ts te hs rs sc D l st0 p,
  0 < rs -> 0 < hs -> 0 < ts < te -> (l < length st0)%nat -> 0 < D -> D mod hs = 0 -> nth l st0 true = false ->
  exists f tr sf, steps f (gw ts te hs rs sc D l st0 p) D (init_state (gw ts te hs rs sc D l st0 p)) = Some (tr, sf) /\
    (forall e, In e tr -> nth l (snd e) false = active ts te (fst e)) /\
    (ts <= D -> In ts (map fst tr)) /\ (te <= D -> In te (map fst tr)) /\ In D (map fst tr).
Proof. intros ts te hs rs sc D l st0 p H1 H2 H3 H4 H5 H6 H7. exact (window_total ts te hs rs sc D l st0 p H1 H2 H3 H4 H5 H6 H7). Qed.
(* non-vacuity: both instants inside the first hydraulic step (3600 s): solved steps at 0, 1000, 2500, 3600, 7200 *)
Example C04_window_run :
  option_map (fun r => map fst (fst r)) (steps 20 (gw 1000 2500 3600 360 0 7200 0 [false] 3) 7200 (init_state (gw 1000 2500 3600 360 0 7200 0 [false] 3)))
  = Some [0; 1000; 2500; 3600; 7200].
Proof. vm_compute. reflexivity. Qed.
(* ANY NUMBER of AT TIME controls at pairwise distinct positive instants -- any targets (several controls may share one), values and
   priorities, any hydraulic and rule grids, no rules: `is_S T st` says that st has the length of the initial statuses and that every link
   shows the value of the control on it with the LATEST instant <= T, its initial value if there is none.  Every solved step of every run
   satisfies it at its own time; every control instant the run has passed is a solved step, unless the statuses required at that instant are
   those an already solved step (or the initial state) shows, i.e. the control commanded what its link already had; and for a duration that
   is a positive multiple of the hydraulic step such a run exists and ends at the duration.  (Induction through the two stable sorts -- as
   permutations, sortedness by backtrack and, with distinct instants, strictness --, the presolve loop over the sorted list with the rule
   instants interleaved, and the steps.) *)
Theorem C04_at_time_set_exact : forall cs hs rs sc D st0, 0 < rs -> 0 < hs -> (forall a, In a cs -> 0 < a_thr a) -> NoDup (map a_thr cs) ->
  forall D' f tr sf, steps f (gs cs hs rs sc D st0) D' (init_state (gs cs hs rs sc D st0)) = Some (tr, sf) ->
  (forall e, In e tr -> is_S cs st0 (fst e) (snd e)) /\
  (forall a, In a cs -> a_thr a <= s_prev sf ->
     In (a_thr a) (map fst tr) \/ exists st, (st = st0 \/ In st (map snd tr)) /\ is_S cs st0 (a_thr a) st).
Proof. intros cs hs rs sc D st0 H1 H2 H3 H4 D' f tr sf H. exact (at_time_set_exact cs hs rs sc D st0 H1 H2 H3 H4 D' f tr sf H). Qed.
Theorem C04_at_time_set_total : forall cs hs rs sc D st0, 0 < rs -> 0 < hs -> (forall a, In a cs -> 0 < a_thr a) -> NoDup (map a_thr cs) ->
  0 < D -> D mod hs = 0 ->
  exists f tr sf, steps f (gs cs hs rs sc D st0) D (init_state (gs cs hs rs sc D st0)) = Some (tr, sf) /\ s_prev sf = D /\
    (forall e, In e tr -> is_S cs st0 (fst e) (snd e)) /\
    (forall a, In a cs -> a_thr a <= D ->
       In (a_thr a) (map fst tr) \/ exists st, (st = st0 \/ In st (map snd tr)) /\ is_S cs st0 (a_thr a) st).
Proof. intros cs hs rs sc D st0 H1 H2 H3 H4 H5 H6. exact (at_time_set_total cs hs rs sc D st0 H1 H2 H3 H4 H5 H6). Qed.
(* non-vacuity: four controls on two links, three of them inside the first hydraulic step, one a no-op (link 1 is already open at 5000) *)
Example C04_at_time_set_run :
  let cs := [{| a_thr := 2500; a_prio := 3; a_link := 0%nat; a_val := true |}; {| a_thr := 1000; a_prio := 1; a_link := 0%nat; a_val := false |};
             {| a_thr := 1700; a_prio := 3; a_link := 1%nat; a_val := false |}; {| a_thr := 5000; a_prio := 3; a_link := 0%nat; a_val := true |}] in
  option_map fst (steps 20 (gs cs 3600 360 0 7200 [true; true]) 7200 (init_state (gs cs 3600 360 0 7200 [true; true])))
  = Some [(0, [true; true]); (1000, [false; true]); (1700, [false; false]); (2500, [true; false]); (3600, [true; false]); (7200, [true; false])].
Proof. vm_compute. reflexivity. Qed.

(* ... and with COINCIDING instants allowed: ANY list of AT TIME controls (tagged with their registration numbers, increasing), any
   targets, values, priorities and grids, no rules.  `is_W T st`: every link shows the value of the control on it that wins among those with
   instant <= T -- latest instant first, then highest priority, then last registered (lex3) -- or its initial value if there is none.  This is
   the complete semantics of simple time controls: same statements as above (every solved step, no changing instant stepped over, the run
   exists and ends at the duration).  The proof shows that the two stable sorts produce THE list sorted by (instant, priority,
   registration), splits it into groups of equal instants as run_same_backtrack does, and follows the presolve loop group by group. *)
Theorem C04_at_time_all_exact : forall cs hs rs sc D st0, 0 < rs -> 0 < hs -> (forall x, In x cs -> 0 < x_thr x) -> StronglySorted R_id cs ->
  forall D' f tr sf, steps f (ga cs hs rs sc D st0) D' (init_state (ga cs hs rs sc D st0)) = Some (tr, sf) ->
  (forall e, In e tr -> is_W cs st0 (fst e) (snd e)) /\
  (forall x, In x cs -> x_thr x <= s_prev sf ->
     In (x_thr x) (map fst tr) \/ exists st, (st = st0 \/ In st (map snd tr)) /\ is_W cs st0 (x_thr x) st).
Proof. intros cs hs rs sc D st0 H1 H2 H3 H4 D' f tr sf H. exact (at_time_all_exact cs hs rs sc D st0 H1 H2 H3 H4 D' f tr sf H). Qed.
Theorem C04_at_time_all_total : forall cs hs rs sc D st0, 0 < rs -> 0 < hs -> (forall x, In x cs -> 0 < x_thr x) -> StronglySorted R_id cs ->
  0 < D -> D mod hs = 0 ->
  exists f tr sf, steps f (ga cs hs rs sc D st0) D (init_state (ga cs hs rs sc D st0)) = Some (tr, sf) /\ s_prev sf = D /\
    (forall e, In e tr -> is_W cs st0 (fst e) (snd e)) /\
    (forall x, In x cs -> x_thr x <= D ->
       In (x_thr x) (map fst tr) \/ exists st, (st = st0 \/ In st (map snd tr)) /\ is_W cs st0 (x_thr x) st).
Proof. intros cs hs rs sc D st0 H1 H2 H3 H4 H5 H6. exact (at_time_all_total cs hs rs sc D st0 H1 H2 H3 H4 H5 H6). Qed.
(* non-vacuity: three controls on link 0 at the SAME instant 1000 (priorities 3, 5, 3: the priority-5 "close" wins although it is neither the
   first nor the last registered), then two of equal priority at 5000 (the later registered "close" wins) *)
Example C04_at_time_all_run :
  let c := fun th p v => {| a_thr := th; a_prio := p; a_link := 0%nat; a_val := v |} in
  let cs := [(0%nat, c 1000 3 true); (1%nat, c 1000 5 false); (2%nat, c 1000 3 true); (3%nat, c 5000 3 true); (4%nat, c 5000 3 false);
             (5%nat, c 3000 0 true)] in
  option_map fst (steps 20 (ga cs 3600 360 0 7200 [true]) 7200 (init_state (ga cs 3600 360 0 7200 [true])))
  = Some [(0, [true]); (1000, [false]); (3000, [true]); (3600, [true]); (5000, [false]); (7200, [false])].
Proof. vm_compute. reflexivity. Qed.

(* a rule IF SYSTEM TIME >= thr (thr > 0), for EVERY threshold, grid and duration: it acts at J * rule_step, the first multiple of the
   rule step that is >= thr (J = ceil(thr / rule_step)); a step is solved there -- also inside a hydraulic step --, nothing changes before
   and the value is kept after *)
Theorem C04_rule_ge_acts_at_first_instant : forall thr hs rs sc D l v st0 p, 0 < rs -> 0 < hs -> D mod hs = 0 -> 0 < thr ->
  J thr rs * rs <= D -> (l < length st0)%nat -> nth l st0 v <> v ->
  exists f tr s, steps f (g2 thr hs rs sc D l v st0 p) D (init_state (g2 thr hs rs sc D l v st0 p)) = Some (tr, s) /\
    In (J thr rs * rs, set_nth st0 l v) tr /\
    (forall e, In e tr -> (fst e < J thr rs * rs -> snd e = st0) /\ (J thr rs * rs <= fst e -> snd e = set_nth st0 l v)).
Proof. intros. apply rule_ge_acts_at_first_instant; assumption. Qed.
Theorem C04_rule_first_instant_spec : forall thr rs, 0 < rs -> (J thr rs - 1) * rs < thr <= J thr rs * rs.
Proof. intros. apply J_spec; assumption. Qed.
(* a rule is evaluated at t = 0, before the first hydraulic solution *)
Theorem C04_rules_on_positive_grid_refuted :
  first_closed (run (mk [] [{| r_cond := CSim Rge 0 0; r_prio := 3; r_then := [(0%nat, false)]; r_else := [] |}])) = Some 0.
Proof. vm_compute. reflexivity. Qed.

(* ANY set of rules IF SYSTEM TIME >= thr THEN link := v (thresholds > 0, any targets, values, priorities; no simple controls): `is_R K st` --
   every link shows the value of the rule on it that wins among those with threshold <= K (highest priority, then last registered), or its
   initial value.  Every solved step satisfies it for K = the last multiple of the rule step that is <= its time (rules are evaluated at the
   multiples of the rule step and nowhere else); every rule instant the run has passed is a solved step, unless the rules produce there the
   statuses an already solved step (or the initial state) shows; and the run exists and ends at the duration. *)
Theorem C04_rule_set_exact : forall cs hs rs sc D st0, 0 < rs -> 0 < hs -> (forall x, In x cs -> 0 < x_thr x) -> StronglySorted R_id cs ->
  forall D' f tr sf, steps f (gr cs hs rs sc D st0) D' (init_state (gr cs hs rs sc D st0)) = Some (tr, sf) ->
  (forall e, In e tr -> is_R cs st0 (fst e / rs * rs) (snd e)) /\
  (forall i, 0 <= i -> i * rs <= s_prev sf ->
     In (i * rs) (map fst tr) \/ exists st, (st = st0 \/ In st (map snd tr)) /\ is_R cs st0 (i * rs) st).
Proof. intros cs hs rs sc D st0 H1 H2 H3 H4 D' f tr sf H. exact (rule_set_exact cs hs rs sc D st0 H1 H2 H3 H4 D' f tr sf H). Qed.
Theorem C04_rule_set_total : forall cs hs rs sc D st0, 0 < rs -> 0 < hs -> (forall x, In x cs -> 0 < x_thr x) -> StronglySorted R_id cs ->
  0 < D -> D mod hs = 0 ->
  exists f tr sf, steps f (gr cs hs rs sc D st0) D (init_state (gr cs hs rs sc D st0)) = Some (tr, sf) /\ s_prev sf = D /\
    (forall e, In e tr -> is_R cs st0 (fst e / rs * rs) (snd e)) /\
    (forall i, 0 <= i -> i * rs <= D ->
       In (i * rs) (map fst tr) \/ exists st, (st = st0 \/ In st (map snd tr)) /\ is_R cs st0 (i * rs) st).
Proof. intros cs hs rs sc D st0 H1 H2 H3 H4 H5 H6. exact (rule_set_total cs hs rs sc D st0 H1 H2 H3 H4 H5 H6). Qed.
(* non-vacuity: rule step 900 s, hydraulic step 3600 s; a priority-1 "open" rule (thr 2000) is overridden from 2700 on by a priority-5
   "close" rule (thr 1000, acts at 1800) on link 0; on link 1 two rules of equal priority become true together at 4500: the later registered wins *)
Example C04_rule_set_run :
  let c := fun th p l v => {| a_thr := th; a_prio := p; a_link := l; a_val := v |} in
  let cs := [(0%nat, c 2000 1 0%nat true); (1%nat, c 1000 5 0%nat false); (2%nat, c 4000 3 1%nat true); (3%nat, c 4400 3 1%nat false)] in
  option_map fst (steps 20 (gr cs 3600 900 0 7200 [true; true]) 7200 (init_state (gr cs 3600 900 0 7200 [true; true])))
  = Some [(0, [true; true]); (1800, [false; true]); (3600, [false; true]); (4500, [false; false]); (7200, [false; false])].
Proof. vm_compute. reflexivity. Qed.

(* SIMPLE CONTROLS AND RULES TOGETHER: any list of AT TIME controls and any list of rules IF SYSTEM TIME >= thr THEN link := v (instants and
   thresholds > 0; coinciding instants, priorities and shared targets allowed).  `is_M T st` (C04/Mixed.v), link by link, with K the last
   multiple of the rule step <= T:  a control on the link with K <= instant <= T  ->  the winner among the controls reached (latest
   instant, priority, registration);  otherwise a rule on the link true at K  ->  the winner among the true rules (priority, registration;
   rules are re-applied at every rule instant and override older controls; at a coinciding instant the controls are applied after the
   rules);  otherwise the winner among the controls reached, or the initial status.
   Every solved step satisfies it at its own time, and at EVERY time T' up to the end of the run the specification gives the statuses of
   the latest solved step at or before T' (`status_at`): no instant at which anything changes is stepped over, whether on or off the
   hydraulic and rule grids.  The run exists and ends at the duration.  The proof follows the presolve loop through its three branches
   (controls first / rules and controls at one instant / rules first) over the list the two stable sorts produce. *)
Theorem C04_mixed_exact : forall cs rl hs rs sc D st0, 0 < rs -> 0 < hs -> (forall x, In x cs -> 0 < x_thr x) -> (forall x, In x rl -> 0 < x_thr x) ->
  StronglySorted R_id cs -> StronglySorted R_id rl ->
  forall D' f tr sf, steps f (gm cs rl hs rs sc D st0) D' (init_state (gm cs rl hs rs sc D st0)) = Some (tr, sf) ->
  (forall e, In e tr -> is_M cs rl rs st0 (fst e) (snd e)) /\
  (forall T', -1 <= T' <= s_prev sf -> is_M cs rl rs st0 T' (status_at st0 tr T')).
Proof. intros cs rl hs rs sc D st0 H1 H2 H3 H4 H5 H6 D' f tr sf H. exact (mixed_exact cs rl hs rs sc D st0 H1 H2 H3 H4 H5 H6 D' f tr sf H). Qed.
Theorem C04_mixed_total : forall cs rl hs rs sc D st0, 0 < rs -> 0 < hs -> (forall x, In x cs -> 0 < x_thr x) -> (forall x, In x rl -> 0 < x_thr x) ->
  StronglySorted R_id cs -> StronglySorted R_id rl -> 0 < D -> D mod hs = 0 ->
  exists f tr sf, steps f (gm cs rl hs rs sc D st0) D (init_state (gm cs rl hs rs sc D st0)) = Some (tr, sf) /\ s_prev sf = D /\
    (forall e, In e tr -> is_M cs rl rs st0 (fst e) (snd e)) /\
    (forall T', -1 <= T' <= D -> is_M cs rl rs st0 T' (status_at st0 tr T')).
Proof. intros cs rl hs rs sc D st0 H1 H2 H3 H4 H5 H6 H7 H8. exact (mixed_total cs rl hs rs sc D st0 H1 H2 H3 H4 H5 H6 H7 H8). Qed.
(* two readings of `is_M`: a link that no rule targets behaves as if there were no rules -- the latest control reached wins and keeps its
   value until a later control changes it --, and a link that no control targets shows the winning true rule *)
Theorem C04_mixed_link_without_rules : forall cs rl rs st0 T st l, is_M cs rl rs st0 T st -> (l < length st0)%nat -> (forall z, In z rl -> x_link z <> l) ->
  (exists x, cwin cs T l x /\ nth l st false = x_val x) \/ (cnone cs T l /\ nth l st false = nth l st0 false).
Proof. intros cs rl rs st0 T st l. exact (is_M_without_rules cs rl rs st0 T st l). Qed.
Theorem C04_mixed_link_without_controls : forall cs rl rs st0 T st l, is_M cs rl rs st0 T st -> (l < length st0)%nat -> (forall x, In x cs -> x_link x <> l) ->
  (exists z, rwin rl (KT rs T) l z /\ nth l st false = x_val z) \/ (rnone rl (KT rs T) l /\ nth l st false = nth l st0 false).
Proof. intros cs rl rs st0 T st l. exact (is_M_without_controls cs rl rs st0 T st l). Qed.
(* non-vacuity: rule step 900 s; a rule (thr 1500, acts at 1800) closes link 0; a control opens it at 2000; the rule closes it again at the next
   rule instant 2700; a control at exactly 3600 (a rule instant) opens it after the rules of that instant, the rules close it again at 4500 *)
Example C04_mixed_run :
  let c := fun th p l v => {| a_thr := th; a_prio := p; a_link := l; a_val := v |} in
  let cs := [(0%nat, c 2000 3 0%nat true); (1%nat, c 3600 3 0%nat true)] in
  let rl := [(0%nat, c 1500 3 0%nat false)] in
  option_map fst (steps 30 (gm cs rl 3600 900 0 7200 [true]) 7200 (init_state (gm cs rl 3600 900 0 7200 [true])))
  = Some [(0, [true]); (1800, [false]); (2000, [true]); (2700, [false]); (3600, [true]); (4500, [false]); (7200, [false])].
Proof. vm_compute. reflexivity. Qed.

(* a rule with a RANGE condition and an ELSE part: IF SYSTEM TIME >= a AND SYSTEM TIME < b THEN link := v ELSE link := not v (any a < b or
   not, any grids): at every solved step the statuses are the initial ones with the link set to v exactly when the last multiple of the rule
   step <= the time of the step lies in [a, b) -- the range condition is true exactly on the stated interval, as seen at the rule instants
   --, no rule instant at which the status changes is stepped over, and the run exists and ends at the duration *)
Theorem C04_rule_interval_exact : forall a b hs rs sc D l v st0 p, 0 < rs -> 0 < hs ->
  forall D' f tr sf, steps f (gi a b hs rs sc D l v st0 p) D' (init_state (gi a b hs rs sc D l v st0 p)) = Some (tr, sf) ->
  (forall e, In e tr -> snd e = set_nth st0 l (ival a b v (fst e / rs * rs))) /\
  (forall i, 0 <= i -> i * rs <= s_prev sf ->
     In (i * rs) (map fst tr) \/ exists st, (st = st0 \/ In st (map snd tr)) /\ st = set_nth st0 l (ival a b v (i * rs))).
Proof.
  intros a b hs rs sc D l v st0 p H1 H2 D' f tr sf H.
  destruct (rule_interval_exact a b hs rs sc D l v st0 p H1 H2 D' f tr sf H) as [Ha Hb].
  assert (Hpos : forall e, In e tr -> 0 <= fst e).
  { destruct (rint_steps a b hs rs sc D l v st0 p H1 H2 D' f _ _ _ (riinv_init a b hs rs sc D l v st0 p H1) H) as (_ & Hall & _).
    intros e He. destruct (Hall e He) as [_ Hr]. cbn [s_prev init_state] in Hr. lia. }
  split.
  - intros e He. destruct (Ha e He) as [[Hneg _]|[_ E]]; [|exact E]. exfalso. specialize (Hpos e He).
    assert (0 <= fst e / rs * rs); [|lia]. assert (0 <= fst e / rs) by (apply Z.div_pos; lia). nia.
  - intros i Hi Hle. destruct (Hb i Hi Hle) as [Hin|(st & Hst & [[Hneg _]|[_ E]])]; [left; exact Hin|exfalso; nia|right; exists st; split; assumption].
Qed.
Theorem C04_rule_interval_total : forall a b hs rs sc D l v st0 p, 0 < rs -> 0 < hs -> 0 < D -> D mod hs = 0 ->
  exists f tr sf, steps f (gi a b hs rs sc D l v st0 p) D (init_state (gi a b hs rs sc D l v st0 p)) = Some (tr, sf) /\ s_prev sf = D.
Proof.
  intros a b hs rs sc D l v st0 p H1 H2 H3 H4. destruct (rule_interval_total a b hs rs sc D l v st0 p H1 H2 H3 H4) as (f & tr & sf & E & Hend & _).
  exists f, tr, sf. split; assumption.
Qed.
(* non-vacuity: range [2000, 5000), rule step 900 s: open from the rule instant 2700 until the rule instant 5400 (closed by the ELSE part from time 0) *)
Example C04_rule_interval_run :
  option_map fst (steps 30 (gi 2000 5000 3600 900 0 7200 0 true [true] 3) 7200 (init_state (gi 2000 5000 3600 900 0 7200 0 true [true] 3)))
  = Some [(0, [false]); (2700, [true]); (3600, [true]); (5400, [false]); (7200, [false])].
Proof. vm_compute. reflexivity. Qed.

Print Assumptions C04_simtime_eq_fires_iff.
Print Assumptions C04_simtime_le_exact_partial.
Print Assumptions C04_clock_eq_daily_refuted.
Print Assumptions C04_last_applied_wins.
Print Assumptions C04_at_time_control_exact.
Print Assumptions C04_rule_ge_acts_at_first_instant.
Print Assumptions C04_priority_wins_one_step.
Print Assumptions C04_window_exact.
Print Assumptions C04_window_total.
Print Assumptions C04_at_time_set_exact.
Print Assumptions C04_at_time_set_total.
Print Assumptions C04_at_time_all_exact.
Print Assumptions C04_at_time_all_total.
Print Assumptions C04_rule_set_exact.
Print Assumptions C04_rule_set_total.
Print Assumptions C04_mixed_exact.
Print Assumptions C04_mixed_total.
Print Assumptions C04_mixed_link_without_rules.
Print Assumptions C04_mixed_link_without_controls.
Print Assumptions C04_rule_interval_exact.
Print Assumptions C04_rule_interval_total.
Print Assumptions C04_at_time_fires_exactly.
Print Assumptions C04_at_time_silent_otherwise.
Print Assumptions C04_clock_control_daily_refuted.
Print Assumptions C04_rules_on_positive_grid_refuted.
