(* C04 -- property theorems only. `_refuted` theorems are facts about the faithful model of the CURRENT code
   (the correspondence check replays their witnesses on the implementation); see known_findings.json. *)
From Coq Require Import ZArith List Bool.
From WNTRV Require Import Lib.Sched C04.Proofs.
Import ListNotations.
Local Open Scope Z_scope.

(* AT TIME t: true exactly in the step (prev, cur] that contains t, and the step is cut back to t *)
Theorem C04_simtime_eq_fires_iff : forall thr cur prev b,
  eval_sim Req thr 0 cur prev = (true, b) <-> (prev < thr <= cur /\ b = cur - thr).
Proof. exact simtime_eq_fires_iff. Qed.
Theorem C04_simtime_eq_fires_once : forall thr cur prev cur',
  fst (eval_sim Req thr 0 cur prev) = true -> cur <= cur' -> fst (eval_sim Req thr 0 cur' cur) = false.
Proof. exact simtime_eq_not_twice. Qed.
(* sim-time range conditions *)
Theorem C04_simtime_gt_exact : forall thr cur prev, fst (eval_sim Rgt thr 0 cur prev) = true <-> thr < cur.
Proof. exact simtime_gt_exact. Qed.
Theorem C04_simtime_ge_exact : forall thr cur prev, fst (eval_sim Rge thr 0 cur prev) = true <-> thr <= cur.
Proof. exact simtime_ge_exact. Qed.
Theorem C04_simtime_lt_exact : forall thr cur prev, fst (eval_sim Rlt thr 0 cur prev) = true <-> cur < thr.
Proof. exact simtime_lt_exact. Qed.
Theorem C04_simtime_le_exact_partial : forall thr cur prev,
  ~ (prev < thr < cur) -> (fst (eval_sim Rle thr 0 cur prev) = true <-> cur <= thr).
Proof. exact simtime_le_exact_partial. Qed.
Theorem C04_simtime_le_exact_refuted : exists thr cur prev, fst (eval_sim Rle thr 0 cur prev) = true /\ ~ cur <= thr.
Proof. exact simtime_le_exact_refuted. Qed.
(* clock-time conditions *)
Theorem C04_clock_eq_once_fires_iff : forall thr cur prev b,
  0 <= cur -> 0 <= thr -> eval_clock Req thr false 0 0 cur prev = (true, b) <-> (prev < thr <= cur /\ b = cur - thr).
Proof. exact clock_eq_once_fires_iff. Qed.
Theorem C04_clock_eq_daily_refuted :
  exists thr sc prev cur, fst (eval_clock Req thr true 0 sc cur prev) = true /\ ~ clock_instant_in thr sc prev cur.
Proof. exact clock_eq_daily_refuted. Qed.
Theorem C04_clock_eq_daily_misses_refuted :
  exists thr sc prev cur, clock_instant_in thr sc prev cur /\ fst (eval_clock Req thr true 0 sc cur prev) = false.
Proof. exact clock_eq_daily_misses. Qed.
Theorem C04_clock_before_never_true_refuted : forall thr rep fd sc cur prev,
  fst (eval_clock Rlt thr rep fd sc cur prev) = false.
Proof. exact clock_lt_never. Qed.
(* several controls on one target at one instant: the last applied wins; they are applied in ascending priority *)
Theorem C04_last_applied_wins : forall acts st l v,
  (l < length st)%nat ->
  (exists pre post, acts = pre ++ (l, v) :: post /\ forall a, In a post -> fst a <> l) ->
  nth l (run_actions acts st) false = v.
Proof. exact run_actions_last. Qed.

(* whole-run witnesses (evaluated on the executable scheduler model) *)
Definition mk (cs : list control) (rs : list rule) : cfg :=
  {| hyd_step := 3600; rule_step := 360; duration := 86400; start_clock := 0;
     controls := cs; rules := rs; init_status := [true] |}.
Definition first_closed (tr : option (list (Z * list bool))) : option Z :=
  match tr with
  | Some l => match filter (fun e => negb (nth 0 (snd e) true)) l with e :: _ => Some (fst e) | [] => None end
  | None => None
  end.
(* one control AT TIME 5000 s (off the hydraulic grid) closes the link at exactly 5000 s *)
Example C04_at_time_control_example :
  first_closed (run (mk [{| c_cond := CSim Req 5000 0; c_prio := 3; c_act := (0%nat, false) |}] [])) = Some 5000.
Proof. vm_compute. reflexivity. Qed.
(* AT CLOCKTIME 6:00 AM (daily) closes the link at 43200 s instead of 21600 s *)
Theorem C04_clock_control_daily_refuted :
  first_closed (run (mk [{| c_cond := CClock Req 21600 true 0; c_prio := 3; c_act := (0%nat, false) |}] [])) = Some 43200.
Proof. vm_compute. reflexivity. Qed.
(* a rule is evaluated at t = 0, before the first hydraulic solution *)
Theorem C04_rules_on_positive_grid_refuted :
  first_closed (run (mk [] [{| r_cond := CSim Rge 0 0; r_prio := 3; r_then := [(0%nat, false)]; r_else := [] |}])) = Some 0.
Proof. vm_compute. reflexivity. Qed.

Print Assumptions C04_simtime_eq_fires_iff.
Print Assumptions C04_simtime_le_exact_partial.
Print Assumptions C04_clock_eq_daily_refuted.
Print Assumptions C04_last_applied_wins.
Print Assumptions C04_clock_control_daily_refuted.
Print Assumptions C04_rules_on_positive_grid_refuted.
