(* C04 -- ANY set of rules IF SYSTEM TIME >= thr THEN link := v (any thresholds > 0, targets, values, priorities; no simple controls)
   through the rule loop and the whole run: at every solved step every link has the value of the rule on it that wins -- highest priority,
   then last registered -- among those whose threshold is <= the last multiple of the rule step that is <= the time of the step, or its
   initial value; and no rule instant at which the rules change a status is stepped over. *)
From Coq Require Import ZArith List Bool Lia Sorted Permutation.
From WNTRV Require Import Lib.Sched C04.AtTime C04.Window C10.Invariant C04.AtTimeSet C04.AtTimeAll.
Import ListNotations.
Local Open Scope Z_scope.

Definition rule_of (x : atci) : rule := {| r_cond := CSim Rge (x_thr x) 0; r_prio := x_prio x; r_then := [x_act x]; r_else := [] |}.
Definition frule (x : atci) : rule * bool := (rule_of x, true).

Lemma check_rules_ge sc t' prev : forall l, check_rules sc t' prev (map rule_of l) = map frule (filter (fun x => x_thr x <=? t') l).
Proof.
  unfold check_rules. induction l as [|x r IH]; [reflexivity|]. cbn [map flat_map filter]. rewrite IH.
  cbn [rule_of r_cond eval_cond r_else]. unfold eval_sim. cbn [Z.ltb andb]. simpl.
  destruct (x_thr x <=? t'); [destruct (prev <? x_thr x)|]; reflexivity.
Qed.
Lemma fold_rules S : forall st,
  fold_left (fun (s : list bool) (rw : rule * bool) => run_actions (if snd rw then r_then (fst rw) else r_else (fst rw)) s) (map frule S) st
  = run_actions (map x_act S) st.
Proof. induction S as [|x r IH]; intro st; [reflexivity|]. cbn [map fold_left frule snd fst rule_of r_then]. rewrite IH. reflexivity. Qed.

Section RuleSet.
Variables (cs : list atci) (hs rs sc D : Z) (st0 : list bool).
Definition gr : cfg := {| hyd_step := hs; rule_step := rs; duration := D; start_clock := sc; controls := []; rules := map rule_of cs; init_status := st0 |}.
Hypothesis Hrs : 0 < rs.
Hypothesis Hhs : 0 < hs.
Hypothesis Hpos : forall x, In x cs -> 0 < x_thr x.
Hypothesis Hids : StronglySorted R_id cs.

Definition true_at (K : Z) : list atci := sort_stable (lek x_prio) (filter (fun x => x_thr x <=? K) cs).
Lemma run_rules_gr t' prev st : run_rules sc t' prev (rules gr) st = run_actions (map x_act (true_at t')) st.
Proof.
  unfold run_rules. simpl rules. rewrite check_rules_ge.
  rewrite (sort_map frule (lek x_prio) _ (fun x y => eq_refl)). apply fold_rules.
Qed.
Lemma true_at_in K x : In x (true_at K) <-> In x cs /\ x_thr x <= K.
Proof. unfold true_at. rewrite sort_in, filter_In, Z.leb_le. tauto. Qed.
Lemma true_at_sorted K : StronglySorted lexPI (true_at K).
Proof. unfold true_at, lexPI. apply sort_lex. apply sorted_filter. exact Hids. Qed.

(* the statuses once the rules have been evaluated at rule instant K *)
Definition is_R (K : Z) (st : list bool) : Prop :=
  length st = length st0 /\
  forall l, (l < length st0)%nat ->
    (exists x, In x cs /\ x_thr x <= K /\ x_link x = l /\ (forall y, In y cs -> x_thr y <= K -> x_link y = l -> y = x \/ lexPI y x) /\ nth l st false = x_val x)
    \/ ((forall y, In y cs -> x_thr y <= K -> x_link y <> l) /\ nth l st false = nth l st0 false).

Lemma rules_apply K' K st : K' <= K -> is_R K' st -> is_R K (run_actions (map x_act (true_at K)) st).
Proof.
  intros HK [Hlen H]. split; [rewrite ra_length; exact Hlen|]. intros l Hl.
  pose proof (true_at_sorted K) as Hs. set (G := true_at K) in *.
  destruct (existsb (fun y => Nat.eqb (x_link y) l) G) eqn:E.
  - apply existsb_exists in E. destruct E as (y0 & Hy0 & Ey0). apply Nat.eqb_eq in Ey0.
    destruct (last_target G l (ex_intro _ y0 (conj Hy0 Ey0))) as (G1 & x & G2 & EG & Hlx & HG2').
    assert (HxG : In x G) by (rewrite EG; apply in_or_app; right; left; reflexivity).
    destruct (proj1 (true_at_in K x) HxG) as [Hxcs Hxt].
    left. exists x. split; [exact Hxcs|]. split; [exact Hxt|]. split; [exact Hlx|]. split.
    + intros y Hy Hty Hly. assert (HyG : In y G) by (apply true_at_in; tauto). rewrite EG in HyG. apply in_app_or in HyG. destruct HyG as [HyG|[<-|HyG]].
      * right. rewrite EG in Hs. exact (sorted_app_mid lexPI G1 x G2 Hs y HyG).
      * left. reflexivity.
      * exfalso. exact (HG2' y HyG Hly).
    + rewrite EG, map_app. cbn [map]. unfold x_act at 2. rewrite Hlx. apply ra_last; [rewrite Hlen; exact Hl|].
      intros a Ha. apply in_map_iff in Ha. destruct Ha as (y & <- & Hy). cbn [x_act fst]. exact (HG2' y Hy).
  - assert (Hnone : forall y, In y cs -> x_thr y <= K -> x_link y <> l).
    { intros y Hy Hty Ey. assert (existsb (fun y => Nat.eqb (x_link y) l) G = true); [|congruence]. apply existsb_exists. exists y.
      split; [apply true_at_in; tauto|apply Nat.eqb_eq; exact Ey]. }
    rewrite ra_untouched by (intros a Ha; apply in_map_iff in Ha; destruct Ha as (y & <- & Hy); cbn [x_act fst]; apply true_at_in in Hy; apply Hnone; tauto).
    right. split; [exact Hnone|]. destruct (H l Hl) as [(x & Hx & Htx & Hlx & _ & _)|[_ Hv]]; [|exact Hv].
    exfalso. exact (Hnone x Hx ltac:(lia) Hlx).
Qed.

(* ---- the rule loop (no simple controls) ---- *)
Lemma loop_rules prev t st : forall fuel ri, 0 <= ri -> (Z.to_nat (t / rs + 1 - ri) < fuel)%nat -> is_R ((ri - 1) * rs) st ->
  exists t1 ri' st1, presolve_loop fuel gr prev st [] 0 t ri st = Some (t1, ri', st1) /\
    ((exists j, ri <= j /\ j * rs <= t /\ t1 = j * rs /\ ri' = j + 1 /\ st1 <> st /\ is_R (j * rs) st1 /\ (forall i, ri <= i < j -> is_R (i * rs) st))
     \/ (t1 = t /\ st1 = st /\ ri <= ri' /\ t < ri' * rs /\ (ri' = ri \/ (ri' - 1) * rs <= t) /\ is_R ((ri' - 1) * rs) st /\ (forall i, ri <= i < ri' -> is_R (i * rs) st))).
Proof.
  induction fuel as [|fuel IH]; intros ri Hri Hf HR; [lia|].
  cbn [presolve_loop]. cbn [length Nat.ltb Nat.leb negb andb skipn]. simpl rule_step. simpl start_clock.
  destruct (Z.leb_spec (ri * rs) t) as [Hle|Hgt]; cbn [negb andb].
  2:{ exists t, ri, st. split; [reflexivity|]. right. split; [reflexivity|]. split; [reflexivity|]. split; [lia|]. split; [lia|]. split; [left; reflexivity|]. split; [exact HR|]. intros i Hi. lia. }
  rewrite run_rules_gr.
  pose proof (rules_apply ((ri - 1) * rs) (ri * rs) st ltac:(nia) HR) as HR1.
  destruct (list_beq (run_actions (map x_act (true_at (ri * rs))) st) st) eqn:Eb; cbn [negb].
  - apply list_beq_eq in Eb. rewrite Eb in HR1 |- *.
    assert (Hq : ri <= t / rs) by (apply Z.div_le_lower_bound; lia).
    assert (Hm : (Z.to_nat (t / rs + 1 - (ri + 1)) < fuel)%nat) by (clear - Hf Hq Hri; lia).
    replace (ri * rs) with ((ri + 1 - 1) * rs) in HR1 by lia.
    destruct (IH (ri + 1) ltac:(lia) Hm HR1) as (t1 & ri' & st1 & E & Hres). exists t1, ri', st1. split; [exact E|].
    destruct Hres as [(j & H1 & H2 & H3 & H4 & H5 & H6 & H7)|(H1 & H2 & H3 & H4 & H5 & H6 & H7)].
    + left. exists j. split; [lia|]. split; [lia|]. split; [exact H3|]. split; [exact H4|]. split; [exact H5|]. split; [exact H6|]. intros i Hi. destruct (Z.eq_dec i ri) as [->|Hne]; [replace (ri * rs) with ((ri + 1 - 1) * rs) by lia; exact HR1|apply H7; lia].
    + right. split; [exact H1|]. split; [exact H2|]. split; [lia|]. split; [exact H4|]. split; [right; destruct H5 as [->|H5]; lia|]. split; [exact H6|].
      intros i Hi. destruct (Z.eq_dec i ri) as [->|Hne]; [replace (ri * rs) with ((ri + 1 - 1) * rs) by lia; exact HR1|apply H7; lia].
  - exists (ri * rs), (ri + 1), (run_actions (map x_act (true_at (ri * rs))) st). split; [reflexivity|]. left. exists ri.
    split; [lia|]. split; [lia|]. split; [reflexivity|]. split; [reflexivity|]. split; [intro Eq; rewrite Eq, list_beq_refl in Eb; discriminate|]. split; [exact HR1|].
    intros i Hi. lia.
Qed.
(* ---- one solved step and the whole run ---- *)
Definition rinv (s : sstate) : Prop :=
  match s with (first, prev, t, ri, st) =>
    0 <= ri /\ -1 <= prev < t /\ 0 <= t /\ (first = true -> prev = -1 /\ t = 0 /\ ri = 0) /\ (first = false -> (ri - 1) * rs <= prev < ri * rs) /\ is_R ((ri - 1) * rs) st end.

Lemma div_tight a k : (k - 1) * rs <= a < k * rs -> a / rs = k - 1.
Proof. intro H. symmetry. apply (Z.div_unique a rs (k - 1) (a - (k - 1) * rs)); lia. Qed.

Lemma rule_one_step s : rinv s ->
  exists e s', one_step gr s = Some (e, s') /\ rinv s' /\ s_prev s' = fst e /\ s_stA s' = snd e /\ s_prev s < fst e <= st_time s /\
    is_R (fst e / rs * rs) (snd e) /\ (forall i, s_prev s < i * rs < fst e -> is_R (i * rs) (s_stA s)) /\
    st_time s' = fst e + hs - (fst e + hs) mod hs.
Proof.
  destruct s as [[[[first prev] t] ri] st]. intros (Hri & Hp & Ht & Hfirst & Htight & HR).
  assert (Hf : (Z.to_nat (t / rs + 1 - ri) < S (length (controls gr)) + Z.to_nat (t / rs) + 4)%nat).
  { assert (0 <= t / rs) by (apply Z.div_pos; lia). simpl controls. cbn [length]. lia. }
  destruct (loop_rules prev t st _ ri Hri Hf HR) as (t1 & ri' & st1 & E & Hres).
  assert (EP : presolve (S (length (controls gr)) + Z.to_nat (t / rs) + 4) gr first prev t ri st = Some (t1, ri', st1)).
  { unfold presolve. simpl controls. unfold check_controls. cbn [flat_map]. unfold sort_stable. cbn [fold_left map]. destruct first; exact E. }
  unfold one_step. simpl rule_step. rewrite EP. simpl hyd_step.
  pose proof (Z.mod_pos_bound (t1 + hs) hs Hhs) as Hm.
  eexists; eexists; split; [reflexivity|]. cbn [fst snd s_prev s_stA st_time].
  assert (Hlow : forall i, prev < i * rs -> ri <= i).
  { intros i Hi. destruct first; [destruct (Hfirst eq_refl) as (-> & _ & ->); nia|]. specialize (Htight eq_refl). nia. }
  destruct Hres as [(j & H1 & H2 & -> & -> & H5 & H6 & H7)|(-> & -> & H3 & H4 & H5 & H6 & H7)].
  - assert (Hpj : prev < j * rs). { destruct first; [destruct (Hfirst eq_refl) as (-> & _ & ->); nia|]. specialize (Htight eq_refl). nia. }
    split; [unfold rinv; split; [lia|]; split; [lia|]; split; [nia|]; split; [discriminate|]; split; [intros _; nia|]; replace (j + 1 - 1) with j by lia; exact H6|].
    split; [reflexivity|]. split; [reflexivity|]. split; [lia|]. split; [rewrite Z.div_mul by lia; exact H6|]. split; [|reflexivity].
    intros i Hi. apply H7. split; [apply Hlow; lia|nia].
  - assert (Hlo : (ri' - 1) * rs <= t).
    { destruct H5 as [->|H5]; [|exact H5]. destruct first; [destruct (Hfirst eq_refl) as (-> & -> & ->); lia|]. specialize (Htight eq_refl). lia. }
    split; [unfold rinv; split; [lia|]; split; [lia|]; split; [lia|]; split; [discriminate|]; split; [intros _; lia|exact H6]|].
    split; [reflexivity|]. split; [reflexivity|]. split; [lia|]. split; [rewrite (div_tight t ri') by lia; exact H6|]. split; [|reflexivity].
    intros i Hi. apply H7. split; [apply Hlow; lia|nia].
Qed.

Theorem rule_steps D' : forall f s tr sf, rinv s -> steps f gr D' s = Some (tr, sf) ->
  rinv sf /\ (forall e, In e tr -> is_R (fst e / rs * rs) (snd e) /\ s_prev s < fst e <= s_prev sf) /\
  (forall i, s_prev s < i * rs <= s_prev sf ->
     In (i * rs) (map fst tr) \/ exists st, (st = s_stA s \/ In st (map snd tr)) /\ is_R (i * rs) st).
Proof.
  induction f as [|f IH]; intros s tr sf Hinv H; cbn [steps] in H; [discriminate|].
  destruct (rule_one_step s Hinv) as (e & s' & E & Hinv' & Hp' & Hst' & Hrange & HSe & Hskip & _).
  rewrite E in H. destruct (D' <? st_time s').
  - injection H as <- <-. split; [exact Hinv'|]. rewrite Hp'. split.
    + intros e0 [<-|[]]. split; [exact HSe|lia].
    + intros i Hw. destruct (Z.eq_dec (i * rs) (fst e)) as [Ee|Ne]; [left; left; symmetry; exact Ee|].
      right. exists (s_stA s). split; [left; reflexivity|]. apply Hskip. lia.
  - destruct (steps f gr D' s') as [[tr' sf']|] eqn:Es; [|discriminate]. injection H as <- <-.
    destruct (IH _ _ _ Hinv' Es) as (Hsf & Hall & Hcov). rewrite Hp' in Hall, Hcov. split; [exact Hsf|].
    assert (Hmono : fst e <= s_prev sf').
    { destruct tr' as [|e0 r0]; [destruct f; cbn [steps] in Es; [discriminate|]; destruct (one_step gr s') as [[? ?]|]; [|discriminate];
        destruct (D' <? _); [discriminate|]; destruct (steps f gr D' _) as [[? ?]|]; discriminate|].
      destruct (Hall e0 (or_introl eq_refl)). lia. }
    split.
    + intros e0 [<-|He]; [split; [exact HSe|lia]|]. destruct (Hall e0 He). split; [assumption|lia].
    + intros i Hw. cbn [map]. destruct (Z_lt_le_dec (i * rs) (fst e)) as [Hlt|Hge].
      * right. exists (s_stA s). split; [left; reflexivity|]. apply Hskip. lia.
      * destruct (Z.eq_dec (i * rs) (fst e)) as [Ee|Ne]; [left; left; symmetry; exact Ee|].
        destruct (Hcov i ltac:(lia)) as [Hin|(st & [->|Hin] & HSt)].
        -- left. right. exact Hin.
        -- right. exists (snd e). split; [right; left; reflexivity|]. rewrite <- Hst'. exact HSt.
        -- right. exists st. split; [right; right; exact Hin|exact HSt].
Qed.

Lemma rinv_init : rinv (init_state gr).
Proof.
  unfold init_state, rinv. simpl init_status. split; [lia|]. split; [lia|]. split; [lia|]. split; [intros _; repeat split; reflexivity|].
  split; [discriminate|]. split; [reflexivity|]. intros l Hl. right. split; [|reflexivity]. intros y Hy Hty. specialize (Hpos y Hy). nia.
Qed.

(* every solved step shows, link by link, the command of the winning rule among those true at the last rule instant; every rule instant the
   run has passed is a solved step unless the statuses the rules produce there are those an already solved step (or the initial state) shows *)
Theorem rule_set_exact D' f tr sf : steps f gr D' (init_state gr) = Some (tr, sf) ->
  (forall e, In e tr -> is_R (fst e / rs * rs) (snd e)) /\
  (forall i, 0 <= i -> i * rs <= s_prev sf ->
     In (i * rs) (map fst tr) \/ exists st, (st = st0 \/ In st (map snd tr)) /\ is_R (i * rs) st).
Proof.
  intro H. destruct (rule_steps D' f _ _ _ rinv_init H) as (_ & Hall & Hcov). cbn [s_prev s_stA init_state] in *. split.
  - intros e He. exact (proj1 (Hall e He)).
  - intros i Hi Hle. apply Hcov. nia.
Qed.

Lemma rule_progress : D mod hs = 0 -> forall n s, rinv s -> st_time s mod hs = 0 -> st_time s <= D ->
  (Z.to_nat (D - s_prev s) < n)%nat -> exists tr sf, steps n gr D s = Some (tr, sf) /\ s_prev sf = D.
Proof.
  intros HD. induction n as [|n IH]; intros s Hinv Hg HtD Hn; [lia|].
  destruct (rule_one_step s Hinv) as (e & s' & E & Hinv' & Hp' & _ & Hrange & _ & _ & Hnext).
  cbn [steps]. rewrite E.
  pose proof (Z.mod_pos_bound (fst e + hs) hs Hhs) as Hm.
  destruct (Z.ltb_spec D (st_time s')) as [Hd|Hd].
  - eexists; eexists; split; [reflexivity|]. rewrite Hp'. rewrite Hnext in Hd.
    destruct (Z.eq_dec (fst e) (st_time s)) as [Ee|Hne].
    + rewrite Ee in *. set (t := st_time s) in *.
      pose proof (Z.div_mod t hs ltac:(lia)) as Et. rewrite Hg in Et. pose proof (Z.div_mod D hs ltac:(lia)) as Ed. rewrite HD in Ed.
      assert (En : t + hs - (t + hs) mod hs = t + hs).
      { rewrite Z.add_mod by lia. rewrite Hg, Z.mod_same by lia. simpl. rewrite Z.mod_0_l by lia. lia. }
      rewrite En in Hd. assert (t / hs <= D / hs) by nia. assert (D / hs < t / hs + 1) by nia. nia.
    + pose proof (grid_next_le hs (fst e) (st_time s) Hhs Hg ltac:(lia)). lia.
  - destruct (IH s' Hinv') as (tr' & sf' & Es & Hend).
    + rewrite Hnext. apply grid_next_mod. exact Hhs.
    + exact Hd.
    + rewrite Hp'. destruct s as [[[[? prev] ?] ?] ?]. cbn [s_prev st_time] in *. lia.
    + rewrite Es. eexists; eexists; split; [reflexivity|exact Hend].
Qed.
Theorem rule_set_total : 0 < D -> D mod hs = 0 ->
  exists f tr sf, steps f gr D (init_state gr) = Some (tr, sf) /\ s_prev sf = D /\
    (forall e, In e tr -> is_R (fst e / rs * rs) (snd e)) /\
    (forall i, 0 <= i -> i * rs <= D ->
       In (i * rs) (map fst tr) \/ exists st, (st = st0 \/ In st (map snd tr)) /\ is_R (i * rs) st).
Proof.
  intros HD Hmod.
  destruct (rule_progress Hmod (S (Z.to_nat (D + 1))) (init_state gr) rinv_init) as (tr & sf & Es & Hend);
    [apply Z.mod_0_l; lia|cbn [st_time init_state]; lia|cbn [s_prev init_state]; lia|].
  exists (S (Z.to_nat (D + 1))), tr, sf. split; [exact Es|]. split; [exact Hend|].
  destruct (rule_set_exact D _ _ _ Es) as [Ha Hb]. rewrite Hend in Hb. split; assumption.
Qed.
End RuleSet.
