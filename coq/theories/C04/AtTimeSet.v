(* C04 -- ANY number of AT TIME controls at pairwise distinct instants (any targets, values, priorities), no rules, through the whole
   presolve loop and the whole run: at every solved step every link has the value commanded by the LATEST control on it whose instant has
   been reached (its initial value if there is none), and no instant at which a control changes a status is stepped over. *)
From Coq Require Import ZArith List Bool Lia Sorted Permutation.
From WNTRV Require Import Lib.Sched C04.AtTime C04.Window C10.Invariant.
Import ListNotations.
Local Open Scope Z_scope.

(* ---- generic facts ---- *)
Lemma list_beq_eq : forall a b, list_beq a b = true -> a = b.
Proof.
  induction a as [|x r IH]; intros [|y s] H; simpl in H; try discriminate; [reflexivity|].
  apply andb_true_iff in H. destruct H as [H1 H2]. apply eqb_prop in H1. rewrite (IH _ H2), H1. reflexivity.
Qed.
Section SortPerm.
  Context {A : Type} (le : A -> A -> bool).
  Lemma insert_perm x l : Permutation (insert_stable le x l) (x :: l).
  Proof.
    induction l as [|y r IH]; simpl; [apply Permutation_refl|]. destruct (le y x); [|apply Permutation_refl].
    eapply Permutation_trans; [apply perm_skip; exact IH|apply perm_swap].
  Qed.
  Lemma sort_perm_aux l : forall acc, Permutation (fold_left (fun acc x => insert_stable le x acc) l acc) (l ++ acc).
  Proof.
    induction l as [|x l IH]; intro acc; simpl; [apply Permutation_refl|].
    eapply Permutation_trans; [apply IH|]. eapply Permutation_trans; [apply Permutation_app_head; apply insert_perm|].
    apply Permutation_sym. apply Permutation_middle.
  Qed.
  Lemma sort_perm l : Permutation (sort_stable le l) l.
  Proof. unfold sort_stable. eapply Permutation_trans; [apply sort_perm_aux|]. rewrite app_nil_r. apply Permutation_refl. Qed.
End SortPerm.

Lemma skipn_cons_tail {A} (L : list A) : forall cnt x r, skipn cnt L = x :: r -> skipn (S cnt) L = r.
Proof. induction L as [|y L IH]; intros [|cnt] x r H; simpl in *; try discriminate; [injection H as _ <-; reflexivity|]. apply (IH cnt x r H). Qed.
Lemma skipn_nil_len {A} (L : list A) : forall cnt, skipn cnt L = [] -> (length L <= cnt)%nat.
Proof. induction L as [|y L IH]; intros [|cnt] H; simpl in *; try discriminate; try lia. specialize (IH cnt H). lia. Qed.
Lemma skipn_cons_len {A} (L : list A) : forall cnt x r, skipn cnt L = x :: r -> (cnt < length L)%nat.
Proof. induction L as [|y L IH]; intros [|cnt] x r H; simpl in *; try discriminate; try lia. specialize (IH cnt x r H). lia. Qed.

(* strictly descending backtracks *)
Definition sdesc (a b : control * Z) : Prop := snd b < snd a.
Lemma sorted_strict (l : list (control * Z)) : StronglySorted desc l -> NoDup (map snd l) -> StronglySorted sdesc l.
Proof.
  induction l as [|x r IH]; intros Hs Hn; [constructor|]. inversion Hs as [|? ? Hr Hx]; subst. simpl in Hn. inversion Hn as [|? ? Hni Hnr]; subst.
  constructor; [apply IH; assumption|]. rewrite Forall_forall in *. intros y Hy. specialize (Hx y Hy). unfold desc in Hx. unfold sdesc.
  assert (snd y <> snd x); [|lia]. intro E. apply Hni. rewrite <- E. apply in_map. exact Hy.
Qed.
Lemma sdesc_skipn n (l : list (control * Z)) : StronglySorted sdesc l -> StronglySorted sdesc (skipn n l).
Proof.
  revert l; induction n as [|n IH]; intros l Hs; simpl; [exact Hs|]. destruct l as [|x r]; [constructor|].
  inversion Hs; subst. apply IH; assumption.
Qed.

Lemma grid_next_mod hs t1 : 0 < hs -> (t1 + hs - (t1 + hs) mod hs) mod hs = 0.
Proof. intro Hhs. rewrite Zminus_mod, Z.mod_mod by lia. rewrite Z.sub_diag. apply Z.mod_0_l. lia. Qed.
Lemma grid_next_le hs t1 t : 0 < hs -> t mod hs = 0 -> t1 < t -> t1 + hs - (t1 + hs) mod hs <= t.
Proof.
  intros Hhs Hg Hlt. pose proof (Z.div_mod t hs ltac:(lia)) as Et. rewrite Hg in Et.
  pose proof (Z.div_mod (t1 + hs) hs ltac:(lia)) as E1. pose proof (Z.mod_pos_bound (t1 + hs) hs Hhs) as Hm.
  assert ((t1 + hs) / hs <= t / hs); [|nia].
  assert (H : (t1 + hs) / hs < t / hs + 1); [|lia]. apply Z.div_lt_upper_bound; [lia|]. nia.
Qed.

(* ---- the configuration ---- *)
Record atc := { a_thr : Z; a_prio : Z; a_link : nat; a_val : bool }.
Definition ctl_of (a : atc) : control := {| c_cond := CSim Req (a_thr a) 0; c_prio := a_prio a; c_act := (a_link a, a_val a) |}.

Section ControlSet.
Variables (cs : list atc) (hs rs sc D : Z) (st0 : list bool).
Definition gs : cfg := {| hyd_step := hs; rule_step := rs; duration := D; start_clock := sc; controls := map ctl_of cs; rules := []; init_status := st0 |}.
Hypothesis Hrs : 0 < rs.
Hypothesis Hhs : 0 < hs.
Hypothesis Hpos : forall a, In a cs -> 0 < a_thr a.
Hypothesis Hdistinct : NoDup (map a_thr cs).

(* what the statuses should be at time T: link by link, the value of the latest control on it with instant <= T *)
Definition is_S (T : Z) (st : list bool) : Prop :=
  length st = length st0 /\
  forall l, (l < length st0)%nat ->
    (exists a, In a cs /\ a_thr a <= T /\ a_link a = l /\ (forall b, In b cs -> a_thr b <= T -> a_link b = l -> a_thr b <= a_thr a) /\ nth l st false = a_val a)
    \/ ((forall b, In b cs -> a_thr b <= T -> a_link b <> l) /\ nth l st false = nth l st0 false).

Lemma nth_set_nth_other (st : list bool) : forall n m d v, n <> m -> nth m (set_nth st n v) d = nth m st d.
Proof. induction st as [|x r IH]; intros [|n] [|m] d v H; simpl; auto; try congruence. Qed.

(* no control instant in (T', T] : nothing changes *)
Lemma is_S_idle T' T st : T' <= T -> (forall a, In a cs -> ~ (T' < a_thr a <= T)) -> is_S T' st -> is_S T st.
Proof.
  intros HT Hnone [Hlen H]. split; [exact Hlen|]. intros l Hl. destruct (H l Hl) as [(a & Ha & Hta & Hla & Hmax & Hv)|[Hno Hv]].
  - left. exists a. repeat split; try assumption; try lia. intros b Hb Htb Hlb. apply Hmax; try assumption.
    destruct (Z_le_gt_dec (a_thr b) T'); [assumption|]. exfalso. apply (Hnone b Hb). lia.
  - right. split; [|exact Hv]. intros b Hb Htb. apply Hno; [exact Hb|].
    destruct (Z_le_gt_dec (a_thr b) T'); [assumption|]. exfalso. apply (Hnone b Hb). lia.
Qed.
(* exactly one control instant in (T', T], namely a's, at T *)
Lemma is_S_step T' a st : In a cs -> T' < a_thr a -> (forall b, In b cs -> T' < a_thr b <= a_thr a -> b = a) -> is_S T' st ->
  is_S (a_thr a) (set_nth st (a_link a) (a_val a)).
Proof.
  intros Ha HT Hone [Hlen H]. split; [rewrite set_nth_length; exact Hlen|]. intros l Hl.
  destruct (Nat.eq_dec (a_link a) l) as [E|E].
  - left. exists a. repeat split; try assumption; try lia. subst l. apply nth_set_nth. rewrite Hlen. exact Hl.
  - rewrite nth_set_nth_other by exact E. destruct (H l Hl) as [(a' & Ha' & Hta & Hla & Hmax & Hv)|[Hno Hv]].
    + left. exists a'. repeat split; try assumption; try lia. intros b Hb Htb Hlb.
      destruct (Z_le_gt_dec (a_thr b) T'); [apply Hmax; assumption|]. assert (b = a) by (apply Hone; [exact Hb|lia]). subst b. contradiction.
    + right. split; [|exact Hv]. intros b Hb Htb Hlb.
      destruct (Z_le_gt_dec (a_thr b) T'); [apply (Hno b Hb); assumption|]. assert (b = a) by (apply Hone; [exact Hb|lia]). subst b. contradiction.
Qed.

(* ---- ControlChecker.check: the controls whose instant lies in (prev, t], with backtrack t - instant ---- *)
Definition fpair (t : Z) (a : atc) : control * Z := (ctl_of a, t - a_thr a).
Definition inwin (prev t : Z) (a : atc) : bool := (prev <? a_thr a) && (a_thr a <=? t).
Lemma check_window_gen prev t : forall l, check_controls sc t prev (map ctl_of l) = map (fpair t) (filter (inwin prev t) l).
Proof.
  unfold check_controls. induction l as [|a r IH]; [reflexivity|]. cbn [map flat_map filter].
  assert (E : eval_cond sc t prev (c_cond (ctl_of a)) = if inwin prev t a then (true, t - a_thr a) else (false, 0)).
  { cbn [ctl_of c_cond eval_cond]. unfold eval_sim, inwin. cbn [Z.ltb andb]. simpl. destruct ((prev <? a_thr a) && (a_thr a <=? t)); reflexivity. }
  rewrite E. rewrite IH. destruct (inwin prev t a); reflexivity.
Qed.
(* ---- the presolve loop on a list of due controls with pairwise different backtracks ---- *)
Fixpoint scan (rest : list (control * Z)) (ref : list bool) : option (Z * list bool) :=
  match rest with
  | [] => None
  | (c, b) :: r => let st' := run_actions [c_act c] ref in if list_beq st' ref then scan r ref else Some (b, st')
  end.
Lemma run_same_one c b r st cnt : StronglySorted sdesc ((c, b) :: r) ->
  run_same_backtrack ((c, b) :: r) b st cnt = (run_actions [c_act c] st, S cnt).
Proof.
  intro Hs. cbn [run_same_backtrack]. rewrite Z.eqb_refl. destruct r as [|[c' b'] r']; [reflexivity|].
  cbn [run_same_backtrack]. inversion Hs as [|? ? _ Hx]; subst. rewrite Forall_forall in Hx. specialize (Hx (c', b') (or_introl eq_refl)).
  unfold sdesc in Hx. cbn [snd] in Hx. destruct (Z.eqb_spec b' b); [lia|reflexivity].
Qed.
Lemma run_rules_none t' prev st : run_rules sc t' prev [] st = st.
Proof. reflexivity. Qed.

Lemma loop_scan prev ref L t : StronglySorted sdesc L -> (forall c b, In (c, b) L -> 0 <= b <= t) -> 0 <= t ->
  forall fuel cnt ri, 0 <= ri -> (length L - cnt + Z.to_nat (t / rs + 1 - ri) < fuel)%nat ->
  exists ri', 0 <= ri' /\
    presolve_loop fuel gs prev ref L cnt t ri ref =
      Some (match scan (skipn cnt L) ref with Some (b, st') => (t - b, ri', st') | None => (t, ri', ref) end).
Proof.
  intros Hs Hb Ht. induction fuel as [|fuel IH]; intros cnt ri Hri Hf; [lia|].
  cbn [presolve_loop]. simpl rule_step. simpl rules. simpl start_clock. rewrite !run_rules_none.
  destruct (skipn cnt L) as [|[c b] r] eqn:R.
  - (* no control left: walk over the rule instants *)
    pose proof (skipn_nil_len L cnt R) as Hlen.
    assert (E : Nat.ltb cnt (length L) = false) by (apply Nat.ltb_ge; exact Hlen). rewrite E. cbn [negb andb].
    destruct (Z.leb_spec (ri * rs) t) as [Hle|Hgt]; cbn [negb].
    + rewrite list_beq_refl. cbn [negb].
      assert (Hq : ri <= t / rs) by (apply Z.div_le_lower_bound; lia).
      assert (Hm : (length L - cnt + Z.to_nat (t / rs + 1 - (ri + 1)) < fuel)%nat) by (clear - Hf Hq Hri; lia).
      destruct (IH cnt (ri + 1) ltac:(lia) Hm) as (ri' & Hri' & E').
      rewrite R in E'. exists ri'. split; [exact Hri'|exact E'].
    + exists ri. split; [exact Hri|reflexivity].
  - pose proof (skipn_cons_len L cnt _ _ R) as Hlen.
    assert (E : Nat.ltb cnt (length L) = true) by (apply Nat.ltb_lt; exact Hlen). rewrite E. cbn [negb andb].
    assert (Hsr : StronglySorted sdesc ((c, b) :: r)) by (rewrite <- R; apply sdesc_skipn; exact Hs).
    assert (Hcb : 0 <= b <= t). { apply (Hb c b). assert (Hin : In (c, b) (skipn cnt L)) by (rewrite R; left; reflexivity). clear - Hin.
      revert cnt Hin. induction L as [|y L' IHL]; intros [|cnt] Hin; simpl in *; try tauto. right. apply (IHL cnt Hin). }
    pose proof (skipn_cons_tail L cnt _ _ R) as Rt.
    cbn [scan]. rewrite ?run_rules_none. rewrite (run_same_one c b r ref cnt Hsr).
    destruct (Z.ltb_spec (t - b) (ri * rs)) as [Hlt|Hge].
    + destruct (list_beq (run_actions [c_act c] ref) ref) eqn:Eb; cbn [negb].
      * apply list_beq_eq in Eb.
        assert (Hm : (length L - S cnt + Z.to_nat (t / rs + 1 - ri) < fuel)%nat) by lia.
        destruct (IH (S cnt) ri Hri Hm) as (ri' & Hri' & E'). rewrite Rt in E'. exists ri'. split; [exact Hri'|]. rewrite Eb. exact E'.
      * exists ri. split; [exact Hri|reflexivity].
    + destruct (Z.eqb_spec (t - b) (ri * rs)) as [Heq|Hne].
      * destruct (list_beq (run_actions [c_act c] ref) ref) eqn:Eb; cbn [negb].
        -- apply list_beq_eq in Eb.
           assert (Hq : ri <= t / rs) by (apply Z.div_le_lower_bound; lia).
           assert (Hm : (length L - S cnt + Z.to_nat (t / rs + 1 - (ri + 1)) < fuel)%nat) by (clear - Hf Hlen Hq Hri; lia).
           destruct (IH (S cnt) (ri + 1) ltac:(lia) Hm) as (ri' & Hri' & E').
           rewrite Rt in E'. exists ri'. split; [exact Hri'|]. rewrite Eb. exact E'.
        -- exists (ri + 1). split; [lia|reflexivity].
      * rewrite list_beq_refl. cbn [negb].
        assert (Hq : ri <= t / rs) by (apply Z.div_le_lower_bound; lia).
        assert (Hm : (length L - cnt + Z.to_nat (t / rs + 1 - (ri + 1)) < fuel)%nat) by (clear - Hf Hlen Hq Hri; lia).
        destruct (IH cnt (ri + 1) ltac:(lia) Hm) as (ri' & Hri' & E').
        rewrite R in E'. cbn [scan] in E'. exists ri'. split; [exact Hri'|exact E'].
Qed.
(* ---- what the scan finds, in terms of the specification ---- *)
Lemma fpair_inj t a b : fpair t a = fpair t b -> a = b.
Proof.
  unfold fpair, ctl_of. intro H. injection H as H1 H2 H3 H4 _. destruct a, b; cbn in *. subst. reflexivity.
Qed.
Lemma scan_spec t : forall rest th0 ref, StronglySorted sdesc rest ->
  (forall x, In x rest -> exists a, In a cs /\ x = fpair t a /\ th0 < a_thr a <= t) ->
  (forall a, In a cs -> th0 < a_thr a <= t -> In (fpair t a) rest) ->
  th0 <= t -> is_S th0 ref ->
  match scan rest ref with
  | Some (b, st') => is_S (t - b) st' /\ th0 < t - b <= t /\ st' <> ref /\ (forall a, In a cs -> th0 < a_thr a < t - b -> is_S (a_thr a) ref)
  | None => is_S t ref /\ (forall a, In a cs -> th0 < a_thr a <= t -> is_S (a_thr a) ref)
  end.
Proof.
  induction rest as [|x r IH]; intros th0 ref Hs Hel Hcomp Hle HS.
  - cbn [scan]. assert (Hnone : forall a, In a cs -> ~ (th0 < a_thr a <= t)) by (intros a Ha Hw; exact (Hcomp a Ha Hw)).
    split; [apply (is_S_idle th0 t ref Hle Hnone HS)|]. intros a Ha Hw. exfalso. exact (Hnone a Ha Hw).
  - destruct (Hel x (or_introl eq_refl)) as (a & Ha & -> & Hwa).
    inversion Hs as [|? ? Hsr Hx]; subst. rewrite Forall_forall in Hx.
    assert (Hmin : forall b, In b cs -> th0 < a_thr b <= a_thr a -> b = a).
    { intros b Hb Hwb. destruct (Hcomp b Hb ltac:(lia)) as [E|Hin]; [symmetry; apply (fpair_inj t); exact E|].
      specialize (Hx _ Hin). unfold sdesc, fpair in Hx. cbn [snd] in Hx. lia. }
    pose proof (is_S_step th0 a ref Ha ltac:(lia) Hmin HS) as HSa.
    cbn [scan fpair]. change (run_actions [c_act (ctl_of a)] ref) with (set_nth ref (a_link a) (a_val a)).
    destruct (list_beq (set_nth ref (a_link a) (a_val a)) ref) eqn:Eb.
    + apply list_beq_eq in Eb. rewrite Eb in HSa.
      assert (IHr := IH (a_thr a) ref Hsr).
      assert (H1 : forall x, In x r -> exists a', In a' cs /\ x = fpair t a' /\ a_thr a < a_thr a' <= t).
      { intros x Hxin. destruct (Hel x (or_intror Hxin)) as (a' & Ha' & -> & Hw'). exists a'. split; [exact Ha'|]. split; [reflexivity|].
        specialize (Hx _ Hxin). unfold sdesc, fpair in Hx. cbn [snd] in Hx. lia. }
      assert (H2 : forall a', In a' cs -> a_thr a < a_thr a' <= t -> In (fpair t a') r).
      { intros a' Ha' Hw'. destruct (Hcomp a' Ha' ltac:(lia)) as [E|Hin]; [|exact Hin]. apply fpair_inj in E. subst a'. lia. }
      specialize (IHr H1 H2 ltac:(lia) HSa).
      destruct (scan r ref) as [[b st']|].
      * destruct IHr as (Q1 & Q2 & Q3 & Q4). split; [exact Q1|]. split; [lia|]. split; [exact Q3|].
        intros a' Ha' Hw'. destruct (Z_lt_le_dec (a_thr a) (a_thr a')) as [Hc|Hc]; [apply Q4; [exact Ha'|lia]|].
        rewrite (Hmin a' Ha' ltac:(lia)). exact HSa.
      * destruct IHr as (Q1 & Q4). split; [exact Q1|].
        intros a' Ha' Hw'. destruct (Z_lt_le_dec (a_thr a) (a_thr a')) as [Hc|Hc]; [apply Q4; [exact Ha'|lia]|].
        rewrite (Hmin a' Ha' ltac:(lia)). exact HSa.
    + replace (t - (t - a_thr a)) with (a_thr a) by lia. split; [exact HSa|]. split; [lia|]. split.
      * intro E. rewrite E in Eb. rewrite list_beq_refl in Eb. discriminate.
      * intros a' Ha' Hw'. exfalso. assert (a' = a) by (apply Hmin; [exact Ha'|lia]). subst a'. lia.
Qed.

Lemma filter_len_le {A} (f : A -> bool) l : (length (filter f l) <= length l)%nat.
Proof. induction l as [|a l IH]; cbn; [lia|]. destruct (f a); cbn; lia. Qed.
Lemma nodup_map_filter {A B} (f : A -> B) (p : A -> bool) l : NoDup (map f l) -> NoDup (map f (filter p l)).
Proof.
  induction l as [|a l IH]; cbn; intro H; [constructor|]. inversion H as [|? ? Hn Hr]; subst. destruct (p a); cbn; [|apply IH; exact Hr].
  constructor; [|apply IH; exact Hr]. intro Hin. apply Hn. apply in_map_iff in Hin. destruct Hin as (x & E & Hx). apply filter_In in Hx.
  apply in_map_iff. exists x. tauto.
Qed.

(* ---- one call of the presolve stage ---- *)
Lemma presolve_spec first prev t ri st : 0 <= ri -> -1 <= prev < t -> 0 <= t -> (first = true -> prev = -1 /\ t = 0) -> is_S prev st ->
  exists t1 ri' st1,
    presolve (S (length (controls gs)) + Z.to_nat (t / rs) + 4) gs first prev t ri st = Some (t1, ri', st1) /\
    0 <= ri' /\ prev < t1 <= t /\ is_S t1 st1 /\ (forall a, In a cs -> prev < a_thr a < t1 -> is_S (a_thr a) st).
Proof.
  intros Hri Hp Ht Hfirst HS. unfold presolve. simpl controls. simpl start_clock. rewrite check_window_gen.
  set (W := filter (inwin prev t) cs).
  set (L2 := sort_stable (fun a b : control * Z => Z.leb (snd b) (snd a))
               (sort_stable (fun a b : control * Z => Z.leb (c_prio (fst a)) (c_prio (fst b))) (map (fpair t) W))).
  assert (HW : forall a, In a W <-> In a cs /\ prev < a_thr a <= t).
  { intro a. unfold W. rewrite filter_In. unfold inwin. rewrite andb_true_iff, Z.ltb_lt, Z.leb_le. tauto. }
  assert (Hin2 : forall x, In x L2 <-> exists a, In a W /\ x = fpair t a).
  { intro x. unfold L2. rewrite !sort_in. rewrite in_map_iff. split; intros (a & H1 & H2); exists a; [split; [exact H2|symmetry; exact H1]|split; [symmetry; exact H2|exact H1]]. }
  assert (Hperm : Permutation L2 (map (fpair t) W)).
  { unfold L2. eapply Permutation_trans; apply sort_perm. }
  assert (Hsorted : StronglySorted sdesc L2).
  { apply sorted_strict; [apply (sort_sorted _)|]. apply (Permutation_NoDup (l := map snd (map (fpair t) W))).
    - apply Permutation_sym. apply Permutation_map. exact Hperm.
    - rewrite map_map. unfold fpair. cbn [snd]. assert (Hn : NoDup (map a_thr W)) by (apply nodup_map_filter; exact Hdistinct).
      clear - Hn. induction W as [|a w IHw]; cbn; [constructor|]. inversion Hn as [|? ? Hni Hnr]; subst. constructor; [|apply IHw; exact Hnr].
      intro Hin. apply Hni. apply in_map_iff in Hin. destruct Hin as (x & E & Hx). apply in_map_iff. exists x. split; [lia|exact Hx]. }
  assert (Hlen : (length L2 <= length (map ctl_of cs))%nat).
  { rewrite (Permutation_length Hperm), !map_length. apply filter_len_le. }
  assert (Hbounds : forall c b, In (c, b) L2 -> 0 <= b <= t).
  { intros c b Hcb. apply Hin2 in Hcb. destruct Hcb as (a & Ha & E). apply HW in Ha. unfold fpair in E. injection E as _ ->. lia. }
  destruct first.
  - (* time 0: nothing can be due *)
    destruct (Hfirst eq_refl) as [-> ->].
    assert (EW : W = []). { destruct W as [|a w] eqn:E; [reflexivity|]. exfalso. destruct (proj1 (HW a) (or_introl eq_refl)) as [Ha Hw]. specialize (Hpos a Ha). lia. }
    assert (E2 : L2 = []) by (unfold L2; rewrite EW; reflexivity). rewrite E2. cbn [map].
    destruct (loop_scan (-1) st [] 0 ltac:(constructor) ltac:(intros c b []) ltac:(lia) (S (length (map ctl_of cs)) + Z.to_nat (0 / rs) + 4) 0%nat ri Hri) as (ri' & Hri' & E).
    { cbn [length]. lia. }
    rewrite E. cbn [skipn scan]. exists 0, ri', st. split; [reflexivity|]. split; [exact Hri'|]. split; [lia|]. split.
    + apply (is_S_idle (-1) 0 st ltac:(lia)); [|exact HS]. intros a Ha Hw. specialize (Hpos a Ha). lia.
    + intros a Ha Hw. specialize (Hpos a Ha). lia.
  - destruct (loop_scan prev st L2 t Hsorted Hbounds Ht (S (length (map ctl_of cs)) + Z.to_nat (t / rs) + 4) 0%nat ri Hri) as (ri' & Hri' & E).
    { assert (0 <= t / rs) by (apply Z.div_pos; lia). lia. }
    rewrite E. cbn [skipn].
    pose proof (scan_spec t L2 prev st Hsorted) as HSS.
    assert (H1 : forall x, In x L2 -> exists a, In a cs /\ x = fpair t a /\ prev < a_thr a <= t).
    { intros x Hx. apply Hin2 in Hx. destruct Hx as (a & Ha & ->). apply HW in Ha. exists a. tauto. }
    assert (H2 : forall a, In a cs -> prev < a_thr a <= t -> In (fpair t a) L2).
    { intros a Ha Hw. apply Hin2. exists a. split; [apply HW; tauto|reflexivity]. }
    specialize (HSS H1 H2 ltac:(lia) HS).
    destruct (scan L2 st) as [[b st']|].
    + destruct HSS as (Q1 & Q2 & Q3 & Q4). exists (t - b), ri', st'. split; [reflexivity|]. split; [exact Hri'|]. split; [lia|]. split; [exact Q1|exact Q4].
    + destruct HSS as (Q1 & Q4). exists t, ri', st. split; [reflexivity|]. split; [exact Hri'|]. split; [lia|]. split; [exact Q1|].
      intros a Ha Hw. apply Q4; [exact Ha|lia].
Qed.
(* ---- one solved step and the whole run ---- *)
Definition sinv (s : sstate) : Prop :=
  match s with (first, prev, t, ri, st) => 0 <= ri /\ -1 <= prev < t /\ 0 <= t /\ (first = true -> prev = -1 /\ t = 0) /\ is_S prev st end.
Definition s_st (s : sstate) : list bool := match s with (_, _, _, _, st) => st end.

Lemma set_one_step s : sinv s ->
  exists e s', one_step gs s = Some (e, s') /\ sinv s' /\ s_prev s' = fst e /\ s_st s' = snd e /\ s_prev s < fst e <= st_time s /\
    is_S (fst e) (snd e) /\ (forall a, In a cs -> s_prev s < a_thr a < fst e -> is_S (a_thr a) (s_st s)) /\
    st_time s' = fst e + hs - (fst e + hs) mod hs.
Proof.
  destruct s as [[[[first prev] t] ri] st]. intros (Hri & Hp & Ht & Hfirst & HS).
  destruct (presolve_spec first prev t ri st Hri Hp Ht Hfirst HS) as (t1 & ri' & st1 & E & Hri' & Ht1 & HS1 & Hskip).
  unfold one_step. simpl rule_step. rewrite E. simpl hyd_step.
  pose proof (Z.mod_pos_bound (t1 + hs) hs Hhs) as Hm.
  eexists; eexists; split; [reflexivity|]. cbn [fst snd s_prev s_st st_time].
  split; [unfold sinv; split; [exact Hri'|]; split; [lia|]; split; [lia|]; split; [discriminate|exact HS1]|].
  split; [reflexivity|]. split; [reflexivity|]. split; [lia|]. split; [exact HS1|]. split; [exact Hskip|reflexivity].
Qed.

Theorem set_steps D' : forall f s tr sf, sinv s -> steps f gs D' s = Some (tr, sf) ->
  sinv sf /\ (forall e, In e tr -> is_S (fst e) (snd e) /\ s_prev s < fst e <= s_prev sf) /\
  (forall a, In a cs -> s_prev s < a_thr a <= s_prev sf ->
     In (a_thr a) (map fst tr) \/ exists st, (st = s_st s \/ In st (map snd tr)) /\ is_S (a_thr a) st).
Proof.
  induction f as [|f IH]; intros s tr sf Hinv H; cbn [steps] in H; [discriminate|].
  destruct (set_one_step s Hinv) as (e & s' & E & Hinv' & Hp' & Hst' & Hrange & HSe & Hskip & _).
  rewrite E in H. destruct (D' <? st_time s').
  - injection H as <- <-. split; [exact Hinv'|]. rewrite Hp'. split.
    + intros e0 [<-|[]]. split; [exact HSe|lia].
    + intros a Ha Hw. destruct (Z.eq_dec (a_thr a) (fst e)) as [Ee|Ne]; [left; left; symmetry; exact Ee|].
      right. exists (s_st s). split; [left; reflexivity|]. apply Hskip; [exact Ha|lia].
  - destruct (steps f gs D' s') as [[tr' sf']|] eqn:Es; [|discriminate]. injection H as <- <-.
    destruct (IH _ _ _ Hinv' Es) as (Hsf & Hall & Hcov). rewrite Hp' in Hall, Hcov. split; [exact Hsf|].
    assert (Hmono : fst e <= s_prev sf').
    { destruct tr' as [|e0 r0]; [destruct f; cbn [steps] in Es; [discriminate|]; destruct (one_step gs s') as [[? ?]|]; [|discriminate];
        destruct (D' <? _); [discriminate|]; destruct (steps f gs D' _) as [[? ?]|]; discriminate|].
      destruct (Hall e0 (or_introl eq_refl)). lia. }
    split.
    + intros e0 [<-|He]; [split; [exact HSe|lia]|]. destruct (Hall e0 He). split; [assumption|lia].
    + intros a Ha Hw. cbn [map]. destruct (Z_lt_le_dec (a_thr a) (fst e)) as [Hlt|Hge].
      * right. exists (s_st s). split; [left; reflexivity|]. apply Hskip; [exact Ha|lia].
      * destruct (Z.eq_dec (a_thr a) (fst e)) as [Ee|Ne]; [left; left; symmetry; exact Ee|].
        destruct (Hcov a Ha ltac:(lia)) as [Hin|(st & [->|Hin] & HSt)].
        -- left. right. exact Hin.
        -- right. exists (snd e). split; [right; left; reflexivity|]. rewrite <- Hst'. exact HSt.
        -- right. exists st. split; [right; right; exact Hin|exact HSt].
Qed.

Lemma sinv_init : sinv (init_state gs).
Proof.
  unfold init_state, sinv. simpl init_status. split; [lia|]. split; [lia|]. split; [lia|]. split; [intros _; split; reflexivity|].
  split; [reflexivity|]. intros l Hl. right. split; [|reflexivity]. intros b Hb Htb. specialize (Hpos b Hb). lia.
Qed.

(* every solved step of every run shows, link by link, the command of the latest control whose instant has been reached; and each control
   instant the run has passed is either a solved step or asks for the statuses a solved step (or the initial state) already shows *)
Theorem at_time_set_exact D' f tr sf : steps f gs D' (init_state gs) = Some (tr, sf) ->
  (forall e, In e tr -> is_S (fst e) (snd e)) /\
  (forall a, In a cs -> a_thr a <= s_prev sf ->
     In (a_thr a) (map fst tr) \/ exists st, (st = st0 \/ In st (map snd tr)) /\ is_S (a_thr a) st).
Proof.
  intro H. destruct (set_steps D' f _ _ _ sinv_init H) as (_ & Hall & Hcov). cbn [s_prev s_st init_state] in *. split.
  - intros e He. exact (proj1 (Hall e He)).
  - intros a Ha Hle. apply Hcov; [exact Ha|]. specialize (Hpos a Ha). lia.
Qed.

(* total correctness: D a positive multiple of the hydraulic step *)
Lemma set_progress : D mod hs = 0 -> forall n s, sinv s -> st_time s mod hs = 0 -> st_time s <= D ->
  (Z.to_nat (D - s_prev s) < n)%nat -> exists tr sf, steps n gs D s = Some (tr, sf) /\ s_prev sf = D.
Proof.
  intros HD. induction n as [|n IH]; intros s Hinv Hg HtD Hn; [lia|].
  destruct (set_one_step s Hinv) as (e & s' & E & Hinv' & Hp' & _ & Hrange & _ & _ & Hnext).
  cbn [steps]. rewrite E.
  pose proof (Z.mod_pos_bound (fst e + hs) hs Hhs) as Hm.
  destruct (Z.ltb_spec D (st_time s')) as [Hd|Hd].
  - eexists; eexists; split; [reflexivity|]. rewrite Hp'. rewrite Hnext in Hd.
    destruct (Z.eq_dec (fst e) (st_time s)) as [Ee|Hne].
    + rewrite Ee in *. set (t := st_time s) in *.
      pose proof (Z.div_mod t hs ltac:(lia)) as Et. rewrite Hg in Et. pose proof (Z.div_mod D hs ltac:(lia)) as Ed. rewrite HD in Ed.
      assert (En : t + hs - (t + hs) mod hs = t + hs).
      { rewrite Z.add_mod by lia. rewrite Hg, Z.mod_same by lia. simpl. rewrite Z.mod_0_l by lia. lia. }
      rewrite En in Hd. assert (t / hs <= D / hs) by nia. assert (D / hs < t / hs + 1) by nia. nia.
    + pose proof (grid_next_le hs (fst e) (st_time s) Hhs Hg ltac:(lia)). lia.
  - destruct (IH s' Hinv') as (tr' & sf' & Es & Hend).
    + rewrite Hnext. apply grid_next_mod. exact Hhs.
    + exact Hd.
    + rewrite Hp'. destruct s as [[[[? prev] ?] ?] ?]. cbn [s_prev st_time] in *. lia.
    + rewrite Es. eexists; eexists; split; [reflexivity|exact Hend].
Qed.
Theorem at_time_set_total : 0 < D -> D mod hs = 0 ->
  exists f tr sf, steps f gs D (init_state gs) = Some (tr, sf) /\ s_prev sf = D /\
    (forall e, In e tr -> is_S (fst e) (snd e)) /\
    (forall a, In a cs -> a_thr a <= D ->
       In (a_thr a) (map fst tr) \/ exists st, (st = st0 \/ In st (map snd tr)) /\ is_S (a_thr a) st).
Proof.
  intros HD Hmod.
  destruct (set_progress Hmod (S (Z.to_nat (D + 1))) (init_state gs) sinv_init) as (tr & sf & Es & Hend);
    [apply Z.mod_0_l; lia|cbn [st_time init_state]; lia|cbn [s_prev init_state]; lia|].
  exists (S (Z.to_nat (D + 1))), tr, sf. split; [exact Es|]. split; [exact Hend|].
  destruct (at_time_set_exact D _ _ _ Es) as [Ha Hb]. rewrite Hend in Hb. split; assumption.
Qed.
(* a pause anywhere + a NEW simulator object (rule index recomputed): the continued part still shows, at every solved step, the command of the
   latest control reached, lies after the pause, and steps over no instant at which a control changes a status *)
Lemma restart_sinv s : sinv s -> sinv (restart_state gs s).
Proof.
  destruct s as [[[[first prev] t] ri] st]. unfold sinv, restart_state. intros (Hri & Hp & Ht & Hfirst & HS). simpl rule_step.
  split; [|split; [exact Hp|split; [exact Ht|split; [discriminate|exact HS]]]].
  assert (-1 <= prev / rs); [|lia]. apply Z.div_le_lower_bound; lia.
Qed.
Theorem at_time_set_survives_pause D1 D' f1 tr1 s1 f2 tr2 s2 :
  steps f1 gs D1 (init_state gs) = Some (tr1, s1) -> steps f2 gs D' (restart_state gs s1) = Some (tr2, s2) ->
  (forall e, In e (tr1 ++ tr2) -> is_S (fst e) (snd e)) /\ (forall e, In e tr2 -> s_prev s1 < fst e) /\
  (forall a, In a cs -> s_prev s1 < a_thr a <= s_prev s2 ->
     In (a_thr a) (map fst tr2) \/ exists st, (st = s_st s1 \/ In st (map snd tr2)) /\ is_S (a_thr a) st).
Proof.
  intros H1 H2. destruct (set_steps D1 _ _ _ _ sinv_init H1) as (Hs1 & Hall1 & _).
  assert (Hp : s_prev (restart_state gs s1) = s_prev s1) by (destruct s1 as [[[[? ?] ?] ?] ?]; reflexivity).
  assert (Hq : s_st (restart_state gs s1) = s_st s1) by (destruct s1 as [[[[? ?] ?] ?] ?]; reflexivity).
  destruct (set_steps D' _ _ _ _ (restart_sinv _ Hs1) H2) as (_ & Hall2 & Hcov2). rewrite Hp in Hall2, Hcov2. rewrite Hq in Hcov2.
  split; [|split].
  - intros e He. apply in_app_or in He. destruct He as [He|He]; [exact (proj1 (Hall1 e He))|exact (proj1 (Hall2 e He))].
  - intros e He. destruct (Hall2 e He) as [_ Hr]. lia.
  - exact Hcov2.
Qed.
End ControlSet.
