From Coq Require Import ZArith List Bool Lia.
From WNTRV Require Import Lib.Sched.
Import ListNotations.
Local Open Scope Z_scope.

Ltac zb := repeat match goal with
  | |- context[?a <? ?b] => let Hx := fresh "Hz" in destruct (Z.ltb_spec a b) as [Hx|Hx]
  | |- context[?a <=? ?b] => let Hx := fresh "Hz" in destruct (Z.leb_spec a b) as [Hx|Hx]
  end; cbn [andb fst snd].
Ltac fin := split; let H := fresh "Hfin" in intro H;
  try (injection H as <-); try discriminate H; try lia; try reflexivity;
  try (destruct H as [? ->]; try lia; reflexivity); try (split; [lia|reflexivity]).

(* --- SimTimeCondition, no repeat ------------------------------------------------ *)
Lemma simtime_eq_fires_iff thr cur prev b :
  eval_sim Req thr 0 cur prev = (true, b) <-> (prev < thr <= cur /\ b = cur - thr).
Proof. unfold eval_sim. rewrite Z.ltb_irrefl. cbn [andb]. zb; fin. Qed.

Lemma simtime_eq_not_twice thr cur prev cur' :
  fst (eval_sim Req thr 0 cur prev) = true -> cur <= cur' -> fst (eval_sim Req thr 0 cur' cur) = false.
Proof. unfold eval_sim. rewrite Z.ltb_irrefl. cbn [andb]. zb; intros; try discriminate; try lia; reflexivity. Qed.

(* range conditions are true exactly on the stated interval *)
Lemma simtime_gt_exact thr cur prev : fst (eval_sim Rgt thr 0 cur prev) = true <-> thr < cur.
Proof. unfold eval_sim. rewrite Z.ltb_irrefl. cbn [andb]. zb; fin. Qed.
Lemma simtime_ge_exact thr cur prev : fst (eval_sim Rge thr 0 cur prev) = true <-> thr <= cur.
Proof. unfold eval_sim. rewrite Z.ltb_irrefl. cbn [andb]. zb; fin. Qed.
Lemma simtime_lt_exact thr cur prev : fst (eval_sim Rlt thr 0 cur prev) = true <-> cur < thr.
Proof. unfold eval_sim. rewrite Z.ltb_irrefl. cbn [andb]. zb; fin. Qed.
(* '<=': exact on the interval as long as the threshold was not jumped over since the previous solved step *)
Lemma simtime_le_exact_partial thr cur prev :
  ~ (prev < thr < cur) -> (fst (eval_sim Rle thr 0 cur prev) = true <-> cur <= thr).
Proof. intro Hn. unfold eval_sim. rewrite Z.ltb_irrefl. cbn [andb]. zb; fin. Qed.
(* ... and not otherwise: a rule evaluated at an instant after the threshold still sees '<=' true once *)
Lemma simtime_le_exact_refuted : exists thr cur prev, fst (eval_sim Rle thr 0 cur prev) = true /\ ~ cur <= thr.
Proof. exists 5000, 5400, 3600. split; [vm_compute; reflexivity|lia]. Qed.

(* --- TimeOfDayCondition -------------------------------------------------------- *)
(* the statement the property makes: a daily clock-time '=' condition is true at a step (prev, cur] iff some instant
   in it has time of day = thr *)
Definition clock_instant_in (thr start_clock prev cur : Z) : Prop :=
  exists t, prev < t <= cur /\ (t + start_clock) mod 86400 = thr.
Lemma clock_eq_daily_refuted :
  exists thr sc prev cur, fst (eval_clock Req thr true 0 sc cur prev) = true /\ ~ clock_instant_in thr sc prev cur.
Proof.
  (* AT CLOCKTIME 6:00 AM fires in the step (39600, 43200] -- i.e. at noon *)
  exists 21600, 0, 39600, 43200. split; [vm_compute; reflexivity|].
  intros [t [Ht Hm]]. rewrite Z.add_0_r in Hm.
  rewrite Z.mod_small in Hm by lia. lia.
Qed.
Lemma clock_eq_daily_misses :
  exists thr sc prev cur, clock_instant_in thr sc prev cur /\ fst (eval_clock Req thr true 0 sc cur prev) = false.
Proof.
  exists 21600, 0, 18000, 21600. split; [|vm_compute; reflexivity].
  exists 21600. split; [lia|reflexivity].
Qed.
(* 'before' (lt) clock-time conditions are never true *)
Lemma clock_lt_never thr rep fd sc cur prev : fst (eval_clock Rlt thr rep fd sc cur prev) = false.
Proof. unfold eval_clock. destruct (_ <? _); reflexivity. Qed.
(* the once-only clock condition on its first day behaves as stated when start_clock = 0 and first_day = 0 *)
Lemma clock_eq_once_fires_iff thr cur prev b :
  0 <= cur -> 0 <= thr -> eval_clock Req thr false 0 0 cur prev = (true, b) <-> (prev < thr <= cur /\ b = cur - thr).
Proof.
  intros Hc Ht. unfold eval_clock. cbn [negb andb]. rewrite !Z.add_0_r.
  assert (Et : thr <? 0 = false) by (apply Z.ltb_ge; lia). rewrite Et. cbn [andb].
  assert (H0 : cur / 86400 <? 0 = false) by (apply Z.ltb_ge; apply Z.div_pos; lia). rewrite H0. cbn [Z.mul].
  rewrite !Z.sub_0_r. zb; fin.
Qed.

(* --- priorities -------------------------------------------------------------------- *)
(* controls applied in ascending priority order: the last one applied to a target wins, i.e. a control of maximal
   priority among those in the list that target link l (the last registered among equals) *)
Lemma set_nth_length l n v : length (set_nth l n v) = length l.
Proof. revert n; induction l as [|x l IH]; intros [|n]; cbn; auto. Qed.
Lemma set_nth_same l n v : (n < length l)%nat -> nth n (set_nth l n v) false = v.
Proof. revert n; induction l as [|x l IH]; intros [|n] H; cbn in *; try lia; auto. apply IH. lia. Qed.
Lemma set_nth_other l n m v : n <> m -> nth m (set_nth l n v) false = nth m l false.
Proof. revert n m; induction l as [|x l IH]; intros [|n] [|m] H; cbn; auto; try congruence. Qed.

Lemma run_actions_last acts : forall st l v,
  (l < length st)%nat ->
  (exists pre post, acts = pre ++ (l, v) :: post /\ forall a, In a post -> fst a <> l) ->
  nth l (run_actions acts st) false = v.
Proof.
  unfold run_actions. induction acts as [|a acts IH]; intros st l v Hl [pre [post [E Hpost]]].
  - destruct pre; discriminate.
  - cbn [fold_left]. destruct pre as [|p pre]; cbn [app] in E; injection E as -> ->.
    + cbn [fst snd].
      assert (Hk : forall acts st, (forall a, In a acts -> fst a <> l) ->
                   nth l (fold_left (fun s a => set_nth s (fst a) (snd a)) acts st) false = nth l st false).
      { clear. induction acts as [|a acts IH]; intros st H; cbn [fold_left]; [reflexivity|].
        rewrite IH by (intros; apply H; right; assumption). apply set_nth_other. apply H. left. reflexivity. }
      rewrite Hk by exact Hpost. apply set_nth_same. exact Hl.
    + apply IH; [rewrite set_nth_length; exact Hl|]. exists pre, post. split; [reflexivity|exact Hpost].
Qed.
