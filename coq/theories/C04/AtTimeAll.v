(* C04 -- ANY set of AT TIME controls, coinciding instants included (any targets, values, priorities), no rules, through both stable sorts,
   the whole presolve loop and the whole run: at every solved step every link has the value commanded by the control on it that wins among
   those whose instant has been reached -- latest instant first, then highest priority, then last registered -- or its initial value. *)
From Coq Require Import ZArith List Bool Lia Sorted Permutation.
From WNTRV Require Import Lib.Sched C04.AtTime C04.Window C10.Invariant C04.AtTimeSet.
Import ListNotations.
Local Open Scope Z_scope.

(* ---- a stable insertion sort on a key, applied to a list that is sorted by a secondary order, sorts lexicographically ---- *)
Section LexSort.
  Context {A : Type} (k : A -> Z) (R2 : A -> A -> Prop).
  Definition lex (x y : A) : Prop := k x < k y \/ (k x = k y /\ R2 x y).
  Definition lek (x y : A) : bool := Z.leb (k x) (k y).
  Lemma lex_sorted_mono l x : StronglySorted lex (x :: l) -> Forall (fun y => k x <= k y) l.
  Proof. intro H. inversion H as [|? ? _ Hx]; subst. eapply Forall_impl; [|exact Hx]. intros y [Hy|[Hy _]]; lia. Qed.
  Lemma insert_lex x l : StronglySorted lex l -> Forall (fun y => R2 y x) l -> StronglySorted lex (insert_stable lek x l).
  Proof.
    induction l as [|y r IH]; intros Hs Hr; cbn [insert_stable]; [constructor; constructor|].
    inversion Hs as [|? ? Hsr Hy]; subst. inversion Hr as [|? ? Hyx Hrr]; subst. unfold lek at 1.
    destruct (Z.leb_spec (k y) (k x)) as [Hle|Hgt].
    - constructor; [apply IH; assumption|]. apply Forall_forall. intros z Hz. apply insert_in in Hz. destruct Hz as [<-|Hz].
      + unfold lex. destruct (Z.eq_dec (k y) (k x)) as [E|E]; [right; split; assumption|left; lia].
      + rewrite Forall_forall in Hy. apply Hy. exact Hz.
    - constructor; [exact Hs|]. constructor; [left; lia|]. pose proof (lex_sorted_mono r y Hs) as Hm.
      rewrite Forall_forall in *. intros z Hz. left. specialize (Hm z Hz). lia.
  Qed.
  Lemma sort_lex_aux l : forall acc, StronglySorted R2 l -> StronglySorted lex acc -> (forall a x, In a acc -> In x l -> R2 a x) ->
    StronglySorted lex (fold_left (fun acc x => insert_stable lek x acc) l acc).
  Proof.
    induction l as [|x l IH]; intros acc Hl Ha Hax; cbn [fold_left]; [exact Ha|].
    inversion Hl as [|? ? Hlr Hx]; subst. apply IH; [exact Hlr| |].
    - apply insert_lex; [exact Ha|]. apply Forall_forall. intros a Hin. apply Hax; [exact Hin|left; reflexivity].
    - intros a z Hin Hz. apply insert_in in Hin. destruct Hin as [<-|Hin]; [rewrite Forall_forall in Hx; apply Hx; exact Hz|apply Hax; [exact Hin|right; exact Hz]].
  Qed.
  Lemma sort_lex l : StronglySorted R2 l -> StronglySorted lex (sort_stable lek l).
  Proof. intro H. unfold sort_stable. apply sort_lex_aux; [exact H|constructor|intros a x []]. Qed.
End LexSort.

(* sorting commutes with a map that preserves the comparison *)
Section SortMap.
  Context {A B : Type} (f : A -> B) (leA : A -> A -> bool) (leB : B -> B -> bool).
  Hypothesis Hle : forall x y, leB (f x) (f y) = leA x y.
  Lemma insert_map x l : insert_stable leB (f x) (map f l) = map f (insert_stable leA x l).
  Proof. induction l as [|y r IH]; cbn; [reflexivity|]. rewrite Hle. destruct (leA y x); cbn; [rewrite IH|]; reflexivity. Qed.
  Lemma sort_map_aux l : forall acc, fold_left (fun acc x => insert_stable leB x acc) (map f l) (map f acc) = map f (fold_left (fun acc x => insert_stable leA x acc) l acc).
  Proof. induction l as [|x l IH]; intro acc; cbn [map fold_left]; [reflexivity|]. rewrite insert_map. apply IH. Qed.
  Lemma sort_map l : sort_stable leB (map f l) = map f (sort_stable leA l).
  Proof. unfold sort_stable. apply (sort_map_aux l []). Qed.
End SortMap.

(* filtering keeps a list strongly sorted *)
Lemma sorted_filter {A} (R : A -> A -> Prop) (p : A -> bool) l : StronglySorted R l -> StronglySorted R (filter p l).
Proof.
  induction l as [|x r IH]; intro H; cbn; [constructor|]. inversion H as [|? ? Hr Hx]; subst. destruct (p x); [|apply IH; exact Hr].
  constructor; [apply IH; exact Hr|]. rewrite Forall_forall in *. intros y Hy. apply filter_In in Hy. apply Hx. tauto.
Qed.

(* ---- run_actions on a list of link commands ---- *)
Lemma ra_app a b st : run_actions (a ++ b) st = run_actions b (run_actions a st).
Proof. unfold run_actions. apply fold_left_app. Qed.
Lemma ra_length acts : forall st, length (run_actions acts st) = length st.
Proof. induction acts as [|a r IH]; intro st; cbn; [reflexivity|]. unfold run_actions in IH. rewrite IH. apply set_nth_length. Qed.
Lemma ra_untouched acts l d : forall st, (forall a, In a acts -> fst a <> l) -> nth l (run_actions acts st) d = nth l st d.
Proof.
  induction acts as [|a r IH]; intros st H; cbn; [reflexivity|]. unfold run_actions in IH. rewrite IH by (intros a0 H0; apply H; right; exact H0).
  apply nth_set_nth_other. apply H. left. reflexivity.
Qed.
Lemma ra_last a1 l v a2 d st : (l < length st)%nat -> (forall a, In a a2 -> fst a <> l) ->
  nth l (run_actions (a1 ++ (l, v) :: a2) st) d = v.
Proof.
  intros Hl H. rewrite ra_app. change ((l, v) :: a2) with ([(l, v)] ++ a2). rewrite ra_app.
  rewrite ra_untouched by exact H. cbn. apply nth_set_nth. rewrite ra_length. exact Hl.
Qed.
Lemma sorted_app_mid {A} (R : A -> A -> Prop) l1 x l2 : StronglySorted R (l1 ++ x :: l2) -> forall y, In y l1 -> R y x.
Proof.
  induction l1 as [|z r IH]; intros H y Hy; [destruct Hy|]. cbn in H. inversion H as [|? ? Hr Hz]; subst.
  destruct Hy as [<-|Hy]; [rewrite Forall_forall in Hz; apply Hz; apply in_or_app; right; left; reflexivity|apply IH; assumption].
Qed.
Lemma sorted_app_r {A} (R : A -> A -> Prop) l1 l2 : StronglySorted R (l1 ++ l2) -> StronglySorted R l2.
Proof. induction l1 as [|z r IH]; intro H; [exact H|]. cbn in H. inversion H; subst. apply IH. assumption. Qed.
Lemma sorted_app_l {A} (R : A -> A -> Prop) l1 l2 : StronglySorted R (l1 ++ l2) -> StronglySorted R l1.
Proof.
  induction l1 as [|z r IH]; intro H; [constructor|]. cbn in H. inversion H as [|? ? Hr Hz]; subst. constructor; [apply IH; exact Hr|].
  rewrite Forall_forall in *. intros y Hy. apply Hz. apply in_or_app. left. exact Hy.
Qed.

(* ---- the configuration: controls tagged with their registration number ---- *)
Definition atci := (nat * atc)%type.
Definition x_thr (x : atci) : Z := a_thr (snd x).
Definition x_prio (x : atci) : Z := a_prio (snd x).
Definition x_link (x : atci) : nat := a_link (snd x).
Definition x_val (x : atci) : bool := a_val (snd x).
Definition x_act (x : atci) : action := (x_link x, x_val x).
Definition R_id (x y : atci) : Prop := (fst x < fst y)%nat.
Definition lexPI : atci -> atci -> Prop := lex x_prio R_id.
Definition lex3 : atci -> atci -> Prop := lex x_thr lexPI.

Lemma last_target (G : list atci) l : (exists x, In x G /\ x_link x = l) ->
  exists G1 x G2, G = G1 ++ x :: G2 /\ x_link x = l /\ forall y, In y G2 -> x_link y <> l.
Proof.
  induction G as [|z r IH]; intros (x & Hx & Hl); [destruct Hx|].
  destruct (existsb (fun y => Nat.eqb (x_link y) l) r) eqn:E.
  - apply existsb_exists in E. destruct E as (y & Hy & Ey). apply Nat.eqb_eq in Ey.
    destruct (IH (ex_intro _ y (conj Hy Ey))) as (G1 & x' & G2 & -> & H1 & H2). exists (z :: G1), x', G2. split; [reflexivity|]. split; assumption.
  - exists [], z, r. split; [reflexivity|]. assert (Hnone : forall y, In y r -> x_link y <> l).
    { intros y Hy Ey. assert (existsb (fun y => Nat.eqb (x_link y) l) r = true); [|congruence]. apply existsb_exists. exists y. split; [exact Hy|apply Nat.eqb_eq; exact Ey]. }
    split; [|exact Hnone]. destruct Hx as [<-|Hx]; [exact Hl|]. exfalso. exact (Hnone x Hx Hl).
Qed.

Section ControlSetAll.
Variables (cs : list atci) (hs rs sc D : Z) (st0 : list bool).
Definition ga : cfg := gs (map snd cs) hs rs sc D st0.
Hypothesis Hrs : 0 < rs.
Hypothesis Hhs : 0 < hs.
Hypothesis Hpos : forall x, In x cs -> 0 < x_thr x.
Hypothesis Hids : StronglySorted R_id cs.

(* the statuses at time T: on every link the winner among the controls reached -- latest instant, then priority, then registration *)
Definition is_W (T : Z) (st : list bool) : Prop :=
  length st = length st0 /\
  forall l, (l < length st0)%nat ->
    (exists x, In x cs /\ x_thr x <= T /\ x_link x = l /\ (forall y, In y cs -> x_thr y <= T -> x_link y = l -> y = x \/ lex3 y x) /\ nth l st false = x_val x)
    \/ ((forall y, In y cs -> x_thr y <= T -> x_link y <> l) /\ nth l st false = nth l st0 false).

Lemma is_W_idle T' T st : T' <= T -> (forall x, In x cs -> ~ (T' < x_thr x <= T)) -> is_W T' st -> is_W T st.
Proof.
  intros HT Hnone [Hlen H]. split; [exact Hlen|]. intros l Hl. destruct (H l Hl) as [(x & Hx & Htx & Hlx & Hmax & Hv)|[Hno Hv]].
  - left. exists x. split; [exact Hx|]. split; [lia|]. split; [exact Hlx|]. split; [|exact Hv]. intros y Hy Hty Hly. apply Hmax; try assumption.
    destruct (Z_le_gt_dec (x_thr y) T'); [assumption|]. exfalso. apply (Hnone y Hy). lia.
  - right. split; [|exact Hv]. intros y Hy Hty. apply Hno; [exact Hy|].
    destruct (Z_le_gt_dec (x_thr y) T'); [assumption|]. exfalso. apply (Hnone y Hy). lia.
Qed.

(* all the controls with instants in (T', T] share the instant T and are applied in (priority, registration) order *)
Lemma is_W_group T' T G st : T' < T -> (forall x, In x G -> In x cs /\ x_thr x = T) -> (forall x, In x cs -> T' < x_thr x <= T -> In x G) ->
  StronglySorted lex3 G -> is_W T' st -> is_W T (run_actions (map x_act G) st).
Proof.
  intros HT HG1 HG2 Hs [Hlen H]. split; [rewrite ra_length; exact Hlen|]. intros l Hl.
  destruct (existsb (fun y => Nat.eqb (x_link y) l) G) eqn:E.
  - (* some control of the group commands l: the last of them in the order of application wins *)
    apply existsb_exists in E. destruct E as (y0 & Hy0 & Ey0). apply Nat.eqb_eq in Ey0.
    destruct (last_target G l (ex_intro _ y0 (conj Hy0 Ey0))) as (G1 & x & G2 & EG & Hlx & HG2').
    assert (HxG : In x G) by (rewrite EG; apply in_or_app; right; left; reflexivity).
    destruct (HG1 x HxG) as [Hxcs Hxt].
    left. exists x. split; [exact Hxcs|]. split; [lia|]. split; [exact Hlx|]. split.
    + intros y Hy Hty Hly. destruct (Z_le_gt_dec (x_thr y) T') as [Hc|Hc].
      * right. left. lia.
      * assert (HyG : In y G) by (apply HG2; [exact Hy|lia]). rewrite EG in HyG. apply in_app_or in HyG. destruct HyG as [HyG|[<-|HyG]].
        -- right. rewrite EG in Hs. exact (sorted_app_mid lex3 G1 x G2 Hs y HyG).
        -- left. reflexivity.
        -- exfalso. exact (HG2' y HyG Hly).
    + rewrite EG, map_app. cbn [map]. unfold x_act at 2. rewrite Hlx. apply ra_last; [rewrite Hlen; exact Hl|].
      intros a Ha. apply in_map_iff in Ha. destruct Ha as (y & <- & Hy). cbn [x_act fst]. exact (HG2' y Hy).
  - assert (Hnone : forall y, In y G -> x_link y <> l).
    { intros y Hy Ey. assert (existsb (fun y => Nat.eqb (x_link y) l) G = true); [|congruence]. apply existsb_exists. exists y. split; [exact Hy|apply Nat.eqb_eq; exact Ey]. }
    rewrite ra_untouched by (intros a Ha; apply in_map_iff in Ha; destruct Ha as (y & <- & Hy); cbn [x_act fst]; exact (Hnone y Hy)).
    destruct (H l Hl) as [(x & Hx & Htx & Hlx & Hmax & Hv)|[Hno Hv]].
    + left. exists x. split; [exact Hx|]. split; [lia|]. split; [exact Hlx|]. split; [|exact Hv]. intros y Hy Hty Hly.
      destruct (Z_le_gt_dec (x_thr y) T') as [Hc|Hc]; [apply Hmax; assumption|]. exfalso. exact (Hnone y (HG2 y Hy ltac:(lia)) Hly).
    + right. split; [|exact Hv]. intros y Hy Hty Hly.
      destruct (Z_le_gt_dec (x_thr y) T') as [Hc|Hc]; [exact (Hno y Hy Hc Hly)|]. exact (Hnone y (HG2 y Hy ltac:(lia)) Hly).
Qed.
(* ---- groups of coinciding instants in a list sorted by (instant, priority, registration) ---- *)
Fixpoint grp (th : Z) (R : list atci) : list atci := match R with x :: r => if x_thr x =? th then x :: grp th r else [] | [] => [] end.
Fixpoint rst (th : Z) (R : list atci) : list atci := match R with x :: r => if x_thr x =? th then rst th r else R | [] => [] end.
Lemma grp_rst th R : R = grp th R ++ rst th R.
Proof. induction R as [|x r IH]; cbn; [reflexivity|]. destruct (x_thr x =? th); cbn; [rewrite <- IH|]; reflexivity. Qed.
Lemma grp_all th R : forall x, In x (grp th R) -> x_thr x = th.
Proof. induction R as [|z r IH]; cbn; intros x H; [destruct H|]. destruct (Z.eqb_spec (x_thr z) th); [|destruct H]. destruct H as [<-|H]; [assumption|apply IH; exact H]. Qed.
Lemma lex3_mono R x : StronglySorted lex3 (x :: R) -> forall y, In y R -> x_thr x <= x_thr y.
Proof. intros H y Hy. pose proof (lex_sorted_mono x_thr lexPI R x H) as Hm. rewrite Forall_forall in Hm. exact (Hm y Hy). Qed.
Lemma rst_gt th R : StronglySorted lex3 R -> (forall x, In x R -> th <= x_thr x) -> forall x, In x (rst th R) -> th < x_thr x.
Proof.
  induction R as [|z r IH]; cbn; intros Hs Hge x H; [destruct H|]. inversion Hs as [|? ? Hsr Hz]; subst.
  destruct (Z.eqb_spec (x_thr z) th) as [E|E].
  - apply IH; [exact Hsr|intros y Hy; apply Hge; right; exact Hy|exact H].
  - assert (th < x_thr z) by (specialize (Hge z (or_introl eq_refl)); lia).
    destruct H as [<-|H]; [assumption|]. pose proof (lex3_mono r z Hs x H). lia.
Qed.
Lemma skipn_more {A} (L : list A) : forall cnt G R', skipn cnt L = G ++ R' -> skipn (cnt + length G) L = R'.
Proof.
  induction L as [|y L IH]; intros cnt G R' H.
  - assert (H' : [] = G ++ R') by (destruct cnt; exact H). apply eq_sym, app_eq_nil in H'. destruct H' as [-> ->]. apply skipn_nil.
  - destruct cnt as [|cnt]; cbn [skipn] in H.
    + cbn [Nat.add]. rewrite H. clear. induction G as [|g G IHG]; [reflexivity|exact IHG].
    + cbn [Nat.add skipn]. apply IH. exact H.
Qed.

Definition fx (t : Z) (x : atci) : control * Z := fpair t (snd x).
Lemma run_same_group t th R : forall st cnt,
  run_same_backtrack (map (fx t) R) (t - th) st cnt = (run_actions (map x_act (grp th R)) st, (cnt + length (grp th R))%nat).
Proof.
  induction R as [|x r IH]; intros st cnt; cbn [map run_same_backtrack grp]; [rewrite Nat.add_0_r; reflexivity|].
  unfold fx at 1, fpair. replace (t - a_thr (snd x) =? t - th) with (x_thr x =? th) by (unfold x_thr; destruct (Z.eqb_spec (a_thr (snd x)) th); destruct (Z.eqb_spec (t - a_thr (snd x)) (t - th)); lia || reflexivity).
  destruct (x_thr x =? th); [|rewrite Nat.add_0_r; reflexivity].
  rewrite IH. cbn [map length]. rewrite Nat.add_succ_r. reflexivity.
Qed.

Inductive Scan : list atci -> list bool -> option (Z * list bool) -> Prop :=
| Scan_nil ref : Scan [] ref None
| Scan_noop x r ref res : run_actions (map x_act (grp (x_thr x) (x :: r))) ref = ref -> Scan (rst (x_thr x) (x :: r)) ref res -> Scan (x :: r) ref res
| Scan_fire x r ref : run_actions (map x_act (grp (x_thr x) (x :: r))) ref <> ref ->
    Scan (x :: r) ref (Some (x_thr x, run_actions (map x_act (grp (x_thr x) (x :: r))) ref)).

Lemma loop_groups prev ref W2 t : (forall x, In x W2 -> 0 <= x_thr x <= t) -> 0 <= t ->
  forall fuel cnt ri, 0 <= ri -> (length W2 - cnt + Z.to_nat (t / rs + 1 - ri) < fuel)%nat ->
  exists ri' res, 0 <= ri' /\ Scan (skipn cnt W2) ref res /\
    presolve_loop fuel ga prev ref (map (fx t) W2) cnt t ri ref =
      Some (match res with Some (th, st') => (th, ri', st') | None => (t, ri', ref) end).
Proof.
  intros Hb Ht. induction fuel as [|fuel IH]; intros cnt ri Hri Hf; [lia|].
  cbn [presolve_loop]. unfold ga at 1 2 3 4 5 6. simpl rule_step. simpl rules. simpl start_clock. rewrite !run_rules_none.
  rewrite skipn_map, map_length.
  destruct (skipn cnt W2) as [|x r] eqn:R.
  - pose proof (skipn_nil_len W2 cnt R) as Hlen.
    assert (E : Nat.ltb cnt (length W2) = false) by (apply Nat.ltb_ge; exact Hlen). rewrite E. cbn [negb andb map].
    destruct (Z.leb_spec (ri * rs) t) as [Hle|Hgt]; cbn [negb].
    + rewrite list_beq_refl. cbn [negb].
      assert (Hq : ri <= t / rs) by (apply Z.div_le_lower_bound; lia).
      assert (Hm : (length W2 - cnt + Z.to_nat (t / rs + 1 - (ri + 1)) < fuel)%nat) by (clear - Hf Hq Hri; lia).
      destruct (IH cnt (ri + 1) ltac:(lia) Hm) as (ri' & res & Hri' & HS & E'). rewrite R in HS. exists ri', res. split; [exact Hri'|]. split; [exact HS|exact E'].
    + exists ri, None. split; [exact Hri|]. split; [constructor|reflexivity].
  - pose proof (skipn_cons_len W2 cnt _ _ R) as Hlen.
    assert (E : Nat.ltb cnt (length W2) = true) by (apply Nat.ltb_lt; exact Hlen). rewrite E. cbn [negb andb].
    assert (Hx : 0 <= x_thr x <= t). { apply Hb. assert (Hin : In x (skipn cnt W2)) by (rewrite R; left; reflexivity). clear - Hin.
      revert cnt Hin. induction W2 as [|y L' IHL]; intros [|cnt] Hin; simpl in *; try tauto. right. apply (IHL cnt Hin). }
    set (th := x_thr x) in *.
    assert (ER : skipn (cnt + length (grp th (x :: r))) W2 = rst th (x :: r)) by (apply skipn_more; rewrite R; apply grp_rst).
    assert (HG1 : (1 <= length (grp th (x :: r)))%nat) by (cbn [grp]; unfold th; rewrite Z.eqb_refl; cbn; lia).
    assert (HG2 : (cnt + length (grp th (x :: r)) <= length W2)%nat).
    { pose proof (f_equal (@length _) (grp_rst th (x :: r))) as HL. rewrite app_length in HL. rewrite <- R in HL at 1. rewrite skipn_length in HL. lia. }
    change (map (fx t) (x :: r)) with ((ctl_of (snd x), t - th) :: map (fx t) r). cbv iota beta.
    change ((ctl_of (snd x), t - th) :: map (fx t) r) with (map (fx t) (x :: r)).
    rewrite ?run_rules_none. rewrite !(run_same_group t th (x :: r) ref cnt).
    replace (t - (t - th)) with th by lia.
    destruct (Z.ltb_spec th (ri * rs)) as [Hlt|Hge].
    + destruct (list_beq (run_actions (map x_act (grp th (x :: r))) ref) ref) eqn:Eb; cbn [negb].
      * apply list_beq_eq in Eb.
        assert (Hm : (length W2 - (cnt + length (grp th (x :: r))) + Z.to_nat (t / rs + 1 - ri) < fuel)%nat) by (clear - Hf HG1 HG2; lia).
        destruct (IH _ ri Hri Hm) as (ri' & res & Hri' & HS & E'). rewrite ER in HS.
        exists ri', res. split; [exact Hri'|]. split; [apply Scan_noop; [exact Eb|exact HS]|]. rewrite Eb. exact E'.
      * exists ri, (Some (th, run_actions (map x_act (grp th (x :: r))) ref)). split; [exact Hri|]. split; [|reflexivity].
        apply Scan_fire. intro Eq. fold th in Eq. rewrite Eq, list_beq_refl in Eb. discriminate.
    + destruct (Z.eqb_spec th (ri * rs)) as [Heq|Hne].
      * destruct (list_beq (run_actions (map x_act (grp th (x :: r))) ref) ref) eqn:Eb; cbn [negb].
        -- apply list_beq_eq in Eb.
           assert (Hq : ri <= t / rs) by (apply Z.div_le_lower_bound; lia).
           assert (Hm : (length W2 - (cnt + length (grp th (x :: r))) + Z.to_nat (t / rs + 1 - (ri + 1)) < fuel)%nat) by (clear - Hf HG1 HG2 Hq Hri; lia).
           destruct (IH _ (ri + 1) ltac:(lia) Hm) as (ri' & res & Hri' & HS & E'). rewrite ER in HS.
           exists ri', res. split; [exact Hri'|]. split; [apply Scan_noop; [exact Eb|exact HS]|]. rewrite Eb. exact E'.
        -- exists (ri + 1), (Some (th, run_actions (map x_act (grp th (x :: r))) ref)). split; [lia|]. split; [|reflexivity].
           apply Scan_fire. intro Eq. fold th in Eq. rewrite Eq, list_beq_refl in Eb. discriminate.
      * rewrite list_beq_refl. cbn [negb].
        assert (Hq : ri <= t / rs) by (apply Z.div_le_lower_bound; lia).
        assert (Hm : (length W2 - cnt + Z.to_nat (t / rs + 1 - (ri + 1)) < fuel)%nat) by (clear - Hf Hq Hri; lia).
        destruct (IH cnt (ri + 1) ltac:(lia) Hm) as (ri' & res & Hri' & HS & E'). rewrite R in HS.
        exists ri', res. split; [exact Hri'|]. split; [exact HS|exact E'].
Qed.
(* ---- what the scan finds, in terms of the specification ---- *)
Lemma scan_spec_W t : forall R ref res, Scan R ref res -> forall th0, StronglySorted lex3 R ->
  (forall x, In x R -> In x cs /\ th0 < x_thr x <= t) -> (forall x, In x cs -> th0 < x_thr x <= t -> In x R) -> th0 <= t -> is_W th0 ref ->
  match res with
  | Some (th, st') => is_W th st' /\ th0 < th <= t /\ st' <> ref /\ (forall x, In x cs -> th0 < x_thr x < th -> is_W (x_thr x) ref)
  | None => is_W t ref /\ (forall x, In x cs -> th0 < x_thr x <= t -> is_W (x_thr x) ref)
  end.
Proof.
  induction 1 as [ref|x r ref res Hno HScan IH|x r ref Hfire]; intros th0 Hs Hel Hcomp Hle HW.
  - assert (Hnone : forall x, In x cs -> ~ (th0 < x_thr x <= t)) by (intros x Hx Hw; exact (Hcomp x Hx Hw)).
    split; [apply (is_W_idle th0 t ref Hle Hnone HW)|]. intros x Hx Hw. exfalso. exact (Hnone x Hx Hw).
  - set (th := x_thr x) in *. set (G := grp th (x :: r)) in *. set (R' := rst th (x :: r)) in *.
    assert (ER : x :: r = G ++ R') by apply grp_rst.
    destruct (Hel x (or_introl eq_refl)) as [Hxcs Hxw]. fold th in Hxw.
    assert (Hge : forall z, In z (x :: r) -> th <= x_thr z) by (intros z [<-|Hz]; [unfold th; lia|exact (lex3_mono r x Hs z Hz)]).
    assert (HR'gt : forall z, In z R' -> th < x_thr z) by (apply rst_gt; assumption).
    assert (HG1 : forall y, In y G -> In y cs /\ x_thr y = th).
    { intros y Hy. split; [|exact (grp_all th _ y Hy)]. apply Hel. rewrite ER. apply in_or_app. left. exact Hy. }
    assert (HG2 : forall y, In y cs -> th0 < x_thr y <= th -> In y G).
    { intros y Hy Hw. assert (Hin : In y (x :: r)) by (apply Hcomp; [exact Hy|lia]). rewrite ER in Hin. apply in_app_or in Hin.
      destruct Hin as [Hin|Hin]; [exact Hin|]. specialize (HR'gt y Hin). lia. }
    assert (HsG : StronglySorted lex3 G) by (apply (sorted_app_l lex3 G R'); rewrite <- ER; exact Hs).
    assert (HsR : StronglySorted lex3 R') by (apply (sorted_app_r lex3 G R'); rewrite <- ER; exact Hs).
    pose proof (is_W_group th0 th G ref ltac:(lia) HG1 HG2 HsG HW) as HWth. rewrite Hno in HWth.
    assert (H1 : forall z, In z R' -> In z cs /\ th < x_thr z <= t).
    { intros z Hz. destruct (Hel z) as [Hzc Hzw]; [rewrite ER; apply in_or_app; right; exact Hz|]. split; [exact Hzc|]. specialize (HR'gt z Hz). lia. }
    assert (H2 : forall z, In z cs -> th < x_thr z <= t -> In z R').
    { intros z Hz Hw. assert (Hin : In z (x :: r)) by (apply Hcomp; [exact Hz|lia]). rewrite ER in Hin. apply in_app_or in Hin.
      destruct Hin as [Hin|Hin]; [|exact Hin]. pose proof (grp_all th _ z Hin). lia. }
    specialize (IH th HsR H1 H2 ltac:(lia) HWth).
    destruct res as [[th' st']|].
    + destruct IH as (Q1 & Q2 & Q3 & Q4). split; [exact Q1|]. split; [lia|]. split; [exact Q3|].
      intros y Hy Hw. destruct (Z_lt_le_dec th (x_thr y)) as [Hc|Hc]; [apply Q4; [exact Hy|lia]|].
      destruct (HG1 y (HG2 y Hy ltac:(lia))) as [_ E]. rewrite E. exact HWth.
    + destruct IH as (Q1 & Q4). split; [exact Q1|].
      intros y Hy Hw. destruct (Z_lt_le_dec th (x_thr y)) as [Hc|Hc]; [apply Q4; [exact Hy|lia]|].
      destruct (HG1 y (HG2 y Hy ltac:(lia))) as [_ E]. rewrite E. exact HWth.
  - set (th := x_thr x) in *. set (G := grp th (x :: r)) in *. set (R' := rst th (x :: r)).
    assert (ER : x :: r = G ++ R') by apply grp_rst.
    destruct (Hel x (or_introl eq_refl)) as [Hxcs Hxw]. fold th in Hxw.
    assert (Hge : forall z, In z (x :: r) -> th <= x_thr z) by (intros z [<-|Hz]; [unfold th; lia|exact (lex3_mono r x Hs z Hz)]).
    assert (HR'gt : forall z, In z R' -> th < x_thr z) by (apply rst_gt; assumption).
    assert (HG1 : forall y, In y G -> In y cs /\ x_thr y = th).
    { intros y Hy. split; [|exact (grp_all th _ y Hy)]. apply Hel. rewrite ER. apply in_or_app. left. exact Hy. }
    assert (HG2 : forall y, In y cs -> th0 < x_thr y <= th -> In y G).
    { intros y Hy Hw. assert (Hin : In y (x :: r)) by (apply Hcomp; [exact Hy|lia]). rewrite ER in Hin. apply in_app_or in Hin.
      destruct Hin as [Hin|Hin]; [exact Hin|]. specialize (HR'gt y Hin). lia. }
    assert (HsG : StronglySorted lex3 G) by (apply (sorted_app_l lex3 G R'); rewrite <- ER; exact Hs).
    split; [exact (is_W_group th0 th G ref ltac:(lia) HG1 HG2 HsG HW)|]. split; [lia|]. split; [exact Hfire|].
    intros y Hy Hw. exfalso. destruct (HG1 y (HG2 y Hy ltac:(lia))) as [_ E]. lia.
Qed.

Lemma filter_map_snd {A B} (p : B -> bool) (l : list (A * B)) : filter p (map snd l) = map snd (filter (fun x => p (snd x)) l).
Proof. induction l as [|x r IH]; cbn; [reflexivity|]. destruct (p (snd x)); cbn; rewrite IH; reflexivity. Qed.
Lemma Zleb_sub t a b : Z.leb (t - b) (t - a) = Z.leb a b.
Proof. destruct (Z.leb_spec (t - b) (t - a)); destruct (Z.leb_spec a b); lia || reflexivity. Qed.

(* ---- one call of the presolve stage ---- *)
Lemma presolve_spec_W first prev t ri st : 0 <= ri -> -1 <= prev < t -> 0 <= t -> (first = true -> prev = -1 /\ t = 0) -> is_W prev st ->
  exists t1 ri' st1,
    presolve (S (length (controls ga)) + Z.to_nat (t / rs) + 4) ga first prev t ri st = Some (t1, ri', st1) /\
    0 <= ri' /\ prev < t1 <= t /\ is_W t1 st1 /\ (forall x, In x cs -> prev < x_thr x < t1 -> is_W (x_thr x) st).
Proof.
  intros Hri Hp Ht Hfirst HW.
  set (Wi := filter (fun x : atci => inwin prev t (snd x)) cs).
  set (W2 := sort_stable (lek x_thr) (sort_stable (lek x_prio) Wi)).
  assert (EL : sort_stable (fun a b : control * Z => Z.leb (snd b) (snd a))
                 (sort_stable (fun a b : control * Z => Z.leb (c_prio (fst a)) (c_prio (fst b)))
                    (check_controls sc t prev (map ctl_of (map snd cs)))) = map (fx t) W2).
  { rewrite check_window_gen, filter_map_snd, map_map. change (fun x : nat * atc => fpair t (snd x)) with (fx t). fold Wi.
    rewrite (sort_map (fx t) (lek x_prio) _ (fun x y => eq_refl)).
    rewrite (sort_map (fx t) (lek x_thr) _ (fun x y => Zleb_sub t (x_thr x) (x_thr y))). reflexivity. }
  assert (HWi : forall x, In x Wi <-> In x cs /\ prev < x_thr x <= t).
  { intro x. unfold Wi. rewrite filter_In. unfold inwin, x_thr. rewrite andb_true_iff, Z.ltb_lt, Z.leb_le. tauto. }
  assert (Hin2 : forall x, In x W2 <-> In x Wi) by (intro x; unfold W2; rewrite !sort_in; tauto).
  assert (Hsorted : StronglySorted lex3 W2).
  { unfold W2, lex3. apply sort_lex. unfold lexPI. apply sort_lex. unfold Wi. apply sorted_filter. exact Hids. }
  assert (Hlen : (length W2 <= length (map ctl_of (map snd cs)))%nat).
  { unfold W2. rewrite (Permutation_length (sort_perm _ _)), (Permutation_length (sort_perm _ _)), !map_length. apply filter_len_le. }
  assert (Hbounds : forall x, In x W2 -> 0 <= x_thr x <= t) by (intros x Hx; apply Hin2, HWi in Hx; lia).
  destruct first.
  - destruct (Hfirst eq_refl) as [-> ->].
    assert (EW : Wi = []). { destruct Wi as [|a w] eqn:E; [reflexivity|]. exfalso. destruct (proj1 (HWi a) (or_introl eq_refl)) as [Ha Hw]. specialize (Hpos a Ha). lia. }
    assert (E2 : W2 = []) by (unfold W2; rewrite EW; reflexivity).
    destruct (loop_groups (-1) st [] 0 ltac:(intros x []) ltac:(lia) (S (length (map ctl_of (map snd cs))) + Z.to_nat (0 / rs) + 4) 0%nat ri Hri) as (ri' & res & Hri' & HS & E).
    { cbn [length]. lia. }
    cbn [map skipn] in E, HS. inversion HS; subst. exists 0, ri', st.
    split; [unfold presolve; unfold ga at 2 3 4; simpl controls; simpl start_clock; rewrite EL, E2; cbn [map]; exact E|].
    split; [exact Hri'|]. split; [lia|]. split.
    + apply (is_W_idle (-1) 0 st ltac:(lia)); [|exact HW]. intros x Hx Hw. specialize (Hpos x Hx). lia.
    + intros x Hx Hw. specialize (Hpos x Hx). lia.
  - destruct (loop_groups prev st W2 t Hbounds Ht (S (length (map ctl_of (map snd cs))) + Z.to_nat (t / rs) + 4) 0%nat ri Hri) as (ri' & res & Hri' & HS & E).
    { assert (0 <= t / rs) by (apply Z.div_pos; lia). lia. }
    cbn [skipn] in HS.
    assert (H1 : forall x, In x W2 -> In x cs /\ prev < x_thr x <= t) by (intros x Hx; apply HWi, Hin2; exact Hx).
    assert (H2 : forall x, In x cs -> prev < x_thr x <= t -> In x W2) by (intros x Hx Hw; apply Hin2, HWi; tauto).
    pose proof (scan_spec_W t W2 st res HS prev Hsorted H1 H2 ltac:(lia) HW) as HSS.
    assert (EP : presolve (S (length (controls ga)) + Z.to_nat (t / rs) + 4) ga false prev t ri st =
                 Some (match res with Some (th, st') => (th, ri', st') | None => (t, ri', st) end)).
    { unfold presolve. unfold ga at 2 3 4. simpl controls. simpl start_clock. rewrite EL. exact E. }
    destruct res as [[th st']|].
    + destruct HSS as (Q1 & Q2 & Q3 & Q4). exists th, ri', st'. split; [exact EP|]. split; [exact Hri'|]. split; [lia|]. split; [exact Q1|exact Q4].
    + destruct HSS as (Q1 & Q4). exists t, ri', st. split; [exact EP|]. split; [exact Hri'|]. split; [lia|]. split; [exact Q1|].
      intros x Hx Hw. apply Q4; [exact Hx|lia].
Qed.
(* ---- one solved step and the whole run ---- *)
Definition ainv (s : sstate) : Prop :=
  match s with (first, prev, t, ri, st) => 0 <= ri /\ -1 <= prev < t /\ 0 <= t /\ (first = true -> prev = -1 /\ t = 0) /\ is_W prev st end.
Definition s_stA (s : sstate) : list bool := match s with (_, _, _, _, st) => st end.

Lemma all_one_step s : ainv s ->
  exists e s', one_step ga s = Some (e, s') /\ ainv s' /\ s_prev s' = fst e /\ s_stA s' = snd e /\ s_prev s < fst e <= st_time s /\
    is_W (fst e) (snd e) /\ (forall a, In a cs -> s_prev s < x_thr a < fst e -> is_W (x_thr a) (s_stA s)) /\
    st_time s' = fst e + hs - (fst e + hs) mod hs.
Proof.
  destruct s as [[[[first prev] t] ri] st]. intros (Hri & Hp & Ht & Hfirst & HS).
  destruct (presolve_spec_W first prev t ri st Hri Hp Ht Hfirst HS) as (t1 & ri' & st1 & E & Hri' & Ht1 & HS1 & Hskip).
  unfold one_step. simpl rule_step. rewrite E. simpl hyd_step.
  pose proof (Z.mod_pos_bound (t1 + hs) hs Hhs) as Hm.
  eexists; eexists; split; [reflexivity|]. cbn [fst snd s_prev s_stA st_time].
  split; [unfold ainv; split; [exact Hri'|]; split; [lia|]; split; [lia|]; split; [discriminate|exact HS1]|].
  split; [reflexivity|]. split; [reflexivity|]. split; [lia|]. split; [exact HS1|]. split; [exact Hskip|reflexivity].
Qed.

Theorem all_steps D' : forall f s tr sf, ainv s -> steps f ga D' s = Some (tr, sf) ->
  ainv sf /\ (forall e, In e tr -> is_W (fst e) (snd e) /\ s_prev s < fst e <= s_prev sf) /\
  (forall a, In a cs -> s_prev s < x_thr a <= s_prev sf ->
     In (x_thr a) (map fst tr) \/ exists st, (st = s_stA s \/ In st (map snd tr)) /\ is_W (x_thr a) st).
Proof.
  induction f as [|f IH]; intros s tr sf Hinv H; cbn [steps] in H; [discriminate|].
  destruct (all_one_step s Hinv) as (e & s' & E & Hinv' & Hp' & Hst' & Hrange & HSe & Hskip & _).
  rewrite E in H. destruct (D' <? st_time s').
  - injection H as <- <-. split; [exact Hinv'|]. rewrite Hp'. split.
    + intros e0 [<-|[]]. split; [exact HSe|lia].
    + intros a Ha Hw. destruct (Z.eq_dec (x_thr a) (fst e)) as [Ee|Ne]; [left; left; symmetry; exact Ee|].
      right. exists (s_stA s). split; [left; reflexivity|]. apply Hskip; [exact Ha|lia].
  - destruct (steps f ga D' s') as [[tr' sf']|] eqn:Es; [|discriminate]. injection H as <- <-.
    destruct (IH _ _ _ Hinv' Es) as (Hsf & Hall & Hcov). rewrite Hp' in Hall, Hcov. split; [exact Hsf|].
    assert (Hmono : fst e <= s_prev sf').
    { destruct tr' as [|e0 r0]; [destruct f; cbn [steps] in Es; [discriminate|]; destruct (one_step ga s') as [[? ?]|]; [|discriminate];
        destruct (D' <? _); [discriminate|]; destruct (steps f ga D' _) as [[? ?]|]; discriminate|].
      destruct (Hall e0 (or_introl eq_refl)). lia. }
    split.
    + intros e0 [<-|He]; [split; [exact HSe|lia]|]. destruct (Hall e0 He). split; [assumption|lia].
    + intros a Ha Hw. cbn [map]. destruct (Z_lt_le_dec (x_thr a) (fst e)) as [Hlt|Hge].
      * right. exists (s_stA s). split; [left; reflexivity|]. apply Hskip; [exact Ha|lia].
      * destruct (Z.eq_dec (x_thr a) (fst e)) as [Ee|Ne]; [left; left; symmetry; exact Ee|].
        destruct (Hcov a Ha ltac:(lia)) as [Hin|(st & [->|Hin] & HSt)].
        -- left. right. exact Hin.
        -- right. exists (snd e). split; [right; left; reflexivity|]. rewrite <- Hst'. exact HSt.
        -- right. exists st. split; [right; right; exact Hin|exact HSt].
Qed.

Lemma ainv_init : ainv (init_state ga).
Proof.
  unfold init_state, ainv. simpl init_status. split; [lia|]. split; [lia|]. split; [lia|]. split; [intros _; split; reflexivity|].
  split; [reflexivity|]. intros l Hl. right. split; [|reflexivity]. intros b Hb Htb. specialize (Hpos b Hb). lia.
Qed.

(* every solved step of every run shows, link by link, the command of the latest control whose instant has been reached; and each control
   instant the run has passed is either a solved step or asks for the statuses a solved step (or the initial state) already shows *)
Theorem at_time_all_exact D' f tr sf : steps f ga D' (init_state ga) = Some (tr, sf) ->
  (forall e, In e tr -> is_W (fst e) (snd e)) /\
  (forall a, In a cs -> x_thr a <= s_prev sf ->
     In (x_thr a) (map fst tr) \/ exists st, (st = st0 \/ In st (map snd tr)) /\ is_W (x_thr a) st).
Proof.
  intro H. destruct (all_steps D' f _ _ _ ainv_init H) as (_ & Hall & Hcov). cbn [s_prev s_stA init_state] in *. split.
  - intros e He. exact (proj1 (Hall e He)).
  - intros a Ha Hle. apply Hcov; [exact Ha|]. specialize (Hpos a Ha). lia.
Qed.

(* total correctness: D a positive multiple of the hydraulic step *)
Lemma all_progress : D mod hs = 0 -> forall n s, ainv s -> st_time s mod hs = 0 -> st_time s <= D ->
  (Z.to_nat (D - s_prev s) < n)%nat -> exists tr sf, steps n ga D s = Some (tr, sf) /\ s_prev sf = D.
Proof.
  intros HD. induction n as [|n IH]; intros s Hinv Hg HtD Hn; [lia|].
  destruct (all_one_step s Hinv) as (e & s' & E & Hinv' & Hp' & _ & Hrange & _ & _ & Hnext).
  cbn [steps]. rewrite E.
  pose proof (Z.mod_pos_bound (fst e + hs) hs Hhs) as Hm.
  destruct (Z.ltb_spec D (st_time s')) as [Hd|Hd].
  - eexists; eexists; split; [reflexivity|]. rewrite Hp'. rewrite Hnext in Hd.
    destruct (Z.eq_dec (fst e) (st_time s)) as [Ee|Hne].
    + rewrite Ee in *. set (t := st_time s) in *.
      pose proof (Z.div_mod t hs ltac:(lia)) as Et. rewrite Hg in Et. pose proof (Z.div_mod D hs ltac:(lia)) as Ed. rewrite HD in Ed.
      assert (En : t + hs - (t + hs) mod hs = t + hs).
      { rewrite Z.add_mod by lia. rewrite Hg, Z.mod_same by lia. simpl. rewrite Z.mod_0_l by lia. lia. }
      rewrite En in Hd. assert (t / hs <= D / hs) by nia. assert (D / hs < t / hs + 1) by nia. nia.
    + pose proof (grid_next_le hs (fst e) (st_time s) Hhs Hg ltac:(lia)). lia.
  - destruct (IH s' Hinv') as (tr' & sf' & Es & Hend).
    + rewrite Hnext. apply grid_next_mod. exact Hhs.
    + exact Hd.
    + rewrite Hp'. destruct s as [[[[? prev] ?] ?] ?]. cbn [s_prev st_time] in *. lia.
    + rewrite Es. eexists; eexists; split; [reflexivity|exact Hend].
Qed.
Theorem at_time_all_total : 0 < D -> D mod hs = 0 ->
  exists f tr sf, steps f ga D (init_state ga) = Some (tr, sf) /\ s_prev sf = D /\
    (forall e, In e tr -> is_W (fst e) (snd e)) /\
    (forall a, In a cs -> x_thr a <= D ->
       In (x_thr a) (map fst tr) \/ exists st, (st = st0 \/ In st (map snd tr)) /\ is_W (x_thr a) st).
Proof.
  intros HD Hmod.
  destruct (all_progress Hmod (S (Z.to_nat (D + 1))) (init_state ga) ainv_init) as (tr & sf & Es & Hend);
    [apply Z.mod_0_l; lia|cbn [st_time init_state]; lia|cbn [s_prev init_state]; lia|].
  exists (S (Z.to_nat (D + 1))), tr, sf. split; [exact Es|]. split; [exact Hend|].
  destruct (at_time_all_exact D _ _ _ Es) as [Ha Hb]. rewrite Hend in Hb. split; assumption.
Qed.
(* a pause anywhere + a NEW simulator object (rule index recomputed): the continued part still shows, at every solved step, the command of the
   latest control reached, lies after the pause, and steps over no instant at which a control changes a status *)
Lemma restart_ainv s : ainv s -> ainv (restart_state ga s).
Proof.
  destruct s as [[[[first prev] t] ri] st]. unfold ainv, restart_state. intros (Hri & Hp & Ht & Hfirst & HS). simpl rule_step.
  split; [|split; [exact Hp|split; [exact Ht|split; [discriminate|exact HS]]]].
  assert (-1 <= prev / rs); [|lia]. apply Z.div_le_lower_bound; lia.
Qed.
Theorem at_time_all_survives_pause D1 D' f1 tr1 s1 f2 tr2 s2 :
  steps f1 ga D1 (init_state ga) = Some (tr1, s1) -> steps f2 ga D' (restart_state ga s1) = Some (tr2, s2) ->
  (forall e, In e (tr1 ++ tr2) -> is_W (fst e) (snd e)) /\ (forall e, In e tr2 -> s_prev s1 < fst e) /\
  (forall a, In a cs -> s_prev s1 < x_thr a <= s_prev s2 ->
     In (x_thr a) (map fst tr2) \/ exists st, (st = s_stA s1 \/ In st (map snd tr2)) /\ is_W (x_thr a) st).
Proof.
  intros H1 H2. destruct (all_steps D1 _ _ _ _ ainv_init H1) as (Hs1 & Hall1 & _).
  assert (Hp : s_prev (restart_state ga s1) = s_prev s1) by (destruct s1 as [[[[? ?] ?] ?] ?]; reflexivity).
  assert (Hq : s_stA (restart_state ga s1) = s_stA s1) by (destruct s1 as [[[[? ?] ?] ?] ?]; reflexivity).
  destruct (all_steps D' _ _ _ _ (restart_ainv _ Hs1) H2) as (_ & Hall2 & Hcov2). rewrite Hp in Hall2, Hcov2. rewrite Hq in Hcov2.
  split; [|split].
  - intros e He. apply in_app_or in He. destruct He as [He|He]; [exact (proj1 (Hall1 e He))|exact (proj1 (Hall2 e He))].
  - intros e He. destruct (Hall2 e He) as [_ Hr]. lia.
  - exact Hcov2.
Qed.
End ControlSetAll.
