(* C04 -- one AT TIME control through the whole presolve loop: the step is cut at exactly the control's instant (also off the
   hydraulic and rule grids), with the commanded status, and nothing happens at any other step. *)
From Coq Require Import ZArith List Bool Lia.
From WNTRV Require Import Lib.Sched.
Import ListNotations.
Local Open Scope Z_scope.

Lemma list_beq_refl st : list_beq st st = true.
Proof. induction st as [|x r IH]; simpl; auto. rewrite IH. destruct x; reflexivity. Qed.
Lemma list_beq_set_nth st l v : (l < length st)%nat -> nth l st v <> v -> list_beq (set_nth st l v) st = false.
Proof.
  revert l; induction st as [|x r IH]; intros [|l] Hl Hn; simpl in *; try lia.
  - destruct v, x; simpl; auto; congruence.
  - rewrite IH by (auto; lia). destruct x; reflexivity.
Qed.

Section OneControl.
Variables (thr hs rs sc D : Z) (l : nat) (v : bool) (st0 : list bool) (p : Z).
Definition ctl : control := {| c_cond := CSim Req thr 0; c_prio := p; c_act := (l, v) |}.
Definition g1 : cfg := {| hyd_step := hs; rule_step := rs; duration := D; start_clock := sc; controls := [ctl]; rules := []; init_status := st0 |}.
Hypothesis Hrs : 0 < rs.

(* nothing to run: the loop walks over the rule instants up to t and returns t with the statuses untouched *)
Lemma loop_silent prev t st : forall fuel ri, 0 <= ri -> (Z.to_nat (t / rs + 1 - ri) < fuel)%nat ->
  exists ri', 0 <= ri' /\ presolve_loop fuel g1 prev st [] 0 t ri st = Some (t, ri', st).
Proof.
  induction fuel as [|fuel IH]; intros ri Hri Hf; [lia|].
  cbn [presolve_loop]. cbn [length Nat.ltb Nat.leb negb andb skipn]. simpl rule_step. simpl rules. simpl start_clock.
  destruct (Z.leb_spec (ri * rs) t) as [Hle|Hgt]; simpl.
  - unfold run_rules; simpl. rewrite list_beq_refl. simpl. apply IH; [lia|].
    assert (ri <= t / rs) by (apply Z.div_le_lower_bound; lia). lia.
  - exists ri. split; [exact Hri|reflexivity].
Qed.

(* the control is due b seconds before t: the loop passes the rule instants before t - b and then cuts the step there *)
Lemma loop_fires prev t st b : (l < length st)%nat -> nth l st v <> v -> 0 <= t - b ->
  forall fuel ri, 0 <= ri -> (Z.to_nat ((t - b) / rs + 1 - ri) < fuel)%nat ->
  exists ri', 0 <= ri' /\ presolve_loop fuel g1 prev st [(ctl, b)] 0 t ri st = Some (t - b, ri', set_nth st l v).
Proof.
  intros Hl Hn Hb. induction fuel as [|fuel IH]; intros ri Hri Hf; [lia|].
  cbn [presolve_loop]. cbn [length Nat.ltb Nat.leb negb andb skipn]. simpl rule_step. simpl rules. simpl start_clock.
  destruct (Z.ltb_spec (t - b) (ri * rs)) as [Hlt|Hge].
  - simpl. rewrite Z.eqb_refl. simpl. unfold run_actions; simpl. rewrite (list_beq_set_nth st l v Hl Hn). simpl. exists ri. split; [exact Hri|reflexivity].
  - destruct (Z.eqb_spec (t - b) (ri * rs)) as [Heq|Hne].
    + unfold run_rules; simpl. rewrite Z.eqb_refl. simpl. unfold run_actions; simpl. rewrite (list_beq_set_nth st l v Hl Hn). simpl. exists (ri + 1). split; [lia|reflexivity].
    + unfold run_rules; simpl. rewrite list_beq_refl. simpl. apply IH; [lia|].
      assert (ri <= (t - b) / rs) by (apply Z.div_le_lower_bound; lia). lia.
Qed.

Local Opaque presolve_loop.
(* one solved step of a run with this control *)
Theorem at_time_fires_exactly prev t ri st : 0 < hs -> prev < thr <= t -> 0 <= thr -> 0 <= ri -> (l < length st)%nat -> nth l st v <> v ->
  exists ri', 0 <= ri' /\ one_step g1 (false, prev, t, ri, st) =
     Some ((thr, set_nth st l v), (false, thr, thr + hs - (thr + hs) mod hs, ri', set_nth st l v)).
Proof.
  intros Hhs [H1 H2] Hthr Hri Hl Hn. unfold one_step, presolve. simpl controls. simpl start_clock. simpl rule_step. simpl hyd_step.
  unfold check_controls; simpl. unfold eval_sim. simpl.
  destruct (Z.ltb_spec prev thr); [|lia]. destruct (Z.leb_spec thr t); [|lia]. simpl.
  unfold sort_stable; simpl.
  destruct (loop_fires prev t st (t - thr) Hl Hn ltac:(lia) (S 1 + Z.to_nat (t / rs) + 4) ri Hri) as (ri' & Hri' & E).
  { replace (t - (t - thr)) with thr by lia.
    assert (thr / rs <= t / rs) by (apply Z.div_le_mono; lia). assert (0 <= thr / rs) by (apply Z.div_pos; lia). lia. }
  replace (t - (t - thr)) with thr in E by lia. simpl length. cbn [Nat.add] in E. cbn [Nat.add]. rewrite E. exists ri'. split; [exact Hri'|reflexivity].
Qed.
Theorem at_time_silent_otherwise first prev t ri st : 0 <= t -> 0 <= ri -> ~ (prev < thr <= t) ->
  exists ri', 0 <= ri' /\ one_step g1 (first, prev, t, ri, st) = Some ((t, st), (false, t, t + hs - (t + hs) mod hs, ri', st)).
Proof.
  intros Ht Hri Hno. unfold one_step, presolve. simpl controls. simpl start_clock. simpl rule_step. simpl hyd_step.
  unfold check_controls; simpl. unfold eval_sim. simpl.
  assert (E0 : (prev <? thr) && (thr <=? t) = false).
  { destruct (Z.ltb_spec prev thr); destruct (Z.leb_spec thr t); simpl; auto. exfalso. apply Hno. lia. }
  rewrite E0. simpl. unfold sort_stable; simpl.
  destruct (loop_silent prev t st (S 1 + Z.to_nat (t / rs) + 4) ri Hri) as (ri' & Hri' & E).
  { assert (0 <= t / rs) by (apply Z.div_pos; lia). lia. }
  simpl length. cbn [Nat.add] in E. cbn [Nat.add]. destruct first; simpl; rewrite E; exists ri'; split; auto.
Qed.

(* ---- the whole run ---- *)
Lemma set_nth_length (st : list bool) n b : length (set_nth st n b) = length st.
Proof. revert n; induction st as [|x r IH]; intros [|n]; simpl; auto. Qed.

(* after the instant has passed nothing changes any more, and the run completes *)
Lemma tail_silent st : 0 < hs -> forall n prev t ri, thr <= prev -> prev <= t -> 0 <= t -> 0 <= ri -> (Z.to_nat (D - t) < n)%nat ->
  exists tr s, steps n g1 D (false, prev, t, ri, st) = Some (tr, s) /\ forall e, In e tr -> snd e = st /\ t <= fst e.
Proof.
  intros Hhs. induction n as [|n IH]; intros prev t ri Hp Hpt Ht Hri Hn; [lia|].
  destruct (at_time_silent_otherwise false prev t ri st Ht Hri ltac:(lia)) as (ri' & Hri' & E).
  cbn [steps]. rewrite E. cbn [st_time].
  pose proof (Z.mod_pos_bound (t + hs) hs Hhs) as Hm.
  destruct (Z.ltb_spec D (t + hs - (t + hs) mod hs)) as [Hd|Hd].
  - eexists; eexists; split; [reflexivity|]. intros e [<-|[]]. simpl. split; [reflexivity|lia].
  - destruct (IH t (t + hs - (t + hs) mod hs) ri' ltac:(lia) ltac:(lia) ltac:(lia) Hri' ltac:(lia)) as (tr & s & Es & Htr).
    rewrite Es. eexists; eexists; split; [reflexivity|]. intros e [<-|He]; [simpl; split; [reflexivity|lia]|].
    destruct (Htr e He). split; [assumption|lia].
Qed.

(* the run of one AT TIME control: every step before the instant keeps the initial statuses, a step is solved at exactly thr with
   the commanded status, and every later step keeps it (D a multiple of the hydraulic step, 0 < thr <= D) *)
Theorem at_time_control_exact : 0 < hs -> D mod hs = 0 -> 0 < thr <= D -> (l < length st0)%nat -> nth l st0 v <> v ->
  exists f tr s, steps f g1 D (init_state g1) = Some (tr, s) /\
    In (thr, set_nth st0 l v) tr /\
    (forall e, In e tr -> (fst e < thr -> snd e = st0) /\ (thr <= fst e -> snd e = set_nth st0 l v)).
Proof.
  intros Hhs HD [Hthr HthrD] Hl Hn.
  assert (Hgen : forall n first prev t ri, prev < thr -> 0 <= t -> t mod hs = 0 -> t <= D -> 0 <= ri -> (first = true -> t < thr) ->
            (Z.to_nat (thr - t) < n)%nat ->
            exists f tr s, steps f g1 D (first, prev, t, ri, st0) = Some (tr, s) /\ In (thr, set_nth st0 l v) tr /\
              (forall e, In e tr -> (fst e < thr -> snd e = st0) /\ (thr <= fst e -> snd e = set_nth st0 l v))).
  { induction n as [|n IH]; intros first prev t ri Hp Ht Hgrid HtD Hri Hfirst Hn'; [lia|].
    destruct (Z.lt_ge_cases t thr) as [Hlt|Hge].
    - (* not yet: a silent step on the grid *)
      destruct (at_time_silent_otherwise first prev t ri st0 Ht Hri ltac:(lia)) as (ri' & Hri' & E).
      assert (Enext : t + hs - (t + hs) mod hs = t + hs).
      { rewrite Z.add_mod by lia. rewrite Hgrid, Z.mod_same by lia. simpl. rewrite Z.mod_0_l by lia. lia. }
      assert (HnextD : t + hs <= D).
      { assert (Hd : D = hs * (D / hs)) by (pose proof (Z.div_mod D hs ltac:(lia)); lia).
        assert (Ht' : t = hs * (t / hs)) by (pose proof (Z.div_mod t hs ltac:(lia)); lia).
        assert (t / hs < D / hs) by nia. nia. }
      destruct (IH false t (t + hs) ri' Hlt ltac:(lia) ltac:(rewrite Z.add_mod by lia; rewrite Hgrid, Z.mod_same by lia; simpl; apply Z.mod_0_l; lia) HnextD Hri' ltac:(discriminate) ltac:(lia))
        as (f & tr & s & Es & Hin & Hall).
      exists (S f). cbn [steps]. rewrite E. cbn [st_time]. rewrite Enext. destruct (Z.ltb_spec D (t + hs)); [lia|].
      rewrite Es. eexists; eexists; split; [reflexivity|]. split; [right; exact Hin|].
      intros e [<-|He]; [simpl; split; [reflexivity|lia]|apply Hall; exact He].
    - (* the instant lies in (prev, t]: the step is cut at thr *)
      assert (first = false) by (destruct first; [specialize (Hfirst eq_refl); lia|reflexivity]). subst first.
      destruct (at_time_fires_exactly prev t ri st0 Hhs ltac:(lia) ltac:(lia) Hri Hl Hn) as (ri' & Hri' & E).
      pose proof (Z.mod_pos_bound (thr + hs) hs Hhs) as Hm.
      destruct (Z.ltb_spec D (thr + hs - (thr + hs) mod hs)) as [Hd|Hd].
      + exists 1%nat. cbn [steps]. rewrite E. cbn [st_time]. destruct (Z.ltb_spec D (thr + hs - (thr + hs) mod hs)); [|lia].
        eexists; eexists; split; [reflexivity|]. split; [left; reflexivity|]. intros e [<-|[]]. simpl. split; [lia|reflexivity].
      + destruct (tail_silent (set_nth st0 l v) Hhs (S (Z.to_nat (D - (thr + hs - (thr + hs) mod hs)))) thr (thr + hs - (thr + hs) mod hs) ri'
                    ltac:(lia) ltac:(lia) ltac:(lia) Hri' ltac:(lia)) as (tr & s & Es & Htr).
        exists (S (S (Z.to_nat (D - (thr + hs - (thr + hs) mod hs))))). cbn [steps]. rewrite E. cbn [st_time].
        destruct (Z.ltb_spec D (thr + hs - (thr + hs) mod hs)); [lia|]. cbn [steps] in Es. rewrite Es.
        eexists; eexists; split; [reflexivity|]. split; [left; reflexivity|].
        intros e [<-|He]; [simpl; split; [lia|reflexivity]|]. destruct (Htr e He) as [H1 H2]. split; [lia|intros _; exact H1]. }
  apply (Hgen (S (Z.to_nat thr)) true (-1) 0 0); try lia; try (apply Z.mod_0_l; lia); intros _; lia.
Qed.
End OneControl.
