(* C04 -- simple AT TIME controls AND rules IF SYSTEM TIME >= thr together (any number of each, coinciding instants, priorities, shared
   targets), through both sorts, the whole presolve/rule loop with its three branches and the whole run.  The statuses at time T, link by
   link (K = the last multiple of the rule step <= T):
     - a control on the link with K <= instant <= T: the winner among the controls reached (latest instant, priority, registration);
     - otherwise, if a rule on the link is true at K: the winner among the true rules (priority, registration) -- rules are re-applied at
       every rule instant and so override older controls;
     - otherwise the winner among the controls reached, or the initial status. *)
From Coq Require Import ZArith List Bool Lia Sorted Permutation.
From WNTRV Require Import Lib.Sched C04.AtTime C04.Window C10.Invariant C04.AtTimeSet C04.AtTimeAll C04.RuleSet.
Import ListNotations.
Local Open Scope Z_scope.

Section Mixed.
Variables (cs rl : list atci) (hs rs sc D : Z) (st0 : list bool).
Definition gm : cfg := {| hyd_step := hs; rule_step := rs; duration := D; start_clock := sc;
                          controls := map ctl_of (map snd cs); rules := map rule_of rl; init_status := st0 |}.
Hypothesis Hrs : 0 < rs.
Hypothesis Hhs : 0 < hs.
Hypothesis Hposc : forall x, In x cs -> 0 < x_thr x.
Hypothesis Hposr : forall x, In x rl -> 0 < x_thr x.
Hypothesis Hidc : StronglySorted R_id cs.
Hypothesis Hidr : StronglySorted R_id rl.

Definition RA (K : Z) (st : list bool) : list bool := run_actions (map x_act (true_at rl K)) st.
Definition GA (R : list atci) (st : list bool) : list bool :=
  match R with [] => st | x :: _ => run_actions (map x_act (grp (x_thr x) R)) st end.
Lemma run_rules_gm t' prev st : run_rules sc t' prev (rules gm) st = RA t' st.
Proof. exact (run_rules_gr rl hs rs sc D st0 t' prev st). Qed.

Section Loop.
Variable t : Z.
Definition next_is_rule (R : list atci) (ri : Z) : Prop := match R with [] => True | x :: _ => ri * rs < x_thr x end.
Inductive MScan : list atci -> Z -> list bool -> Z * Z * list bool -> Prop :=
| M_end ref ri : t < ri * rs -> MScan [] ri ref (t, ri, ref)
| M_rule_noop R ri ref res : ri * rs <= t -> next_is_rule R ri -> RA (ri * rs) ref = ref -> MScan R (ri + 1) ref res -> MScan R ri ref res
| M_rule_fire R ri ref : ri * rs <= t -> next_is_rule R ri -> RA (ri * rs) ref <> ref -> MScan R ri ref (ri * rs, ri + 1, RA (ri * rs) ref)
| M_ctl_noop x r ri ref res : x_thr x < ri * rs -> GA (x :: r) ref = ref -> MScan (rst (x_thr x) (x :: r)) ri ref res -> MScan (x :: r) ri ref res
| M_ctl_fire x r ri ref : x_thr x < ri * rs -> GA (x :: r) ref <> ref -> MScan (x :: r) ri ref (x_thr x, ri, GA (x :: r) ref)
| M_both_noop x r ri ref res : x_thr x = ri * rs -> GA (x :: r) (RA (ri * rs) ref) = ref -> MScan (rst (x_thr x) (x :: r)) (ri + 1) ref res ->
    MScan (x :: r) ri ref res
| M_both_fire x r ri ref : x_thr x = ri * rs -> GA (x :: r) (RA (ri * rs) ref) <> ref ->
    MScan (x :: r) ri ref (x_thr x, ri + 1, GA (x :: r) (RA (ri * rs) ref)).

Lemma loop_mixed prev ref W2 : (forall x, In x W2 -> 0 <= x_thr x <= t) -> 0 <= t ->
  forall fuel cnt ri, 0 <= ri -> (length W2 - cnt + Z.to_nat (t / rs + 1 - ri) < fuel)%nat ->
  exists res, MScan (skipn cnt W2) ri ref res /\ presolve_loop fuel gm prev ref (map (fx t) W2) cnt t ri ref = Some res.
Proof.
  intros Hb Ht. induction fuel as [|fuel IH]; intros cnt ri Hri Hf; [lia|].
  cbn [presolve_loop]. simpl rule_step. simpl start_clock. rewrite !run_rules_gm.
  rewrite skipn_map, map_length.
  destruct (skipn cnt W2) as [|x r] eqn:R.
  - pose proof (skipn_nil_len W2 cnt R) as Hlen.
    assert (E : Nat.ltb cnt (length W2) = false) by (apply Nat.ltb_ge; exact Hlen). rewrite E. cbn [negb andb map].
    destruct (Z.leb_spec (ri * rs) t) as [Hle|Hgt]; cbn [negb].
    + destruct (list_beq (RA (ri * rs) ref) ref) eqn:Eb; cbn [negb].
      * apply list_beq_eq in Eb.
        assert (Hq : ri <= t / rs) by (apply Z.div_le_lower_bound; lia).
        assert (Hm : (length W2 - cnt + Z.to_nat (t / rs + 1 - (ri + 1)) < fuel)%nat) by (clear - Hf Hq Hri; lia).
        destruct (IH cnt (ri + 1) ltac:(lia) Hm) as (res & HS & E'). rewrite R in HS. exists res.
        split; [apply M_rule_noop; [exact Hle|exact I|exact Eb|exact HS]|]. rewrite Eb. exact E'.
      * eexists. split; [|reflexivity]. apply M_rule_fire; [exact Hle|exact I|]. intro Eq. rewrite Eq, list_beq_refl in Eb. discriminate.
    + eexists. split; [|reflexivity]. apply M_end. exact Hgt.
  - pose proof (skipn_cons_len W2 cnt _ _ R) as Hlen.
    assert (E : Nat.ltb cnt (length W2) = true) by (apply Nat.ltb_lt; exact Hlen). rewrite E. cbn [negb andb].
    assert (Hx : 0 <= x_thr x <= t). { apply Hb. assert (Hin : In x (skipn cnt W2)) by (rewrite R; left; reflexivity). clear - Hin.
      revert cnt Hin. induction W2 as [|y L' IHL]; intros [|cnt] Hin; simpl in *; try tauto. right. apply (IHL cnt Hin). }
    set (th := x_thr x) in *.
    assert (ER : skipn (cnt + length (grp th (x :: r))) W2 = rst th (x :: r)) by (apply skipn_more; rewrite R; apply grp_rst).
    assert (HG1 : (1 <= length (grp th (x :: r)))%nat) by (cbn [grp]; unfold th; rewrite Z.eqb_refl; cbn; lia).
    assert (HG2 : (cnt + length (grp th (x :: r)) <= length W2)%nat).
    { pose proof (f_equal (@length _) (grp_rst th (x :: r))) as HL. rewrite app_length in HL. rewrite <- R in HL at 1. rewrite skipn_length in HL. lia. }
    change (map (fx t) (x :: r)) with ((ctl_of (snd x), t - th) :: map (fx t) r). cbv iota beta.
    change ((ctl_of (snd x), t - th) :: map (fx t) r) with (map (fx t) (x :: r)).
    rewrite ?run_rules_gm. rewrite !(run_same_group t th (x :: r) _ cnt).
    replace (t - (t - th)) with th by lia.
    change (run_actions (map x_act (grp th (x :: r))) ref) with (GA (x :: r) ref).
    change (run_actions (map x_act (grp th (x :: r))) (RA th ref)) with (GA (x :: r) (RA th ref)).
    destruct (Z.ltb_spec th (ri * rs)) as [Hlt|Hge].
    + destruct (list_beq (GA (x :: r) ref) ref) eqn:Eb; cbn [negb].
      * apply list_beq_eq in Eb.
        assert (Hm : (length W2 - (cnt + length (grp th (x :: r))) + Z.to_nat (t / rs + 1 - ri) < fuel)%nat) by (clear - Hf HG1 HG2; lia).
        destruct (IH _ ri Hri Hm) as (res & HS & E'). rewrite ER in HS.
        exists res. split; [apply M_ctl_noop; [exact Hlt|exact Eb|exact HS]|]. rewrite Eb. exact E'.
      * eexists. split; [|reflexivity]. apply M_ctl_fire; [exact Hlt|]. intro Eq. rewrite Eq, list_beq_refl in Eb. discriminate.
    + destruct (Z.eqb_spec th (ri * rs)) as [Heq|Hne].
      * destruct (list_beq (GA (x :: r) (RA th ref)) ref) eqn:Eb; cbn [negb].
        -- apply list_beq_eq in Eb.
           assert (Hq : ri <= t / rs) by (apply Z.div_le_lower_bound; lia).
           assert (Hm : (length W2 - (cnt + length (grp th (x :: r))) + Z.to_nat (t / rs + 1 - (ri + 1)) < fuel)%nat) by (clear - Hf HG1 HG2 Hq Hri; lia).
           destruct (IH _ (ri + 1) ltac:(lia) Hm) as (res & HS & E'). rewrite ER in HS.
           exists res. split; [apply M_both_noop; [exact Heq|rewrite <- Heq; exact Eb|exact HS]|]. rewrite Eb. exact E'.
        -- assert (Eq2 : RA th ref = RA (ri * rs) ref) by (rewrite Heq; reflexivity). rewrite Eq2 in *.
           eexists. split; [|reflexivity]. apply M_both_fire; [exact Heq|]. intro Eq. rewrite Eq, list_beq_refl in Eb. discriminate.
      * destruct (list_beq (RA (ri * rs) ref) ref) eqn:Eb; cbn [negb].
        -- apply list_beq_eq in Eb.
           assert (Hq : ri <= t / rs) by (apply Z.div_le_lower_bound; lia).
           assert (Hm : (length W2 - cnt + Z.to_nat (t / rs + 1 - (ri + 1)) < fuel)%nat) by (clear - Hf Hq Hri; lia).
           destruct (IH cnt (ri + 1) ltac:(lia) Hm) as (res & HS & E'). rewrite R in HS.
           exists res. split; [apply M_rule_noop; [lia|cbn; fold th; lia|exact Eb|exact HS]|]. rewrite Eb. exact E'.
        -- eexists. split; [|reflexivity]. apply M_rule_fire; [lia|cbn; fold th; lia|]. intro Eq. rewrite Eq, list_beq_refl in Eb. discriminate.
Qed.
End Loop.
(* ---- the specification ---- *)
Definition KT (T : Z) : Z := T / rs * rs.
Definition cwin (T : Z) (l : nat) (x : atci) : Prop :=
  In x cs /\ x_thr x <= T /\ x_link x = l /\ forall y, In y cs -> x_thr y <= T -> x_link y = l -> y = x \/ lex3 y x.
Definition cnone (T : Z) (l : nat) : Prop := forall y, In y cs -> x_thr y <= T -> x_link y <> l.
Definition rwin (K : Z) (l : nat) (z : atci) : Prop :=
  In z rl /\ x_thr z <= K /\ x_link z = l /\ forall y, In y rl -> x_thr y <= K -> x_link y = l -> y = z \/ lexPI y z.
Definition rnone (K : Z) (l : nat) : Prop := forall y, In y rl -> x_thr y <= K -> x_link y <> l.
Definition ctl_or_init (T : Z) (l : nat) (v : bool) : Prop := (exists x, cwin T l x /\ v = x_val x) \/ (cnone T l /\ v = nth l st0 false).

(* after every event (rules, then controls) at instants <= T *)
Definition is_M (T : Z) (st : list bool) : Prop :=
  length st = length st0 /\ forall l, (l < length st0)%nat ->
    (exists x, cwin T l x /\ KT T <= x_thr x /\ nth l st false = x_val x)
    \/ ((forall x, cwin T l x -> x_thr x < KT T) /\ exists z, rwin (KT T) l z /\ nth l st false = x_val z)
    \/ (rnone (KT T) l /\ ctl_or_init T l (nth l st false)).
(* after the rules at the rule instant K, before the controls at K *)
Definition is_M' (K : Z) (st : list bool) : Prop :=
  length st = length st0 /\ forall l, (l < length st0)%nat ->
    (exists z, rwin K l z /\ nth l st false = x_val z) \/ (rnone K l /\ ctl_or_init (K - 1) l (nth l st false)).

Lemma KT_le T : KT T <= T < KT T + rs.
Proof. unfold KT. pose proof (Z.div_mod T rs ltac:(lia)). pose proof (Z.mod_pos_bound T rs Hrs). nia. Qed.
Lemma KT_mult j : KT (j * rs) = j * rs.
Proof. unfold KT. rewrite Z.div_mul by lia. reflexivity. Qed.
Lemma KT_tight T k : (k - 1) * rs <= T < k * rs -> KT T = (k - 1) * rs.
Proof. intro H. unfold KT. rewrite (div_tight rs T k H). reflexivity. Qed.

Lemma cwin_shift T T' l x : T <= T' -> (forall y, In y cs -> T < x_thr y <= T' -> x_link y <> l) -> (cwin T l x <-> cwin T' l x).
Proof.
  intros HT Hno. unfold cwin. split; intros (H1 & H2 & H3 & H4).
  - split; [exact H1|]. split; [lia|]. split; [exact H3|]. intros y Hy Hty Hly.
    destruct (Z_le_gt_dec (x_thr y) T) as [Hc|Hc]; [apply H4; assumption|]. exfalso. exact (Hno y Hy ltac:(lia) Hly).
  - assert (Hx : x_thr x <= T). { destruct (Z_le_gt_dec (x_thr x) T) as [Hc|Hc]; [exact Hc|]. exfalso. exact (Hno x H1 ltac:(lia) H3). }
    split; [exact H1|]. split; [exact Hx|]. split; [exact H3|]. intros y Hy Hty Hly. apply H4; try assumption. lia.
Qed.
Lemma cnone_shift T T' l : T <= T' -> (forall y, In y cs -> T < x_thr y <= T' -> x_link y <> l) -> (cnone T l <-> cnone T' l).
Proof.
  intros HT Hno. unfold cnone. split; intros H y Hy Hty.
  - destruct (Z_le_gt_dec (x_thr y) T) as [Hc|Hc]; [exact (H y Hy Hc)|exact (Hno y Hy ltac:(lia))].
  - apply H; [exact Hy|lia].
Qed.
Lemma coi_shift T T' l v : T <= T' -> (forall y, In y cs -> T < x_thr y <= T' -> x_link y <> l) -> ctl_or_init T l v -> ctl_or_init T' l v.
Proof.
  intros HT Hno [(x & Hx & Hv)|[Hn Hv]]; [left; exists x; split; [apply (cwin_shift T T' l x HT Hno); exact Hx|exact Hv]|right; split; [apply (cnone_shift T T' l HT Hno); exact Hn|exact Hv]].
Qed.

(* a group of controls sharing the instant th, applied in (priority, registration) order *)
Section Group.
Variables (T' th : Z) (G : list atci).
Hypothesis HT : T' < th.
Hypothesis HG1 : forall x, In x G -> In x cs /\ x_thr x = th.
Hypothesis HG2 : forall x, In x cs -> T' < x_thr x <= th -> In x G.
Hypothesis HsG : StronglySorted lex3 G.
Lemma group_win l st : (l < length st)%nat -> (exists y, In y G /\ x_link y = l) ->
  exists x, cwin th l x /\ x_thr x = th /\ nth l (run_actions (map x_act G) st) false = x_val x.
Proof.
  intros Hl Hex. destruct (last_target G l Hex) as (G1 & x & G2 & EG & Hlx & HG2').
  assert (HxG : In x G) by (rewrite EG; apply in_or_app; right; left; reflexivity). destruct (HG1 x HxG) as [Hxcs Hxt].
  exists x. split; [|split; [exact Hxt|]].
  - split; [exact Hxcs|]. split; [lia|]. split; [exact Hlx|]. intros y Hy Hty Hly. destruct (Z_le_gt_dec (x_thr y) T') as [Hc|Hc].
    + right. left. lia.
    + assert (HyG : In y G) by (apply HG2; [exact Hy|lia]). rewrite EG in HyG. apply in_app_or in HyG. destruct HyG as [HyG|[<-|HyG]].
      * right. rewrite EG in HsG. exact (sorted_app_mid lex3 G1 x G2 HsG y HyG).
      * left. reflexivity.
      * exfalso. exact (HG2' y HyG Hly).
  - rewrite EG, map_app. cbn [map]. unfold x_act at 2. rewrite Hlx. apply ra_last; [exact Hl|].
    intros a Ha. apply in_map_iff in Ha. destruct Ha as (y & <- & Hy). cbn [x_act fst]. exact (HG2' y Hy).
Qed.
Lemma group_untouched l st : (forall y, In y G -> x_link y <> l) -> nth l (run_actions (map x_act G) st) false = nth l st false.
Proof. intro H. apply ra_untouched. intros a Ha. apply in_map_iff in Ha. destruct Ha as (y & <- & Hy). cbn [x_act fst]. exact (H y Hy). Qed.
Lemma group_no_other l : (forall y, In y G -> x_link y <> l) -> forall y, In y cs -> T' < x_thr y <= th -> x_link y <> l.
Proof. intros H y Hy Hw. exact (H y (HG2 y Hy Hw)). Qed.
End Group.
Lemma in_group_dec (G : list atci) l : (exists y, In y G /\ x_link y = l) \/ (forall y, In y G -> x_link y <> l).
Proof.
  destruct (existsb (fun y => Nat.eqb (x_link y) l) G) eqn:E.
  - left. apply existsb_exists in E. destruct E as (y & Hy & Ey). apply Nat.eqb_eq in Ey. exists y. tauto.
  - right. intros y Hy Ey. assert (existsb (fun y => Nat.eqb (x_link y) l) G = true); [|congruence]. apply existsb_exists. exists y. split; [exact Hy|apply Nat.eqb_eq; exact Ey].
Qed.

(* the rules at the rule instant K *)
Lemma rules_win K l st : (l < length st)%nat -> (exists y, In y (true_at rl K) /\ x_link y = l) ->
  exists z, rwin K l z /\ nth l (RA K st) false = x_val z.
Proof.
  intros Hl Hex. pose proof (true_at_sorted rl Hidr K) as Hs. set (G := true_at rl K) in *.
  destruct (last_target G l Hex) as (G1 & x & G2 & EG & Hlx & HG2').
  assert (HxG : In x G) by (rewrite EG; apply in_or_app; right; left; reflexivity).
  destruct (proj1 (true_at_in rl K x) HxG) as [Hxcs Hxt]. exists x. split.
  - split; [exact Hxcs|]. split; [exact Hxt|]. split; [exact Hlx|]. intros y Hy Hty Hly.
    assert (HyG : In y G) by (apply true_at_in; tauto). rewrite EG in HyG. apply in_app_or in HyG. destruct HyG as [HyG|[<-|HyG]].
    + right. rewrite EG in Hs. exact (sorted_app_mid lexPI G1 x G2 Hs y HyG).
    + left. reflexivity.
    + exfalso. exact (HG2' y HyG Hly).
  - unfold RA. fold G. rewrite EG, map_app. cbn [map]. unfold x_act at 2. rewrite Hlx. apply ra_last; [exact Hl|].
    intros a Ha. apply in_map_iff in Ha. destruct Ha as (y & <- & Hy). cbn [x_act fst]. exact (HG2' y Hy).
Qed.
Lemma rules_untouched K l st : (forall y, In y (true_at rl K) -> x_link y <> l) -> nth l (RA K st) false = nth l st false /\ rnone K l.
Proof.
  intro H. split.
  - unfold RA. apply ra_untouched. intros a Ha. apply in_map_iff in Ha. destruct Ha as (y & <- & Hy). cbn [x_act fst]. exact (H y Hy).
  - intros y Hy Hty. apply H. apply true_at_in. tauto.
Qed.

(* E1: the rules at the next rule instant K, no event strictly between T and K *)
Lemma ev_rules T K st : T < K -> KT T < K -> (forall y, In y cs -> ~ (T < x_thr y < K)) -> is_M T st -> is_M' K (RA K st).
Proof.
  intros HTK HK Hno [Hlen H]. split; [unfold RA; rewrite ra_length; exact Hlen|]. intros l Hl.
  destruct (in_group_dec (true_at rl K) l) as [Hex|Hnone].
  - left. apply rules_win; [rewrite Hlen; exact Hl|exact Hex].
  - destruct (rules_untouched K l st Hnone) as [Ev Hrn]. rewrite Ev. right. split; [exact Hrn|].
    assert (Hsh : forall y, In y cs -> T < x_thr y <= K - 1 -> x_link y <> l) by (intros y Hy Hw; exfalso; apply (Hno y Hy); lia).
    destruct (H l Hl) as [(x & Hx & _ & Hv)|[(_ & z & Hz & _)|(_ & Hc)]].
    + left. exists x. split; [apply (cwin_shift T (K - 1) l x ltac:(lia) Hsh); exact Hx|exact Hv].
    + exfalso. destruct Hz as (Hz1 & Hz2 & Hz3 & _). exact (Hrn z Hz1 ltac:(lia) Hz3).
    + exact (coi_shift T (K - 1) l _ ltac:(lia) Hsh Hc).
Qed.
(* E2: a group of controls at an instant th that is not a rule instant, no event strictly between T and th *)
Lemma ev_ctl T th G st : T < th -> KT th = KT T -> (forall x, In x G -> In x cs /\ x_thr x = th) -> (forall x, In x cs -> T < x_thr x <= th -> In x G) ->
  StronglySorted lex3 G -> is_M T st -> is_M th (run_actions (map x_act G) st).
Proof.
  intros HT HK HG1 HG2 HsG [Hlen H]. split; [rewrite ra_length; exact Hlen|]. intros l Hl. rewrite HK.
  destruct (in_group_dec G l) as [Hex|Hnone].
  - destruct (group_win T th G HT HG1 HG2 HsG l st ltac:(rewrite Hlen; exact Hl) Hex) as (x & Hx & Hxt & Hv).
    left. exists x. split; [exact Hx|]. split; [|exact Hv]. pose proof (KT_le T). lia.
  - rewrite (group_untouched G l st Hnone). pose proof (group_no_other T th G HG2 l Hnone) as Hsh.
    destruct (H l Hl) as [(x & Hx & HKx & Hv)|[(Hold & z & Hz & Hv)|(Hrn & Hc)]].
    + left. exists x. split; [apply (cwin_shift T th l x ltac:(lia) Hsh); exact Hx|]. split; assumption.
    + right. left. split; [|exists z; split; assumption]. intros x Hx. apply Hold. apply (cwin_shift T th l x ltac:(lia) Hsh). exact Hx.
    + right. right. split; [exact Hrn|exact (coi_shift T th l _ ltac:(lia) Hsh Hc)].
Qed.
(* E3: the (possibly empty) group of controls at the rule instant K, after the rules at K *)
Lemma ev_both K j G st : K = j * rs -> (forall x, In x G -> In x cs /\ x_thr x = K) -> (forall x, In x cs -> K - 1 < x_thr x <= K -> In x G) ->
  StronglySorted lex3 G -> is_M' K st -> is_M K (run_actions (map x_act G) st).
Proof.
  intros EK HG1 HG2 HsG [Hlen H]. split; [rewrite ra_length; exact Hlen|]. intros l Hl. assert (EKT : KT K = K) by (rewrite EK; apply KT_mult). rewrite EKT.
  destruct (in_group_dec G l) as [Hex|Hnone].
  - destruct (group_win (K - 1) K G ltac:(lia) HG1 HG2 HsG l st ltac:(rewrite Hlen; exact Hl) Hex) as (x & Hx & Hxt & Hv).
    left. exists x. split; [exact Hx|]. split; [lia|exact Hv].
  - rewrite (group_untouched G l st Hnone). pose proof (group_no_other (K - 1) K G HG2 l Hnone) as Hsh.
    destruct (H l Hl) as [(z & Hz & Hv)|(Hrn & Hc)].
    + right. left. split; [|exists z; split; assumption]. intros x Hx. apply (cwin_shift (K - 1) K l x ltac:(lia) Hsh) in Hx. destruct Hx as (_ & Hx & _). lia.
    + right. right. split; [exact Hrn|exact (coi_shift (K - 1) K l _ ltac:(lia) Hsh Hc)].
Qed.
(* nothing happens in (T, T'] *)
Lemma ev_idle T T' st : T <= T' -> KT T' = KT T -> (forall y, In y cs -> ~ (T < x_thr y <= T')) -> is_M T st -> is_M T' st.
Proof.
  intros HT HK Hno [Hlen H]. split; [exact Hlen|]. intros l Hl. rewrite HK.
  assert (Hsh : forall y, In y cs -> T < x_thr y <= T' -> x_link y <> l) by (intros y Hy Hw; exfalso; exact (Hno y Hy Hw)).
  destruct (H l Hl) as [(x & Hx & HKx & Hv)|[(Hold & z & Hz & Hv)|(Hrn & Hc)]].
  - left. exists x. split; [apply (cwin_shift T T' l x HT Hsh); exact Hx|]. split; assumption.
  - right. left. split; [|exists z; split; assumption]. intros x Hx. apply Hold. apply (cwin_shift T T' l x HT Hsh). exact Hx.
  - right. right. split; [exact Hrn|exact (coi_shift T T' l _ HT Hsh Hc)].
Qed.
(* ---- the scan, in terms of the specification ---- *)
Lemma grp_facts t th0 x r : StronglySorted lex3 (x :: r) -> (forall y, In y (x :: r) -> In y cs /\ th0 < x_thr y <= t) ->
  (forall y, In y cs -> th0 < x_thr y <= t -> In y (x :: r)) ->
  let th := x_thr x in let G := grp th (x :: r) in let R' := rst th (x :: r) in
  (forall y, In y G -> In y cs /\ x_thr y = th) /\ (forall y, In y cs -> th0 < x_thr y <= th -> In y G) /\ StronglySorted lex3 G /\
  StronglySorted lex3 R' /\ (forall z, In z R' -> In z cs /\ th < x_thr z <= t) /\ (forall z, In z cs -> th < x_thr z <= t -> In z R') /\ th0 < th <= t.
Proof.
  intros Hs Hel Hcomp th G R'. assert (ER : x :: r = G ++ R') by apply grp_rst.
  destruct (Hel x (or_introl eq_refl)) as [Hxcs Hxw]. fold th in Hxw.
  assert (Hge : forall z, In z (x :: r) -> th <= x_thr z) by (intros z [<-|Hz]; [unfold th; lia|exact (lex3_mono r x Hs z Hz)]).
  assert (HR'gt : forall z, In z R' -> th < x_thr z) by (apply rst_gt; assumption).
  split; [|split; [|split; [|split; [|split; [|split]]]]].
  - intros y Hy. split; [|exact (grp_all th _ y Hy)]. apply Hel. rewrite ER. apply in_or_app. left. exact Hy.
  - intros y Hy Hw. assert (Hin : In y (x :: r)) by (apply Hcomp; [exact Hy|lia]). rewrite ER in Hin. apply in_app_or in Hin.
    destruct Hin as [Hin|Hin]; [exact Hin|]. specialize (HR'gt y Hin). lia.
  - apply (sorted_app_l lex3 G R'). rewrite <- ER. exact Hs.
  - apply (sorted_app_r lex3 G R'). rewrite <- ER. exact Hs.
  - intros z Hz. destruct (Hel z) as [Hzc Hzw]; [rewrite ER; apply in_or_app; right; exact Hz|]. split; [exact Hzc|]. specialize (HR'gt z Hz). lia.
  - intros z Hz Hw. assert (Hin : In z (x :: r)) by (apply Hcomp; [exact Hz|lia]). rewrite ER in Hin. apply in_app_or in Hin.
    destruct Hin as [Hin|Hin]; [|exact Hin]. pose proof (grp_all th _ z Hin). lia.
  - exact Hxw.
Qed.

Lemma mscan_spec t : forall R ri ref res, MScan t R ri ref res -> forall th0, StronglySorted lex3 R ->
  (forall x, In x R -> In x cs /\ th0 < x_thr x <= t) -> (forall x, In x cs -> th0 < x_thr x <= t -> In x R) -> th0 <= t ->
  (ri - 1) * rs <= th0 < ri * rs -> is_M th0 ref ->
  match res with (t1, ri', st1) =>
    is_M t1 st1 /\ th0 <= t1 <= t /\ (th0 < t1 \/ t1 = t) /\ (ri' - 1) * rs <= t1 < ri' * rs /\ (forall T', th0 <= T' < t1 -> is_M T' ref)
  end.
Proof.
  induction 1 as [ref ri Hend|R ri ref res Hle Hnext Hno HScan IH|R ri ref Hle Hnext Hfire|x r ri ref res Hlt Hno HScan IH|x r ri ref Hlt Hfire
                  |x r ri ref res Heq Hno HScan IH|x r ri ref Heq Hfire]; intros th0 Hs Hel Hcomp Hth0 Htight HM.
  - (* nothing left *)
    assert (Hidle : forall T', th0 <= T' <= t -> is_M T' ref).
    { intros T' HT'. apply (ev_idle th0 T' ref); [lia|rewrite (KT_tight T' ri), (KT_tight th0 ri) by lia; reflexivity| |exact HM].
      intros y Hy Hw. exact (Hcomp y Hy ltac:(lia)). }
    split; [apply Hidle; lia|]. split; [lia|]. split; [right; reflexivity|]. split; [lia|]. intros T' HT'. apply Hidle. lia.
  - (* the rules at ri * rs change nothing *)
    set (K := ri * rs) in *.
    assert (HnoC : forall y, In y cs -> ~ (th0 < x_thr y <= K)).
    { intros y Hy Hw. pose proof (Hcomp y Hy ltac:(lia)) as Hin. destruct R as [|x0 r0]; [destruct Hin|]. cbn in Hnext.
      destruct Hin as [<-|Hin]; [lia|]. pose proof (lex3_mono r0 x0 Hs y Hin). lia. }
    assert (HM' : is_M' K ref).
    { rewrite <- Hno. apply (ev_rules th0 K ref); [lia|rewrite (KT_tight th0 ri) by lia; lia| |exact HM]. intros y Hy Hw. apply (HnoC y Hy). lia. }
    assert (HMK : is_M K ref).
    { apply (ev_both K ri [] ref eq_refl); [intros y []| |constructor|exact HM']. intros y Hy Hw. exfalso. apply (HnoC y Hy). lia. }
    assert (H1 : forall y, In y R -> In y cs /\ K < x_thr y <= t).
    { intros y Hy. destruct (Hel y Hy) as [Hc Hw]. split; [exact Hc|]. destruct (Z_le_gt_dec (x_thr y) K) as [Hc'|Hc']; [exfalso; apply (HnoC y Hc); lia|lia]. }
    specialize (IH K Hs H1 ltac:(intros y Hy Hw; apply Hcomp; [exact Hy|lia]) Hle ltac:(unfold K; lia) HMK).
    destruct res as [[t1 ri'] st1]. destruct IH as (Q1 & Q2 & Q3 & Q4 & Q5). split; [exact Q1|]. split; [lia|]. split; [left; lia|]. split; [exact Q4|].
    intros T' HT'. destruct (Z_lt_le_dec T' K) as [Hc|Hc]; [|apply Q5; lia].
    apply (ev_idle th0 T' ref); [lia|rewrite (KT_tight T' ri), (KT_tight th0 ri) by (unfold K in *; lia); reflexivity| |exact HM].
    intros y Hy Hw. apply (HnoC y Hy). lia.
  - (* the rules at ri * rs change a status *)
    set (K := ri * rs) in *.
    assert (HnoC : forall y, In y cs -> ~ (th0 < x_thr y <= K)).
    { intros y Hy Hw. pose proof (Hcomp y Hy ltac:(lia)) as Hin. destruct R as [|x0 r0]; [destruct Hin|]. cbn in Hnext.
      destruct Hin as [<-|Hin]; [lia|]. pose proof (lex3_mono r0 x0 Hs y Hin). lia. }
    assert (HM' : is_M' K (RA K ref)).
    { apply (ev_rules th0 K ref); [lia|rewrite (KT_tight th0 ri) by lia; lia| |exact HM]. intros y Hy Hw. apply (HnoC y Hy). lia. }
    split; [apply (ev_both K ri [] _ eq_refl); [intros y []| |constructor|exact HM']; intros y Hy Hw; exfalso; apply (HnoC y Hy); lia|].
    split; [lia|]. split; [left; lia|]. split; [unfold K; lia|].
    intros T' HT'. apply (ev_idle th0 T' ref); [lia|rewrite (KT_tight T' ri), (KT_tight th0 ri) by (unfold K in *; lia); reflexivity| |exact HM].
    intros y Hy Hw. apply (HnoC y Hy). lia.
  - (* a group of controls strictly before the next rule instant changes nothing *)
    destruct (grp_facts t th0 x r Hs Hel Hcomp) as (G1 & G2 & G3 & G4 & G5 & G6 & G7). set (th := x_thr x) in *.
    assert (HMth : is_M th ref).
    { rewrite <- Hno. unfold GA. fold th. apply (ev_ctl th0 th _ ref); [lia|rewrite (KT_tight th ri), (KT_tight th0 ri) by lia; reflexivity|exact G1|exact G2|exact G3|exact HM]. }
    specialize (IH th G4 G5 G6 ltac:(lia) ltac:(lia) HMth).
    destruct res as [[t1 ri'] st1]. destruct IH as (Q1 & Q2 & Q3 & Q4 & Q5). split; [exact Q1|]. split; [lia|]. split; [left; lia|]. split; [exact Q4|].
    intros T' HT'. destruct (Z_lt_le_dec T' th) as [Hc|Hc]; [|apply Q5; lia].
    apply (ev_idle th0 T' ref); [lia|rewrite (KT_tight T' ri), (KT_tight th0 ri) by lia; reflexivity| |exact HM].
    intros y Hy Hw. pose proof (G1 y (G2 y Hy ltac:(lia))) as [_ E]. lia.
  - destruct (grp_facts t th0 x r Hs Hel Hcomp) as (G1 & G2 & G3 & G4 & G5 & G6 & G7). set (th := x_thr x) in *.
    split; [unfold GA; fold th; apply (ev_ctl th0 th _ ref); [lia|rewrite (KT_tight th ri), (KT_tight th0 ri) by lia; reflexivity|exact G1|exact G2|exact G3|exact HM]|].
    split; [lia|]. split; [left; lia|]. split; [lia|].
    intros T' HT'. apply (ev_idle th0 T' ref); [lia|rewrite (KT_tight T' ri), (KT_tight th0 ri) by lia; reflexivity| |exact HM].
    intros y Hy Hw. pose proof (G1 y (G2 y Hy ltac:(lia))) as [_ E]. lia.
  - (* rules and controls at the same instant change nothing *)
    destruct (grp_facts t th0 x r Hs Hel Hcomp) as (G1 & G2 & G3 & G4 & G5 & G6 & G7). set (th := x_thr x) in *. set (K := ri * rs) in *.
    assert (HnoC : forall y, In y cs -> ~ (th0 < x_thr y < K)).
    { intros y Hy Hw. pose proof (G1 y (G2 y Hy ltac:(lia))) as [_ E]. lia. }
    assert (HM' : is_M' K (RA K ref)) by (apply (ev_rules th0 K ref); [lia|rewrite (KT_tight th0 ri) by lia; lia|exact HnoC|exact HM]).
    assert (HMK : is_M K ref).
    { rewrite <- Hno. unfold GA. fold th. apply (ev_both K ri _ _ eq_refl); [intros y Hy; destruct (G1 y Hy); split; [assumption|lia]| |exact G3|exact HM'].
      intros y Hy Hw. apply G2; [exact Hy|lia]. }
    assert (G5' : forall z, In z (rst th (x :: r)) -> In z cs /\ K < x_thr z <= t) by (intros z Hz; destruct (G5 z Hz); split; [assumption|lia]).
    assert (G6' : forall z, In z cs -> K < x_thr z <= t -> In z (rst th (x :: r))) by (intros z Hz Hw; apply G6; [exact Hz|lia]).
    specialize (IH K G4 G5' G6' ltac:(lia) ltac:(unfold K; lia) HMK).
    destruct res as [[t1 ri'] st1]. destruct IH as (Q1 & Q2 & Q3 & Q4 & Q5). split; [exact Q1|]. split; [lia|]. split; [left; lia|]. split; [exact Q4|].
    intros T' HT'. destruct (Z_lt_le_dec T' K) as [Hc|Hc]; [|apply Q5; lia].
    apply (ev_idle th0 T' ref); [lia|rewrite (KT_tight T' ri), (KT_tight th0 ri) by (unfold K in *; lia); reflexivity| |exact HM].
    intros y Hy Hw. apply (HnoC y Hy). lia.
  - destruct (grp_facts t th0 x r Hs Hel Hcomp) as (G1 & G2 & G3 & G4 & G5 & G6 & G7). set (th := x_thr x) in *. set (K := ri * rs) in *.
    assert (HnoC : forall y, In y cs -> ~ (th0 < x_thr y < K)).
    { intros y Hy Hw. pose proof (G1 y (G2 y Hy ltac:(lia))) as [_ E]. lia. }
    assert (HM' : is_M' K (RA K ref)) by (apply (ev_rules th0 K ref); [lia|rewrite (KT_tight th0 ri) by lia; lia|exact HnoC|exact HM]).
    rewrite Heq. split.
    { unfold GA. fold th. apply (ev_both K ri _ _ eq_refl); [intros y Hy; destruct (G1 y Hy); split; [assumption|lia]| |exact G3|exact HM'].
      intros y Hy Hw. apply G2; [exact Hy|lia]. }
    split; [lia|]. split; [left; lia|]. split; [unfold K; lia|].
    intros T' HT'. apply (ev_idle th0 T' ref); [lia|rewrite (KT_tight T' ri), (KT_tight th0 ri) by (unfold K in *; lia); reflexivity| |exact HM].
    intros y Hy Hw. apply (HnoC y Hy). lia.
Qed.
(* ---- one call of the presolve stage ---- *)
Lemma presolve_spec_M first prev t ri st : 0 <= ri -> -1 <= prev < t -> 0 <= t -> (first = true -> prev = -1 /\ t = 0) ->
  (ri - 1) * rs <= prev < ri * rs -> is_M prev st ->
  exists t1 ri' st1,
    presolve (S (length (controls gm)) + Z.to_nat (t / rs) + 4) gm first prev t ri st = Some (t1, ri', st1) /\
    prev < t1 <= t /\ (ri' - 1) * rs <= t1 < ri' * rs /\ is_M t1 st1 /\ (forall T', prev <= T' < t1 -> is_M T' st).
Proof.
  intros Hri Hp Ht Hfirst Htight HM.
  set (Wi := filter (fun x : atci => inwin prev t (snd x)) cs).
  set (W2 := sort_stable (lek x_thr) (sort_stable (lek x_prio) Wi)).
  assert (EL : sort_stable (fun a b : control * Z => Z.leb (snd b) (snd a))
                 (sort_stable (fun a b : control * Z => Z.leb (c_prio (fst a)) (c_prio (fst b)))
                    (check_controls sc t prev (map ctl_of (map snd cs)))) = map (fx t) W2).
  { rewrite check_window_gen, filter_map_snd, map_map. change (fun x : nat * atc => fpair t (snd x)) with (fx t). fold Wi.
    rewrite (sort_map (fx t) (lek x_prio) _ (fun x y => eq_refl)).
    rewrite (sort_map (fx t) (lek x_thr) _ (fun x y => Zleb_sub t (x_thr x) (x_thr y))). reflexivity. }
  assert (HWi : forall x, In x Wi <-> In x cs /\ prev < x_thr x <= t).
  { intro x. unfold Wi. rewrite filter_In. unfold inwin, x_thr. rewrite andb_true_iff, Z.ltb_lt, Z.leb_le. tauto. }
  assert (Hin2 : forall x, In x W2 <-> In x Wi) by (intro x; unfold W2; rewrite !sort_in; tauto).
  assert (Hsorted : StronglySorted lex3 W2).
  { unfold W2, lex3. apply sort_lex. unfold lexPI. apply sort_lex. unfold Wi. apply sorted_filter. exact Hidc. }
  assert (Hlen : (length W2 <= length (map ctl_of (map snd cs)))%nat).
  { unfold W2. rewrite (Permutation_length (sort_perm _ _)), (Permutation_length (sort_perm _ _)), !map_length. apply filter_len_le. }
  assert (Hbounds : forall x, In x W2 -> 0 <= x_thr x <= t) by (intros x Hx; apply Hin2, HWi in Hx; lia).
  assert (Hfuel : (length W2 - 0 + Z.to_nat (t / rs + 1 - ri) < S (length (map ctl_of (map snd cs))) + Z.to_nat (t / rs) + 4)%nat).
  { assert (0 <= t / rs) by (apply Z.div_pos; lia). lia. }
  destruct (loop_mixed t prev st W2 Hbounds Ht _ 0%nat ri Hri Hfuel) as (res & HS & E). cbn [skipn] in HS.
  assert (H1 : forall x, In x W2 -> In x cs /\ prev < x_thr x <= t) by (intros x Hx; apply HWi, Hin2; exact Hx).
  assert (H2 : forall x, In x cs -> prev < x_thr x <= t -> In x W2) by (intros x Hx Hw; apply Hin2, HWi; tauto).
  pose proof (mscan_spec t W2 ri st res HS prev Hsorted H1 H2 ltac:(lia) Htight HM) as HSS.
  destruct res as [[t1 ri'] st1]. destruct HSS as (Q1 & Q2 & Q3 & Q4 & Q5).
  exists t1, ri', st1. split.
  - unfold presolve. simpl controls. simpl start_clock. rewrite EL. destruct first; [|exact E].
    destruct (Hfirst eq_refl) as [-> ->].
    assert (EW : Wi = []). { destruct Wi as [|a w] eqn:EWi; [reflexivity|]. exfalso. destruct (proj1 (HWi a) (or_introl eq_refl)) as [Ha Hw]. specialize (Hposc a Ha). lia. }
    assert (E2 : W2 = []) by (unfold W2; rewrite EW; reflexivity). rewrite E2 in E |- *. exact E.
  - split; [lia|]. split; [exact Q4|]. split; [exact Q1|exact Q5].
Qed.

(* ---- one solved step and the whole run ---- *)
Definition minv (s : sstate) : Prop :=
  match s with (first, prev, t, ri, st) =>
    0 <= ri /\ -1 <= prev < t /\ 0 <= t /\ (first = true -> prev = -1 /\ t = 0) /\ (ri - 1) * rs <= prev < ri * rs /\ is_M prev st end.

Lemma mixed_one_step s : minv s ->
  exists e s', one_step gm s = Some (e, s') /\ minv s' /\ s_prev s' = fst e /\ s_stA s' = snd e /\ s_prev s < fst e <= st_time s /\
    is_M (fst e) (snd e) /\ (forall T', s_prev s <= T' < fst e -> is_M T' (s_stA s)) /\ st_time s' = fst e + hs - (fst e + hs) mod hs.
Proof.
  destruct s as [[[[first prev] t] ri] st]. intros (Hri & Hp & Ht & Hfirst & Htight & HM).
  destruct (presolve_spec_M first prev t ri st Hri Hp Ht Hfirst Htight HM) as (t1 & ri' & st1 & E & Ht1 & Htight' & HM1 & Hskip).
  unfold one_step. simpl rule_step. rewrite E. simpl hyd_step.
  pose proof (Z.mod_pos_bound (t1 + hs) hs Hhs) as Hm.
  eexists; eexists; split; [reflexivity|]. cbn [fst snd s_prev s_stA st_time].
  split; [unfold minv; split; [nia|]; split; [lia|]; split; [lia|]; split; [discriminate|]; split; [exact Htight'|exact HM1]|].
  split; [reflexivity|]. split; [reflexivity|]. split; [lia|]. split; [exact HM1|]. split; [exact Hskip|reflexivity].
Qed.

(* the statuses in force at time T' according to a trace: those of the latest solved step at or before T' *)
Definition status_at (a : list bool) (tr : list (Z * list bool)) (T' : Z) : list bool :=
  fold_left (fun acc e => if fst e <=? T' then snd e else acc) tr a.
Lemma status_at_later a tr T' : (forall e, In e tr -> T' < fst e) -> status_at a tr T' = a.
Proof.
  revert a. induction tr as [|e r IH]; intros a H; [reflexivity|]. cbn [status_at fold_left].
  destruct (Z.leb_spec (fst e) T') as [Hc|Hc]; [specialize (H e (or_introl eq_refl)); lia|]. apply IH. intros e0 He0. apply H. right. exact He0.
Qed.

Theorem mixed_steps D' : forall f s tr sf, minv s -> steps f gm D' s = Some (tr, sf) ->
  minv sf /\ (forall e, In e tr -> is_M (fst e) (snd e) /\ s_prev s < fst e <= s_prev sf) /\
  (forall T', s_prev s <= T' <= s_prev sf -> is_M T' (status_at (s_stA s) tr T')).
Proof.
  induction f as [|f IH]; intros s tr sf Hinv H; cbn [steps] in H; [discriminate|].
  destruct (mixed_one_step s Hinv) as (e & s' & E & Hinv' & Hp' & Hst' & Hrange & HSe & Hskip & _).
  rewrite E in H. destruct (D' <? st_time s').
  - injection H as <- <-. split; [exact Hinv'|]. rewrite Hp'. split.
    + intros e0 [<-|[]]. split; [exact HSe|lia].
    + intros T' HT'. cbn [status_at fold_left]. destruct (Z.leb_spec (fst e) T') as [Hc|Hc].
      * assert (T' = fst e) by lia. subst T'. exact HSe.
      * apply Hskip. lia.
  - destruct (steps f gm D' s') as [[tr' sf']|] eqn:Es; [|discriminate]. injection H as <- <-.
    destruct (IH _ _ _ Hinv' Es) as (Hsf & Hall & Hcov). rewrite Hp' in Hall, Hcov. rewrite Hst' in Hcov. split; [exact Hsf|].
    assert (Hmono : fst e <= s_prev sf').
    { destruct tr' as [|e0 r0]; [destruct f; cbn [steps] in Es; [discriminate|]; destruct (one_step gm s') as [[? ?]|]; [|discriminate];
        destruct (D' <? _); [discriminate|]; destruct (steps f gm D' _) as [[? ?]|]; discriminate|].
      destruct (Hall e0 (or_introl eq_refl)). lia. }
    split.
    + intros e0 [<-|He]; [split; [exact HSe|lia]|]. destruct (Hall e0 He). split; [assumption|lia].
    + intros T' HT'. change (status_at (s_stA s) (e :: tr') T') with (status_at (if fst e <=? T' then snd e else s_stA s) tr' T').
      destruct (Z.leb_spec (fst e) T') as [Hc|Hc].
      * apply Hcov. lia.
      * rewrite status_at_later by (intros e0 He0; destruct (Hall e0 He0); lia). apply Hskip. lia.
Qed.

Lemma minv_init : minv (init_state gm).
Proof.
  unfold init_state, minv. simpl init_status. split; [lia|]. split; [lia|]. split; [lia|]. split; [intros _; split; reflexivity|].
  split; [lia|]. split; [reflexivity|]. intros l Hl. right. right. split.
  - intros y Hy Hty. specialize (Hposr y Hy). pose proof (KT_le (-1)). lia.
  - right. split; [|reflexivity]. intros y Hy Hty. specialize (Hposc y Hy). lia.
Qed.

(* every solved step shows the statuses the specification gives for its time, and at EVERY time up to the end of the run the specification
   gives the statuses of the latest solved step (the initial ones before the first): nothing that changes a status is ever stepped over *)
Theorem mixed_exact D' f tr sf : steps f gm D' (init_state gm) = Some (tr, sf) ->
  (forall e, In e tr -> is_M (fst e) (snd e)) /\ (forall T', -1 <= T' <= s_prev sf -> is_M T' (status_at st0 tr T')).
Proof.
  intro H. destruct (mixed_steps D' f _ _ _ minv_init H) as (_ & Hall & Hcov). cbn [s_prev s_stA init_state] in *. split.
  - intros e He. exact (proj1 (Hall e He)).
  - exact Hcov.
Qed.

Lemma mixed_progress : D mod hs = 0 -> forall n s, minv s -> st_time s mod hs = 0 -> st_time s <= D ->
  (Z.to_nat (D - s_prev s) < n)%nat -> exists tr sf, steps n gm D s = Some (tr, sf) /\ s_prev sf = D.
Proof.
  intros HD. induction n as [|n IH]; intros s Hinv Hg HtD Hn; [lia|].
  destruct (mixed_one_step s Hinv) as (e & s' & E & Hinv' & Hp' & _ & Hrange & _ & _ & Hnext).
  cbn [steps]. rewrite E.
  pose proof (Z.mod_pos_bound (fst e + hs) hs Hhs) as Hm.
  destruct (Z.ltb_spec D (st_time s')) as [Hd|Hd].
  - eexists; eexists; split; [reflexivity|]. rewrite Hp'. rewrite Hnext in Hd.
    destruct (Z.eq_dec (fst e) (st_time s)) as [Ee|Hne].
    + rewrite Ee in *. set (t := st_time s) in *.
      pose proof (Z.div_mod t hs ltac:(lia)) as Et. rewrite Hg in Et. pose proof (Z.div_mod D hs ltac:(lia)) as Ed. rewrite HD in Ed.
      assert (En : t + hs - (t + hs) mod hs = t + hs).
      { rewrite Z.add_mod by lia. rewrite Hg, Z.mod_same by lia. simpl. rewrite Z.mod_0_l by lia. lia. }
      rewrite En in Hd. assert (t / hs <= D / hs) by nia. assert (D / hs < t / hs + 1) by nia. nia.
    + pose proof (grid_next_le hs (fst e) (st_time s) Hhs Hg ltac:(lia)). lia.
  - destruct (IH s' Hinv') as (tr' & sf' & Es & Hend).
    + rewrite Hnext. apply grid_next_mod. exact Hhs.
    + exact Hd.
    + rewrite Hp'. destruct s as [[[[? prev] ?] ?] ?]. cbn [s_prev st_time] in *. lia.
    + rewrite Es. eexists; eexists; split; [reflexivity|exact Hend].
Qed.
Theorem mixed_total : 0 < D -> D mod hs = 0 ->
  exists f tr sf, steps f gm D (init_state gm) = Some (tr, sf) /\ s_prev sf = D /\
    (forall e, In e tr -> is_M (fst e) (snd e)) /\ (forall T', -1 <= T' <= D -> is_M T' (status_at st0 tr T')).
Proof.
  intros HD Hmod.
  destruct (mixed_progress Hmod (S (Z.to_nat (D + 1))) (init_state gm) minv_init) as (tr & sf & Es & Hend);
    [apply Z.mod_0_l; lia|cbn [st_time init_state]; lia|cbn [s_prev init_state]; lia|].
  exists (S (Z.to_nat (D + 1))), tr, sf. split; [exact Es|]. split; [exact Hend|].
  destruct (mixed_exact D _ _ _ Es) as [Ha Hb]. rewrite Hend in Hb. split; assumption.
Qed.

(* a pause anywhere + a NEW simulator object *)
Lemma restart_minv s : minv s -> (match s with (first, _, _, _, _) => first = false end) -> restart_state gm s = s.
Proof.
  destruct s as [[[[first prev] t] ri] st]. unfold minv, restart_state. intros (Hri & Hp & Ht & Hfirst & Htight & HS) ->. simpl rule_step.
  rewrite (div_tight rs prev ri Htight). repeat f_equal. lia.
Qed.
Lemma steps_first_false (g : cfg) D' : forall f s tr sf, steps f g D' s = Some (tr, sf) -> match sf with (first, _, _, _, _) => first = false end.
Proof.
  induction f as [|f IH]; intros s tr sf H; cbn [steps] in H; [discriminate|].
  destruct (one_step g s) as [[e s']|] eqn:E; [|discriminate].
  assert (Hs' : match s' with (first, _, _, _, _) => first = false end).
  { destruct s as [[[[a b] c] d] e0]. unfold one_step in E. destruct (presolve _ _ _ _ _ _ _) as [[[x y] z]|]; [|discriminate]. injection E as <- <-. reflexivity. }
  destruct (D' <? st_time s'); [injection H as <- <-; exact Hs'|].
  destruct (steps f g D' s') as [[tr1 sf1]|] eqn:E2; [|discriminate]. injection H as <- <-. eapply IH. exact E2.
Qed.
(* controls and rules together survive a pause anywhere: a NEW simulator object recomputes exactly the rule index the paused one had, so
   the continued part is the continuation of the uninterrupted run; it shows the specified statuses at every step and at every time *)
Theorem mixed_survives_pause D1 D' f1 tr1 s1 f2 tr2 s2 :
  steps f1 gm D1 (init_state gm) = Some (tr1, s1) -> steps f2 gm D' (restart_state gm s1) = Some (tr2, s2) ->
  restart_state gm s1 = s1 /\
  (forall e, In e (tr1 ++ tr2) -> is_M (fst e) (snd e)) /\ (forall e, In e tr2 -> s_prev s1 < fst e) /\
  (forall T', s_prev s1 <= T' <= s_prev s2 -> is_M T' (status_at (s_stA s1) tr2 T')).
Proof.
  intros H1 H2. destruct (mixed_steps D1 _ _ _ _ minv_init H1) as (Hs1 & Hall1 & _).
  pose proof (restart_minv s1 Hs1 (steps_first_false gm D1 _ _ _ _ H1)) as ER. rewrite ER in H2.
  destruct (mixed_steps D' _ _ _ _ Hs1 H2) as (_ & Hall2 & Hcov2).
  split; [exact ER|]. split; [|split].
  - intros e He. apply in_app_or in He. destruct He as [He|He]; [exact (proj1 (Hall1 e He))|exact (proj1 (Hall2 e He))].
  - intros e He. destruct (Hall2 e He) as [_ Hr]. lia.
  - exact Hcov2.
Qed.
(* two readings of the specification: a link no rule targets behaves as if there were no rules (the latest control reached wins and keeps
   its value until a later control changes it); a link no control targets shows the winning true rule *)
Corollary is_M_without_rules T st l : is_M T st -> (l < length st0)%nat -> (forall z, In z rl -> x_link z <> l) ->
  (exists x, cwin T l x /\ nth l st false = x_val x) \/ (cnone T l /\ nth l st false = nth l st0 false).
Proof.
  intros [_ H] Hl Hnr. destruct (H l Hl) as [(x & Hx & _ & Hv)|[(_ & z & Hz & _)|(_ & [(x & Hx & Hv)|[Hn Hv]])]].
  - left. exists x. split; assumption.
  - exfalso. destruct Hz as (Hz1 & _ & Hz3 & _). exact (Hnr z Hz1 Hz3).
  - left. exists x. split; assumption.
  - right. split; assumption.
Qed.
Corollary is_M_without_controls T st l : is_M T st -> (l < length st0)%nat -> (forall x, In x cs -> x_link x <> l) ->
  (exists z, rwin (KT T) l z /\ nth l st false = x_val z) \/ (rnone (KT T) l /\ nth l st false = nth l st0 false).
Proof.
  intros [_ H] Hl Hnc. destruct (H l Hl) as [(x & Hx & _ & _)|[(_ & z & Hz & Hv)|(Hrn & [(x & Hx & _)|[_ Hv]])]].
  - exfalso. destruct Hx as (Hx1 & _ & Hx3 & _). exact (Hnc x Hx1 Hx3).
  - left. exists z. split; assumption.
  - exfalso. destruct Hx as (Hx1 & _ & Hx3 & _). exact (Hnc x Hx1 Hx3).
  - right. split; assumption.
Qed.
(* the solved times of a run of controls and rules strictly increase (from any state a run can be in, hence also across a pause) *)
Theorem mixed_times_increasing D' : forall f s tr sf, minv s -> steps f gm D' s = Some (tr, sf) -> StronglySorted Z.lt (map fst tr).
Proof.
  induction f as [|f IH]; intros s tr sf Hinv H; pose proof H as H0; cbn [steps] in H; [discriminate|].
  destruct (mixed_one_step s Hinv) as (e & s' & E & Hinv' & Hp' & _).
  rewrite E in H. destruct (D' <? st_time s').
  - injection H as <- <-. cbn [map]. constructor; constructor.
  - destruct (steps f gm D' s') as [[tr' sf']|] eqn:Es; [|discriminate]. injection H as <- <-. cbn [map].
    constructor; [exact (IH _ _ _ Hinv' Es)|].
    destruct (mixed_steps D' _ _ _ _ Hinv' Es) as (_ & Hall & _). rewrite Hp' in Hall.
    apply Forall_forall. intros x Hx. apply in_map_iff in Hx. destruct Hx as (e0 & <- & He0). destruct (Hall e0 He0) as [_ Hr]. lia.
Qed.
Lemma sorted_app_lt (l1 l2 : list Z) (m : Z) : StronglySorted Z.lt l1 -> StronglySorted Z.lt l2 -> (forall x, In x l1 -> x <= m) -> (forall y, In y l2 -> m < y) ->
  StronglySorted Z.lt (l1 ++ l2).
Proof.
  intros H1 H2 Ha Hb. induction l1 as [|x r IH]; [exact H2|]. cbn [app]. inversion H1 as [|? ? Hr Hx]; subst.
  constructor; [apply IH; [exact Hr|intros y Hy; apply Ha; right; exact Hy]|].
  apply Forall_forall. intros y Hy. apply in_app_or in Hy. destruct Hy as [Hy|Hy]; [rewrite Forall_forall in Hx; exact (Hx y Hy)|].
  specialize (Ha x (or_introl eq_refl)). specialize (Hb y Hy). lia.
Qed.
(* ... and across a pause: the concatenated solved times of the paused run and of its continuation by a new simulator object strictly increase
   (no time is revisited) *)
Theorem mixed_pause_times_increasing D1 D' f1 tr1 s1 f2 tr2 s2 :
  steps f1 gm D1 (init_state gm) = Some (tr1, s1) -> steps f2 gm D' (restart_state gm s1) = Some (tr2, s2) ->
  StronglySorted Z.lt (map fst (tr1 ++ tr2)).
Proof.
  intros H1 H2. destruct (mixed_steps D1 _ _ _ _ minv_init H1) as (Hs1 & Hall1 & _).
  pose proof (restart_minv s1 Hs1 (steps_first_false gm D1 _ _ _ _ H1)) as ER. rewrite ER in H2.
  destruct (mixed_steps D' _ _ _ _ Hs1 H2) as (_ & Hall2 & _).
  rewrite map_app. apply (sorted_app_lt _ _ (s_prev s1)).
  - exact (mixed_times_increasing D1 _ _ _ _ minv_init H1).
  - exact (mixed_times_increasing D' _ _ _ _ Hs1 H2).
  - intros x Hx. apply in_map_iff in Hx. destruct Hx as (e & <- & He). destruct (Hall1 e He) as [_ Hr]. lia.
  - intros y Hy. apply in_map_iff in Hy. destruct Hy as (e & <- & He). destruct (Hall2 e He) as [_ Hr]. lia.
Qed.
End Mixed.
