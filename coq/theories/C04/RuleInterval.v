(* C04 -- a rule with a RANGE condition and an ELSE part:  IF SYSTEM TIME >= a AND SYSTEM TIME < b THEN link := v ELSE link := not v
   (any a < b, any grids), through the rule loop and the whole run: at every solved step the link has the value v exactly when the last
   multiple of the rule step that is <= the time of the step lies in [a, b), every other link keeps its initial status, and no rule instant
   at which the rule changes the status is stepped over.  (The rule is evaluated at time 0 too -- the recorded finding -- so the ELSE value
   is in force from the first step on when 0 is outside the range.) *)
From Coq Require Import ZArith List Bool Lia Sorted Permutation.
From WNTRV Require Import Lib.Sched C04.AtTime C04.Window C10.Invariant C04.AtTimeSet C04.AtTimeAll C04.RuleSet.
Import ListNotations.
Local Open Scope Z_scope.

Section RuleInterval.
Variables (a b hs rs sc D : Z) (l : nat) (v : bool) (st0 : list bool) (p : Z).
Definition rint : rule := {| r_cond := CAnd (CSim Rge a 0) (CSim Rlt b 0); r_prio := p; r_then := [(l, v)]; r_else := [(l, negb v)] |}.
Definition gi : cfg := {| hyd_step := hs; rule_step := rs; duration := D; start_clock := sc; controls := []; rules := [rint]; init_status := st0 |}.
Hypothesis Hrs : 0 < rs.
Hypothesis Hhs : 0 < hs.

Definition inside (K : Z) : bool := (a <=? K) && (K <? b).
Definition ival (K : Z) : bool := if inside K then v else negb v.
Definition RI (K : Z) (st : list bool) : list bool := set_nth st l (ival K).
Lemma run_rules_gi t' prev st : run_rules sc t' prev (rules gi) st = RI t' st.
Proof.
  unfold run_rules, check_rules, RI, ival, inside. simpl rules. cbn [flat_map rint r_cond eval_cond r_else app]. unfold eval_sim. cbn [Z.ltb andb]. simpl.
  destruct (a <=? t'); cbn [andb].
  - destruct (prev <? a); destruct (t' <? b); reflexivity.
  - reflexivity.
Qed.
(* the statuses once the rule has been evaluated at rule instant K (before the first evaluation: the initial statuses) *)
Definition is_RI (K : Z) (st : list bool) : Prop := (K < 0 /\ st = st0) \/ (0 <= K /\ st = set_nth st0 l (ival K)).
Lemma ri_apply K' K st : K' <= K -> 0 <= K -> is_RI K' st -> is_RI K (RI K st).
Proof.
  intros HK H0 [[_ ->]|[_ ->]]; right; (split; [exact H0|]); unfold RI; [reflexivity|apply set_nth_twice].
Qed.

(* ---- the rule loop (no simple controls) ---- *)
Lemma loop_rint prev t st : forall fuel ri, 0 <= ri -> (Z.to_nat (t / rs + 1 - ri) < fuel)%nat -> is_RI ((ri - 1) * rs) st ->
  exists t1 ri' st1, presolve_loop fuel gi prev st [] 0 t ri st = Some (t1, ri', st1) /\
    ((exists j, ri <= j /\ j * rs <= t /\ t1 = j * rs /\ ri' = j + 1 /\ st1 <> st /\ is_RI (j * rs) st1 /\ (forall i, ri <= i < j -> is_RI (i * rs) st))
     \/ (t1 = t /\ st1 = st /\ ri <= ri' /\ t < ri' * rs /\ (ri' = ri \/ (ri' - 1) * rs <= t) /\ is_RI ((ri' - 1) * rs) st /\ (forall i, ri <= i < ri' -> is_RI (i * rs) st))).
Proof.
  induction fuel as [|fuel IH]; intros ri Hri Hf HR; [lia|].
  cbn [presolve_loop]. cbn [length Nat.ltb Nat.leb negb andb skipn]. simpl rule_step. simpl start_clock.
  destruct (Z.leb_spec (ri * rs) t) as [Hle|Hgt]; cbn [negb andb].
  2:{ exists t, ri, st. split; [reflexivity|]. right. split; [reflexivity|]. split; [reflexivity|]. split; [lia|]. split; [lia|]. split; [left; reflexivity|]. split; [exact HR|]. intros i Hi. lia. }
  rewrite run_rules_gi.
  pose proof (ri_apply ((ri - 1) * rs) (ri * rs) st ltac:(nia) ltac:(nia) HR) as HR1.
  destruct (list_beq (RI (ri * rs) st) st) eqn:Eb; cbn [negb].
  - apply list_beq_eq in Eb. rewrite Eb in HR1 |- *.
    assert (Hq : ri <= t / rs) by (apply Z.div_le_lower_bound; lia).
    assert (Hm : (Z.to_nat (t / rs + 1 - (ri + 1)) < fuel)%nat) by (clear - Hf Hq Hri; lia).
    replace (ri * rs) with ((ri + 1 - 1) * rs) in HR1 by lia.
    destruct (IH (ri + 1) ltac:(lia) Hm HR1) as (t1 & ri' & st1 & E & Hres). exists t1, ri', st1. split; [exact E|].
    destruct Hres as [(j & H1 & H2 & H3 & H4 & H5 & H6 & H7)|(H1 & H2 & H3 & H4 & H5 & H6 & H7)].
    + left. exists j. split; [lia|]. split; [lia|]. split; [exact H3|]. split; [exact H4|]. split; [exact H5|]. split; [exact H6|]. intros i Hi. destruct (Z.eq_dec i ri) as [->|Hne]; [replace (ri * rs) with ((ri + 1 - 1) * rs) by lia; exact HR1|apply H7; lia].
    + right. split; [exact H1|]. split; [exact H2|]. split; [lia|]. split; [exact H4|]. split; [right; destruct H5 as [->|H5]; lia|]. split; [exact H6|].
      intros i Hi. destruct (Z.eq_dec i ri) as [->|Hne]; [replace (ri * rs) with ((ri + 1 - 1) * rs) by lia; exact HR1|apply H7; lia].
  - exists (ri * rs), (ri + 1), (RI (ri * rs) st). split; [reflexivity|]. left. exists ri.
    split; [lia|]. split; [lia|]. split; [reflexivity|]. split; [reflexivity|]. split; [intro Eq; rewrite Eq, list_beq_refl in Eb; discriminate|]. split; [exact HR1|].
    intros i Hi. lia.
Qed.
(* ---- one solved step and the whole run ---- *)
Definition riinv (s : sstate) : Prop :=
  match s with (first, prev, t, ri, st) =>
    0 <= ri /\ -1 <= prev < t /\ 0 <= t /\ (first = true -> prev = -1 /\ t = 0 /\ ri = 0) /\ (first = false -> (ri - 1) * rs <= prev < ri * rs) /\ is_RI ((ri - 1) * rs) st end.

Lemma div_tight' (a0 : Z) k : (k - 1) * rs <= a0 < k * rs -> a0 / rs = k - 1.
Proof. intro H. symmetry. apply (Z.div_unique a0 rs (k - 1) (a0 - (k - 1) * rs)); lia. Qed.

Lemma rint_one_step s : riinv s ->
  exists e s', one_step gi s = Some (e, s') /\ riinv s' /\ s_prev s' = fst e /\ s_stA s' = snd e /\ s_prev s < fst e <= st_time s /\
    is_RI (fst e / rs * rs) (snd e) /\ (forall i, s_prev s < i * rs < fst e -> is_RI (i * rs) (s_stA s)) /\
    st_time s' = fst e + hs - (fst e + hs) mod hs.
Proof.
  destruct s as [[[[first prev] t] ri] st]. intros (Hri & Hp & Ht & Hfirst & Htight & HR).
  assert (Hf : (Z.to_nat (t / rs + 1 - ri) < S (length (controls gi)) + Z.to_nat (t / rs) + 4)%nat).
  { assert (0 <= t / rs) by (apply Z.div_pos; lia). simpl controls. cbn [length]. lia. }
  destruct (loop_rint prev t st _ ri Hri Hf HR) as (t1 & ri' & st1 & E & Hres).
  assert (EP : presolve (S (length (controls gi)) + Z.to_nat (t / rs) + 4) gi first prev t ri st = Some (t1, ri', st1)).
  { unfold presolve. simpl controls. unfold check_controls. cbn [flat_map]. unfold sort_stable. cbn [fold_left map]. destruct first; exact E. }
  unfold one_step. simpl rule_step. rewrite EP. simpl hyd_step.
  pose proof (Z.mod_pos_bound (t1 + hs) hs Hhs) as Hm.
  eexists; eexists; split; [reflexivity|]. cbn [fst snd s_prev s_stA st_time].
  assert (Hlow : forall i, prev < i * rs -> ri <= i).
  { intros i Hi. destruct first; [destruct (Hfirst eq_refl) as (-> & _ & ->); nia|]. specialize (Htight eq_refl). nia. }
  destruct Hres as [(j & H1 & H2 & -> & -> & H5 & H6 & H7)|(-> & -> & H3 & H4 & H5 & H6 & H7)].
  - assert (Hpj : prev < j * rs). { destruct first; [destruct (Hfirst eq_refl) as (-> & _ & ->); nia|]. specialize (Htight eq_refl). nia. }
    split; [unfold riinv; split; [lia|]; split; [lia|]; split; [nia|]; split; [discriminate|]; split; [intros _; nia|]; replace (j + 1 - 1) with j by lia; exact H6|].
    split; [reflexivity|]. split; [reflexivity|]. split; [lia|]. split; [rewrite Z.div_mul by lia; exact H6|]. split; [|reflexivity].
    intros i Hi. apply H7. split; [apply Hlow; lia|nia].
  - assert (Hlo : (ri' - 1) * rs <= t).
    { destruct H5 as [->|H5]; [|exact H5]. destruct first; [destruct (Hfirst eq_refl) as (-> & -> & ->); lia|]. specialize (Htight eq_refl). lia. }
    split; [unfold riinv; split; [lia|]; split; [lia|]; split; [lia|]; split; [discriminate|]; split; [intros _; lia|exact H6]|].
    split; [reflexivity|]. split; [reflexivity|]. split; [lia|]. split; [rewrite (div_tight' t ri') by lia; exact H6|]. split; [|reflexivity].
    intros i Hi. apply H7. split; [apply Hlow; lia|nia].
Qed.

Theorem rint_steps D' : forall f s tr sf, riinv s -> steps f gi D' s = Some (tr, sf) ->
  riinv sf /\ (forall e, In e tr -> is_RI (fst e / rs * rs) (snd e) /\ s_prev s < fst e <= s_prev sf) /\
  (forall i, s_prev s < i * rs <= s_prev sf ->
     In (i * rs) (map fst tr) \/ exists st, (st = s_stA s \/ In st (map snd tr)) /\ is_RI (i * rs) st).
Proof.
  induction f as [|f IH]; intros s tr sf Hinv H; cbn [steps] in H; [discriminate|].
  destruct (rint_one_step s Hinv) as (e & s' & E & Hinv' & Hp' & Hst' & Hrange & HSe & Hskip & _).
  rewrite E in H. destruct (D' <? st_time s').
  - injection H as <- <-. split; [exact Hinv'|]. rewrite Hp'. split.
    + intros e0 [<-|[]]. split; [exact HSe|lia].
    + intros i Hw. destruct (Z.eq_dec (i * rs) (fst e)) as [Ee|Ne]; [left; left; symmetry; exact Ee|].
      right. exists (s_stA s). split; [left; reflexivity|]. apply Hskip. lia.
  - destruct (steps f gi D' s') as [[tr' sf']|] eqn:Es; [|discriminate]. injection H as <- <-.
    destruct (IH _ _ _ Hinv' Es) as (Hsf & Hall & Hcov). rewrite Hp' in Hall, Hcov. split; [exact Hsf|].
    assert (Hmono : fst e <= s_prev sf').
    { destruct tr' as [|e0 r0]; [destruct f; cbn [steps] in Es; [discriminate|]; destruct (one_step gi s') as [[? ?]|]; [|discriminate];
        destruct (D' <? _); [discriminate|]; destruct (steps f gi D' _) as [[? ?]|]; discriminate|].
      destruct (Hall e0 (or_introl eq_refl)). lia. }
    split.
    + intros e0 [<-|He]; [split; [exact HSe|lia]|]. destruct (Hall e0 He). split; [assumption|lia].
    + intros i Hw. cbn [map]. destruct (Z_lt_le_dec (i * rs) (fst e)) as [Hlt|Hge].
      * right. exists (s_stA s). split; [left; reflexivity|]. apply Hskip. lia.
      * destruct (Z.eq_dec (i * rs) (fst e)) as [Ee|Ne]; [left; left; symmetry; exact Ee|].
        destruct (Hcov i ltac:(lia)) as [Hin|(st & [->|Hin] & HSt)].
        -- left. right. exact Hin.
        -- right. exists (snd e). split; [right; left; reflexivity|]. rewrite <- Hst'. exact HSt.
        -- right. exists st. split; [right; right; exact Hin|exact HSt].
Qed.

Lemma riinv_init : riinv (init_state gi).
Proof.
  unfold init_state, riinv. simpl init_status. split; [lia|]. split; [lia|]. split; [lia|]. split; [intros _; repeat split; reflexivity|].
  split; [discriminate|]. left. split; [lia|reflexivity].
Qed.

(* every solved step shows, link by link, the command of the winning rule among those true at the last rule instant; every rule instant the
   run has passed is a solved step unless the statuses the rules produce there are those an already solved step (or the initial state) shows *)
Theorem rule_interval_exact D' f tr sf : steps f gi D' (init_state gi) = Some (tr, sf) ->
  (forall e, In e tr -> is_RI (fst e / rs * rs) (snd e)) /\
  (forall i, 0 <= i -> i * rs <= s_prev sf ->
     In (i * rs) (map fst tr) \/ exists st, (st = st0 \/ In st (map snd tr)) /\ is_RI (i * rs) st).
Proof.
  intro H. destruct (rint_steps D' f _ _ _ riinv_init H) as (_ & Hall & Hcov). cbn [s_prev s_stA init_state] in *. split.
  - intros e He. exact (proj1 (Hall e He)).
  - intros i Hi Hle. apply Hcov. nia.
Qed.

Lemma rint_progress : D mod hs = 0 -> forall n s, riinv s -> st_time s mod hs = 0 -> st_time s <= D ->
  (Z.to_nat (D - s_prev s) < n)%nat -> exists tr sf, steps n gi D s = Some (tr, sf) /\ s_prev sf = D.
Proof.
  intros HD. induction n as [|n IH]; intros s Hinv Hg HtD Hn; [lia|].
  destruct (rint_one_step s Hinv) as (e & s' & E & Hinv' & Hp' & _ & Hrange & _ & _ & Hnext).
  cbn [steps]. rewrite E.
  pose proof (Z.mod_pos_bound (fst e + hs) hs Hhs) as Hm.
  destruct (Z.ltb_spec D (st_time s')) as [Hd|Hd].
  - eexists; eexists; split; [reflexivity|]. rewrite Hp'. rewrite Hnext in Hd.
    destruct (Z.eq_dec (fst e) (st_time s)) as [Ee|Hne].
    + rewrite Ee in *. set (t := st_time s) in *.
      pose proof (Z.div_mod t hs ltac:(lia)) as Et. rewrite Hg in Et. pose proof (Z.div_mod D hs ltac:(lia)) as Ed. rewrite HD in Ed.
      assert (En : t + hs - (t + hs) mod hs = t + hs).
      { rewrite Z.add_mod by lia. rewrite Hg, Z.mod_same by lia. simpl. rewrite Z.mod_0_l by lia. lia. }
      rewrite En in Hd. assert (t / hs <= D / hs) by nia. assert (D / hs < t / hs + 1) by nia. nia.
    + pose proof (grid_next_le hs (fst e) (st_time s) Hhs Hg ltac:(lia)). lia.
  - destruct (IH s' Hinv') as (tr' & sf' & Es & Hend).
    + rewrite Hnext. apply grid_next_mod. exact Hhs.
    + exact Hd.
    + rewrite Hp'. destruct s as [[[[? prev] ?] ?] ?]. cbn [s_prev st_time] in *. lia.
    + rewrite Es. eexists; eexists; split; [reflexivity|exact Hend].
Qed.
Theorem rule_interval_total : 0 < D -> D mod hs = 0 ->
  exists f tr sf, steps f gi D (init_state gi) = Some (tr, sf) /\ s_prev sf = D /\
    (forall e, In e tr -> is_RI (fst e / rs * rs) (snd e)) /\
    (forall i, 0 <= i -> i * rs <= D ->
       In (i * rs) (map fst tr) \/ exists st, (st = st0 \/ In st (map snd tr)) /\ is_RI (i * rs) st).
Proof.
  intros HD Hmod.
  destruct (rint_progress Hmod (S (Z.to_nat (D + 1))) (init_state gi) riinv_init) as (tr & sf & Es & Hend);
    [apply Z.mod_0_l; lia|cbn [st_time init_state]; lia|cbn [s_prev init_state]; lia|].
  exists (S (Z.to_nat (D + 1))), tr, sf. split; [exact Es|]. split; [exact Hend|].
  destruct (rule_interval_exact D _ _ _ Es) as [Ha Hb]. rewrite Hend in Hb. split; assumption.
Qed.
End RuleInterval.
