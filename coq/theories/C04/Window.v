(* C04 / C08 -- a window: two AT TIME controls of one priority on one target, "on" at ts and "off" at te (ts < te), as Junction.add_leak
   and Tank.add_leak register them (start_time / end_time -> leak_status True / False), through the whole presolve loop and the whole run:
   at every solved step the target is on exactly when ts <= time < te, a step is solved at exactly ts and at exactly te whenever the run
   gets that far -- off the hydraulic and rule grids too, and also when both instants fall into one hydraulic step. *)
From Coq Require Import ZArith List Bool Lia.
From WNTRV Require Import Lib.Sched C04.AtTime.
Import ListNotations.
Local Open Scope Z_scope.

Lemma set_nth_twice (st : list bool) : forall n a b, set_nth (set_nth st n a) n b = set_nth st n b.
Proof. induction st as [|x r IH]; intros [|n] a b; simpl; auto. rewrite IH. reflexivity. Qed.
Lemma set_nth_id (st : list bool) : forall n d v, (n < length st)%nat -> nth n st d = v -> set_nth st n v = st.
Proof. induction st as [|x r IH]; intros [|n] d v Hl Hn; simpl in *; try lia; [congruence|]. rewrite (IH n d v); auto; lia. Qed.
Lemma nth_set_nth (st : list bool) : forall n d v, (n < length st)%nat -> nth n (set_nth st n v) d = v.
Proof. induction st as [|x r IH]; intros [|n] d v Hl; simpl in *; try lia; auto. apply IH. lia. Qed.

Section Window.
Variables (ts te hs rs sc D : Z) (l : nat) (st0 : list bool) (p : Z).
Definition c_on : control := {| c_cond := CSim Req ts 0; c_prio := p; c_act := (l, true) |}.
Definition c_off : control := {| c_cond := CSim Req te 0; c_prio := p; c_act := (l, false) |}.
Definition gw : cfg := {| hyd_step := hs; rule_step := rs; duration := D; start_clock := sc; controls := [c_on; c_off]; rules := []; init_status := st0 |}.
Hypothesis Hrs : 0 < rs.
Hypothesis Hhs : 0 < hs.
Hypothesis Hwin : 0 < ts < te.
Hypothesis Hl : (l < length st0)%nat.

Definition active (x : Z) : bool := (ts <=? x) && (x <? te).
Definition target (x : Z) : list bool := set_nth st0 l (active x).

Lemma loop_silent2 prev t st : forall fuel ri, 0 <= ri -> (Z.to_nat (t / rs + 1 - ri) < fuel)%nat ->
  exists ri', 0 <= ri' /\ presolve_loop fuel gw prev st [] 0 t ri st = Some (t, ri', st).
Proof.
  induction fuel as [|fuel IH]; intros ri Hri Hf; [lia|].
  cbn [presolve_loop]. cbn [length Nat.ltb Nat.leb negb andb skipn]. simpl rule_step. simpl rules. simpl start_clock.
  destruct (Z.leb_spec (ri * rs) t) as [Hle|Hgt]; simpl.
  - unfold run_rules; simpl. rewrite list_beq_refl. simpl. apply IH; [lia|].
    assert (ri <= t / rs) by (apply Z.div_le_lower_bound; lia). lia.
  - exists ri. split; [exact Hri|reflexivity].
Qed.

Lemma group_one st (c : control) (v : bool) b rest : c_act c = (l, v) ->
  match rest with [] => True | (_, b') :: _ => b' <> b end ->
  run_same_backtrack ((c, b) :: rest) b st 0 = (set_nth st l v, 1%nat).
Proof.
  intros Hact Hrest. cbn [run_same_backtrack]. rewrite Z.eqb_refl. unfold run_actions. cbn [fold_left]. rewrite Hact. cbn [fst snd].
  destruct rest as [|[c' b'] r]; [reflexivity|]. cbn [run_same_backtrack]. destruct (Z.eqb_spec b' b); [contradiction|reflexivity].
Qed.

(* the first due control changes the target; whatever follows it in the list is due later (smaller backtrack) *)
Lemma loop_fires2 prev t st (c : control) (v : bool) b rest :
  c_act c = (l, v) -> (l < length st)%nat -> nth l st v <> v -> 0 <= t - b ->
  match rest with [] => True | (_, b') :: _ => b' <> b end ->
  forall fuel ri, 0 <= ri -> (Z.to_nat ((t - b) / rs + 1 - ri) < fuel)%nat ->
  exists ri', 0 <= ri' /\ presolve_loop fuel gw prev st ((c, b) :: rest) 0 t ri st = Some (t - b, ri', set_nth st l v).
Proof.
  intros Hact Hlen Hn Hb Hrest. induction fuel as [|fuel IH]; intros ri Hri Hf; [lia|].
  cbn [presolve_loop]. cbn [length Nat.ltb Nat.leb negb andb skipn]. simpl rule_step. simpl rules. simpl start_clock.
  destruct (Z.ltb_spec (t - b) (ri * rs)) as [Hlt|Hge].
  - match goal with |- context [run_same_backtrack ?a1 ?a2 ?a3 ?a4] => destruct (run_same_backtrack a1 a2 a3 a4) as [st' cnt'] eqn:G end;
    rewrite (group_one _ c v b rest Hact Hrest) in G; injection G as <- <-.
    rewrite (list_beq_set_nth st l v Hlen Hn). simpl. exists ri. split; [exact Hri|reflexivity].
  - destruct (Z.eqb_spec (t - b) (ri * rs)) as [Heq|Hne].
    + unfold run_rules; simpl check_rules; simpl sort_stable; cbn [fold_left].
      match goal with |- context [run_same_backtrack ?a1 ?a2 ?a3 ?a4] => destruct (run_same_backtrack a1 a2 a3 a4) as [st' cnt'] eqn:G end;
    rewrite (group_one _ c v b rest Hact Hrest) in G; injection G as <- <-.
      rewrite (list_beq_set_nth st l v Hlen Hn). simpl. exists (ri + 1). split; [lia|reflexivity].
    + unfold run_rules; simpl check_rules; simpl sort_stable; cbn [fold_left]. rewrite list_beq_refl. simpl. apply IH; [lia|].
      assert (ri <= (t - b) / rs) by (apply Z.div_le_lower_bound; lia). lia.
Qed.

Local Opaque presolve_loop.

(* one solved step from a state that satisfies the invariant "the statuses are those of the last solved time" *)
Lemma window_one_step first prev t ri : 0 <= ri -> prev < t -> 0 <= t -> (first = true -> prev = -1 /\ t = 0) ->
  exists t1 ri',
    one_step gw (first, prev, t, ri, target prev) = Some ((t1, target t1), (false, t1, t1 + hs - (t1 + hs) mod hs, ri', target t1))
    /\ 0 <= ri' /\ prev < t1 <= t /\ ~ (prev < ts < t1) /\ ~ (prev < te < t1).
Proof.
  intros Hri Hpt Ht Hfirst. unfold one_step, presolve. simpl controls. simpl start_clock. simpl rule_step. simpl hyd_step.
  unfold check_controls; simpl. unfold eval_sim. simpl.
  assert (Hlen : forall x, (l < length (target x))%nat) by (intro x; unfold target; rewrite set_nth_length; exact Hl).
  match goal with |- context [presolve_loop ?f0 _ _ _ _ _ _ _ _] => set (fuel := f0) end.
  assert (Hfuel : forall x, 0 <= x <= t -> (Z.to_nat (x / rs + 1 - ri) < fuel)%nat).
  { intros x Hx. subst fuel. assert (x / rs <= t / rs) by (apply Z.div_le_mono; lia). assert (0 <= x / rs) by (apply Z.div_pos; lia). lia. }
  destruct (Z.ltb_spec prev ts) as [Ha|Ha]; destruct (Z.leb_spec ts t) as [Hb|Hb]; cbn [andb];
  destruct (Z.ltb_spec prev te) as [Hc|Hc]; destruct (Z.leb_spec te t) as [Hd|Hd]; cbn [andb]; try lia.
  - (* both instants in (prev, t]: "on" is due first *)
    assert (first = false) by (destruct first; [destruct (Hfirst eq_refl); lia|reflexivity]). subst first.
    unfold sort_stable; simpl. rewrite Z.leb_refl. simpl.
    destruct (Z.leb_spec (t - te) (t - ts)) as [Hx|Hx]; [|lia]. simpl.
    destruct (loop_fires2 prev t (target prev) c_on true (t - ts) [(c_off, t - te)] eq_refl (Hlen prev)) with (fuel := fuel) (ri := ri) as (ri' & Hri' & E).
    { unfold target. rewrite nth_set_nth by exact Hl. unfold active. destruct (Z.leb_spec ts prev); [lia|]. simpl. discriminate. }
    { lia. } { lia. } { exact Hri. } { replace (t - (t - ts)) with ts by lia. apply Hfuel. lia. }
    replace (t - (t - ts)) with ts in E by lia. rewrite E.
    exists ts, ri'. unfold target at 1 2. rewrite set_nth_twice.
    assert (Eact : active ts = true) by (unfold active; destruct (Z.leb_spec ts ts); [|lia]; destruct (Z.ltb_spec ts te); [reflexivity|lia]).
    unfold target. rewrite Eact. split; [reflexivity|]. repeat split; lia.
  - (* only "on" *)
    assert (first = false) by (destruct first; [destruct (Hfirst eq_refl); lia|reflexivity]). subst first.
    unfold sort_stable; simpl.
    destruct (loop_fires2 prev t (target prev) c_on true (t - ts) [] eq_refl (Hlen prev)) with (fuel := fuel) (ri := ri) as (ri' & Hri' & E).
    { unfold target. rewrite nth_set_nth by exact Hl. unfold active. destruct (Z.leb_spec ts prev); [lia|]. simpl. discriminate. }
    { lia. } { exact I. } { exact Hri. } { replace (t - (t - ts)) with ts by lia. apply Hfuel. lia. }
    replace (t - (t - ts)) with ts in E by lia. rewrite E.
    exists ts, ri'. unfold target at 1 2. rewrite set_nth_twice.
    assert (Eact : active ts = true) by (unfold active; destruct (Z.leb_spec ts ts); [|lia]; destruct (Z.ltb_spec ts te); [reflexivity|lia]).
    unfold target. rewrite Eact. split; [reflexivity|]. repeat split; lia.
  - (* nothing due: before ts *)
    unfold sort_stable; simpl.
    destruct (loop_silent2 prev t (target prev) fuel ri Hri (Hfuel t ltac:(lia))) as (ri' & Hri' & E).
    assert (Et : target t = target prev).
    { unfold target, active. destruct (Z.leb_spec ts t); [lia|]. destruct (Z.leb_spec ts prev); [lia|]. reflexivity. }
    destruct first; simpl; rewrite E; exists t, ri'; rewrite Et; (split; [reflexivity|]); repeat split; lia.
  - (* only "off" *)
    assert (first = false) by (destruct first; [destruct (Hfirst eq_refl); lia|reflexivity]). subst first.
    unfold sort_stable; simpl.
    destruct (loop_fires2 prev t (target prev) c_off false (t - te) [] eq_refl (Hlen prev)) with (fuel := fuel) (ri := ri) as (ri' & Hri' & E).
    { unfold target. rewrite nth_set_nth by exact Hl. unfold active. destruct (Z.leb_spec ts prev); [|lia]. destruct (Z.ltb_spec prev te); [|lia]. simpl. discriminate. }
    { lia. } { exact I. } { exact Hri. } { replace (t - (t - te)) with te by lia. apply Hfuel. lia. }
    replace (t - (t - te)) with te in E by lia. rewrite E.
    exists te, ri'. unfold target at 1 2. rewrite set_nth_twice.
    assert (Eact : active te = false) by (unfold active; destruct (Z.ltb_spec te te); [lia|]; apply andb_false_r).
    unfold target. rewrite Eact. split; [reflexivity|]. repeat split; lia.
  - (* nothing due: between ts and te *)
    unfold sort_stable; simpl.
    destruct (loop_silent2 prev t (target prev) fuel ri Hri (Hfuel t ltac:(lia))) as (ri' & Hri' & E).
    assert (Et : target t = target prev).
    { unfold target, active. destruct (Z.leb_spec ts t); [|lia]. destruct (Z.leb_spec ts prev); [|lia].
      destruct (Z.ltb_spec t te); [|lia]. destruct (Z.ltb_spec prev te); [|lia]. reflexivity. }
    destruct first; simpl; rewrite E; exists t, ri'; rewrite Et; (split; [reflexivity|]); repeat split; lia.
  - (* nothing due: after te *)
    unfold sort_stable; simpl.
    destruct (loop_silent2 prev t (target prev) fuel ri Hri (Hfuel t ltac:(lia))) as (ri' & Hri' & E).
    assert (Et : target t = target prev).
    { unfold target, active. destruct (Z.ltb_spec t te); [lia|]. destruct (Z.ltb_spec prev te); [lia|]. rewrite !andb_false_r. reflexivity. }
    destruct first; simpl; rewrite E; exists t, ri'; rewrite Et; (split; [reflexivity|]); repeat split; lia.
Qed.

(* the whole run, from any state satisfying the invariant *)
Definition winv (s : sstate) : Prop :=
  match s with (first, prev, t, ri, st) => 0 <= ri /\ -1 <= prev < t /\ 0 <= t /\ (first = true -> prev = -1 /\ t = 0) /\ st = target prev end.
Definition s_prev (s : sstate) : Z := match s with (_, prev, _, _, _) => prev end.

Lemma window_steps D' : forall f s tr sf, winv s -> steps f gw D' s = Some (tr, sf) ->
  winv sf /\ (forall e, In e tr -> snd e = target (fst e) /\ s_prev s < fst e <= s_prev sf) /\
  (forall x, (x = ts \/ x = te) -> s_prev s < x <= s_prev sf -> In x (map fst tr)).
Proof.
  induction f as [|f IH]; intros s tr sf Hinv H; cbn [steps] in H; [discriminate|].
  destruct s as [[[[first prev] t] ri] st]. destruct Hinv as (Hri & [Hp1 Hpt] & Ht & Hfirst & ->).
  destruct (window_one_step first prev t ri Hri Hpt Ht Hfirst) as (t1 & ri' & E & Hri' & Ht1 & Hns & Hne).
  rewrite E in H. cbn [st_time] in H.
  pose proof (Z.mod_pos_bound (t1 + hs) hs Hhs) as Hm.
  assert (Hinv' : winv (false, t1, t1 + hs - (t1 + hs) mod hs, ri', target t1)).
  { unfold winv. split; [exact Hri'|]. split; [lia|]. split; [lia|]. split; [discriminate|reflexivity]. }
  destruct (D' <? t1 + hs - (t1 + hs) mod hs).
  - injection H as <- <-. split; [exact Hinv'|]. cbn [s_prev]. split.
    + intros e [<-|[]]. cbn [fst snd]. split; [reflexivity|lia].
    + intros x Hx Hr. left. cbn [fst]. destruct Hx as [->| ->]; lia.
  - destruct (steps f gw D' (false, t1, t1 + hs - (t1 + hs) mod hs, ri', target t1)) as [[tr' sf']|] eqn:Es; [|discriminate].
    injection H as <- <-. destruct (IH _ _ _ Hinv' Es) as (Hsf & Hall & Hcov). cbn [s_prev] in *. split; [exact Hsf|]. split.
    + intros e [<-|He]; cbn [fst snd].
      * split; [reflexivity|]. assert (t1 <= s_prev sf'); [|lia].
        destruct tr' as [|e0 r0]; [destruct f; cbn [steps] in Es; [discriminate|]; destruct (one_step gw _) as [[? ?]|]; [|discriminate];
          destruct (D' <? _); [discriminate|]; destruct (steps f gw D' _) as [[? ?]|]; discriminate|].
        destruct (Hall e0 (or_introl eq_refl)). lia.
      * destruct (Hall e He). split; [assumption|lia].
    + intros x Hx Hr. cbn [map]. destruct (Z.eq_dec x t1) as [->|Hne1]; [left; reflexivity|]. right. apply Hcov; [exact Hx|].
      destruct Hx as [->| ->]; lia.
Qed.

(* the run of a model whose target starts "off": on exactly during [ts, te), and steps are solved at exactly ts and te when the run gets there *)
Theorem window_exact f tr sf : nth l st0 true = false -> steps f gw D (init_state gw) = Some (tr, sf) ->
  (forall e, In e tr -> nth l (snd e) false = active (fst e) /\ snd e = set_nth st0 l (active (fst e))) /\
  (ts <= s_prev sf -> In ts (map fst tr)) /\ (te <= s_prev sf -> In te (map fst tr)).
Proof.
  intros H0 H. assert (Hinit : winv (init_state gw)).
  { unfold init_state, winv. simpl init_status. repeat split; try lia. unfold target, active.
    destruct (Z.leb_spec ts (-1)); [lia|]. simpl. symmetry. apply (set_nth_id st0 l true false Hl H0). }
  destruct (window_steps D f _ _ _ Hinit H) as (_ & Hall & Hcov). cbn [s_prev init_state] in *. split; [|split].
  - intros e He. destruct (Hall e He) as [E _]. split; [|exact E]. rewrite E. unfold target. apply nth_set_nth. exact Hl.
  - intro Hx. apply Hcov; [left; reflexivity|lia].
  - intro Hx. apply Hcov; [right; reflexivity|lia].
Qed.

(* ... and such a run exists and ends at the duration (total correctness): D a positive multiple of the hydraulic step *)
Lemma next_grid_mod t1 : (t1 + hs - (t1 + hs) mod hs) mod hs = 0.
Proof. rewrite Zminus_mod, Z.mod_mod by lia. rewrite Z.sub_diag. apply Z.mod_0_l. lia. Qed.
Lemma next_grid_le t1 t : t mod hs = 0 -> t1 < t -> t1 + hs - (t1 + hs) mod hs <= t.
Proof.
  intros Hg Hlt. pose proof (Z.div_mod t hs ltac:(lia)) as Et. rewrite Hg in Et.
  pose proof (Z.div_mod (t1 + hs) hs ltac:(lia)) as E1. pose proof (Z.mod_pos_bound (t1 + hs) hs Hhs) as Hm.
  assert ((t1 + hs) / hs <= t / hs); [|nia].
  assert (H : (t1 + hs) / hs < t / hs + 1); [|lia]. apply Z.div_lt_upper_bound; [lia|]. nia.
Qed.
Lemma window_progress : D mod hs = 0 -> forall n s, winv s -> st_time s mod hs = 0 -> st_time s <= D ->
  (Z.to_nat (D - s_prev s) < n)%nat -> exists tr sf, steps n gw D s = Some (tr, sf) /\ s_prev sf = D.
Proof.
  intros HD. induction n as [|n IH]; intros s Hinv Hg HtD Hn; [lia|].
  destruct s as [[[[first prev] t] ri] st]. pose proof Hinv as (Hri & [Hp1 Hpt] & Ht & Hfirst & ->). cbn [st_time s_prev] in *.
  destruct (window_one_step first prev t ri Hri Hpt Ht Hfirst) as (t1 & ri' & E & Hri' & Ht1 & _ & _).
  cbn [steps]. rewrite E. cbn [st_time].
  pose proof (Z.mod_pos_bound (t1 + hs) hs Hhs) as Hm.
  destruct (Z.ltb_spec D (t1 + hs - (t1 + hs) mod hs)) as [Hd|Hd].
  - eexists; eexists; split; [reflexivity|]. cbn [s_prev].
    destruct (Z.eq_dec t1 t) as [->|Hne].
    + (* t on the grid, t <= D < t + hs, D on the grid *)
      pose proof (Z.div_mod t hs ltac:(lia)) as Et. rewrite Hg in Et. pose proof (Z.div_mod D hs ltac:(lia)) as Ed. rewrite HD in Ed.
      assert (En : t + hs - (t + hs) mod hs = t + hs).
      { rewrite Z.add_mod by lia. rewrite Hg, Z.mod_same by lia. simpl. rewrite Z.mod_0_l by lia. lia. }
      rewrite En in Hd. assert (t / hs <= D / hs) by nia. assert (D / hs < t / hs + 1) by nia. nia.
    + pose proof (next_grid_le t1 t Hg ltac:(lia)). lia.
  - assert (Hinv' : winv (false, t1, t1 + hs - (t1 + hs) mod hs, ri', target t1)).
    { unfold winv. split; [exact Hri'|]. split; [lia|]. split; [lia|]. split; [discriminate|reflexivity]. }
    destruct (IH _ Hinv' (next_grid_mod t1) Hd) as (tr' & sf' & Es & Hend); [cbn [s_prev]; lia|].
    rewrite Es. eexists; eexists; split; [reflexivity|exact Hend].
Qed.

Theorem window_total : 0 < D -> D mod hs = 0 -> nth l st0 true = false ->
  exists f tr sf, steps f gw D (init_state gw) = Some (tr, sf) /\
    (forall e, In e tr -> nth l (snd e) false = active (fst e)) /\
    (ts <= D -> In ts (map fst tr)) /\ (te <= D -> In te (map fst tr)) /\ In D (map fst tr).
Proof.
  intros HD Hmod H0. assert (Hinit : winv (init_state gw)).
  { unfold init_state, winv. simpl init_status. repeat split; try lia. unfold target, active.
    destruct (Z.leb_spec ts (-1)); [lia|]. simpl. symmetry. apply (set_nth_id st0 l true false Hl H0). }
  destruct (window_progress Hmod (S (Z.to_nat (D + 1))) (init_state gw) Hinit) as (tr & sf & Es & Hend);
    [apply Z.mod_0_l; lia|cbn [st_time init_state]; lia|cbn [s_prev init_state]; lia|].
  exists (S (Z.to_nat (D + 1))), tr, sf. split; [exact Es|].
  destruct (window_exact _ _ _ H0 Es) as (Ha & Hb & Hc). rewrite Hend in Hb, Hc.
  split; [intros e He; exact (proj1 (Ha e He))|]. split; [exact Hb|]. split; [exact Hc|].
  (* the last solved time is D *)
  destruct (window_steps D _ _ _ _ Hinit Es) as (_ & Hall & _). cbn [s_prev init_state] in Hall. rewrite Hend in Hall.
  clear - Es Hall Hend HD Hhs Hrs Hwin Hl.
  assert (Hlast : forall f s tr sf, steps f gw D s = Some (tr, sf) -> In (s_prev sf) (map fst tr)).
  { induction f as [|f IH]; intros s tr0 sf0 H; cbn [steps] in H; [discriminate|].
    destruct (one_step gw s) as [[e s']|] eqn:E1; [|discriminate].
    assert (Hs' : s_prev s' = fst e).
    { destruct s as [[[[a b] c] d] e0]. unfold one_step in E1. destruct (presolve _ _ _ _ _ _ _) as [[[x y] z]|]; [|discriminate]. injection E1 as <- <-. reflexivity. }
    destruct (D <? st_time s'); [injection H as <- <-; left; symmetry; exact Hs'|].
    destruct (steps f gw D s') as [[tr1 sf1]|] eqn:E2; [|discriminate]. injection H as <- <-. right. eapply IH. exact E2. }
  rewrite <- Hend. eapply Hlast. exact Es.
Qed.
(* the window survives a pause: from ANY state a run of this configuration can be in, a NEW simulator object (rule index recomputed from the
   last solved time) continuing to any duration D' keeps the target on exactly on [ts, te) and still solves a step at each of the two
   instants that lie after the pause *)
Lemma restart_winv s : winv s -> winv (restart_state gw s).
Proof.
  destruct s as [[[[first prev] t] ri] st]. unfold winv, restart_state. intros (Hri & Hp & Ht & Hfirst & ->). simpl rule_step.
  split; [|split; [exact Hp|split; [exact Ht|split; [discriminate|reflexivity]]]].
  assert (-1 <= prev / rs); [|lia]. apply Z.div_le_lower_bound; lia.
Qed.
Theorem window_survives_pause D1 D' f1 tr1 s1 f2 tr2 s2 : nth l st0 true = false ->
  steps f1 gw D1 (init_state gw) = Some (tr1, s1) -> steps f2 gw D' (restart_state gw s1) = Some (tr2, s2) ->
  (forall e, In e (tr1 ++ tr2) -> nth l (snd e) false = active (fst e)) /\
  (forall e, In e tr2 -> s_prev s1 < fst e) /\
  (forall x, x = ts \/ x = te -> x <= s_prev s2 -> In x (map fst (tr1 ++ tr2))).
Proof.
  intros H0 H1 H2. assert (Hinit : winv (init_state gw)).
  { unfold init_state, winv. simpl init_status. repeat split; try lia. unfold target, active.
    destruct (Z.leb_spec ts (-1)); [lia|]. simpl. symmetry. apply (set_nth_id st0 l true false Hl H0). }
  destruct (window_steps D1 _ _ _ _ Hinit H1) as (Hs1 & Hall1 & Hcov1).
  assert (Hp : s_prev (restart_state gw s1) = s_prev s1) by (destruct s1 as [[[[? ?] ?] ?] ?]; reflexivity).
  destruct (window_steps D' _ _ _ _ (restart_winv _ Hs1) H2) as (_ & Hall2 & Hcov2). rewrite Hp in Hall2, Hcov2.
  cbn [s_prev init_state] in Hall1, Hcov1. split; [|split].
  - intros e He. apply in_app_or in He. destruct He as [He|He]; [destruct (Hall1 e He) as [E _]|destruct (Hall2 e He) as [E _]];
      rewrite E; unfold target; apply nth_set_nth; exact Hl.
  - intros e He. destruct (Hall2 e He) as [_ Hr]. lia.
  - intros x Hx Hle. rewrite map_app. apply in_or_app. destruct (Z_le_gt_dec x (s_prev s1)) as [Hc|Hc].
    + left. apply Hcov1; [exact Hx|]. destruct Hx as [->| ->]; lia.
    + right. apply Hcov2; [exact Hx|lia].
Qed.
End Window.
