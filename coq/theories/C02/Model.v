(* C02 -- head-flow laws per link type and status: the residual rows of constraint.py (default Hazen-Williams
   approximation, head/power pumps, PRV/PSV/FCV/TCV, closed links) with the parameter formulas of param.py.
   Constants come from Gen/Formulas.v (regenerated from constants.py). *)
From Coq Require Import Reals Lra.
From WNTRV Require Import Lib.ExprR Gen.Formulas Lib.Spline.
Local Open Scope R_scope.

Definition eps_hw : R := 1 / 100000.          (* eps = 1e-5 in approx_hazen_williams_headloss_constraint *)
Definition grav : R := 981 / 100.

(* param.py *)
Definition hw_resistance (C d L : R) : R := c_hw_k * pw C (- (1852 / 1000)) * pw d (- (4871 / 1000)) * L.
Definition minor_coeff (K d : R) : R := 8 * K / (grav * PI ^ 2 * d ^ 4).     (* minor_loss_param and tcv_resistance_param *)

(* head loss of an open pipe as a function of flow: odd, increasing *)
Definition phi_pos (k mk q : R) : R := k * pw q c_hw_exp + eps_hw * sqrt k * q + mk * (q * q).
Definition phi (k mk q : R) : R := if Rle_dec 0 q then phi_pos k mk q else - phi_pos k mk (- q).

(* rows (residuals), as the code builds them *)
Definition closed_row (q : R) : R := q.
Definition pipe_row (k mk q hs he : R) : R :=
  - sgn q * k * pw (Rabs q) c_hw_exp - eps_hw * sqrt k * q - sgn q * mk * pw q 2 + hs - he.
Definition power_pump_row (P q hs he : R) : R := P + (hs - he) * q * (grav * 1000).
(* head pump, C <= 1: linear extension below q1 = 0, cubic on [q1, q2], curve above *)
Definition pump_poly (A B C : R) : R * R * R * R :=
  cubic_spline c_pump_q1 c_pump_q2 (c_pump_slope * c_pump_q1 + A) (A - B * pw c_pump_q2 C) c_pump_slope (- B * C * pw c_pump_q2 (C - 1)).
Definition head_pump_row_lo (A B C q hs he : R) : R :=
  if Rle_dec q c_pump_q1 then c_pump_slope * q + A - he + hs
  else if Rle_dec q c_pump_q2 then poly (pump_poly A B C) q - he + hs
  else A - B * pw q C - he + hs.
(* head pump, C > 1: line of slope pump_slope tangent to the curve at q_bar, curve above *)
Definition q_bar (B C : R) : R := pw (c_pump_slope / (- B * C)) (1 / (C - 1)).
Definition head_pump_row_hi (A B C q hs he : R) : R :=
  if Rle_dec q (q_bar B C) then c_pump_slope * (q - q_bar B C) + (A - B * pw (q_bar B C) C) - he + hs
  else A - B * pw q C - he + hs.
Definition head_pump_row (A B C q hs he : R) : R :=
  if Rle_dec C 1 then head_pump_row_lo A B C q hs he else head_pump_row_hi A B C q hs he.
(* valves *)
Definition prv_active_row (setting elev_end he : R) : R := he - setting - elev_end.
Definition psv_active_row (setting elev_start hs : R) : R := hs - setting - elev_start.
Definition fcv_active_row (setting q : R) : R := q - setting.
Definition signed_quad_row (r q hs he : R) : R := (if Rle_dec q 0 then - r * pw q 2 else r * pw q 2) - hs + he.   (* TCV active / open FCV, TCV *)
Definition open_prv_psv_row (mk q hs he : R) : R := mk * pw q 2 - hs + he.

(* pump curve coefficients (elements.py get_head_curve_coefficients) *)
Definition coeffs_1pt (Q H : R) : R * R * R := (4 / 3 * H, 1 / 3 * (H / (Q ^ 2)), 2).
Definition coeffs_2pt (Q0 H0 Q1 H1 : R) : R * R * R :=
  let B := - (H1 - H0) / (Q1 - Q0) in (H0 + B * Q0, B, 1).
Definition curve_head (k : R * R * R) (q : R) : R := let '(A, B, C) := k in A - B * pw q C.
