(* C02 / C03 -- the head gain of a head pump, as WNTRSimulator's row defines it for every flow (linear extension below the curve, smoothing
   cubic for exponents <= 1, the curve A - B q^C above), is STRICTLY decreasing in the flow: the pump law h_start - h_end = - gain(q) is
   strictly increasing, which is the hypothesis of the uniqueness theorem C03_unique_flows. *)
From Coq Require Import Reals Lra.
From WNTRV Require Import Lib.ExprR Gen.Formulas Lib.Spline Lib.SplineMono Lib.SplineStrict C02.Model C02.Proofs.
Local Open Scope R_scope.

Definition head_gain (A B C q : R) : R := head_pump_row A B C q 0 0.
Lemma head_row_gain A B C q hs he : head_pump_row A B C q hs he = head_gain A B C q - he + hs.
Proof.
  unfold head_gain, head_pump_row, head_pump_row_lo, head_pump_row_hi.
  destruct (Rle_dec C 1); [destruct (Rle_dec q c_pump_q1); [|destruct (Rle_dec q c_pump_q2)]|destruct (Rle_dec q (q_bar B C))]; ring.
Qed.

Lemma pw_pos_lt a b c : 0 < c -> 0 < a -> a < b -> pw a c < pw b c.
Proof.
  intros Hc Ha Hab. unfold pw. destruct (Rlt_dec 0 a); [|lra]. destruct (Rlt_dec 0 b); [|lra]. apply Rlt_Rpower_l; [exact Hc|split; assumption].
Qed.
Lemma pw_pos_pos a b : 0 < a -> 0 < pw a b.
Proof. intros Ha. unfold pw. destruct (Rlt_dec 0 a); [|lra]. unfold Rpower. apply exp_pos. Qed.

(* exponent > 1: tangent line below q_bar, curve above *)
Theorem head_gain_strict_hi A B C p q : 1 < C -> 0 < B -> p < q -> head_gain A B C q < head_gain A B C p.
Proof.
  intros HC HB Hpq. unfold head_gain, head_pump_row. destruct (Rle_dec C 1); [lra|]. unfold head_pump_row_hi.
  assert (Hs : c_pump_slope < 0) by (unfold c_pump_slope; lra).
  assert (Hqb : 0 < q_bar B C).
  { unfold q_bar. apply pw_pos_pos. unfold c_pump_slope.
    replace (- (1 / 100000000000) / (- B * C)) with ((1 / 100000000000) / (B * C)) by (field; lra).
    apply Rdiv_lt_0_compat; [lra|apply Rmult_lt_0_compat; lra]. }
  destruct (Rle_dec q (q_bar B C)) as [Hq|Hq]; destruct (Rle_dec p (q_bar B C)) as [Hp|Hp]; try lra.
  - assert (c_pump_slope * (q - q_bar B C) < c_pump_slope * (p - q_bar B C)) by nra. lra.
  - assert (0 <= c_pump_slope * (p - q_bar B C)) by nra.
    assert (pw (q_bar B C) C < pw q C) by (apply pw_pos_lt; lra).
    assert (B * pw (q_bar B C) C < B * pw q C) by (apply Rmult_lt_compat_l; assumption). lra.
  - assert (pw p C < pw q C) by (apply pw_pos_lt; lra).
    assert (B * pw p C < B * pw q C) by (apply Rmult_lt_compat_l; assumption). lra.
Qed.

(* exponent <= 1: linear below 0, smoothing cubic on [0, q2], curve above *)
Definition pump_f1 (A : R) := c_pump_slope * c_pump_q1 + A.
Definition pump_f2 (A B C : R) := A - B * pw c_pump_q2 C.
Definition pump_box (A B C : R) : Prop :=
  pump_f2 A B C < pump_f1 A /\
  - c_pump_slope <= 3 * ((pump_f1 A - pump_f2 A B C) / (c_pump_q2 - c_pump_q1)) /\
  0 <= B * C * pw c_pump_q2 (C - 1) <= 3 * ((pump_f1 A - pump_f2 A B C) / (c_pump_q2 - c_pump_q1)).

Theorem head_gain_strict_lo A B C p q : 0 < C <= 1 -> 0 < B -> pump_box A B C -> p < q -> head_gain A B C q < head_gain A B C p.
Proof.
  intros [HC0 HC1] HB (Bx1 & Bx2 & Bx3) Hpq. unfold head_gain, head_pump_row. destruct (Rle_dec C 1); [|lra]. unfold head_pump_row_lo.
  assert (Hs : c_pump_slope < 0) by (unfold c_pump_slope; lra).
  assert (Hq1 : c_pump_q1 = 0) by reflexivity. assert (Hq2 : 0 < c_pump_q2) by (unfold c_pump_q2; lra).
  assert (Hq12 : c_pump_q1 < c_pump_q2) by lra.
  set (k := pump_poly A B C).
  assert (HP : poly k c_pump_q1 = pump_f1 A /\ poly k c_pump_q2 = pump_f2 A B C).
  { unfold k, pump_poly, pump_f1, pump_f2.
    destruct (spline_interpolates c_pump_q1 c_pump_q2 (c_pump_slope * c_pump_q1 + A) (A - B * pw c_pump_q2 C) c_pump_slope
                (- B * C * pw c_pump_q2 (C - 1)) ltac:(lra)) as (P1 & P2 & _). split; assumption. }
  destruct HP as [P1 P2].
  (* the cubic is strictly decreasing on [0, q2] *)
  assert (Hcub : forall a b, c_pump_q1 <= a -> a < b -> b <= c_pump_q2 -> poly k b < poly k a).
  { intros a b Ha Hab Hb. unfold k, pump_poly. fold (pump_f1 A). fold (pump_f2 A B C).
    apply spline_strictly_decreasing; try assumption; try lra. }
  (* values of the three pieces *)
  set (g := fun x => if Rle_dec x c_pump_q1 then c_pump_slope * x + A - 0 + 0
                     else if Rle_dec x c_pump_q2 then poly k x - 0 + 0 else A - B * pw x C - 0 + 0).
  change (g q < g p).
  assert (G0 : forall x, x <= c_pump_q1 -> g x = c_pump_slope * x + A) by (intros x Hx; unfold g; destruct (Rle_dec x c_pump_q1); [ring|lra]).
  assert (G1 : forall x, c_pump_q1 <= x <= c_pump_q2 -> g x = poly k x).
  { intros x [Hx1 Hx2]. destruct (Req_dec x c_pump_q1) as [->|N]; [rewrite G0 by lra; rewrite P1; unfold pump_f1; ring|].
    unfold g. destruct (Rle_dec x c_pump_q1); [lra|]. destruct (Rle_dec x c_pump_q2); [ring|lra]. }
  assert (G2 : forall x, c_pump_q2 <= x -> g x = A - B * pw x C).
  { intros x Hx. destruct (Req_dec x c_pump_q2) as [->|N]; [rewrite G1 by lra; rewrite P2; unfold pump_f2; ring|].
    unfold g. destruct (Rle_dec x c_pump_q1); [lra|]. destruct (Rle_dec x c_pump_q2); [lra|ring]. }
  assert (L0 : forall a b, a < b -> b <= c_pump_q1 -> g b < g a) by (intros a b Hab Hb; rewrite !G0 by lra; nra).
  assert (L1 : forall a b, c_pump_q1 <= a -> a < b -> b <= c_pump_q2 -> g b < g a) by (intros a b Ha Hab Hb; rewrite !G1 by lra; apply Hcub; lra).
  assert (L2 : forall a b, c_pump_q2 <= a -> a < b -> g b < g a).
  { intros a b Ha Hab. rewrite !G2 by lra. assert (pw a C < pw b C) by (apply pw_pos_lt; lra).
    assert (B * pw a C < B * pw b C) by (apply Rmult_lt_compat_l; assumption). lra. }
  (* glue: weak versions through the knots *)
  assert (W0 : forall a, a <= c_pump_q1 -> g c_pump_q1 <= g a) by (intros a Ha; destruct (Req_dec a c_pump_q1) as [->|]; [lra|left; apply L0; lra]).
  assert (W1a : forall a, c_pump_q1 <= a <= c_pump_q2 -> g a <= g c_pump_q1) by (intros a [H1 H2]; destruct (Req_dec a c_pump_q1) as [->|]; [lra|left; apply L1; lra]).
  assert (W1b : forall a, c_pump_q1 <= a <= c_pump_q2 -> g c_pump_q2 <= g a) by (intros a [H1 H2]; destruct (Req_dec a c_pump_q2) as [->|]; [lra|left; apply L1; lra]).
  assert (W2 : forall a, c_pump_q2 <= a -> g a <= g c_pump_q2) by (intros a Ha; destruct (Req_dec a c_pump_q2) as [->|]; [lra|left; apply L2; lra]).
  assert (K : g c_pump_q2 < g c_pump_q1) by (apply L1; lra).
  destruct (Rle_dec q c_pump_q1) as [Q0|Q0]; [apply L0; lra|].
  destruct (Rle_dec q c_pump_q2) as [Q1|Q1].
  - destruct (Rle_dec c_pump_q1 p) as [P0|P0]; [apply L1; lra|].
    destruct (Req_dec q c_pump_q1) as [E|N]; [lra|].
    assert (g q < g c_pump_q1) by (apply L1; lra). pose proof (W0 p ltac:(lra)). lra.
  - destruct (Rle_dec c_pump_q2 p) as [P2'|P2']; [apply L2; lra|].
    assert (g q < g c_pump_q2) by (apply L2; lra).
    destruct (Rle_dec c_pump_q1 p) as [P0|P0]; [pose proof (W1b p ltac:(lra)); lra|].
    pose proof (W0 p ltac:(lra)). lra.
Qed.
