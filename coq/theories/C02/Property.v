(* C02 -- property theorems only. *)
From Coq Require Import Reals.
From WNTRV Require Import Lib.ExprR Gen.Formulas Lib.Spline Lib.SplineMono Lib.SplineStrict C02.Model C02.Proofs C02.PumpMono.
Local Open Scope R_scope.

Theorem C02_closed_zero_flow : forall q tol, Rabs (closed_row q) < tol -> Rabs q < tol.
Proof. exact closed_zero_flow. Qed.
Theorem C02_hw_law : forall k mk q hs he, pipe_row k mk q hs he = 0 <-> hs - he = phi k mk q.
Proof. exact hw_law. Qed.
Theorem C02_hw_odd : forall k mk q, phi k mk (- q) = - phi k mk q.
Proof. exact hw_odd. Qed.
Theorem C02_hw_strict_mono : forall k mk a b, 0 < k -> 0 <= mk -> a < b -> phi k mk a < phi k mk b.
Proof. exact hw_strict_mono. Qed.
Theorem C02_pump_on_curve : forall A B C q hs he,
  (C <= 1 -> c_pump_q2 < q) -> (1 < C -> q_bar B C < q) ->
  (head_pump_row A B C q hs he = 0 <-> he - hs = A - B * pw q C).
Proof. exact pump_on_curve. Qed.
(* for EVERY flow -- linear extension, smoothing cubic, curve -- the head gain the row assigns to a head pump is strictly decreasing in the
   flow (so the pump law h_start - h_end = - gain q is strictly increasing: the hypothesis of C03_unique_flows); exponent > 1 unconditionally,
   exponent <= 1 when the smoothing cubic lies in the (mirrored) Fritsch-Carlson box, which coqc proves per generated pump *)
Theorem C02_head_row_is_gain : forall A B C q hs he, head_pump_row A B C q hs he = head_gain A B C q - he + hs.
Proof. exact head_row_gain. Qed.
Theorem C02_head_gain_strict_hi : forall A B C p q, 1 < C -> 0 < B -> p < q -> head_gain A B C q < head_gain A B C p.
Proof. exact head_gain_strict_hi. Qed.
Theorem C02_head_gain_strict_lo : forall A B C p q, 0 < C <= 1 -> 0 < B -> pump_box A B C -> p < q -> head_gain A B C q < head_gain A B C p.
Proof. exact head_gain_strict_lo. Qed.
Theorem C02_power_pump_law : forall P q hs he, power_pump_row P q hs he = 0 <-> P = grav * 1000 * q * (he - hs).
Proof. exact power_pump_law. Qed.
Theorem C02_pump_coeffs_1pt : forall Q H, 0 < Q ->
  curve_head (coeffs_1pt Q H) Q = H /\ curve_head (coeffs_1pt Q H) 0 = 4 / 3 * H /\ curve_head (coeffs_1pt Q H) (2 * Q) = 0.
Proof. exact pump_coeffs_1pt. Qed.
Theorem C02_pump_coeffs_2pt : forall Q0 H0 Q1 H1, Q0 <> Q1 ->
  curve_head (coeffs_2pt Q0 H0 Q1 H1) Q0 = H0 /\ curve_head (coeffs_2pt Q0 H0 Q1 H1) Q1 = H1.
Proof. exact pump_coeffs_2pt. Qed.
Theorem C02_prv_active : forall setting elev he, prv_active_row setting elev he = 0 <-> he - elev = setting.
Proof. exact prv_active. Qed.
Theorem C02_psv_active : forall setting elev hs, psv_active_row setting elev hs = 0 <-> hs - elev = setting.
Proof. exact psv_active. Qed.
Theorem C02_fcv_active : forall setting q, fcv_active_row setting q = 0 <-> q = setting.
Proof. exact fcv_active. Qed.
Theorem C02_tcv_law : forall r q hs he, signed_quad_row r q hs he = 0 <-> hs - he = (if Rle_dec q 0 then -1 else 1) * r * (q * q).
Proof. exact tcv_law. Qed.
Print Assumptions C02_hw_law.
Print Assumptions C02_hw_strict_mono.
Print Assumptions C02_pump_on_curve.
Print Assumptions C02_head_gain_strict_hi.
Print Assumptions C02_head_gain_strict_lo.
Print Assumptions C02_pump_coeffs_2pt.
Print Assumptions C02_tcv_law.
