From Coq Require Import Reals Lra.
From WNTRV Require Import Lib.ExprR Gen.Formulas Lib.Spline C02.Model.
Local Open Scope R_scope.

Lemma pw_pos_eq a b : 0 < a -> pw a b = Rpower a b.
Proof. intro H. unfold pw. destruct (Rlt_dec 0 a); [reflexivity|lra]. Qed.
Lemma pw_0 b : b <> 0 -> pw 0 b = 0.
Proof.
  intro H. unfold pw. destruct (Rlt_dec 0 0); [lra|]. destruct (Req_EM_T 0 0); [|lra].
  destruct (Req_EM_T b 0); [contradiction|reflexivity].
Qed.
Lemma hw_exp_pos : 0 < c_hw_exp. Proof. unfold c_hw_exp. lra. Qed.
Lemma sgn_nonneg q : 0 <= q -> sgn q = 1. Proof. intro H. unfold sgn. destruct (Rle_dec 0 q); [reflexivity|lra]. Qed.
Lemma sgn_negative q : q < 0 -> sgn q = -1. Proof. intro H. unfold sgn. destruct (Rle_dec 0 q); [lra|reflexivity]. Qed.
Lemma pw_sq q : pw q 2 = q * q.
Proof.
  unfold pw. destruct (Rlt_dec 0 q) as [H|H].
  - replace 2 with (INR 2) by (simpl; lra). rewrite Rpower_pow by exact H. simpl. ring.
  - destruct (Req_EM_T q 0) as [E|E].
    + destruct (Req_EM_T 2 0); [lra|]. subst. ring.
    + destruct (Req_EM_T 2 2); [reflexivity|lra].
Qed.

(* closed or isolated link: the row IS the flow *)
Lemma closed_zero_flow q tol : Rabs (closed_row q) < tol -> Rabs q < tol.
Proof. unfold closed_row. auto. Qed.

(* the pipe row vanishes exactly when the head difference equals phi(q) *)
Lemma pipe_row_phi k mk q hs he : pipe_row k mk q hs he = (hs - he) - phi k mk q.
Proof.
  unfold pipe_row, phi, phi_pos. rewrite pw_sq. destruct (Rle_dec 0 q) as [H|H].
  - rewrite sgn_nonneg by exact H. rewrite Rabs_right by lra. ring.
  - rewrite sgn_negative by lra. rewrite Rabs_left by lra. ring.
Qed.
Lemma hw_law k mk q hs he : pipe_row k mk q hs he = 0 <-> hs - he = phi k mk q.
Proof. rewrite pipe_row_phi. split; intro; lra. Qed.

(* odd *)
Lemma phi_zero k mk : phi k mk 0 = 0.
Proof.
  unfold phi, phi_pos. destruct (Rle_dec 0 0); [|lra]. rewrite pw_0 by (pose proof hw_exp_pos; lra). ring.
Qed.
Lemma hw_odd k mk q : phi k mk (- q) = - phi k mk q.
Proof.
  destruct (Rtotal_order q 0) as [H|[H|H]].
  - unfold phi. destruct (Rle_dec 0 (- q)); [|lra]. destruct (Rle_dec 0 q); [lra|]. ring.
  - subst. rewrite Ropp_0, phi_zero. ring.
  - unfold phi. destruct (Rle_dec 0 (- q)); [lra|]. destruct (Rle_dec 0 q); [|lra]. rewrite Ropp_involutive. ring.
Qed.

(* strictly increasing: flow direction follows the head difference *)
Lemma phi_pos_mono k mk a b : 0 < k -> 0 <= mk -> 0 <= a -> a < b -> phi_pos k mk a < phi_pos k mk b.
Proof.
  intros Hk Hm Ha Hab. unfold phi_pos.
  assert (Hs : 0 < sqrt k) by (apply sqrt_lt_R0; exact Hk).
  assert (H1 : pw a c_hw_exp < pw b c_hw_exp).
  { destruct (Req_dec a 0) as [->|Hne].
    - rewrite pw_0 by (pose proof hw_exp_pos; lra). rewrite pw_pos_eq by lra. unfold Rpower. apply exp_pos.
    - rewrite !pw_pos_eq by lra. apply Rlt_Rpower_l; [apply hw_exp_pos|lra]. }
  assert (H2 : eps_hw * sqrt k * a < eps_hw * sqrt k * b).
  { apply Rmult_lt_compat_l; [|exact Hab]. unfold eps_hw. apply Rmult_lt_0_compat; lra. }
  assert (H3 : mk * (a * a) <= mk * (b * b)) by (apply Rmult_le_compat_l; [exact Hm|nra]).
  assert (H4 : k * pw a c_hw_exp < k * pw b c_hw_exp) by (apply Rmult_lt_compat_l; assumption).
  lra.
Qed.
Lemma phi_pos_nonneg k mk a : 0 < k -> 0 <= mk -> 0 <= a -> 0 <= phi_pos k mk a.
Proof.
  intros Hk Hm Ha. destruct (Req_dec a 0) as [->|Hne].
  - unfold phi_pos. rewrite pw_0 by (pose proof hw_exp_pos; lra). lra.
  - assert (H : phi_pos k mk 0 < phi_pos k mk a) by (apply phi_pos_mono; lra).
    unfold phi_pos at 1 in H. rewrite pw_0 in H by (pose proof hw_exp_pos; lra). lra.
Qed.
Lemma hw_strict_mono k mk a b : 0 < k -> 0 <= mk -> a < b -> phi k mk a < phi k mk b.
Proof.
  intros Hk Hm Hab. unfold phi. destruct (Rle_dec 0 a) as [Ha|Ha]; destruct (Rle_dec 0 b) as [Hb|Hb]; try lra.
  - apply phi_pos_mono; assumption.
  - (* a < 0 <= b *)
    assert (H1 : 0 < phi_pos k mk (- a)).
    { assert (H : phi_pos k mk 0 < phi_pos k mk (- a)) by (apply phi_pos_mono; lra).
      unfold phi_pos at 1 in H. rewrite pw_0 in H by (pose proof hw_exp_pos; lra). lra. }
    pose proof (phi_pos_nonneg k mk b Hk Hm Hb). lra.
  - (* both negative *)
    assert (H : phi_pos k mk (- b) < phi_pos k mk (- a)) by (apply phi_pos_mono; lra). lra.
Qed.

(* pumps *)
Lemma pump_on_curve A B C q hs he :
  (C <= 1 -> c_pump_q2 < q) -> (1 < C -> q_bar B C < q) ->
  (head_pump_row A B C q hs he = 0 <-> he - hs = A - B * pw q C).
Proof.
  intros H1 H2. unfold head_pump_row. destruct (Rle_dec C 1) as [Hc|Hc].
  - specialize (H1 Hc). unfold head_pump_row_lo, c_pump_q1, c_pump_q2 in *.
    destruct (Rle_dec q 0); [lra|]. destruct (Rle_dec q (1 / 100000000)); [lra|]. split; intro; lra.
  - assert (Hc' : 1 < C) by lra. specialize (H2 Hc'). unfold head_pump_row_hi.
    destruct (Rle_dec q (q_bar B C)); [lra|]. split; intro; lra.
Qed.
Lemma power_pump_law P q hs he : power_pump_row P q hs he = 0 <-> P = grav * 1000 * q * (he - hs).
Proof. unfold power_pump_row. split; intro; lra. Qed.
Lemma pump_coeffs_1pt Q H : 0 < Q ->
  curve_head (coeffs_1pt Q H) Q = H /\ curve_head (coeffs_1pt Q H) 0 = 4 / 3 * H /\ curve_head (coeffs_1pt Q H) (2 * Q) = 0.
Proof.
  intro HQ. unfold curve_head, coeffs_1pt. rewrite !pw_sq. repeat split; field; lra.
Qed.
Lemma pw_one q : pw q 1 = q.
Proof.
  unfold pw. destruct (Rlt_dec 0 q) as [H|H].
  - apply Rpower_1; exact H.
  - destruct (Req_EM_T q 0) as [E|E].
    + destruct (Req_EM_T 1 0); [lra|]. subst. reflexivity.
    + destruct (Req_EM_T 1 2); [lra|]. destruct (Req_EM_T 1 3); [lra|]. destruct (Req_EM_T 1 1); [reflexivity|lra].
Qed.
Lemma pump_coeffs_2pt Q0 H0 Q1 H1 : Q0 <> Q1 ->
  curve_head (coeffs_2pt Q0 H0 Q1 H1) Q0 = H0 /\ curve_head (coeffs_2pt Q0 H0 Q1 H1) Q1 = H1.
Proof. intro HQ. unfold curve_head, coeffs_2pt. cbv zeta. rewrite !pw_one. split; field; lra. Qed.

(* valves *)
Lemma prv_active setting elev he : prv_active_row setting elev he = 0 <-> he - elev = setting.
Proof. unfold prv_active_row. split; intro; lra. Qed.
Lemma psv_active setting elev hs : psv_active_row setting elev hs = 0 <-> hs - elev = setting.
Proof. unfold psv_active_row. split; intro; lra. Qed.
Lemma fcv_active setting q : fcv_active_row setting q = 0 <-> q = setting.
Proof. unfold fcv_active_row. split; intro; lra. Qed.
Lemma tcv_law r q hs he : signed_quad_row r q hs he = 0 <-> hs - he = (if Rle_dec q 0 then -1 else 1) * r * (q * q).
Proof. unfold signed_quad_row. rewrite pw_sq. destruct (Rle_dec q 0); split; intro; lra. Qed.
