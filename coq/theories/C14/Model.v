(* C14 -- registries of the water network model as one abstract state; every view is a function of it.
   Operations follow WaterNetworkModel.add_* / remove_* / the Link end-node setters / pattern & curve assignments;
   a refused operation returns the state unchanged together with `false`. *)
From Coq Require Import List Bool Arith.
Import ListNotations.

Inductive nkind := Junction | Tank | Reservoir.
Inductive lkind := Pipe | HeadPump | PowerPump | PRV | PSV | FCV | TCV.
(* node: id, kind, pattern (junction demand pattern / reservoir head pattern), curve (tank volume curve) *)
Record node := { n_id : nat; n_kind : nkind; n_pat : option nat; n_curve : option nat }.
(* link: id, kind, start, end, pattern (pump speed pattern), curve (head pump curve) *)
Record link := { l_id : nat; l_kind : lkind; l_start : nat; l_end : nat; l_pat : option nat; l_curve : option nat }.
Record source := { s_id : nat; s_node : nat; s_pat : option nat }.
Record ctrl := { c_id : nat; c_links : list nat; c_nodes : list nat }.     (* objects the control requires *)
Record st := { nodes : list node; links : list link; pats : list nat; curves : list nat;
               sources : list source; ctrls : list ctrl }.
Definition st0 : st := {| nodes := []; links := []; pats := []; curves := []; sources := []; ctrls := [] |}.

Definition memb (x : nat) (l : list nat) : bool := existsb (Nat.eqb x) l.
Definition opt_in (o : option nat) (l : list nat) : bool := match o with None => true | Some x => memb x l end.
Definition opt_is (o : option nat) (x : nat) : bool := match o with None => false | Some y => Nat.eqb x y end.
Definition node_ids (s : st) := map n_id (nodes s).
Definition link_ids (s : st) := map l_id (links s).

(* usage = who refers to an object (registry `_usage`) *)
Definition node_used (s : st) (n : nat) : bool :=
  existsb (fun l => Nat.eqb (l_start l) n || Nat.eqb (l_end l) n) (links s) || existsb (fun x => Nat.eqb (s_node x) n) (sources s).
Definition pat_used (s : st) (p : nat) : bool :=
  existsb (fun x => opt_is (n_pat x) p) (nodes s) || existsb (fun x => opt_is (l_pat x) p) (links s) ||
  existsb (fun x => opt_is (s_pat x) p) (sources s).
Definition curve_used (s : st) (c : nat) : bool :=
  existsb (fun x => opt_is (n_curve x) c) (nodes s) || existsb (fun x => opt_is (l_curve x) c) (links s).
Definition link_required (s : st) (l : nat) : bool := existsb (fun c => memb l (c_links c)) (ctrls s).
Definition node_required (s : st) (n : nat) : bool := existsb (fun c => memb n (c_nodes c)) (ctrls s).

Inductive op :=
  | AddNode (x : node) | AddLink (x : link) | AddPat (p : nat) | AddCurve (c : nat) | AddSource (x : source) | AddCtrl (x : ctrl)
  | RemNode (n : nat) | RemLink (l : nat) | RemPat (p : nat) | RemCurve (c : nat) | RemSource (x : nat) | RemCtrl (c : nat)
  | SetStart (l n : nat) | SetEnd (l n : nat)
  | SetLinkPat (l : nat) (p : option nat) | SetLinkCurve (l : nat) (c : option nat)
  | SetNodePat (n : nat) (p : option nat) | SetNodeCurve (n : nat) (c : option nat).

Definition upd_link (f : link -> link) (l : nat) (s : st) : st :=
  {| nodes := nodes s; links := map (fun x => if Nat.eqb (l_id x) l then f x else x) (links s); pats := pats s;
     curves := curves s; sources := sources s; ctrls := ctrls s |}.
Definition upd_node (f : node -> node) (n : nat) (s : st) : st :=
  {| nodes := map (fun x => if Nat.eqb (n_id x) n then f x else x) (nodes s); links := links s; pats := pats s;
     curves := curves s; sources := sources s; ctrls := ctrls s |}.

Definition step (s : st) (o : op) : st * bool :=
  match o with
  | AddNode x =>
      if negb (memb (n_id x) (node_ids s)) && opt_in (n_pat x) (pats s) && opt_in (n_curve x) (curves s)
      then ({| nodes := nodes s ++ [x]; links := links s; pats := pats s; curves := curves s; sources := sources s; ctrls := ctrls s |}, true)
      else (s, false)
  | AddLink x =>
      if negb (memb (l_id x) (link_ids s)) && memb (l_start x) (node_ids s) && memb (l_end x) (node_ids s)
         && opt_in (l_pat x) (pats s) && opt_in (l_curve x) (curves s)
      then ({| nodes := nodes s; links := links s ++ [x]; pats := pats s; curves := curves s; sources := sources s; ctrls := ctrls s |}, true)
      else (s, false)
  | AddPat p => if negb (memb p (pats s))
      then ({| nodes := nodes s; links := links s; pats := pats s ++ [p]; curves := curves s; sources := sources s; ctrls := ctrls s |}, true)
      else (s, false)
  | AddCurve c => if negb (memb c (curves s))
      then ({| nodes := nodes s; links := links s; pats := pats s; curves := curves s ++ [c]; sources := sources s; ctrls := ctrls s |}, true)
      else (s, false)
  | AddSource x =>
      if negb (memb (s_id x) (map s_id (sources s))) && memb (s_node x) (node_ids s) && opt_in (s_pat x) (pats s)
      then ({| nodes := nodes s; links := links s; pats := pats s; curves := curves s; sources := sources s ++ [x]; ctrls := ctrls s |}, true)
      else (s, false)
  | AddCtrl x =>
      if negb (memb (c_id x) (map c_id (ctrls s))) && forallb (fun l => memb l (link_ids s)) (c_links x)
         && forallb (fun n => memb n (node_ids s)) (c_nodes x)
      then ({| nodes := nodes s; links := links s; pats := pats s; curves := curves s; sources := sources s; ctrls := ctrls s ++ [x] |}, true)
      else (s, false)
  | RemNode n =>
      if memb n (node_ids s) && negb (node_used s n) && negb (node_required s n)
      then ({| nodes := filter (fun x => negb (Nat.eqb (n_id x) n)) (nodes s); links := links s; pats := pats s; curves := curves s;
               sources := sources s; ctrls := ctrls s |}, true)
      else (s, false)
  | RemLink l =>
      if memb l (link_ids s) && negb (link_required s l)
      then ({| nodes := nodes s; links := filter (fun x => negb (Nat.eqb (l_id x) l)) (links s); pats := pats s; curves := curves s;
               sources := sources s; ctrls := ctrls s |}, true)
      else (s, false)
  | RemPat p =>
      if memb p (pats s) && negb (pat_used s p)
      then ({| nodes := nodes s; links := links s; pats := filter (fun x => negb (Nat.eqb x p)) (pats s); curves := curves s;
               sources := sources s; ctrls := ctrls s |}, true)
      else (s, false)
  | RemCurve c =>
      if memb c (curves s) && negb (curve_used s c)
      then ({| nodes := nodes s; links := links s; pats := pats s; curves := filter (fun x => negb (Nat.eqb x c)) (curves s);
               sources := sources s; ctrls := ctrls s |}, true)
      else (s, false)
  | RemSource x =>
      if memb x (map s_id (sources s))
      then ({| nodes := nodes s; links := links s; pats := pats s; curves := curves s;
               sources := filter (fun y => negb (Nat.eqb (s_id y) x)) (sources s); ctrls := ctrls s |}, true)
      else (s, false)
  | RemCtrl c =>
      if memb c (map c_id (ctrls s))
      then ({| nodes := nodes s; links := links s; pats := pats s; curves := curves s; sources := sources s;
               ctrls := filter (fun y => negb (Nat.eqb (c_id y) c)) (ctrls s) |}, true)
      else (s, false)
  | SetStart l n =>
      if memb l (link_ids s) && memb n (node_ids s)
      then (upd_link (fun x => {| l_id := l_id x; l_kind := l_kind x; l_start := n; l_end := l_end x; l_pat := l_pat x; l_curve := l_curve x |}) l s, true)
      else (s, false)
  | SetEnd l n =>
      if memb l (link_ids s) && memb n (node_ids s)
      then (upd_link (fun x => {| l_id := l_id x; l_kind := l_kind x; l_start := l_start x; l_end := n; l_pat := l_pat x; l_curve := l_curve x |}) l s, true)
      else (s, false)
  | SetLinkPat l p =>
      if memb l (link_ids s) && opt_in p (pats s)
      then (upd_link (fun x => {| l_id := l_id x; l_kind := l_kind x; l_start := l_start x; l_end := l_end x; l_pat := p; l_curve := l_curve x |}) l s, true)
      else (s, false)
  | SetLinkCurve l c =>
      if memb l (link_ids s) && opt_in c (curves s)
      then (upd_link (fun x => {| l_id := l_id x; l_kind := l_kind x; l_start := l_start x; l_end := l_end x; l_pat := l_pat x; l_curve := c |}) l s, true)
      else (s, false)
  | SetNodePat n p =>
      if memb n (node_ids s) && opt_in p (pats s)
      then (upd_node (fun x => {| n_id := n_id x; n_kind := n_kind x; n_pat := p; n_curve := n_curve x |}) n s, true)
      else (s, false)
  | SetNodeCurve n c =>
      if memb n (node_ids s) && opt_in c (curves s)
      then (upd_node (fun x => {| n_id := n_id x; n_kind := n_kind x; n_pat := n_pat x; n_curve := c |}) n s, true)
      else (s, false)
  end.

Definition run (ops : list op) (s : st) : st := fold_left (fun a o => fst (step a o)) ops s.

(* ---- views ------------------------------------------------------------------------------------ *)
Definition nkind_eqb (a b : nkind) : bool := match a, b with Junction, Junction | Tank, Tank | Reservoir, Reservoir => true | _, _ => false end.
Definition names_of_kind (s : st) (k : nkind) : list nat := map n_id (filter (fun x => nkind_eqb (n_kind x) k) (nodes s)).
Definition is_pump (k : lkind) : bool := match k with HeadPump | PowerPump => true | _ => false end.
Definition is_valve (k : lkind) : bool := match k with PRV | PSV | FCV | TCV => true | _ => false end.
Definition link_names (s : st) (f : lkind -> bool) : list nat := map l_id (filter (fun x => f (l_kind x)) (links s)).
Definition links_for_node (s : st) (n : nat) : list nat := map l_id (filter (fun l => Nat.eqb (l_start l) n || Nat.eqb (l_end l) n) (links s)).
Definition inlets (s : st) (n : nat) : list nat := map l_id (filter (fun l => Nat.eqb (l_end l) n) (links s)).
Definition outlets (s : st) (n : nat) : list nat := map l_id (filter (fun l => Nat.eqb (l_start l) n) (links s)).
Definition graph_edges (s : st) : list (nat * nat * nat) := map (fun l => (l_start l, l_end l, l_id l)) (links s).
Definition pat_users (s : st) (p : nat) : list nat :=     (* ids of nodes/links/sources using pattern p, in three groups *)
  map n_id (filter (fun x => opt_is (n_pat x) p) (nodes s)) ++ map l_id (filter (fun x => opt_is (l_pat x) p) (links s)) ++
  map s_id (filter (fun x => opt_is (s_pat x) p) (sources s)).
Definition curve_users (s : st) (c : nat) : list nat :=
  map n_id (filter (fun x => opt_is (n_curve x) c) (nodes s)) ++ map l_id (filter (fun x => opt_is (l_curve x) c) (links s)).
