(* C14 -- property theorems only. *)
From Coq Require Import List Bool Arith.
From WNTRV Require Import C14.Model C14.Proofs.
Import ListNotations.

(* after ANY history of add / remove / reassign operations the model state is consistent: unique names in every registry,
   every link's end nodes exist, every pattern/curve/node/link reference names an existing object *)
Theorem C14_inv_reachable : forall ops, Inv (run ops st0).
Proof. intro ops. apply inv_reachable. exact inv_st0. Qed.
Theorem C14_inv_step : forall s o, Inv s -> Inv (fst (step s o)).
Proof. exact inv_step. Qed.
(* a refused operation (e.g. removing an element that is still in use) leaves the model unchanged *)
Theorem C14_refused_noop : forall s o, snd (step s o) = false -> fst (step s o) = s.
Proof. exact refused_noop. Qed.
(* views: typed name lists partition the nodes; graph edges have existing ends; links of a node are exactly the links with that end *)
Theorem C14_kinds_partition : forall s n, In n (node_ids s) <-> exists k, In n (names_of_kind s k).
Proof. exact kinds_partition. Qed.
Theorem C14_graph_edges_exist : forall s, Inv s -> forall u v l,
  In (u, v, l) (graph_edges s) -> In u (node_ids s) /\ In v (node_ids s) /\ In l (link_ids s).
Proof. exact link_ends_exist. Qed.
Theorem C14_links_for_node_exact : forall s n l,
  In l (links_for_node s n) <-> exists x, In x (links s) /\ l_id x = l /\ (l_start x = n \/ l_end x = n).
Proof. exact links_for_node_exact. Qed.
Print Assumptions C14_inv_reachable.
Print Assumptions C14_refused_noop.
Print Assumptions C14_kinds_partition.
Print Assumptions C14_graph_edges_exist.
Print Assumptions C14_links_for_node_exact.
