From Coq Require Import List Bool Arith Lia.
From WNTRV Require Import C14.Model.
Import ListNotations.

Lemma memb_In x l : memb x l = true <-> In x l.
Proof.
  unfold memb. rewrite existsb_exists. split.
  - intros [y [Hy He]]. apply Nat.eqb_eq in He. subst. exact Hy.
  - intro H. exists x. split; [exact H|apply Nat.eqb_refl].
Qed.
Lemma memb_false x l : memb x l = false <-> ~ In x l.
Proof.
  rewrite <- memb_In. destruct (memb x l); split; intro H.
  - discriminate.
  - exfalso. apply H. reflexivity.
  - intro; discriminate.
  - reflexivity.
Qed.

Definition opt_ok (o : option nat) (l : list nat) : Prop := match o with None => True | Some x => In x l end.
Lemma opt_in_ok o l : opt_in o l = true <-> opt_ok o l.
Proof. destruct o; cbn; [apply memb_In|tauto]. Qed.

Record Inv (s : st) : Prop := {
  nd_nodes : NoDup (node_ids s); nd_links : NoDup (link_ids s); nd_pats : NoDup (pats s); nd_curves : NoDup (curves s);
  nd_sources : NoDup (map s_id (sources s)); nd_ctrls : NoDup (map c_id (ctrls s));
  ok_links : Forall (fun l => In (l_start l) (node_ids s) /\ In (l_end l) (node_ids s) /\
                              opt_ok (l_pat l) (pats s) /\ opt_ok (l_curve l) (curves s)) (links s);
  ok_nodes : Forall (fun n => opt_ok (n_pat n) (pats s) /\ opt_ok (n_curve n) (curves s)) (nodes s);
  ok_sources : Forall (fun x => In (s_node x) (node_ids s) /\ opt_ok (s_pat x) (pats s)) (sources s);
  ok_ctrls : Forall (fun c => (forall l, In l (c_links c) -> In l (link_ids s)) /\
                              (forall n, In n (c_nodes c) -> In n (node_ids s))) (ctrls s) }.

Lemma inv_st0 : Inv st0.
Proof. constructor; cbn; constructor. Qed.

(* ---- list helpers ---- *)
Lemma NoDup_app_one {A} (l : list A) x : NoDup l -> ~ In x l -> NoDup (l ++ [x]).
Proof.
  induction l as [|y l IH]; intros Hn Hx; cbn; [constructor; [intros []|constructor]|].
  inversion Hn; subst. constructor.
  - intro Hin. apply in_app_or in Hin. destruct Hin as [Hin|[->|[]]]; [contradiction|apply Hx; left; reflexivity].
  - apply IH; [assumption|intro; apply Hx; right; assumption].
Qed.
Lemma NoDup_map_filter {A} (f : A -> nat) (g : A -> bool) l : NoDup (map f l) -> NoDup (map f (filter g l)).
Proof.
  induction l as [|x l IH]; cbn; intro H; [constructor|]. inversion H; subst.
  destruct (g x); cbn; [constructor|]; auto.
  intro Hin. apply H2. apply in_map_iff in Hin. destruct Hin as [y [E Hy]]. apply filter_In in Hy.
  apply in_map_iff. exists y. tauto.
Qed.
Lemma NoDup_filter (g : nat -> bool) l : NoDup l -> NoDup (filter g l).
Proof. intro H. rewrite <- (map_id (filter g l)). apply NoDup_map_filter. rewrite map_id. exact H. Qed.
Lemma in_ids_filter {A} (f : A -> nat) l n x :
  In x (map f (filter (fun y => negb (Nat.eqb (f y) n)) l)) <-> (In x (map f l) /\ x <> n).
Proof.
  rewrite !in_map_iff. split.
  - intros [y [E Hy]]. apply filter_In in Hy. destruct Hy as [Hy Hn]. apply negb_true_iff, Nat.eqb_neq in Hn.
    subst. split; [exists y; tauto|exact Hn].
  - intros [[y [E Hy]] Hn]. exists y. split; [exact E|]. apply filter_In. split; [exact Hy|].
    apply negb_true_iff, Nat.eqb_neq. subst. exact Hn.
Qed.
Lemma in_filter_ne l n x : In x (filter (fun y => negb (Nat.eqb y n)) l) <-> (In x l /\ x <> n).
Proof.
  rewrite filter_In. split; intros [H1 H2]; split; try exact H1.
  - apply negb_true_iff, Nat.eqb_neq in H2. exact H2.
  - apply negb_true_iff, Nat.eqb_neq. exact H2.
Qed.
Lemma Forall_filter {A} (P : A -> Prop) g l : Forall P l -> Forall P (filter g l).
Proof. intro H. apply Forall_forall. intros x Hx. apply filter_In in Hx. rewrite Forall_forall in H. apply H. tauto. Qed.
Lemma Forall_app_one {A} (P : A -> Prop) l x : Forall P l -> P x -> Forall P (l ++ [x]).
Proof. intros H Hx. apply Forall_app. split; [exact H|constructor; [exact Hx|constructor]]. Qed.
Lemma Forall_imp' {A} (P Q : A -> Prop) l : (forall x, In x l -> P x -> Q x) -> Forall P l -> Forall Q l.
Proof. intros H HF. rewrite Forall_forall in *. intros x Hx. apply H; auto. Qed.
Lemma opt_ok_app o l x : opt_ok o l -> opt_ok o (l ++ [x]).
Proof. destruct o; cbn; [intro; apply in_or_app; left; assumption|tauto]. Qed.
Lemma existsb_false {A} (f : A -> bool) l : existsb f l = false -> forall x, In x l -> f x = false.
Proof.
  intros H x Hx. destruct (f x) eqn:E; [|reflexivity].
  assert (existsb f l = true) by (apply existsb_exists; exists x; tauto). congruence.
Qed.
Lemma map_upd_id {A} (f : A -> nat) (g : A -> A) (c : A -> bool) l :
  (forall x, f (g x) = f x) -> map f (map (fun x => if c x then g x else x) l) = map f l.
Proof. intro H. rewrite map_map. apply map_ext. intro x. destruct (c x); [apply H|reflexivity]. Qed.
Lemma opt_is_false o x l : opt_is o x = false -> opt_ok o l -> opt_ok o (filter (fun y => negb (Nat.eqb y x)) l).
Proof.
  destruct o as [y|]; cbn; [|tauto]. intros Hn Hin. apply in_filter_ne. split; [exact Hin|].
  apply Nat.eqb_neq in Hn. auto.
Qed.

Ltac bools := repeat match goal with
  | H : _ && _ = true |- _ => apply andb_true_iff in H; destruct H
  | H : negb _ = true |- _ => apply negb_true_iff in H
  | H : memb _ _ = true |- _ => apply memb_In in H
  | H : memb _ _ = false |- _ => apply memb_false in H
  | H : opt_in _ _ = true |- _ => apply opt_in_ok in H
  | H : _ || _ = false |- _ => apply orb_false_iff in H; destruct H
  end.

Theorem refused_noop s o : snd (step s o) = false -> fst (step s o) = s.
Proof. destruct o; cbn [step]; match goal with |- context[if ?c then _ else _] => destruct c end; cbn; congruence. Qed.

Theorem inv_step s o : Inv s -> Inv (fst (step s o)).
Proof.
  intro I. destruct I as [I1 I2 I3 I4 I5 I6 I7 I8 I9 I10].
  destruct o; cbn [step]; match goal with |- context[if ?c then _ else _] => destruct c eqn:C end; cbn [fst];
    try (constructor; assumption); bools.
  - (* AddNode *)
    constructor; cbn [nodes links pats curves sources ctrls node_ids link_ids]; try assumption.
    + unfold node_ids; cbn. rewrite map_app. cbn. apply NoDup_app_one; assumption.
    + eapply Forall_imp'; [|exact I7]. cbn. intros l _ [A [B [Cc D]]]. unfold node_ids; cbn. rewrite map_app.
      repeat split; try assumption; apply in_or_app; left; assumption.
    + apply Forall_app_one; [exact I8|]. split; assumption.
    + eapply Forall_imp'; [|exact I9]. cbn. intros x0 _ [A B]. unfold node_ids; cbn. rewrite map_app. split; [apply in_or_app; left|]; assumption.
    + eapply Forall_imp'; [|exact I10]. cbn. intros c _ [A B]. split; [exact A|]. intros n Hn. unfold node_ids; cbn. rewrite map_app.
      apply in_or_app; left. apply B. exact Hn.
  - (* AddLink *)
    constructor; cbn [nodes links pats curves sources ctrls node_ids link_ids]; try assumption.
    + unfold link_ids; cbn. rewrite map_app. cbn. apply NoDup_app_one; assumption.
    + apply Forall_app_one; [exact I7|]. repeat split; assumption.
    + eapply Forall_imp'; [|exact I10]. cbn. intros c _ [A B]. split; [|exact B]. intros l Hl. unfold link_ids; cbn. rewrite map_app.
      apply in_or_app; left. apply A. exact Hl.
  - (* AddPat *)
    constructor; cbn [nodes links pats curves sources ctrls]; try assumption.
    + apply NoDup_app_one; assumption.
    + eapply Forall_imp'; [|exact I7]. cbn. intros l _ [A [B [Cc D]]]. repeat split; try assumption. apply opt_ok_app; assumption.
    + eapply Forall_imp'; [|exact I8]. cbn. intros l _ [A B]. split; [apply opt_ok_app|]; assumption.
    + eapply Forall_imp'; [|exact I9]. cbn. intros l _ [A B]. split; [|apply opt_ok_app]; assumption.
  - (* AddCurve *)
    constructor; cbn [nodes links pats curves sources ctrls]; try assumption.
    + apply NoDup_app_one; assumption.
    + eapply Forall_imp'; [|exact I7]. cbn. intros l _ [A [B [Cc D]]]. repeat split; try assumption. apply opt_ok_app; assumption.
    + eapply Forall_imp'; [|exact I8]. cbn. intros l _ [A B]. split; [|apply opt_ok_app]; assumption.
  - (* AddSource *)
    constructor; cbn [nodes links pats curves sources ctrls]; try assumption.
    + rewrite map_app. cbn. apply NoDup_app_one; assumption.
    + apply Forall_app_one; [exact I9|]. split; assumption.
  - (* AddCtrl *)
    constructor; cbn [nodes links pats curves sources ctrls]; try assumption.
    + rewrite map_app. cbn. apply NoDup_app_one; assumption.
    + apply Forall_app_one; [exact I10|]. rewrite forallb_forall in *. split; intros y Hy; apply memb_In; auto.
  - (* RemNode *)
    unfold node_used, node_required in *. bools.
    constructor; cbn [nodes links pats curves sources ctrls node_ids link_ids]; try assumption.
    + unfold node_ids; cbn. apply NoDup_map_filter. exact I1.
    + eapply Forall_imp'; [|exact I7]. cbn. intros l Hl [A [B [Cc D]]].
      pose proof (existsb_false _ _ H1 l Hl) as E. cbn in E. apply orb_false_iff in E. destruct E as [E1 E2].
      apply Nat.eqb_neq in E1, E2. unfold node_ids; cbn. repeat split; try assumption; apply in_ids_filter; split; assumption.
    + apply Forall_filter. exact I8.
    + eapply Forall_imp'; [|exact I9]. cbn. intros x Hx [A B].
      pose proof (existsb_false _ _ H2 x Hx) as E. cbn in E. apply Nat.eqb_neq in E.
      split; [|exact B]. unfold node_ids; cbn. apply in_ids_filter. split; assumption.
    + eapply Forall_imp'; [|exact I10]. cbn. intros c Hc [A B]. split; [exact A|]. intros m Hm.
      pose proof (existsb_false _ _ H0 c Hc) as E. cbn in E. apply memb_false in E.
      unfold node_ids; cbn. apply in_ids_filter. split; [apply B; exact Hm|]. intro; subst. contradiction.
  - (* RemLink *)
    unfold link_required in *.
    constructor; cbn [nodes links pats curves sources ctrls node_ids link_ids]; try assumption.
    + unfold link_ids; cbn. apply NoDup_map_filter. exact I2.
    + apply Forall_filter. exact I7.
    + eapply Forall_imp'; [|exact I10]. cbn. intros c Hc [A B]. split; [|exact B]. intros m Hm.
      pose proof (existsb_false _ _ H0 c Hc) as E. cbn in E. apply memb_false in E.
      unfold link_ids; cbn. apply in_ids_filter. split; [apply A; exact Hm|]. intro; subst. contradiction.
  - (* RemPat *)
    unfold pat_used in *. bools.
    constructor; cbn [nodes links pats curves sources ctrls]; try assumption.
    + apply NoDup_filter. exact I3.
    + eapply Forall_imp'; [|exact I7]. cbn. intros l Hl [A [B [Cc D]]]. repeat split; try assumption.
      apply opt_is_false; [|exact Cc]. apply (existsb_false _ _ H2 l Hl).
    + eapply Forall_imp'; [|exact I8]. cbn. intros x Hx [A B]. split; [|exact B].
      apply opt_is_false; [|exact A]. apply (existsb_false _ _ H0 x Hx).
    + eapply Forall_imp'; [|exact I9]. cbn. intros x Hx [A B]. split; [exact A|].
      apply opt_is_false; [|exact B]. apply (existsb_false _ _ H1 x Hx).
  - (* RemCurve *)
    unfold curve_used in *. bools.
    constructor; cbn [nodes links pats curves sources ctrls]; try assumption.
    + apply NoDup_filter. exact I4.
    + eapply Forall_imp'; [|exact I7]. cbn. intros l Hl [A [B [Cc D]]]. repeat split; try assumption.
      apply opt_is_false; [|exact D]. apply (existsb_false _ _ H1 l Hl).
    + eapply Forall_imp'; [|exact I8]. cbn. intros x Hx [A B]. split; [exact A|].
      apply opt_is_false; [|exact B]. apply (existsb_false _ _ H0 x Hx).
  - (* RemSource *)
    constructor; cbn [nodes links pats curves sources ctrls]; try assumption.
    + apply NoDup_map_filter. exact I5.
    + apply Forall_filter. exact I9.
  - (* RemCtrl *)
    constructor; cbn [nodes links pats curves sources ctrls]; try assumption.
    + apply NoDup_map_filter. exact I6.
    + apply Forall_filter. exact I10.
  - (* SetStart *)
    unfold upd_link. constructor; cbn [nodes links pats curves sources ctrls node_ids link_ids]; try assumption.
    + unfold link_ids; cbn. rewrite map_upd_id by reflexivity. exact I2.
    + apply Forall_forall. intros x Hx. apply in_map_iff in Hx. destruct Hx as [y [E Hy]].
      rewrite Forall_forall in I7. destruct (I7 y Hy) as [A [B [Cc D]]].
      destruct (Nat.eqb (l_id y) l); subst x; cbn; repeat split; assumption.
    + unfold link_ids; cbn. rewrite map_upd_id by reflexivity. exact I10.
  - (* SetEnd *)
    unfold upd_link. constructor; cbn [nodes links pats curves sources ctrls node_ids link_ids]; try assumption.
    + unfold link_ids; cbn. rewrite map_upd_id by reflexivity. exact I2.
    + apply Forall_forall. intros x Hx. apply in_map_iff in Hx. destruct Hx as [y [E Hy]].
      rewrite Forall_forall in I7. destruct (I7 y Hy) as [A [B [Cc D]]].
      destruct (Nat.eqb (l_id y) l); subst x; cbn; repeat split; assumption.
    + unfold link_ids; cbn. rewrite map_upd_id by reflexivity. exact I10.
  - (* SetLinkPat *)
    unfold upd_link. constructor; cbn [nodes links pats curves sources ctrls node_ids link_ids]; try assumption.
    + unfold link_ids; cbn. rewrite map_upd_id by reflexivity. exact I2.
    + apply Forall_forall. intros x Hx. apply in_map_iff in Hx. destruct Hx as [y [E Hy]].
      rewrite Forall_forall in I7. destruct (I7 y Hy) as [A [B [Cc D]]].
      destruct (Nat.eqb (l_id y) l); subst x; cbn; repeat split; assumption.
    + unfold link_ids; cbn. rewrite map_upd_id by reflexivity. exact I10.
  - (* SetLinkCurve *)
    unfold upd_link. constructor; cbn [nodes links pats curves sources ctrls node_ids link_ids]; try assumption.
    + unfold link_ids; cbn. rewrite map_upd_id by reflexivity. exact I2.
    + apply Forall_forall. intros x Hx. apply in_map_iff in Hx. destruct Hx as [y [E Hy]].
      rewrite Forall_forall in I7. destruct (I7 y Hy) as [A [B [Cc D]]].
      destruct (Nat.eqb (l_id y) l); subst x; cbn; repeat split; assumption.
    + unfold link_ids; cbn. rewrite map_upd_id by reflexivity. exact I10.
  - (* SetNodePat *)
    unfold upd_node. constructor; cbn [nodes links pats curves sources ctrls node_ids link_ids]; try assumption;
      try (unfold node_ids; cbn; rewrite map_upd_id by reflexivity; assumption).
    apply Forall_forall. intros x Hx. apply in_map_iff in Hx. destruct Hx as [y [E Hy]].
    rewrite Forall_forall in I8. destruct (I8 y Hy) as [A B].
    destruct (Nat.eqb (n_id y) n); subst x; cbn; split; assumption.
  - (* SetNodeCurve *)
    unfold upd_node. constructor; cbn [nodes links pats curves sources ctrls node_ids link_ids]; try assumption;
      try (unfold node_ids; cbn; rewrite map_upd_id by reflexivity; assumption).
    apply Forall_forall. intros x Hx. apply in_map_iff in Hx. destruct Hx as [y [E Hy]].
    rewrite Forall_forall in I8. destruct (I8 y Hy) as [A B].
    destruct (Nat.eqb (n_id y) n); subst x; cbn; split; assumption.
Qed.

Theorem inv_reachable ops : forall s, Inv s -> Inv (run ops s).
Proof. unfold run. induction ops as [|o ops IH]; intros s I; cbn [fold_left]; [exact I|]. apply IH. apply inv_step. exact I. Qed.

(* views: the typed name lists partition the nodes; every listed link has existing end nodes; usage only names existing users *)
Lemma kinds_partition s n : In n (node_ids s) <-> exists k, In n (names_of_kind s k).
Proof.
  unfold node_ids, names_of_kind. split.
  - intro H. apply in_map_iff in H. destruct H as [x [E Hx]]. exists (n_kind x). apply in_map_iff. exists x. split; [exact E|].
    apply filter_In. split; [exact Hx|]. destruct (n_kind x); reflexivity.
  - intros [k H]. apply in_map_iff in H. destruct H as [x [E Hx]]. apply filter_In in Hx. apply in_map_iff. exists x. tauto.
Qed.
Lemma link_ends_exist s : Inv s -> forall u v l, In (u, v, l) (graph_edges s) -> In u (node_ids s) /\ In v (node_ids s) /\ In l (link_ids s).
Proof.
  intros I u v l H. unfold graph_edges in H. apply in_map_iff in H. destruct H as [x [E Hx]]. injection E as <- <- <-.
  pose proof (ok_links s I) as F. rewrite Forall_forall in F. destruct (F x Hx) as [A [B _]].
  repeat split; try assumption. unfold link_ids. apply in_map. exact Hx.
Qed.
Lemma links_for_node_exact s n l :
  In l (links_for_node s n) <-> exists x, In x (links s) /\ l_id x = l /\ (l_start x = n \/ l_end x = n).
Proof.
  unfold links_for_node. rewrite in_map_iff. split.
  - intros [x [E Hx]]. apply filter_In in Hx. destruct Hx as [Hx Hc]. apply orb_true_iff in Hc.
    exists x. repeat split; try assumption. destruct Hc as [Hc|Hc]; apply Nat.eqb_eq in Hc; auto.
  - intros [x [Hx [E Hc]]]. exists x. split; [exact E|]. apply filter_In. split; [exact Hx|].
    apply orb_true_iff. destruct Hc as [Hc|Hc]; [left|right]; apply Nat.eqb_eq; exact Hc.
Qed.
