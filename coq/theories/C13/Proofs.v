From Coq Require Import String List Bool.
From WNTRV Require Import Gen.FromDict C13.Model.
Import ListNotations.

Lemma smemb_In x l : smemb x l = true <-> In x l.
Proof.
  unfold smemb. rewrite existsb_exists. split.
  - intros [y [Hy He]]. apply String.eqb_eq in He. subst. exact Hy.
  - intro H. exists x. split; [exact H|apply String.eqb_refl].
Qed.
(* the executable coverage test is sound and complete: it passes iff every emitted key is restored *)
Lemma covered_iff emitted restored : covered emitted restored = true <-> forall k, In k emitted -> In k restored.
Proof.
  unfold covered. rewrite forallb_forall. split; intros H k Hk; [apply smemb_In|apply smemb_In]; auto.
Qed.
Lemma missing_nil emitted restored : missing emitted restored = [] <-> covered emitted restored = true.
Proof.
  unfold missing, covered. induction emitted as [|k r IH]; cbn; [tauto|].
  destruct (smemb k restored); cbn; [exact IH|]. split; intro H; discriminate.
Qed.
