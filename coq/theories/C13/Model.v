(* C13 -- dictionary / JSON round trip.
   Controls and rules travel as text (str(condition), str(action)) and are re-read with the INP codecs in SI units:
   Lib/Codec (C12).  Element attributes: every key that to_dict emits for an element kind must be one that from_dict
   reads for that kind (Gen/FromDict.v is regenerated from wntr/network/io.py). *)
From Coq Require Import String List Bool.
From WNTRV Require Import Gen.FromDict.
Import ListNotations.
Local Open Scope string_scope.

Definition smemb (x : string) (l : list string) : bool := existsb (String.eqb x) l.
(* keys emitted by to_dict that carry no information to restore (derived / read-only in the dictionary) *)
Definition covered (emitted restored : list string) : bool := forallb (fun k => smemb k restored) emitted.
Definition missing (emitted restored : list string) : list string := filter (fun k => negb (smemb k restored)) emitted.
