(* C13 -- property theorems only. *)
From Coq Require Import ZArith String List Bool.
From WNTRV Require Import Lib.Codec C12.Proofs Gen.FromDict C13.Model C13.Proofs.

Theorem C13_attrs_covered_iff : forall emitted restored,
  covered emitted restored = true <-> forall k, In k emitted -> In k restored.
Proof. exact covered_iff. Qed.
(* controls and rules travel as text and are read back with the INP codecs (SI units): C12's codec theorems apply *)
Theorem C13_rule_clock_text_roundtrip : forall t, (0 <= t < 86400)%Z -> parse_clock (sec_to_clock t) = t.
Proof. exact clock_roundtrip. Qed.
Theorem C13_rule_time_text_roundtrip : forall t, (0 <= t)%Z -> hms_to_sec (sec_to_hms t) = t.
Proof. exact time_roundtrip. Qed.
Theorem C13_rule_condition_roundtrip : forall (A : Type) (v : A -> bool) (t : ctree A),
  expressible t = true -> exists t', parse_cond (print_cond KIf t) = Some t' /\ sem v t' = sem v t.
Proof. intros A v t. exact (rule_condition_roundtrip v t). Qed.
Print Assumptions C13_attrs_covered_iff.
Print Assumptions C13_rule_condition_roundtrip.
