From Coq Require Import ZArith List Bool Lia.
From WNTRV Require Import Lib.Codec.
Import ListNotations.
Local Open Scope Z_scope.

Ltac Zify.zify_post_hook ::= Z.to_euclidean_division_equations.

Lemma time_roundtrip t : 0 <= t -> hms_to_sec (sec_to_hms t) = t.
Proof. intro H. unfold hms_to_sec, sec_to_hms. lia. Qed.
Lemma hms_fields t : 0 <= t -> let '(h, m, s) := sec_to_hms t in 0 <= h /\ 0 <= m < 60 /\ 0 <= s < 60.
Proof. intro H. unfold sec_to_hms. lia. Qed.

Ltac zcases := repeat match goal with
  | |- context[?a <=? ?b] => let H := fresh "Hz" in destruct (Z.leb_spec a b) as [H|H]
  | |- context[?a <? ?b] => let H := fresh "Hz" in destruct (Z.ltb_spec a b) as [H|H]
  | |- context[?a =? ?b] => let H := fresh "Hz" in destruct (Z.eqb_spec a b) as [H|H]
  end; cbn [andb]; cbv iota beta.

Lemma clock_roundtrip t : 0 <= t < 86400 -> parse_clock (sec_to_clock t) = t.
Proof.
  intro H. unfold sec_to_clock, sec_to_hms.
  set (h := t / 3600). set (m := (t - h * 3600) / 60). set (s := t - h * 3600 - m * 60).
  assert (Hh : 0 <= h < 24) by (unfold h; lia).
  assert (Ht : t = h * 3600 + m * 60 + s) by (unfold s; lia).
  destruct (Z.leb_spec 12 h) as [H1|H1].
  - destruct (Z.ltb_spec 12 h) as [H2|H2]; unfold parse_clock; zcases; lia.
  - destruct (Z.eqb_spec h 0) as [E|E]; unfold parse_clock; zcases; lia.
Qed.

Lemma start_clocktime_roundtrip t : 0 <= t < 86400 -> clock_time_to_sec (sec_to_clock t) = t.
Proof.
  intro H. unfold sec_to_clock, sec_to_hms.
  set (h := t / 3600). set (m := (t - h * 3600) / 60). set (s := t - h * 3600 - m * 60).
  assert (Hh : 0 <= h < 24) by (unfold h; lia).
  assert (Ht : t = h * 3600 + m * 60 + s) by (unfold s; lia).
  destruct (Z.leb_spec 12 h) as [H1|H1].
  - destruct (Z.ltb_spec 12 h) as [H2|H2]; unfold clock_time_to_sec; zcases; lia.
  - destruct (Z.eqb_spec h 0) as [E|E]; unfold clock_time_to_sec; zcases; lia.
Qed.

Lemma start_clock_fields_roundtrip t : 0 <= t < 86400 -> clock_time_to_sec (start_clock_fields t) = t.
Proof.
  intro H. unfold start_clock_fields, sec_to_hms.
  set (h := t / 3600). set (m := (t - h * 3600) / 60). set (s := t - h * 3600 - m * 60).
  assert (Hh : 0 <= h < 24) by (unfold h; lia).
  assert (Ht : t = h * 3600 + m * 60 + s) by (unfold s; lia).
  destruct (Z.ltb_spec h 12) as [H1|H1]; unfold clock_time_to_sec; zcases; lia.
Qed.

(* ---- rule conditions ------------------------------------------------------------------------------ *)
Section Cond.
Context {A : Type}.
Implicit Types t : ctree A.

Fixpoint andfree t : bool := match t with Atom _ => true | And _ _ => false | Or l r => andfree l && andfree r end.
(* "AND of OR-groups": the shapes EPANET's rule syntax (OR binds tighter than AND, no parentheses) can express *)
Fixpoint expressible t : bool :=
  match t with
  | And l r => expressible l && expressible r
  | _ => andfree t
  end.

Definition sem_list (v : A -> bool) (l : list (ctree A)) : bool := forallb (sem v) l.

Lemma parse_app_andfree v : forall t prefix acc, andfree t = true ->
  forall rest,
  match prefix with
  | KOr => forall init last, acc = init ++ [last] ->
      exists last', parse_clauses (print_cond KOr t ++ rest) acc = parse_clauses rest (init ++ [last']) /\
                    sem v last' = sem v last || sem v t
  | _ => exists x, parse_clauses (print_cond prefix t ++ rest) acc = parse_clauses rest (acc ++ [x]) /\ sem v x = sem v t
  end.
Proof.
  induction t as [a|l IHl r IHr|l IHl r IHr]; intros prefix acc Hf rest; cbn [andfree] in Hf; try discriminate.
  - destruct prefix; cbn [print_cond app parse_clauses].
    + exists (Atom a). split; reflexivity.
    + exists (Atom a). split; reflexivity.
    + intros init last ->. rewrite rev_app_distr. cbn [rev app]. rewrite rev_involutive.
      exists (Or last (Atom a)). split; reflexivity.
  - apply andb_true_iff in Hf. destruct Hf as [Hl Hr]. cbn [print_cond].
    destruct prefix; try rewrite <- app_assoc.
    + destruct (IHl KIf acc Hl (print_cond KOr r ++ rest)) as [x [E1 S1]]. rewrite E1.
      destruct (IHr KOr (acc ++ [x]) Hr rest acc x eq_refl) as [y [E2 S2]]. rewrite E2.
      exists y. split; [reflexivity|]. rewrite S2, S1. reflexivity.
    + destruct (IHl KAnd acc Hl (print_cond KOr r ++ rest)) as [x [E1 S1]]. rewrite E1.
      destruct (IHr KOr (acc ++ [x]) Hr rest acc x eq_refl) as [y [E2 S2]]. rewrite E2.
      exists y. split; [reflexivity|]. rewrite S2, S1. reflexivity.
    + intros init last ->. try rewrite <- app_assoc.
      destruct (IHl KOr (init ++ [last]) Hl (print_cond KOr r ++ rest) init last eq_refl) as [x [E1 S1]]. rewrite E1.
      destruct (IHr KOr (init ++ [x]) Hr rest init x eq_refl) as [y [E2 S2]]. rewrite E2.
      exists y. split; [reflexivity|]. rewrite S2, S1. cbn [sem]. rewrite orb_assoc. reflexivity.
Qed.

Lemma sem_list_app v a b : sem_list v (a ++ b) = sem_list v a && sem_list v b.
Proof. unfold sem_list. apply forallb_app. Qed.

Lemma parse_app_expressible v : forall t prefix acc, expressible t = true -> prefix <> KOr ->
  forall rest, exists xs, parse_clauses (print_cond prefix t ++ rest) acc = parse_clauses rest (acc ++ xs) /\
                          sem_list v xs = sem v t /\ xs <> [].
Proof.
  induction t as [a|l IHl r IHr|l IHl r IHr]; intros prefix acc He Hp rest.
  - destruct prefix; try congruence.
    + destruct (parse_app_andfree v (Atom a) KIf acc eq_refl rest) as [x [E S]].
      exists [x]. split; [exact E|split; [cbn; rewrite S; apply andb_true_r|discriminate]].
    + destruct (parse_app_andfree v (Atom a) KAnd acc eq_refl rest) as [x [E S]].
      exists [x]. split; [exact E|split; [cbn; rewrite S; apply andb_true_r|discriminate]].
  - cbn [expressible] in He. apply andb_true_iff in He. destruct He as [Hl Hr]. cbn [print_cond]. rewrite <- app_assoc.
    destruct (IHl prefix acc Hl Hp (print_cond KAnd r ++ rest)) as [xs [E1 [S1 N1]]]. rewrite E1.
    destruct (IHr KAnd (acc ++ xs) Hr ltac:(discriminate) rest) as [ys [E2 [S2 N2]]]. rewrite E2.
    exists (xs ++ ys). rewrite app_assoc. split; [reflexivity|]. split.
    + rewrite sem_list_app, S1, S2. reflexivity.
    + destruct xs; [congruence|discriminate].
  - cbn [expressible] in He.
    destruct prefix; try congruence.
    + destruct (parse_app_andfree v (Or l r) KIf acc He rest) as [x [E S]].
      exists [x]. split; [exact E|split; [cbn; rewrite S; apply andb_true_r|discriminate]].
    + destruct (parse_app_andfree v (Or l r) KAnd acc He rest) as [x [E S]].
      exists [x]. split; [exact E|split; [cbn; rewrite S; apply andb_true_r|discriminate]].
Qed.

Lemma fold_and_sem v : forall r x, sem v (fold_left And r x) = sem v x && sem_list v r.
Proof.
  induction r as [|y r IH]; intro x; cbn [fold_left sem_list forallb]; [rewrite andb_true_r; reflexivity|].
  rewrite IH. cbn [sem]. fold (sem_list v r). rewrite andb_assoc. reflexivity.
Qed.

(* writing a rule condition and reading it back preserves its meaning, for every expressible condition tree *)
Theorem rule_condition_roundtrip v t :
  expressible t = true -> exists t', parse_cond (print_cond KIf t) = Some t' /\ sem v t' = sem v t.
Proof.
  intro He. destruct (parse_app_expressible v t KIf [] He ltac:(discriminate) []) as [xs [E [S N]]].
  rewrite app_nil_r in E. cbn [app parse_clauses] in E. unfold parse_cond. rewrite E.
  destruct xs as [|x r]; [congruence|]. cbn [fold_and]. exists (fold_left And r x). split; [reflexivity|].
  rewrite fold_and_sem. exact S.
Qed.
End Cond.

(* a condition EPANET's syntax cannot express: a OR (b AND c) is written "IF a OR b AND c" and read back as (a OR b) AND c *)
Lemma rule_condition_roundtrip_refuted :
  exists (t : ctree nat) (v : nat -> bool),
    match parse_cond (print_cond KIf t) with Some t' => sem v t' <> sem v t | None => True end.
Proof.
  exists (Or (Atom 0%nat) (And (Atom 1%nat) (Atom 2%nat))), (fun n => Nat.eqb n 0). vm_compute. discriminate.
Qed.
