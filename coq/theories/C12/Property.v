(* C12 -- property theorems only (the logic of the INP text codecs). *)
From Coq Require Import ZArith List Bool.
From WNTRV Require Import Lib.Codec C12.Proofs.
Import ListNotations.
Local Open Scope Z_scope.

(* [TIMES] and simple-control times: hours:minutes:seconds and back *)
Theorem C12_time_roundtrip : forall t, 0 <= t -> hms_to_sec (sec_to_hms t) = t.
Proof. exact time_roundtrip. Qed.
(* rule clock times "h:mm:ss AM|PM" (all 24 hours, incl. the two 12 o'clock hours) *)
Theorem C12_clocktext_roundtrip : forall t, 0 <= t < 86400 -> parse_clock (sec_to_clock t) = t.
Proof. exact clock_roundtrip. Qed.
(* START CLOCKTIME as _write_times writes it (0-based hours + AM/PM) and _clock_time_to_sec reads it; also for 12-hour input *)
Theorem C12_start_clocktime_roundtrip : forall t, 0 <= t < 86400 -> clock_time_to_sec (start_clock_fields t) = t.
Proof. exact start_clock_fields_roundtrip. Qed.
Theorem C12_start_clocktime_12h_input : forall t, 0 <= t < 86400 -> clock_time_to_sec (sec_to_clock t) = t.
Proof. exact start_clocktime_roundtrip. Qed.
(* rule conditions: IF/AND/OR clause list written and read back keeps the meaning of every condition that EPANET's
   rule syntax can express (AND of OR-groups) ... *)
Theorem C12_rule_condition_roundtrip : forall (A : Type) (v : A -> bool) (t : ctree A),
  expressible t = true -> exists t', parse_cond (print_cond KIf t) = Some t' /\ sem v t' = sem v t.
Proof. intros A v t. exact (rule_condition_roundtrip v t). Qed.
(* ... and changes the meaning of  a OR (b AND c)  (known finding) *)
Theorem C12_rule_condition_roundtrip_refuted :
  exists (t : ctree nat) (v : nat -> bool),
    match parse_cond (print_cond KIf t) with Some t' => sem v t' <> sem v t | None => True end.
Proof. exact rule_condition_roundtrip_refuted. Qed.
Print Assumptions C12_time_roundtrip.
Print Assumptions C12_clocktext_roundtrip.
Print Assumptions C12_start_clocktime_roundtrip.
Print Assumptions C12_rule_condition_roundtrip.
Print Assumptions C12_rule_condition_roundtrip_refuted.
