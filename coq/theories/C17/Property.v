(* C17 -- property theorems only.  Every theorem is closed by `exact <lemma>`. *)
From Coq Require Import Reals List Bool ZArith.
From WNTRV Require Import Gen.Units C17.Model C17.Proofs.
Local Open Scope R_scope.

(* the translated code IS multiplication by the physical factor table ... *)
Theorem C17_hyd_to_si_is_spec : forall p u dw x, hyd_to_si p u dw x = x * spec_hyd p u dw.
Proof. exact hyd_to_si_spec. Qed.
Theorem C17_hyd_from_si_is_spec : forall p u dw x, hyd_from_si p u dw x = x / spec_hyd p u dw.
Proof. exact hyd_from_si_spec. Qed.
Theorem C17_qual_to_si_is_spec : forall p u m n x, qual_to_si p u m n x = x * spec_qual p u m n.
Proof. exact qual_to_si_spec. Qed.
Theorem C17_qual_from_si_is_spec : forall p u m n x, qual_from_si p u m n x = x / spec_qual p u m n.
Proof. exact qual_from_si_spec. Qed.
(* ... with US units exactly for CFS, GPM, MGD, IMGD, AFD and metric for LPS..CMD *)
Theorem C17_us_vs_metric : forall u, is_traditional u = us u /\ is_metric u = metric u.
Proof. intro u; split; [exact (is_traditional_us u) | exact (is_metric_metric u)]. Qed.
Theorem C17_mass_factors : forall m, mu_factor m = spec_mass m.
Proof. exact mu_factor_spec. Qed.
(* flow literals equal the physical definitions (CFS and AFD are 10-digit roundings) *)
Theorem C17_flow_factors_exact : forall u, u <> CFS -> u <> AFD -> fu_factor u = spec_flow u.
Proof. exact flow_exact. Qed.
Theorem C17_flow_factors_close : forall u, Rabs (fu_factor u - spec_flow u) <= (1 / 100000000) * spec_flow u.
Proof. exact flow_close. Qed.
(* inverses, for every unit system, parameter, mass unit, reaction order and value *)
Theorem C17_hyd_from_to_inverse : forall p u dw x, hyd_from_si p u dw (hyd_to_si p u dw x) = x.
Proof. exact hyd_from_to. Qed.
Theorem C17_hyd_to_from_inverse : forall p u dw x, hyd_to_si p u dw (hyd_from_si p u dw x) = x.
Proof. exact hyd_to_from. Qed.
Theorem C17_qual_from_to_inverse : forall p u m n x, qual_from_si p u m n (qual_to_si p u m n x) = x.
Proof. exact qual_from_to. Qed.
Theorem C17_qual_to_from_inverse : forall p u m n x, qual_to_si p u m n (qual_from_si p u m n x) = x.
Proof. exact qual_to_from. Qed.
(* linearity *)
Theorem C17_hyd_linear : forall p u dw a x y,
  hyd_to_si p u dw (a * x + y) = a * hyd_to_si p u dw x + hyd_to_si p u dw y /\
  hyd_from_si p u dw (a * x + y) = a * hyd_from_si p u dw x + hyd_from_si p u dw y.
Proof. exact hyd_linear. Qed.
Theorem C17_qual_linear : forall p u m n a x y,
  qual_to_si p u m n (a * x + y) = a * qual_to_si p u m n x + qual_to_si p u m n y /\
  qual_from_si p u m n (a * x + y) = a * qual_from_si p u m n x + qual_from_si p u m n y.
Proof. exact qual_linear. Qed.
Print Assumptions C17_hyd_to_si_is_spec.
Print Assumptions C17_hyd_from_si_is_spec.
Print Assumptions C17_qual_to_si_is_spec.
Print Assumptions C17_qual_from_si_is_spec.
Print Assumptions C17_us_vs_metric.
Print Assumptions C17_mass_factors.
Print Assumptions C17_flow_factors_exact.
Print Assumptions C17_flow_factors_close.
Print Assumptions C17_hyd_from_to_inverse.
Print Assumptions C17_hyd_to_from_inverse.
Print Assumptions C17_qual_from_to_inverse.
Print Assumptions C17_qual_to_from_inverse.
Print Assumptions C17_hyd_linear.
Print Assumptions C17_qual_linear.
