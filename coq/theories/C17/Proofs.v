From Coq Require Import Reals List Bool ZArith Lra Lia.
From WNTRV Require Import Gen.Units C17.Model.
Import ListNotations.
Local Open Scope R_scope.

Lemma sqrt_ratio_pos : 0 < sqrt (psi_per_ft / ft).
Proof. apply sqrt_lt_R0. unfold psi_per_ft, ft. lra. Qed.

Lemma code_sqrt_eq : sqrt (4333 / 10000 / (381 / 1250)) = sqrt (psi_per_ft / ft).
Proof. f_equal. unfold psi_per_ft, ft. field. Qed.

Ltac side :=
  repeat split; try lra;
  try (apply Rgt_not_eq; apply sqrt_lt_R0; lra);
  try (apply Rgt_not_eq; apply sqrt_ratio_pos).

Ltac unfold_code :=
  cbv beta iota zeta delta
    [hyd_to_si hyd_from_si qual_to_si qual_from_si existsb orb andb
     hyd_param_beq qual_param_beq flow_units_beq is_traditional is_metric
     fu_factor mu_factor spec_hyd spec_qual spec_mass us metric
     ft inch gal impgal acre_ft psi psi_per_ft hp ft2 code_ft2 internal_flow_units_dec_bl].

(* the generated membership tests agree with the independent specification *)
Lemma is_traditional_us u : is_traditional u = us u.
Proof. destruct u; reflexivity. Qed.
Lemma is_metric_metric u : is_metric u = metric u.
Proof. destruct u; reflexivity. Qed.
Lemma si_neither : is_traditional SI = false /\ is_metric SI = false.
Proof. split; reflexivity. Qed.
Lemma mu_factor_spec m : mu_factor m = spec_mass m.
Proof. destruct m; unfold mu_factor, spec_mass; lra. Qed.

Lemma fu_factor_pos u : 0 < fu_factor u.
Proof. destruct u; unfold fu_factor; lra. Qed.

Lemma spec_hyd_pos p u dw : 0 < spec_hyd p u dw.
Proof.
  pose proof sqrt_ratio_pos as Hs. pose proof (fu_factor_pos u) as Hf.
  destruct p, u, dw; unfold spec_hyd, us, metric; unfold fu_factor in *; unfold inch, psi, psi_per_ft, hp, ft in *;
    try lra; try (apply Rmult_lt_0_compat; lra).
Qed.

Lemma hyd_to_si_spec p u dw x : hyd_to_si p u dw x = x * spec_hyd p u dw.
Proof.
  destruct p, u, dw; unfold_code; rewrite ?code_sqrt_eq; unfold psi_per_ft, ft; try field; side.
Qed.

Lemma hyd_from_si_spec p u dw x : hyd_from_si p u dw x = x / spec_hyd p u dw.
Proof.
  destruct p, u, dw; unfold_code; rewrite ?code_sqrt_eq; unfold psi_per_ft, ft; try field; side.
Qed.

Lemma spec_mass_pos m : 0 < spec_mass m.
Proof. destruct m; unfold spec_mass; lra. Qed.

Lemma Zeqb_cases (n : Z) :
  ((n =? 0)%Z = true /\ (n =? 1)%Z = false) \/ ((n =? 0)%Z = false /\ (n =? 1)%Z = true) \/
  ((n =? 0)%Z = false /\ (n =? 1)%Z = false).
Proof. destruct (Z.eqb_spec n 0), (Z.eqb_spec n 1); auto; lia. Qed.

Lemma spec_qual_pos p u m n : 0 < spec_qual p u m n.
Proof.
  pose proof (spec_mass_pos m) as Hm.
  destruct (Zeqb_cases n) as [[H0 H1]|[[H0 H1]|[H0 H1]]];
  destruct p; unfold spec_qual; rewrite ?H0, ?H1; destruct (us u); unfold code_ft2, ft; try lra;
  try (apply Rdiv_lt_0_compat; try lra; apply Rdiv_lt_0_compat; lra);
  try (apply Rdiv_lt_0_compat; try lra; apply Rmult_lt_0_compat; lra).
Qed.

Lemma qual_to_si_spec p u m n x : qual_to_si p u m n x = x * spec_qual p u m n.
Proof.
  unfold qual_to_si, spec_qual. rewrite ?is_traditional_us, ?mu_factor_spec.
  destruct (Zeqb_cases n) as [[H0 H1]|[[H0 H1]|[H0 H1]]]; rewrite ?H0, ?H1;
  destruct (us u); destruct p;
    cbv beta iota zeta delta [existsb orb andb qual_param_beq code_ft2 ft]; try field;
    try (apply Rgt_not_eq, spec_mass_pos).
Qed.

Lemma qual_from_si_spec p u m n x : qual_from_si p u m n x = x / spec_qual p u m n.
Proof.
  unfold qual_from_si, spec_qual. rewrite ?is_traditional_us, ?mu_factor_spec.
  pose proof (spec_mass_pos m) as Hm.
  destruct (Zeqb_cases n) as [[H0 H1]|[[H0 H1]|[H0 H1]]]; rewrite ?H0, ?H1;
  destruct (us u); destruct p;
    cbv beta iota zeta delta [existsb orb andb qual_param_beq code_ft2 ft]; try field;
    repeat split; try lra.
Qed.

(* inverses *)
Lemma hyd_from_to p u dw x : hyd_from_si p u dw (hyd_to_si p u dw x) = x.
Proof. rewrite hyd_to_si_spec, hyd_from_si_spec. field. apply Rgt_not_eq, spec_hyd_pos. Qed.
Lemma hyd_to_from p u dw x : hyd_to_si p u dw (hyd_from_si p u dw x) = x.
Proof. rewrite hyd_to_si_spec, hyd_from_si_spec. field. apply Rgt_not_eq, spec_hyd_pos. Qed.
Lemma qual_from_to p u m n x : qual_from_si p u m n (qual_to_si p u m n x) = x.
Proof. rewrite qual_to_si_spec, qual_from_si_spec. field. apply Rgt_not_eq, spec_qual_pos. Qed.
Lemma qual_to_from p u m n x : qual_to_si p u m n (qual_from_si p u m n x) = x.
Proof. rewrite qual_to_si_spec, qual_from_si_spec. field. apply Rgt_not_eq, spec_qual_pos. Qed.

(* linearity *)
Lemma hyd_linear p u dw a x y :
  hyd_to_si p u dw (a * x + y) = a * hyd_to_si p u dw x + hyd_to_si p u dw y /\
  hyd_from_si p u dw (a * x + y) = a * hyd_from_si p u dw x + hyd_from_si p u dw y.
Proof.
  rewrite !hyd_to_si_spec, !hyd_from_si_spec. split; [ring|field; apply Rgt_not_eq, spec_hyd_pos].
Qed.
Lemma qual_linear p u m n a x y :
  qual_to_si p u m n (a * x + y) = a * qual_to_si p u m n x + qual_to_si p u m n y /\
  qual_from_si p u m n (a * x + y) = a * qual_from_si p u m n x + qual_from_si p u m n y.
Proof.
  rewrite !qual_to_si_spec, !qual_from_si_spec. split; [ring|field; apply Rgt_not_eq, spec_qual_pos].
Qed.

(* flow literals vs physical definitions *)
Lemma flow_exact u : u <> CFS -> u <> AFD -> fu_factor u = spec_flow u.
Proof.
  destruct u; intros H1 H2; try congruence; unfold fu_factor, spec_flow, gal, impgal; field.
Qed.
Lemma flow_close u : Rabs (fu_factor u - spec_flow u) <= (1 / 100000000) * spec_flow u.
Proof.
  destruct u; unfold fu_factor, spec_flow, gal, impgal, acre_ft, ft;
    apply Rabs_le; split; lra.
Qed.
Lemma code_ft2_close : Rabs (code_ft2 - ft2) <= (1 / 1000000) * ft2.
Proof. unfold code_ft2, ft2, ft. apply Rabs_le; split; lra. Qed.

(* containers *)
Lemma conv_container_shape {K} f (c : container K) :
  match c, conv_container f c with
  | CScalar x, CScalar y => y = f x
  | CList l, CList l' => l' = map f l
  | CArray l, CArray l' => l' = map f l
  | CDict kv, CDict kv' => map fst kv' = map fst kv /\ map snd kv' = map f (map snd kv)
  | _, _ => False
  end.
Proof.
  destruct c; simpl; auto. split; rewrite !map_map; reflexivity.
Qed.
