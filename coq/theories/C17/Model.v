(* C17: hand-written *specification* of EPANET's unit system, independent of the
   generated code (Gen/Units.v): physical constants and the table
   (parameter, unit system) -> SI factor.  The theorems of Proofs.v say that the
   translated code equals multiplication / division by these factors. *)
From Coq Require Import Reals List Bool ZArith Lra.
From WNTRV Require Import Gen.Units.
Import ListNotations.
Local Open Scope R_scope.

(* physical definitions named in the property *)
Definition ft   : R := 3048 / 10000.            (* 1 ft  = 0.3048 m *)
Definition inch : R := 254 / 10000.             (* 1 in  = 0.0254 m *)
Definition gal  : R := 3785411784 / 1000000000000.   (* 1 gal = 3.785411784 L *)
Definition impgal : R := 454609 / 100000000.    (* 1 Imp. gal = 4.54609 L *)
Definition acre_ft : R := 43560 * ft ^ 3.       (* 1 acre = 43560 ft2 *)
Definition psi_per_ft : R := 4333 / 10000.      (* EPANET: 0.4333 psi per ft of water *)
Definition psi  : R := ft / psi_per_ft.         (* 1 psi = 0.3048/0.4333 m of water *)
Definition hp   : R := 745699872 / 1000000.     (* 1 hp  = 745.699872 W *)
Definition ft2  : R := ft * ft.

(* which systems are US customary: stated independently of the code *)
Definition us (u : flow_units) : bool :=
  match u with CFS | GPM | MGD | IMGD | AFD => true | _ => false end.
Definition metric (u : flow_units) : bool :=
  match u with LPS | LPM | MLD | CMH | CMD => true | _ => false end.

(* physical flow factors *)
Definition spec_flow (u : flow_units) : R :=
  match u with
  | CFS => ft ^ 3
  | GPM => gal / 60
  | MGD => 1000000 * gal / 86400
  | IMGD => 1000000 * impgal / 86400
  | AFD => acre_ft / 86400
  | LPS => 1 / 1000
  | LPM => 1 / 1000 / 60
  | MLD => 1000 / 86400
  | CMH => 1 / 3600
  | CMD => 1 / 86400
  | SI => 1
  end.

(* SI factor of every hydraulic parameter, given the *code's* flow factor f u
   (so exactness of the flow literals is a separate statement) *)
Definition spec_hyd (p : hyd_param) (u : flow_units) (dw : bool) : R :=
  match p with
  | Demand | Flow => fu_factor u
  | EmitterCoeff => if us u then fu_factor u * sqrt (psi_per_ft / ft) else fu_factor u
  | PipeDiameter => if us u then inch else if metric u then 1 / 1000 else 1
  | RoughnessCoeff => if dw then (if us u then ft / 1000 else if metric u then 1 / 1000 else 1) else 1
  | TankDiameter | Elevation | HydraulicHead | Length | Velocity => if us u then ft else 1
  | HeadLoss => 1 / 1000
  | Energy => 3600000
  | Power => if us u then hp else if metric u then 1000 else 1
  | Pressure => if us u then psi else 1
  | Volume => if us u then ft ^ 3 else 1
  end.

Definition spec_mass (m : mass_units) : R :=
  match m with mg => 1 / 1000000 | ug => 1 / 1000000000 | g => 1 / 1000 | kg => 1 end.

(* EPANET quality units: mass/L, 1/day, mass/min, mass/ft2/day or mass/m2/day, ft/day or m/day, hours *)
Definition code_ft2 : R := 92903 / 1000000.    (* the literal the code uses for ft2 *)
Definition spec_qual (p : qual_param) (u : flow_units) (m : mass_units) (order : Z) : R :=
  match p with
  | Concentration | Quality | LinkQuality => spec_mass m / (1 / 1000)
  | ReactionRate => spec_mass m / (1 / 1000) / 86400
  | SourceMassInject => spec_mass m / 60
  | BulkReactionCoeff => if (order =? 1)%Z then 1 / 86400 else 1
  | WallReactionCoeff =>
      if (order =? 0)%Z then (if us u then spec_mass m * code_ft2 / 86400 else spec_mass m / 86400)
      else if (order =? 1)%Z then (if us u then ft / 86400 else 1 / 86400) else 1
  | WaterAge => 3600
  end.

(* container wrapper of to_si / from_si: the documented behaviour *)
Inductive container (K : Type) :=
  | CScalar (x : R) | CList (l : list R) | CArray (l : list R) | CDict (kv : list (K * R)).
Arguments CScalar {K}. Arguments CList {K}. Arguments CArray {K}. Arguments CDict {K}.
Definition conv_container {K} (f : R -> R) (c : container K) : container K :=
  match c with
  | CScalar x => CScalar (f x)
  | CList l => CList (map f l)
  | CArray l => CArray (map f l)
  | CDict kv => CDict (map (fun p => (fst p, f (snd p))) kv)
  end.
