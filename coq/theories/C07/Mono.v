(* C07 -- the pressure-demand curve is non-decreasing EVERYWHERE, the two smoothing bands included, whenever the end slopes of the two
   cubics lie in the Fritsch-Carlson box (between 0 and three times the secant slope of the band). *)
From Coq Require Import Reals Lra.
From WNTRV Require Import Lib.ExprR Gen.Formulas Lib.Spline Lib.SplineMono C07.Model C07.Proofs.
Local Open Scope R_scope.

Section Mono.
Variables pmin pnom pexp : R.
Hypothesis Hexp : 0 < pexp.
Hypothesis Hw : 2 * delta <= pnom - pmin.

Definition f21 := pw ((pmin + delta - pmin) / (pnom - pmin)) pexp.                                  (* value at the right end of band 1 *)
Definition m1 := pexp * pw ((pmin + delta - pmin) / (pnom - pmin)) (pexp - 1) * 1 / (pnom - pmin).   (* slope there *)
Definition f12 := pw ((pnom - delta - pmin) / (pnom - pmin)) pexp.                                  (* value at the left end of band 2 *)
Definition m2 := pexp * pw ((pnom - delta - pmin) / (pnom - pmin)) (pexp - 1) * 1 / (pnom - pmin).
Definition sec1 := (f21 - 0) / (pmin + delta - pmin).
Definition sec2 := (1 - f12) / (pnom - (pnom - delta)).
(* the Fritsch-Carlson box for both bands *)
Definition fc_box : Prop := slope <= 3 * sec1 /\ 0 <= m1 <= 3 * sec1 /\ 0 <= m2 <= 3 * sec2 /\ slope <= 3 * sec2.

Let f := pdd_frac pmin pnom pexp.

Lemma f_band1 x : pmin <= x <= pmin + delta -> f x = poly (band1 pmin pnom pexp) x.
Proof.
  intros [H1 H2]. pose proof delta_pos as Hd. destruct (Req_dec x pmin) as [->|N].
  - destruct (pdd_zero_below pmin pnom pexp pmin ltac:(lra)) as [E _]. unfold f. rewrite E.
    destruct (pdd_C0_knots pmin pnom pexp) as (A & _). rewrite A. reflexivity.
  - unfold f, pdd_frac. rewrite pdd_coeffs_bands. destruct (Rle_dec (x - pmin) 0); [lra|]. destruct (Rle_dec (x - pmin - delta) 0); [reflexivity|lra].
Qed.
Lemma f_band2 x : pnom - delta <= x <= pnom -> f x = poly (band2 pmin pnom pexp) x.
Proof.
  intros [H1 H2]. pose proof delta_pos as Hd. destruct (Req_dec x (pnom - delta)) as [->|N].
  - destruct (pdd_C0_knots pmin pnom pexp) as (_ & A2 & A3 & _). rewrite A3.
    destruct (Req_dec (pnom - delta) (pmin + delta)) as [E|NE].
    + unfold f. rewrite E. fold f. rewrite (f_band1 (pmin + delta)) by lra. rewrite A2. rewrite <- E. reflexivity.
    + unfold f. apply pdd_power_mid; lra.
  - unfold f, pdd_frac. rewrite pdd_coeffs_bands. destruct (Rle_dec (x - pmin) 0); [lra|]. destruct (Rle_dec (x - pmin - delta) 0); [lra|].
    destruct (Rle_dec (x - pnom + delta) 0); [lra|]. destruct (Rle_dec (x - pnom) 0); [reflexivity|lra].
Qed.
Lemma f_mid x : pmin + delta <= x <= pnom - delta -> f x = pw ((x - pmin) / (pnom - pmin)) pexp.
Proof.
  intros [H1 H2]. destruct (Req_dec x (pmin + delta)) as [->|N].
  - rewrite (f_band1 (pmin + delta)) by (pose proof delta_pos; lra). destruct (pdd_C0_knots pmin pnom pexp) as (_ & A2 & _). exact A2.
  - unfold f. apply pdd_power_mid; lra.
Qed.
Lemma f_above x : pnom <= x -> f x = 1 + slope * (x - pnom).
Proof.
  intros H. destruct (Req_dec x pnom) as [->|N].
  - rewrite (f_band2 pnom) by (pose proof delta_pos; lra). destruct (pdd_C0_knots pmin pnom pexp) as (_ & _ & _ & A4). rewrite A4. ring.
  - unfold f. apply pdd_full_above; [exact Hw|lra].
Qed.

Lemma glue (k kk : R) : (forall p q, p <= q -> q <= k -> f p <= f q) -> (forall p q, k <= p -> p <= q -> q <= kk -> f p <= f q) -> k <= kk ->
  forall p q, p <= q -> q <= kk -> f p <= f q.
Proof.
  intros HL HR Hk p q Hpq Hq. destruct (Rle_dec q k) as [H|H]; [apply HL; assumption|].
  destruct (Rle_dec k p) as [H'|H']; [apply HR; assumption|].
  apply Rle_trans with (f k); [apply HL; lra|apply HR; lra].
Qed.

Theorem pdd_monotone : fc_box -> forall p q, p <= q -> f p <= f q.
Proof.
  intros (B1 & B2 & B3 & B4) p q Hpq. pose proof delta_pos as Hd. pose proof slope_small as Hs.
  assert (L0 : forall p q, p <= q -> q <= pmin -> f p <= f q).
  { intros a b Hab Hb. unfold f. destruct (pdd_zero_below pmin pnom pexp a ltac:(lra)) as [-> _].
    destruct (pdd_zero_below pmin pnom pexp b Hb) as [-> _]. apply Rmult_le_compat_l; lra. }
  assert (L1 : forall p q, pmin <= p -> p <= q -> q <= pmin + delta -> f p <= f q).
  { intros a b Ha Hab Hb. rewrite (f_band1 a), (f_band1 b) by lra. unfold band1.
    apply spline_monotone; try lra; fold f21; fold m1; fold sec1; lra. }
  assert (L2 : forall p q, pmin + delta <= p -> p <= q -> q <= pnom - delta -> f p <= f q).
  { intros a b Ha Hab Hb. rewrite (f_mid a), (f_mid b) by lra.
    assert (P1 : 0 < (a - pmin) / (pnom - pmin)) by (apply Rdiv_lt_0_compat; lra).
    assert (P2 : 0 < (b - pmin) / (pnom - pmin)) by (apply Rdiv_lt_0_compat; lra).
    unfold pw. destruct (Rlt_dec 0 ((a - pmin) / (pnom - pmin))); [|lra]. destruct (Rlt_dec 0 ((b - pmin) / (pnom - pmin))); [|lra].
    destruct (Req_dec a b) as [->|Hne]; [lra|]. left. apply Rlt_Rpower_l; [exact Hexp|].
    split; [exact P1|]. unfold Rdiv. apply Rmult_lt_compat_r; [apply Rinv_0_lt_compat; lra|lra]. }
  assert (L3 : forall p q, pnom - delta <= p -> p <= q -> q <= pnom -> f p <= f q).
  { intros a b Ha Hab Hb. rewrite (f_band2 a), (f_band2 b) by lra. unfold band2.
    apply spline_monotone; try lra; fold f12; fold m2; fold sec2; lra. }
  assert (L4 : forall p q, pnom <= p -> p <= q -> f p <= f q).
  { intros a b Ha Hab. rewrite (f_above a), (f_above b) by lra. apply Rplus_le_compat_l. apply Rmult_le_compat_l; lra. }
  pose proof (glue pmin (pmin + delta) L0 L1 ltac:(lra)) as M1.
  pose proof (glue (pmin + delta) (pnom - delta) M1 L2 ltac:(lra)) as M2.
  pose proof (glue (pnom - delta) pnom M2 L3 ltac:(lra)) as M3.
  destruct (Rle_dec q pnom) as [H|H]; [apply M3; assumption|].
  destruct (Rle_dec pnom p) as [H'|H']; [apply L4; assumption|].
  apply Rle_trans with (f pnom); [apply M3; lra|apply L4; lra].
Qed.
End Mono.
