(* C07 -- property theorems only. *)
From Coq Require Import Reals.
From Coquelicot Require Import Coquelicot.
From Interval Require Import Tactic.
From WNTRV Require Import Lib.ExprR Gen.Formulas Lib.Spline Lib.SplineMono C07.Model C07.Proofs C07.Mono.
Local Open Scope R_scope.

Theorem C07_pdd_zero_below : forall pmin pnom pexp p,
  p <= pmin -> pdd_frac pmin pnom pexp p = slope * (p - pmin) /\ Rabs (pdd_frac pmin pnom pexp p) <= 1 / 100000000000 * Rabs (p - pmin).
Proof. exact pdd_zero_below. Qed.
Theorem C07_pdd_full_above : forall pmin pnom pexp p,
  2 * delta <= pnom - pmin -> pnom < p -> pdd_frac pmin pnom pexp p = 1 + slope * (p - pnom).
Proof. exact pdd_full_above. Qed.
Theorem C07_pdd_power_mid : forall pmin pnom pexp p,
  pmin + delta < p -> p <= pnom - delta -> pdd_frac pmin pnom pexp p = pw ((p - pmin) / (pnom - pmin)) pexp.
Proof. exact pdd_power_mid. Qed.
(* continuous with continuous slope across the four knots, for every exponent (after the fix of the hard-coded 0.5) *)
Theorem C07_pdd_C0_knots : forall pmin pnom pexp,
  poly (band1 pmin pnom pexp) pmin = slope * (pmin - pmin) /\
  poly (band1 pmin pnom pexp) (pmin + delta) = pw ((pmin + delta - pmin) / (pnom - pmin)) pexp /\
  poly (band2 pmin pnom pexp) (pnom - delta) = pw ((pnom - delta - pmin) / (pnom - pmin)) pexp /\
  poly (band2 pmin pnom pexp) pnom = slope * (pnom - pnom) + 1.
Proof. exact pdd_C0_knots. Qed.
Theorem C07_pdd_C1_knots : forall pmin pnom pexp,
  dpoly (band1 pmin pnom pexp) pmin = slope /\
  dpoly (band1 pmin pnom pexp) (pmin + delta) = pexp * pw ((pmin + delta - pmin) / (pnom - pmin)) (pexp - 1) * 1 / (pnom - pmin) /\
  dpoly (band2 pmin pnom pexp) (pnom - delta) = pexp * pw ((pnom - delta - pmin) / (pnom - pmin)) (pexp - 1) * 1 / (pnom - pmin) /\
  dpoly (band2 pmin pnom pexp) pnom = slope.
Proof. exact pdd_C1_knots. Qed.
Theorem C07_power_branch_derivative : forall pmin pnom pexp p,
  pmin < pnom -> pmin < p ->
  is_derive (fun x => pw ((x - pmin) / (pnom - pmin)) pexp) p (pexp * pw ((p - pmin) / (pnom - pmin)) (pexp - 1) * 1 / (pnom - pmin)).
Proof. exact power_branch_derivative. Qed.
(* non-decreasing outside the two 5 cm smoothing bands; inside them monotonicity is NOT proved (checked per case by the tie) *)
Theorem C07_pdd_monotone_partial : forall pmin pnom pexp p q,
  0 < pexp -> 2 * delta <= pnom - pmin -> p <= q ->
  (q <= pmin \/ (pmin + delta < p /\ q <= pnom - delta) \/ pnom < p) ->
  pdd_frac pmin pnom pexp p <= pdd_frac pmin pnom pexp q.
Proof. exact pdd_monotone_outside_bands_partial. Qed.
(* ... and non-decreasing EVERYWHERE, the smoothing bands included, for every parameter set whose two cubics lie in the Fritsch-Carlson box
   (end slopes between 0 and three times the secant slope of the band); the harness lets coqc prove `fc_box` for every generated parameter
   set.  The general fact behind it: the interpolating cubic of cubic_spline is monotone under that condition (no calculus: Hermite form of
   the derivative + exactness of Simpson's rule for cubics). *)
Theorem C07_spline_monotone : forall x1 x2 f1 f2 df1 df2 x y, x1 < x2 ->
  0 <= df1 <= 3 * ((f2 - f1) / (x2 - x1)) -> 0 <= df2 <= 3 * ((f2 - f1) / (x2 - x1)) -> x1 <= x -> x <= y -> y <= x2 ->
  poly (cubic_spline x1 x2 f1 f2 df1 df2) x <= poly (cubic_spline x1 x2 f1 f2 df1 df2) y.
Proof. exact spline_monotone. Qed.
Theorem C07_pdd_monotone : forall pmin pnom pexp, 0 < pexp -> 2 * delta <= pnom - pmin -> fc_box pmin pnom pexp ->
  forall p q, p <= q -> pdd_frac pmin pnom pexp p <= pdd_frac pmin pnom pexp q.
Proof. exact pdd_monotone. Qed.
(* the premise holds for ordinary parameter sets: Pmin 0, Preq 20 m, exponent 0.5; Pmin 3, Preq 25, exponent 1 *)
Example C07_fc_box_typical : fc_box 0 20 (1 / 2) /\ fc_box 3 25 1.
Proof.
  split; unfold fc_box, sec1, sec2, m1, m2, f21, f12, slope, delta, c_pdd_slope, c_pdd_smoothing_delta;
  repeat match goal with |- context[pw ?a ?b] => rewrite (pw_pos' a b) by interval end; repeat split; interval.
Qed.
(* overlapping bands (Preq - Pmin < 0.1 m, which includes the default options): the curve jumps by > 0.01 (known finding) *)
Theorem C07_pdd_continuous_refuted_narrow :
  let pmin := 0 in let pnom := 7 / 100 in let pexp := 1 / 2 in let p := pmin + delta in
  pmin < pnom /\ pnom - pmin < 2 * delta /\
  pdd_frac pmin pnom pexp p = poly (band1 pmin pnom pexp) p /\
  (forall q, p < q -> q <= pnom -> pdd_frac pmin pnom pexp q = poly (band2 pmin pnom pexp) q) /\
  poly (band2 pmin pnom pexp) p - poly (band1 pmin pnom pexp) p > 1 / 100.
Proof. exact pdd_continuous_refuted_narrow. Qed.
Print Assumptions C07_pdd_zero_below.
Print Assumptions C07_pdd_C0_knots.
Print Assumptions C07_power_branch_derivative.
Print Assumptions C07_pdd_monotone_partial.
Print Assumptions C07_spline_monotone.
Print Assumptions C07_pdd_monotone.
Print Assumptions C07_pdd_continuous_refuted_narrow.
