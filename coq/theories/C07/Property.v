(* C07 -- property theorems only. *)
From Coq Require Import Reals.
From Coquelicot Require Import Coquelicot.
From WNTRV Require Import Lib.ExprR Gen.Formulas Lib.Spline C07.Model C07.Proofs.
Local Open Scope R_scope.

Theorem C07_pdd_zero_below : forall pmin pnom pexp p,
  p <= pmin -> pdd_frac pmin pnom pexp p = slope * (p - pmin) /\ Rabs (pdd_frac pmin pnom pexp p) <= 1 / 100000000000 * Rabs (p - pmin).
Proof. exact pdd_zero_below. Qed.
Theorem C07_pdd_full_above : forall pmin pnom pexp p,
  2 * delta <= pnom - pmin -> pnom < p -> pdd_frac pmin pnom pexp p = 1 + slope * (p - pnom).
Proof. exact pdd_full_above. Qed.
Theorem C07_pdd_power_mid : forall pmin pnom pexp p,
  pmin + delta < p -> p <= pnom - delta -> pdd_frac pmin pnom pexp p = pw ((p - pmin) / (pnom - pmin)) pexp.
Proof. exact pdd_power_mid. Qed.
(* continuous with continuous slope across the four knots, for every exponent (after the fix of the hard-coded 0.5) *)
Theorem C07_pdd_C0_knots : forall pmin pnom pexp,
  poly (band1 pmin pnom pexp) pmin = slope * (pmin - pmin) /\
  poly (band1 pmin pnom pexp) (pmin + delta) = pw ((pmin + delta - pmin) / (pnom - pmin)) pexp /\
  poly (band2 pmin pnom pexp) (pnom - delta) = pw ((pnom - delta - pmin) / (pnom - pmin)) pexp /\
  poly (band2 pmin pnom pexp) pnom = slope * (pnom - pnom) + 1.
Proof. exact pdd_C0_knots. Qed.
Theorem C07_pdd_C1_knots : forall pmin pnom pexp,
  dpoly (band1 pmin pnom pexp) pmin = slope /\
  dpoly (band1 pmin pnom pexp) (pmin + delta) = pexp * pw ((pmin + delta - pmin) / (pnom - pmin)) (pexp - 1) * 1 / (pnom - pmin) /\
  dpoly (band2 pmin pnom pexp) (pnom - delta) = pexp * pw ((pnom - delta - pmin) / (pnom - pmin)) (pexp - 1) * 1 / (pnom - pmin) /\
  dpoly (band2 pmin pnom pexp) pnom = slope.
Proof. exact pdd_C1_knots. Qed.
Theorem C07_power_branch_derivative : forall pmin pnom pexp p,
  pmin < pnom -> pmin < p ->
  is_derive (fun x => pw ((x - pmin) / (pnom - pmin)) pexp) p (pexp * pw ((p - pmin) / (pnom - pmin)) (pexp - 1) * 1 / (pnom - pmin)).
Proof. exact power_branch_derivative. Qed.
(* non-decreasing outside the two 5 cm smoothing bands; inside them monotonicity is NOT proved (checked per case by the tie) *)
Theorem C07_pdd_monotone_partial : forall pmin pnom pexp p q,
  0 < pexp -> 2 * delta <= pnom - pmin -> p <= q ->
  (q <= pmin \/ (pmin + delta < p /\ q <= pnom - delta) \/ pnom < p) ->
  pdd_frac pmin pnom pexp p <= pdd_frac pmin pnom pexp q.
Proof. exact pdd_monotone_outside_bands_partial. Qed.
(* overlapping bands (Preq - Pmin < 0.1 m, which includes the default options): the curve jumps by > 0.01 (known finding) *)
Theorem C07_pdd_continuous_refuted_narrow :
  let pmin := 0 in let pnom := 7 / 100 in let pexp := 1 / 2 in let p := pmin + delta in
  pmin < pnom /\ pnom - pmin < 2 * delta /\
  pdd_frac pmin pnom pexp p = poly (band1 pmin pnom pexp) p /\
  (forall q, p < q -> q <= pnom -> pdd_frac pmin pnom pexp q = poly (band2 pmin pnom pexp) q) /\
  poly (band2 pmin pnom pexp) p - poly (band1 pmin pnom pexp) p > 1 / 100.
Proof. exact pdd_continuous_refuted_narrow. Qed.
Print Assumptions C07_pdd_zero_below.
Print Assumptions C07_pdd_C0_knots.
Print Assumptions C07_power_branch_derivative.
Print Assumptions C07_pdd_monotone_partial.
Print Assumptions C07_pdd_continuous_refuted_narrow.
