(* C07 -- the pressure-demand curve of pdd_constraint (five branches in the code's order) with the smoothing
   coefficients of pdd_poly_coeffs_param (Gen/Formulas.v, regenerated from param.py). *)
From Coq Require Import Reals Lra.
From WNTRV Require Import Lib.ExprR Gen.Formulas Lib.Spline.
Local Open Scope R_scope.

Definition delta := c_pdd_smoothing_delta.
Definition slope := c_pdd_slope.

(* delivered fraction of the requested demand at gauge pressure p *)
Definition pdd_frac (pmin pnom pexp p : R) : R :=
  let '(k1, k2) := pdd_coeffs pmin pnom pexp in
  if Rle_dec (p - pmin) 0 then slope * (p - pmin)
  else if Rle_dec (p - pmin - delta) 0 then poly k1 p
  else if Rle_dec (p - pnom + delta) 0 then pw ((p - pmin) / (pnom - pmin)) pexp
  else if Rle_dec (p - pnom) 0 then poly k2 p
  else slope * (p - pnom) + 1.

(* residual of the pdd row: d - d_expected * frac(h - elev) *)
Definition pdd_row (pmin pnom pexp elev dexp d h : R) : R := d - dexp * pdd_frac pmin pnom pexp (h - elev).

(* per-junction override of a global option *)
Definition eff (override : option R) (global : R) : R := match override with Some x => x | None => global end.

(* the two smoothing cubics, named *)
Definition band1 (pmin pnom pexp : R) : R * R * R * R :=
  cubic_spline pmin (pmin + delta) 0 (pw ((pmin + delta - pmin) / (pnom - pmin)) pexp) slope
    (pexp * pw ((pmin + delta - pmin) / (pnom - pmin)) (pexp - 1) * 1 / (pnom - pmin)).
Definition band2 (pmin pnom pexp : R) : R * R * R * R :=
  cubic_spline (pnom - delta) pnom (pw ((pnom - delta - pmin) / (pnom - pmin)) pexp) 1
    (pexp * pw ((pnom - delta - pmin) / (pnom - pmin)) (pexp - 1) * 1 / (pnom - pmin)) slope.
