From Coq Require Import Reals Lra.
From Coquelicot Require Import Coquelicot.
From Interval Require Import Tactic.
From WNTRV Require Import Lib.Expr Lib.ExprR Lib.ExprRProofs Gen.Formulas Lib.Spline C07.Model.
Local Open Scope R_scope.

Lemma pdd_coeffs_bands pmin pnom pexp : pdd_coeffs pmin pnom pexp = (band1 pmin pnom pexp, band2 pmin pnom pexp).
Proof.
  unfold pdd_coeffs, band1, band2, delta, slope. cbv zeta.
  destruct (cubic_spline pmin (pmin + c_pdd_smoothing_delta) 0 _ _ _) as [[[a1 b1] c1] d1].
  destruct (cubic_spline (pnom - c_pdd_smoothing_delta) pnom _ 1 _ _) as [[[a2 b2] c2] d2].
  reflexivity.
Qed.

Lemma delta_pos : 0 < delta. Proof. unfold delta, c_pdd_smoothing_delta. lra. Qed.
Lemma slope_small : 0 < slope <= 1 / 100000000000. Proof. unfold slope, c_pdd_slope. lra. Qed.

(* zero (up to the 1e-11 regularising slope) at or below the minimum pressure *)
Lemma pdd_zero_below pmin pnom pexp p :
  p <= pmin -> pdd_frac pmin pnom pexp p = slope * (p - pmin) /\ Rabs (pdd_frac pmin pnom pexp p) <= 1 / 100000000000 * Rabs (p - pmin).
Proof.
  intro H. unfold pdd_frac. rewrite pdd_coeffs_bands. destruct (Rle_dec (p - pmin) 0) as [_|Hn]; [|lra].
  split; [reflexivity|]. rewrite Rabs_mult. pose proof slope_small as Hs. rewrite (Rabs_right slope) by lra.
  apply Rmult_le_compat_r; [apply Rabs_pos|lra].
Qed.

(* the full requested demand (plus the regularising slope) above the required pressure;
   the statement needs the bands to be disjoint: pnom - pmin >= 2 delta (see the _refuted theorem for the other case) *)
Lemma pdd_full_above pmin pnom pexp p :
  2 * delta <= pnom - pmin -> pnom < p -> pdd_frac pmin pnom pexp p = 1 + slope * (p - pnom).
Proof.
  intros H0 H. unfold pdd_frac. rewrite pdd_coeffs_bands. pose proof delta_pos as Hd.
  destruct (Rle_dec (p - pmin) 0); [lra|]. destruct (Rle_dec (p - pmin - delta) 0); [lra|].
  destruct (Rle_dec (p - pnom + delta) 0); [lra|]. destruct (Rle_dec (p - pnom) 0); [lra|]. ring.
Qed.

(* the power law in between, outside the two smoothing bands *)
Lemma pdd_power_mid pmin pnom pexp p :
  pmin + delta < p -> p <= pnom - delta -> pdd_frac pmin pnom pexp p = pw ((p - pmin) / (pnom - pmin)) pexp.
Proof.
  intros H1 H2. unfold pdd_frac. rewrite pdd_coeffs_bands. pose proof delta_pos as Hd.
  destruct (Rle_dec (p - pmin) 0); [lra|]. destruct (Rle_dec (p - pmin - delta) 0); [lra|].
  destruct (Rle_dec (p - pnom + delta) 0); [reflexivity|lra].
Qed.

(* continuity: at each of the four knots the two adjacent branches take the same value (C0) and slope (C1) *)
Lemma pdd_C0_knots pmin pnom pexp :
  poly (band1 pmin pnom pexp) pmin = slope * (pmin - pmin) /\
  poly (band1 pmin pnom pexp) (pmin + delta) = pw ((pmin + delta - pmin) / (pnom - pmin)) pexp /\
  poly (band2 pmin pnom pexp) (pnom - delta) = pw ((pnom - delta - pmin) / (pnom - pmin)) pexp /\
  poly (band2 pmin pnom pexp) pnom = slope * (pnom - pnom) + 1.
Proof.
  pose proof delta_pos as Hd.
  assert (N1 : pmin <> pmin + delta) by lra. assert (N2 : pnom - delta <> pnom) by lra.
  destruct (spline_interpolates pmin (pmin + delta) 0 (pw ((pmin + delta - pmin) / (pnom - pmin)) pexp) slope
     (pexp * pw ((pmin + delta - pmin) / (pnom - pmin)) (pexp - 1) * 1 / (pnom - pmin)) N1) as [A1 [A2 _]].
  destruct (spline_interpolates (pnom - delta) pnom (pw ((pnom - delta - pmin) / (pnom - pmin)) pexp) 1
     (pexp * pw ((pnom - delta - pmin) / (pnom - pmin)) (pexp - 1) * 1 / (pnom - pmin)) slope N2) as [B1 [B2 _]].
  unfold band1, band2. repeat split; try assumption; [rewrite A1; ring|rewrite B2; ring].
Qed.

Lemma pdd_C1_knots pmin pnom pexp :
  dpoly (band1 pmin pnom pexp) pmin = slope /\
  dpoly (band1 pmin pnom pexp) (pmin + delta) = pexp * pw ((pmin + delta - pmin) / (pnom - pmin)) (pexp - 1) * 1 / (pnom - pmin) /\
  dpoly (band2 pmin pnom pexp) (pnom - delta) = pexp * pw ((pnom - delta - pmin) / (pnom - pmin)) (pexp - 1) * 1 / (pnom - pmin) /\
  dpoly (band2 pmin pnom pexp) pnom = slope.
Proof.
  pose proof delta_pos as Hd.
  assert (N1 : pmin <> pmin + delta) by lra. assert (N2 : pnom - delta <> pnom) by lra.
  destruct (spline_interpolates pmin (pmin + delta) 0 (pw ((pmin + delta - pmin) / (pnom - pmin)) pexp) slope
     (pexp * pw ((pmin + delta - pmin) / (pnom - pmin)) (pexp - 1) * 1 / (pnom - pmin)) N1) as [_ [_ [A3 A4]]].
  destruct (spline_interpolates (pnom - delta) pnom (pw ((pnom - delta - pmin) / (pnom - pmin)) pexp) 1
     (pexp * pw ((pnom - delta - pmin) / (pnom - pmin)) (pexp - 1) * 1 / (pnom - pmin)) slope N2) as [_ [_ [B3 B4]]].
  unfold band1, band2. repeat split; assumption.
Qed.

(* the slope the bands are matched to IS the derivative of the power law *)
Lemma power_branch_derivative pmin pnom pexp p :
  pmin < pnom -> pmin < p ->
  is_derive (fun x => pw ((x - pmin) / (pnom - pmin)) pexp) p (pexp * pw ((p - pmin) / (pnom - pmin)) (pexp - 1) * 1 / (pnom - pmin)).
Proof.
  intros H0 H1.
  assert (Hf : is_derive (fun x => (x - pmin) / (pnom - pmin)) p (1 / (pnom - pmin))).
  { auto_derive; [lra|field; lra]. }
  evar_last.
  { apply (is_derive_pw_const (fun x => (x - pmin) / (pnom - pmin)) p (1 / (pnom - pmin)) pexp Hf).
    apply Rdiv_lt_0_compat; lra. }
  field. lra.
Qed.

(* monotone where no smoothing is involved *)
Lemma pdd_monotone_outside_bands_partial pmin pnom pexp p q :
  0 < pexp -> 2 * delta <= pnom - pmin -> p <= q ->
  (q <= pmin \/ (pmin + delta < p /\ q <= pnom - delta) \/ pnom < p) ->
  pdd_frac pmin pnom pexp p <= pdd_frac pmin pnom pexp q.
Proof.
  intros He Hw Hpq Hcase. pose proof delta_pos as Hd. pose proof slope_small as Hs.
  destruct Hcase as [H|[[H1 H2]|H]].
  - destruct (pdd_zero_below pmin pnom pexp p ltac:(lra)) as [-> _].
    destruct (pdd_zero_below pmin pnom pexp q H) as [-> _]. apply Rmult_le_compat_l; lra.
  - rewrite (pdd_power_mid pmin pnom pexp p) by lra. rewrite (pdd_power_mid pmin pnom pexp q) by lra.
    assert (P1 : 0 < (p - pmin) / (pnom - pmin)) by (apply Rdiv_lt_0_compat; lra).
    assert (P2 : 0 < (q - pmin) / (pnom - pmin)) by (apply Rdiv_lt_0_compat; lra).
    unfold pw. destruct (Rlt_dec 0 ((p - pmin) / (pnom - pmin))); [|lra]. destruct (Rlt_dec 0 ((q - pmin) / (pnom - pmin))); [|lra].
    destruct (Req_dec p q) as [->|Hne]; [lra|]. left. apply Rlt_Rpower_l; [exact He|].
    split; [exact P1|]. unfold Rdiv. apply Rmult_lt_compat_r; [apply Rinv_0_lt_compat; lra|lra].
  - rewrite (pdd_full_above pmin pnom pexp p Hw H). rewrite (pdd_full_above pmin pnom pexp q Hw) by lra.
    apply Rplus_le_compat_l. apply Rmult_le_compat_l; lra.
Qed.

(* when the bands overlap (pnom - pmin < 2 delta) -- which includes the DEFAULT options pmin = 0, pnom = 0.07 -- the curve
   jumps at p = pmin + delta from the first cubic to the second one, skipping the power law *)
Lemma pw_pos' a b : 0 < a -> pw a b = Rpower a b.
Proof. intro H. unfold pw. destruct (Rlt_dec 0 a); [reflexivity|lra]. Qed.
Lemma pdd_continuous_refuted_narrow :
  let pmin := 0 in let pnom := 7 / 100 in let pexp := 1 / 2 in let p := pmin + delta in
  pmin < pnom /\ pnom - pmin < 2 * delta /\
  pdd_frac pmin pnom pexp p = poly (band1 pmin pnom pexp) p /\
  (forall q, p < q -> q <= pnom -> pdd_frac pmin pnom pexp q = poly (band2 pmin pnom pexp) q) /\
  poly (band2 pmin pnom pexp) p - poly (band1 pmin pnom pexp) p > 1 / 100.
Proof.
  cbv zeta. unfold delta, c_pdd_smoothing_delta. split; [lra|]. split; [lra|]. split; [|split].
  - unfold pdd_frac. rewrite pdd_coeffs_bands. unfold delta, c_pdd_smoothing_delta.
    destruct (Rle_dec _ 0); [lra|]. destruct (Rle_dec _ 0); [reflexivity|lra].
  - intros q H1 H2. unfold pdd_frac. rewrite pdd_coeffs_bands. unfold delta, c_pdd_smoothing_delta.
    destruct (Rle_dec (q - 0) 0); [lra|]. destruct (Rle_dec (q - 0 - 1 / 20) 0); [lra|].
    destruct (Rle_dec (q - 7 / 100 + 1 / 20) 0); [lra|]. destruct (Rle_dec (q - 7 / 100) 0); [reflexivity|lra].
  - unfold band1, band2, cubic_spline, poly, delta, slope, c_pdd_smoothing_delta, c_pdd_slope. cbv zeta.
    rewrite !pw_pos' by lra. interval with (i_prec 60).
Qed.
