From Coq Require Import QArith Qabs List Bool Arith Lia Permutation Lqa.
From WNTRV Require Import C19.Model.
Import ListNotations.

Section Split.
Local Open Scope Q_scope.
Lemma split_length_conserved L f : fst (split_lengths L f) + snd (split_lengths L f) == L.
Proof. unfold split_lengths; cbn. ring. Qed.
Lemma split_lengths_nonneg L f : 0 <= L -> 0 <= f -> f <= 1 -> 0 <= fst (split_lengths L f) /\ 0 <= snd (split_lengths L f).
Proof. intros HL H0 H1. unfold split_lengths; cbn. split; nra. Qed.
Lemma interp_ends a b : interp a b 0 == a /\ interp a b 1 == b.
Proof. unfold interp. split; ring. Qed.
Lemma interp_between a b f : a <= b -> 0 <= f -> f <= 1 -> a <= interp a b f /\ interp a b f <= b.
Proof. intros. unfold interp. split; nra. Qed.
(* two pipes in series with the split lengths and no minor loss have the head loss of the original, for every flow *)
Lemma split_hydraulics_same c L f g q2 :
  headloss c (fst (split_lengths L f)) 0 g q2 + headloss c (snd (split_lengths L f)) 0 g q2 == headloss c L 0 g q2.
Proof. unfold headloss, split_lengths; cbn. ring. Qed.
(* ... but both halves keep the full minor-loss coefficient: with m > 0 the split pipe loses more head *)
Lemma split_hydraulics_minor_refuted :
  exists c L f m g q2, ~ headloss c (fst (split_lengths L f)) m g q2 + headloss c (snd (split_lengths L f)) m g q2 == headloss c L m g q2.
Proof. exists 1, 100, (1#2), 2, 1, 1. vm_compute. intro H. discriminate H. Qed.
End Split.

(* ---- skeleton bookkeeping: members and demand entries are only moved, never lost or duplicated ---------- *)
Lemma find_r_In k s r : find_r k s = Some r -> In r s /\ r_id r = k.
Proof.
  induction s as [|x t IH]; cbn; [discriminate|]. destruct (Nat.eqb_spec (r_id x) k).
  - intro H. injection H as <-. split; [left; reflexivity|assumption].
  - intro H. destruct (IH H). split; [right; assumption|assumption].
Qed.

Lemma upd_not_in (proj : rnode -> list nat) (mk : rnode -> rnode) k l :
  ~ In k (map r_id l) -> map (fun r => if Nat.eqb (r_id r) k then mk r else r) l = l.
Proof.
  induction l as [|x t IH]; cbn; intro H; [reflexivity|].
  destruct (Nat.eqb_spec (r_id x) k) as [E|E]; [exfalso; apply H; left; exact E|]. f_equal. apply IH. tauto.
Qed.

Lemma upd_perm (proj : rnode -> list nat) (mk : rnode -> rnode) (extra : list nat) k l :
  NoDup (map r_id l) -> In k (map r_id l) -> (forall r, proj (mk r) = proj r ++ extra) ->
  Permutation (flat_map proj (map (fun r => if Nat.eqb (r_id r) k then mk r else r) l)) (flat_map proj l ++ extra).
Proof.
  intros Hnd Hin Hmk. induction l as [|x t IH]; [destruct Hin|].
  cbn [map] in Hnd. inversion Hnd as [|? ? Hx Hnd']; subst. cbn [map flat_map].
  destruct (Nat.eqb_spec (r_id x) k) as [E|E].
  - rewrite (upd_not_in proj mk k t) by (rewrite <- E; exact Hx). rewrite Hmk.
    rewrite <- !app_assoc. apply Permutation_app_head. apply Permutation_app_comm.
  - destruct Hin as [Hin|Hin]; [contradiction|]. rewrite <- app_assoc. apply Permutation_app_head. apply IH; assumption.
Qed.

Lemma filter_perm (proj : rnode -> list nat) j l rj :
  NoDup (map r_id l) -> find_r j l = Some rj ->
  Permutation (flat_map proj (filter (fun r => negb (Nat.eqb (r_id r) j)) l) ++ proj rj) (flat_map proj l).
Proof.
  intros Hnd Hf. induction l as [|x t IH]; [discriminate|].
  cbn [map] in Hnd. inversion Hnd as [|? ? Hx Hnd']; subst. cbn [find_r] in Hf. cbn [filter].
  destruct (Nat.eqb_spec (r_id x) j) as [E|E].
  - injection Hf as <-. cbn [negb flat_map].
    assert (Hid : filter (fun r => negb (Nat.eqb (r_id r) j)) t = t).
    { clear -Hx E. subst j. induction t as [|y u IHu]; [reflexivity|]. cbn [filter].
      destruct (Nat.eqb_spec (r_id y) (r_id x)) as [E2|E2]; [exfalso; apply Hx; left; exact E2|].
      cbn [negb]. f_equal. apply IHu. intro H. apply Hx. right. exact H. }
    rewrite Hid. apply Permutation_app_comm.
  - cbn [negb flat_map]. rewrite <- app_assoc. apply Permutation_app_head. apply IH; assumption.
Qed.

Lemma filter_ids_nodup j l : NoDup (map r_id l) -> NoDup (map r_id (filter (fun r => negb (Nat.eqb (r_id r) j)) l)).
Proof.
  induction l as [|x t IH]; cbn; intro H; [constructor|]. inversion H; subst.
  destruct (negb (Nat.eqb (r_id x) j)); cbn; [constructor|]; auto.
  intro Hin. apply H2. apply in_map_iff in Hin. destruct Hin as [y [Ey Hy]]. apply filter_In in Hy. apply in_map_iff. exists y. tauto.
Qed.

Lemma merge_perm (proj : rnode -> list nat) (mk : rnode -> rnode -> rnode) j k s :
  NoDup (map r_id s) -> forall rj rk, find_r j s = Some rj -> find_r k s = Some rk -> j <> k ->
  (forall r, proj (mk r rj) = proj r ++ proj rj) ->
  Permutation (flat_map proj (map (fun r => if Nat.eqb (r_id r) k then mk r rj else r) (filter (fun r => negb (Nat.eqb (r_id r) j)) s)))
              (flat_map proj s).
Proof.
  intros Hnd rj rk Hj Hk Hne Hmk.
  eapply Permutation_trans; [|apply (filter_perm proj j s rj Hnd Hj)].
  apply (upd_perm proj (fun r => mk r rj) (proj rj) k).
  - apply filter_ids_nodup. exact Hnd.
  - destruct (find_r_In k s rk Hk) as [Hin Hid]. apply in_map_iff. exists rk. split; [exact Hid|].
    apply filter_In. split; [exact Hin|]. apply negb_true_iff, Nat.eqb_neq. rewrite Hid. auto.
  - exact Hmk.
Qed.

Lemma merge_ids j k s x : In x (map r_id (merge j k s)) -> In x (map r_id s).
Proof.
  unfold merge. destruct (find_r j s) as [rj|]; [|auto]. destruct (find_r k s) as [rk|]; [|auto].
  destruct (Nat.eqb j k); [auto|]. rewrite map_map. intro H. apply in_map_iff in H. destruct H as [r [E Hr]].
  apply filter_In in Hr. destruct Hr as [Hr _]. apply in_map_iff. exists r. split; [|exact Hr].
  destruct (Nat.eqb (r_id r) k) eqn:Ek; [apply Nat.eqb_eq in Ek; cbn in E; congruence|exact E].
Qed.

Lemma merge_nodup j k s : NoDup (map r_id s) -> NoDup (map r_id (merge j k s)).
Proof.
  intro Hnd. unfold merge. destruct (find_r j s) as [rj|]; [|exact Hnd]. destruct (find_r k s) as [rk|]; [|exact Hnd].
  destruct (Nat.eqb j k); [exact Hnd|]. rewrite map_map.
  assert (E : map (fun r => r_id (if Nat.eqb (r_id r) k then {| r_id := k; r_members := r_members r ++ r_members rj; r_entries := r_entries r ++ r_entries rj |} else r))
                  (filter (fun r => negb (Nat.eqb (r_id r) j)) s) = map r_id (filter (fun r => negb (Nat.eqb (r_id r) j)) s)).
  { apply map_ext. intro r. destruct (Nat.eqb (r_id r) k) eqn:Ek; [apply Nat.eqb_eq in Ek; cbn; auto|reflexivity]. }
  rewrite E. clear E. induction s as [|x t IH]; cbn; [constructor|]. inversion Hnd; subst.
  destruct (negb (Nat.eqb (r_id x) j)); cbn; [constructor|]; auto.
  intro Hin. apply H1. apply in_map_iff in Hin. destruct Hin as [y [Ey Hy]]. apply filter_In in Hy. apply in_map_iff. exists y. tauto.
Qed.

Theorem merge_preserves j k s :
  NoDup (map r_id s) ->
  Permutation (all_members (merge j k s)) (all_members s) /\ Permutation (all_entries (merge j k s)) (all_entries s).
Proof.
  intro Hnd. unfold merge. destruct (find_r j s) as [rj|] eqn:Hj; [|split; reflexivity].
  destruct (find_r k s) as [rk|] eqn:Hk; [|split; reflexivity].
  destruct (Nat.eqb_spec j k) as [E|E]; [split; reflexivity|]. split.
  - unfold all_members. apply (merge_perm r_members
      (fun r rj => {| r_id := k; r_members := r_members r ++ r_members rj; r_entries := r_entries r ++ r_entries rj |}) j k s Hnd rj rk Hj Hk E).
    intro r. reflexivity.
  - unfold all_entries. apply (merge_perm r_entries
      (fun r rj => {| r_id := k; r_members := r_members r ++ r_members rj; r_entries := r_entries r ++ r_entries rj |}) j k s Hnd rj rk Hj Hk E).
    intro r. reflexivity.
Qed.

(* any sequence of trims / merges: every original node stays in exactly one retained node's list, and the demand
   entries are the original ones (so the total demand at every time is conserved) *)
Theorem skeleton_conserves ops : forall s,
  NoDup (map r_id s) ->
  let s' := fold_left (fun a jk => merge (fst jk) (snd jk) a) ops s in
  Permutation (all_members s') (all_members s) /\ Permutation (all_entries s') (all_entries s) /\ NoDup (map r_id s').
Proof.
  induction ops as [|[j k] ops IH]; intros s Hnd; cbn [fold_left]; [repeat split; try reflexivity; exact Hnd|].
  destruct (merge_preserves j k s Hnd) as [H1 H2]. pose proof (merge_nodup j k s Hnd) as Hnd'.
  destruct (IH (merge j k s) Hnd') as [A [B C]]. cbn [fst snd].
  split; [eapply Permutation_trans; eassumption|]. split; [eapply Permutation_trans; eassumption|exact C].
Qed.

(* the total of any per-entry quantity (base x pattern(t) x multiplier at any time t) is invariant under permutation *)
Lemma total_perm (w : nat -> Q) a b : Permutation a b -> fold_right (fun e acc => w e + acc) 0 a == fold_right (fun e acc => w e + acc) 0 b.
Proof. induction 1; cbn; try reflexivity; try (rewrite IHPermutation; reflexivity); try ring. rewrite IHPermutation1. exact IHPermutation2. Qed.
