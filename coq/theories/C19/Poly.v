From Coq Require Import QArith Qabs List Lia Lqa.
From WNTRV Require Import C19.Model.
Import ListNotations.
Local Open Scope Q_scope.

(* cutting a polyline at a point j that becomes a vertex of both parts keeps the total drawn length *)
Lemma polylen_cut : forall (a : list pt) (x j : pt) (b : list pt), polylen ((x :: a) ++ [j]) + polylen (j :: b) == polylen ((x :: a) ++ j :: b).
Proof.
  induction a as [|y a IH]; intros x j b.
  - cbn [app polylen]. destruct b; cbn [polylen]; lra.
  - change ((x :: y :: a) ++ [j]) with (x :: ((y :: a) ++ [j])). change ((x :: y :: a) ++ j :: b) with (x :: ((y :: a) ++ j :: b)).
    specialize (IH y j b). cbn [app] in *. cbn [polylen]. cbn [polylen] in IH. destruct a; cbn [app] in *; lra.
Qed.
(* on a segment parallel to an axis the interpolated point divides the drawn length in the ratio u : (1 - u) *)
Lemma seglen_interp_x (x0 x1 y u : Q) : 0 <= u <= 1 ->
  seglen (x0, y) (interp x0 x1 u, y) == u * seglen (x0, y) (x1, y) /\ seglen (interp x0 x1 u, y) (x1, y) == (1 - u) * seglen (x0, y) (x1, y).
Proof.
  intros [H0 H1]. unfold seglen, interp. cbn [fst snd].
  assert (Ey : Qabs (y - y) == 0) by (setoid_replace (y - y) with 0 by ring; reflexivity). rewrite !Ey.
  setoid_replace (x0 + (x1 - x0) * u - x0) with (u * (x1 - x0)) by ring.
  setoid_replace (x1 - (x0 + (x1 - x0) * u)) with ((1 - u) * (x1 - x0)) by ring.
  rewrite !Qabs_Qmult. rewrite (Qabs_pos u H0). rewrite (Qabs_pos (1 - u)) by lra. split; ring.
Qed.
