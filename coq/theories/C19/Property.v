(* C19 -- property theorems only. *)
From Coq Require Import QArith Qabs List Bool Arith Permutation.
From WNTRV Require Import C19.Model C19.Proofs C19.Poly.
Import ListNotations.

Theorem C19_split_length_conserved : forall L f, fst (split_lengths L f) + snd (split_lengths L f) == L.
Proof. exact split_length_conserved. Qed.
Theorem C19_split_position : forall a b f, a <= b -> 0 <= f -> f <= 1 -> a <= interp a b f /\ interp a b f <= b.
Proof. exact interp_between. Qed.
Theorem C19_split_position_ends : forall a b, interp a b 0 == a /\ interp a b 1 == b.
Proof. exact interp_ends. Qed.
(* splitting leaves the hydraulics unchanged when the pipe has no minor loss ... *)
Theorem C19_split_hydraulics_same : forall c L f g q2,
  headloss c (fst (split_lengths L f)) 0 g q2 + headloss c (snd (split_lengths L f)) 0 g q2 == headloss c L 0 g q2.
Proof. exact split_hydraulics_same. Qed.
(* ... and not when it has: both halves keep the full minor-loss coefficient (known finding) *)
Theorem C19_split_hydraulics_minor_refuted : exists c L f m g q2,
  ~ headloss c (fst (split_lengths L f)) m g q2 + headloss c (snd (split_lengths L f)) m g q2 == headloss c L m g q2.
Proof. exact split_hydraulics_minor_refuted. Qed.
(* skeletonization: after any sequence of branch trims / series merges every original node is in exactly one retained
   node's list and the demand entries are exactly the original ones *)
Theorem C19_skeleton_conserves : forall ops s,
  NoDup (map r_id s) ->
  let s' := fold_left (fun a jk => merge (fst jk) (snd jk) a) ops s in
  Permutation (all_members s') (all_members s) /\ Permutation (all_entries s') (all_entries s) /\ NoDup (map r_id s').
Proof. exact skeleton_conserves. Qed.
Theorem C19_total_demand_invariant : forall (w : nat -> Q) a b,
  Permutation a b -> fold_right (fun e acc => w e + acc) 0 a == fold_right (fun e acc => w e + acc) 0 b.
Proof. exact total_perm. Qed.
(* pipes drawn with vertices: cutting the polyline at a point that becomes the last vertex of the first part and the first of the second keeps
   the total drawn length, and on an axis-parallel segment the interpolated point divides the drawn length in the ratio u : 1 - u
   (the correspondence evaluates `poly_split_ok` -- no vertex lost or moved, parts of drawn length f L and (1 - f) L -- on what
   split_pipe / break_pipe return for generated polylines) *)
Theorem C19_polyline_cut : forall (a : list pt) (x j : pt) (b : list pt), polylen ((x :: a) ++ [j]) + polylen (j :: b) == polylen ((x :: a) ++ j :: b).
Proof. exact polylen_cut. Qed.
Theorem C19_segment_interp : forall x0 x1 y u, 0 <= u <= 1 ->
  seglen (x0, y) (interp x0 x1 u, y) == u * seglen (x0, y) (x1, y) /\ seglen (interp x0 x1 u, y) (x1, y) == (1 - u) * seglen (x0, y) (x1, y).
Proof. exact seglen_interp_x. Qed.
Print Assumptions C19_split_length_conserved.
Print Assumptions C19_split_hydraulics_same.
Print Assumptions C19_split_hydraulics_minor_refuted.
Print Assumptions C19_skeleton_conserves.
Print Assumptions C19_total_demand_invariant.
Print Assumptions C19_polyline_cut.
Print Assumptions C19_segment_interp.
