(* C19 -- split / break arithmetic and the bookkeeping of skeletonization (which original node ends up in which
   retained node's list, and where the demand entries go). *)
From Coq Require Import QArith Qabs List Bool Arith.
Import ListNotations.

(* ---- split / break ------------------------------------------------------------------------------ *)
Section Split.
Local Open Scope Q_scope.
Definition interp (a b f : Q) : Q := a + (b - a) * f.
(* lengths of (the part that stays attached to the start node, the part attached to the end node) *)
Definition split_lengths (L f : Q) : Q * Q := (L * f, L * (1 - f)).
(* Hazen-Williams + minor loss of a pipe of resistance-per-length c, length L, minor coefficient m, as a function of
   g = sgn q |q|^1.852 and q2 = sgn q q^2 :  c L g + m q2  *)
Definition headloss (c L m g q2 : Q) : Q := c * L * g + m * q2.
Definition closeq (a b tol : Q) : bool := Qle_bool (Qabs (a - b)) tol.
End Split.

(* ---- skeletonization bookkeeping -------------------------------------------------------------------- *)
(* a retained node: its name, the original nodes merged into it (skeleton map entry), its demand entries *)
Record rnode := { r_id : nat; r_members : list nat; r_entries : list nat }.
Definition sstate := list rnode.
Fixpoint find_r (k : nat) (s : sstate) : option rnode :=
  match s with [] => None | r :: t => if Nat.eqb (r_id r) k then Some r else find_r k t end.
(* branch trim / series merge: junction j disappears, its members and demand entries go to k *)
Definition merge (j k : nat) (s : sstate) : sstate :=
  match find_r j s, find_r k s with
  | Some rj, Some _ =>
      if Nat.eqb j k then s
      else map (fun r => if Nat.eqb (r_id r) k
                         then {| r_id := k; r_members := r_members r ++ r_members rj; r_entries := r_entries r ++ r_entries rj |}
                         else r)
               (filter (fun r => negb (Nat.eqb (r_id r) j)) s)
  | _, _ => s
  end.
Definition all_members (s : sstate) : list nat := flat_map r_members s.
Definition all_entries (s : sstate) : list nat := flat_map r_entries s.

(* executable checks on the implementation's output *)
Definition count_nat (x : nat) (l : list nat) : nat := length (filter (Nat.eqb x) l).
Definition perm_eqb (a b : list nat) : bool :=
  Nat.eqb (length a) (length b) && forallb (fun x => Nat.eqb (count_nat x a) (count_nat x b)) a.
(* skeleton map (retained node -> list of original nodes): every original node in exactly one list *)
Definition map_partition_ok (orig : list nat) (smap : list (nat * list nat)) : bool :=
  perm_eqb (flat_map snd smap) orig.
(* demand entries of each retained node = union of the original entries of the nodes merged into it *)
Definition entries_ok (orig_entries : nat -> list nat) (smap : list (nat * list nat)) (final_entries : nat -> list nat) : bool :=
  forallb (fun p => perm_eqb (final_entries (fst p)) (flat_map orig_entries (snd p))) smap.
Definition subset_ok (must keep : list nat) : bool := forallb (fun x => existsb (Nat.eqb x) keep) must.
