(* C19 -- split / break arithmetic and the bookkeeping of skeletonization (which original node ends up in which
   retained node's list, and where the demand entries go). *)
From Coq Require Import QArith Qabs List Bool Arith.
Import ListNotations.

(* ---- split / break ------------------------------------------------------------------------------ *)
Section Split.
Local Open Scope Q_scope.
Definition interp (a b f : Q) : Q := a + (b - a) * f.
(* lengths of (the part that stays attached to the start node, the part attached to the end node) *)
Definition split_lengths (L f : Q) : Q * Q := (L * f, L * (1 - f)).
(* Hazen-Williams + minor loss of a pipe of resistance-per-length c, length L, minor coefficient m, as a function of
   g = sgn q |q|^1.852 and q2 = sgn q q^2 :  c L g + m q2  *)
Definition headloss (c L m g q2 : Q) : Q := c * L * g + m * q2.
Definition closeq (a b tol : Q) : bool := Qle_bool (Qabs (a - b)) tol.
End Split.

(* ---- skeletonization bookkeeping -------------------------------------------------------------------- *)
(* a retained node: its name, the original nodes merged into it (skeleton map entry), its demand entries *)
Record rnode := { r_id : nat; r_members : list nat; r_entries : list nat }.
Definition sstate := list rnode.
Fixpoint find_r (k : nat) (s : sstate) : option rnode :=
  match s with [] => None | r :: t => if Nat.eqb (r_id r) k then Some r else find_r k t end.
(* branch trim / series merge: junction j disappears, its members and demand entries go to k *)
Definition merge (j k : nat) (s : sstate) : sstate :=
  match find_r j s, find_r k s with
  | Some rj, Some _ =>
      if Nat.eqb j k then s
      else map (fun r => if Nat.eqb (r_id r) k
                         then {| r_id := k; r_members := r_members r ++ r_members rj; r_entries := r_entries r ++ r_entries rj |}
                         else r)
               (filter (fun r => negb (Nat.eqb (r_id r) j)) s)
  | _, _ => s
  end.
Definition all_members (s : sstate) : list nat := flat_map r_members s.
Definition all_entries (s : sstate) : list nat := flat_map r_entries s.

(* executable checks on the implementation's output *)
Definition count_nat (x : nat) (l : list nat) : nat := length (filter (Nat.eqb x) l).
Definition perm_eqb (a b : list nat) : bool :=
  Nat.eqb (length a) (length b) && forallb (fun x => Nat.eqb (count_nat x a) (count_nat x b)) a.
(* skeleton map (retained node -> list of original nodes): every original node in exactly one list *)
Definition map_partition_ok (orig : list nat) (smap : list (nat * list nat)) : bool :=
  perm_eqb (flat_map snd smap) orig.
(* demand entries of each retained node = union of the original entries of the nodes merged into it *)
Definition entries_ok (orig_entries : nat -> list nat) (smap : list (nat * list nat)) (final_entries : nat -> list nat) : bool :=
  forallb (fun p => perm_eqb (final_entries (fst p)) (flat_map orig_entries (snd p))) smap.
Definition subset_ok (must keep : list nat) : bool := forallb (fun x => existsb (Nat.eqb x) keep) must.

(* ---- a pipe drawn with vertices: the polyline start -> vertices -> end.  Segments are axis-parallel in the generated cases, so that the
        Euclidean length is |dx| + |dy| and everything stays rational.  split_pipe / break_pipe put the new junction at the requested
        fraction of the DRAWN length, give the vertices before it to the first part and the others to the second. ---- *)
Definition pt := (Q * Q)%type.
Definition seglen (a b : pt) : Q := Qabs (fst b - fst a) + Qabs (snd b - snd a).
Fixpoint polylen (p : list pt) : Q :=
  match p with
  | a :: ((b :: _) as r) => seglen a b + polylen r
  | _ => 0
  end.
Definition pt_eqb (a b : pt) : bool := Qeq_bool (fst a) (fst b) && Qeq_bool (snd a) (snd b).
Fixpoint pts_eqb (a b : list pt) : bool :=
  match a, b with [], [] => true | x :: r, y :: s => pt_eqb x y && pts_eqb r s | _, _ => false end.
(* the two parts as the implementation returns them: [start; first vertices ...; J] and [J'; last vertices ...; end] (J' = J, or the second
   junction of a break, at the same place).  Property: no vertex is lost or moved, the junction(s) close the two polylines at one point,
   and the drawn lengths are f * L and (1 - f) * L *)
Definition poly_split_ok (orig part1 part2 : list pt) (f tol : Q) : bool :=
  let L := polylen orig in
  let inner1 := removelast (tl part1) in let inner2 := removelast (tl part2) in
  pts_eqb (inner1 ++ inner2) (removelast (tl orig))
  && pt_eqb (hd (0, 0) part1) (hd (0, 0) orig) && pt_eqb (last part2 (0, 0)) (last orig (0, 0))
  && pt_eqb (last part1 (0, 0)) (hd (0, 0) part2)
  && closeq (polylen part1) (L * f) (tol * (1 + L)) && closeq (polylen part2) (L * (1 - f)) (tol * (1 + L)).
