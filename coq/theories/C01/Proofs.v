From Coq Require Import Reals QArith Qabs ZArith List Bool Arith Lra Lia.
From WNTRV Require Import Lib.Expr Lib.ExprR C01.Model.
Import ListNotations.

Section Row.
Local Open Scope R_scope.

Lemma evalR_add env a b : evalR env (EBin BAdd a b) = evalR env a + evalR env b. Proof. reflexivity. Qed.
Lemma evalR_sub env a b : evalR env (EBin BSub a b) = evalR env a - evalR env b. Proof. reflexivity. Qed.
Lemma evalR_var env i : evalR env (ELeaf (RV i)) = env i. Proof. reflexivity. Qed.

Lemma fold_sub_eval env ins : forall d,
  evalR env (fold_left (fun e i => EBin BSub e (ELeaf (RV i))) ins d) = evalR env d - sumR env ins.
Proof.
  induction ins as [|i ins IH]; intro d; cbn [fold_left]; unfold sumR; cbn [fold_right]; [lra|].
  fold (sumR env ins). rewrite IH. rewrite ?evalR_add, ?evalR_sub, ?evalR_var. lra.
Qed.
Lemma fold_add_eval env outs : forall d,
  evalR env (fold_left (fun e i => EBin BAdd e (ELeaf (RV i))) outs d) = evalR env d + sumR env outs.
Proof.
  induction outs as [|i outs IH]; intro d; cbn [fold_left]; unfold sumR; cbn [fold_right]; [lra|].
  fold (sumR env outs). rewrite IH. rewrite ?evalR_add, ?evalR_sub, ?evalR_var. lra.
Qed.

Lemma mb_expr_eval env d ins outs leak :
  evalR env (mb_expr d ins outs leak) =
  evalR env d - sumR env ins + sumR env outs + match leak with Some k => env k | None => 0 end.
Proof.
  unfold mb_expr. destruct leak as [k|].
  - rewrite evalR_add, evalR_var, fold_add_eval, fold_sub_eval. reflexivity.
  - rewrite fold_add_eval, fold_sub_eval. lra.
Qed.

(* a converged row (|residual| < tol) IS the junction balance, within the same tol *)
Lemma junction_balance env d ins outs leak tol :
  Rabs (evalR env (mb_expr d ins outs leak)) < tol ->
  Rabs (sumR env ins - sumR env outs - (evalR env d + match leak with Some k => env k | None => 0 end)) < tol.
Proof.
  rewrite mb_expr_eval. intro H. rewrite <- Rabs_Ropp.
  match goal with |- Rabs ?x < _ => replace x with
    (evalR env d - sumR env ins + sumR env outs + match leak with Some k => env k | None => 0 end) by lra end.
  exact H.
Qed.

Lemma mb_parse_eval env e d ms ps :
  mb_parse e = Some (d, ms, ps) -> evalR env e = evalR env d - sumR env ms + sumR env ps.
Proof.
  revert d ms ps. induction e as [l|o a IHa|o a IHa b IHb|b IHb lo IHlo hi IHhi|c IHc t IHt f IHf];
    intros d ms ps H; cbn [mb_parse] in H; try discriminate.
  - injection H as <- <- <-. unfold sumR; cbn [fold_right]. lra.
  - destruct o; try discriminate; destruct b as [[i|c]| | | |]; try discriminate;
      destruct (mb_parse a) as [[[d0 ms0] ps0]|] eqn:E; try discriminate; injection H as <- <- <-;
      rewrite ?evalR_add, ?evalR_sub, ?evalR_var; rewrite (IHa _ _ _ eq_refl);
      unfold sumR; cbn [fold_right]; lra.
Qed.

Lemma mb_parse_mb_expr l ins outs leak :
  mb_parse (mb_expr (ELeaf l) ins outs leak) =
  Some (ELeaf l, rev ins, match leak with Some k => k :: rev outs | None => rev outs end).
Proof.
  unfold mb_expr.
  assert (Hs : forall ins d ms ps, mb_parse d = Some (ELeaf l, ms, ps) ->
            mb_parse (fold_left (fun e i => EBin BSub e (ELeaf (RV i))) ins d) = Some (ELeaf l, rev ins ++ ms, ps)).
  { induction ins0 as [|i ins0 IH]; intros d ms ps H; cbn [fold_left rev app]; [exact H|].
    rewrite (IH _ (i :: ms) ps); [rewrite <- app_assoc; reflexivity|]. cbn [mb_parse]. rewrite H. reflexivity. }
  assert (Ha : forall outs d ms ps, mb_parse d = Some (ELeaf l, ms, ps) ->
            mb_parse (fold_left (fun e i => EBin BAdd e (ELeaf (RV i))) outs d) = Some (ELeaf l, ms, rev outs ++ ps)).
  { induction outs0 as [|i outs0 IH]; intros d ms ps H; cbn [fold_left rev app]; [exact H|].
    rewrite (IH _ ms (i :: ps)); [rewrite <- app_assoc; reflexivity|]. cbn [mb_parse]. rewrite H. reflexivity. }
  pose proof (Hs ins (ELeaf l) [] [] eq_refl) as H1. rewrite app_nil_r in H1.
  pose proof (Ha outs _ _ _ H1) as H2. rewrite app_nil_r in H2.
  destruct leak as [k|]; [cbn [mb_parse]; rewrite H2; reflexivity|exact H2].
Qed.
End Row.

Section Net.
Local Open Scope R_scope.

(* every link is counted once as inflow (at its end) and once as outflow (at its start):
   the sum of net inflows over all nodes vanishes -- the discrete divergence identity with h = 1 *)
Lemma sum_nodes_indicator (x : R) (k : nat) nodes :
  NoDup nodes -> In k nodes ->
  sum_nodes (fun n => if Nat.eqb k n then x else 0) nodes = x.
Proof.
  induction nodes as [|n nodes IH]; intros Hnd Hin; [destruct Hin|].
  unfold sum_nodes in *; cbn [fold_right]. inversion Hnd as [|? ? Hn Hnd']; subst.
  destruct Hin as [Heq|Hin].
  - subst k. rewrite Nat.eqb_refl.
    assert (Hz : forall l, ~ In n l -> fold_right (fun n0 a => (if Nat.eqb n n0 then x else 0) + a) 0 l = 0).
    { induction l as [|m l IHl]; intro Hm; cbn [fold_right]; [reflexivity|].
      destruct (Nat.eqb_spec n m) as [->|]; [exfalso; apply Hm; left; reflexivity|].
      rewrite IHl; [lra|intro; apply Hm; right; assumption]. }
    rewrite (Hz nodes Hn). lra.
  - destruct (Nat.eqb_spec k n) as [->|]; [contradiction|].
    rewrite IH by assumption. lra.
Qed.

Lemma sum_nodes_plus f g nodes : sum_nodes (fun n => f n + g n) nodes = sum_nodes f nodes + sum_nodes g nodes.
Proof. induction nodes as [|n nodes IH]; unfold sum_nodes in *; cbn [fold_right]; [lra|]. rewrite IH. lra. Qed.
Lemma sum_nodes_ext f g nodes : (forall n, f n = g n) -> sum_nodes f nodes = sum_nodes g nodes.
Proof. intro H. induction nodes as [|n nodes IH]; unfold sum_nodes in *; cbn [fold_right]; [reflexivity|]. rewrite IH, H. reflexivity. Qed.
Lemma sum_nodes_zero nodes : sum_nodes (fun _ => 0) nodes = 0.
Proof. induction nodes as [|n nodes IH]; unfold sum_nodes in *; cbn [fold_right]; [reflexivity|]. rewrite IH. lra. Qed.

Lemma inflow_outflow_total q links nodes : forall i,
  NoDup nodes -> (forall s e, In (s, e) links -> In s nodes /\ In e nodes) ->
  sum_nodes (inflowR q links i) nodes = sum_nodes (outflowR q links i) nodes.
Proof.
  induction links as [|[s e] links IH]; intros i Hnd Hends; cbn [inflowR outflowR].
  - reflexivity.
  - destruct (Hends s e (or_introl eq_refl)) as [Hs He].
    rewrite (sum_nodes_plus (fun n => if Nat.eqb e n then q i else 0) (inflowR q links (S i))).
    rewrite (sum_nodes_plus (fun n => if Nat.eqb s n then q i else 0) (outflowR q links (S i))).
    rewrite (sum_nodes_indicator (q i) e nodes Hnd He), (sum_nodes_indicator (q i) s nodes Hnd Hs).
    rewrite (IH (S i) Hnd); [reflexivity|]. intros s' e' Hin. apply Hends. right. exact Hin.
Qed.

Theorem global_balance q links nodes :
  NoDup nodes -> (forall s e, In (s, e) links -> In s nodes /\ In e nodes) ->
  sum_nodes (netinR q links) nodes = 0.
Proof.
  intros Hnd Hends. unfold netinR.
  assert (H : sum_nodes (fun n => inflowR q links 0 n - outflowR q links 0 n) nodes =
              sum_nodes (inflowR q links 0) nodes - sum_nodes (outflowR q links 0) nodes).
  { clear. induction nodes as [|n nodes IH]; unfold sum_nodes in *; cbn [fold_right]; [lra|]. rewrite IH. lra. }
  rewrite H, (inflow_outflow_total q links nodes 0 Hnd Hends). lra.
Qed.

(* reported demand + leak summed over all nodes deviates from 0 by at most (#nodes) * tol
   when every node satisfies its local balance within tol *)
Theorem reported_totals_balance q links nodes (dem leak : nat -> R) tol :
  NoDup nodes -> (forall s e, In (s, e) links -> In s nodes /\ In e nodes) ->
  (forall n, In n nodes -> Rabs (netinR q links n - dem n - leak n) <= tol) ->
  Rabs (sum_nodes (fun n => dem n + leak n) nodes) <= INR (length nodes) * tol.
Proof.
  intros Hnd Hends Hloc.
  assert (Hsum : sum_nodes (fun n => dem n + leak n) nodes =
                 - sum_nodes (fun n => netinR q links n - dem n - leak n) nodes).
  { assert (H0 : sum_nodes (fun n => dem n + leak n) nodes =
                 sum_nodes (netinR q links) nodes - sum_nodes (fun n => netinR q links n - dem n - leak n) nodes).
    { clear. induction nodes as [|n nodes IH]; unfold sum_nodes in *; cbn [fold_right]; [lra|]. lra. }
    rewrite H0, (global_balance q links nodes Hnd Hends). lra. }
  rewrite Hsum, Rabs_Ropp. clear Hsum Hnd Hends.
  induction nodes as [|n nodes IH]; unfold sum_nodes in *; cbn [fold_right length].
  - rewrite Rabs_R0. simpl. lra.
  - rewrite S_INR. eapply Rle_trans; [apply Rabs_triang|].
    assert (H1 := Hloc n (or_introl eq_refl)).
    assert (H2 := IH (fun m Hm => Hloc m (or_intror Hm))).
    lra.
Qed.
End Net.

Section Demand.
Local Open Scope Z_scope.
(* a wrapping pattern is periodic with period n * step *)
Lemma pattern_periodic mult step t k :
  0 < step -> pattern_at mult step (t + k * (Z.of_nat (length mult) * step)) = pattern_at mult step t.
Proof.
  intro Hs. unfold pattern_at. destruct mult as [|m [|m2 r]]; try reflexivity.
  set (n := Z.of_nat (length (m :: m2 :: r))).
  assert (Hn : 0 < n) by (unfold n; cbn [length]; lia).
  replace (t + k * (n * step)) with (t + (k * n) * step) by ring.
  rewrite Z.div_add by lia. rewrite Z.mod_add by lia. reflexivity.
Qed.
End Demand.
