(* C01 -- mass conservation.
   (1) the mass-balance residual row (constraint.py mass_balance_constraint /
       pdd_mass_balance_constraint) as an aml tree and what it means;
   (2) node bookkeeping of store_results_in_network (tank / reservoir demand);
   (3) demand patterns (Pattern.at / TimeSeries.at / Demands.at / expected_demand_param);
   (4) executable (Q) predicates evaluated on the reported result tables. *)
From Coq Require Import Reals QArith Qabs ZArith List Bool Arith.
From WNTRV Require Import Lib.Expr Lib.ExprR.
Import ListNotations.

(* ---------- (1) residual row ------------------------------------------------ *)
Section Row.
Local Open Scope R_scope.
(* expr = D; for l in INLET: expr -= q l; for l in OUTLET: expr += q l; if leak: expr += leak *)
Definition mb_expr (d : expr rleaf) (ins outs : list nat) (leak : option nat) : expr rleaf :=
  let e1 := fold_left (fun e i => EBin BSub e (ELeaf (RV i))) ins d in
  let e2 := fold_left (fun e i => EBin BAdd e (ELeaf (RV i))) outs e1 in
  match leak with Some k => EBin BAdd e2 (ELeaf (RV k)) | None => e2 end.

Definition sumR (env : nat -> R) (l : list nat) : R := fold_right (fun i a => env i + a) 0 l.

(* reading a row back: base leaf, subtracted variables, added variables (any left-nested +/- spine) *)
Fixpoint mb_parse (e : expr rleaf) : option (expr rleaf * list nat * list nat) :=
  match e with
  | EBin BSub a (ELeaf (RV i)) =>
      match mb_parse a with Some (d, ms, ps) => Some (d, i :: ms, ps) | None => None end
  | EBin BAdd a (ELeaf (RV i)) =>
      match mb_parse a with Some (d, ms, ps) => Some (d, ms, i :: ps) | None => None end
  | ELeaf l => Some (ELeaf l, [], [])
  | _ => None
  end.
End Row.

(* ---------- (2) network bookkeeping over R ------------------------------------ *)
Section Net.
Local Open Scope R_scope.
(* links: (start node, end node); flow i = flow of the i-th link, positive from start to end *)
Definition link := (nat * nat)%type.
Fixpoint inflowR (q : nat -> R) (links : list link) (i : nat) (n : nat) : R :=
  match links with
  | [] => 0
  | (s, e) :: r => (if Nat.eqb e n then q i else 0) + inflowR q r (S i) n
  end.
Fixpoint outflowR (q : nat -> R) (links : list link) (i : nat) (n : nat) : R :=
  match links with
  | [] => 0
  | (s, e) :: r => (if Nat.eqb s n then q i else 0) + outflowR q r (S i) n
  end.
Definition netinR q links n : R := inflowR q links 0 n - outflowR q links 0 n.
Definition sum_nodes (f : nat -> R) (nodes : list nat) : R := fold_right (fun n a => f n + a) 0 nodes.
End Net.

(* ---------- (3) demand patterns (Z seconds, Q multipliers) --------------------- *)
Section Demand.
Local Open Scope Q_scope.
(* Pattern.at with wrap = True, no interpolation *)
Definition pattern_at (mult : list Q) (step : Z) (t : Z) : Q :=
  match mult with
  | [] => 1
  | [m] => m
  | _ => nth (Z.to_nat ((t / step) mod (Z.of_nat (length mult)))%Z) mult 0
  end.
(* a demand entry: base value, pattern (None = no pattern) *)
Definition entry := (Q * option (list Q))%type.
Definition entry_at (step : Z) (t : Z) (e : entry) : Q :=
  match snd e with None => fst e | Some p => fst e * pattern_at p step t end.
(* expected_demand_param: Demands.at(sim_time + pattern_start, multiplier) *)
Definition expected_demand (es : list entry) (step pattern_start t : Z) (mult : Q) : Q :=
  fold_left (fun a e => a + entry_at step (t + pattern_start) e * mult) es 0.
End Demand.

(* ---------- adjacency as the simulator sees it (get_links_for_node INLET / OUTLET) -------- *)
Fixpoint idx_where (f : link -> bool) (links : list link) (i : nat) : list nat :=
  match links with [] => [] | l :: r => if f l then i :: idx_where f r (S i) else idx_where f r (S i) end.
Definition ins_idx (links : list link) (n : nat) : list nat := idx_where (fun l => Nat.eqb (snd l) n) links 0.
Definition outs_idx (links : list link) (n : nat) : list nat := idx_where (fun l => Nat.eqb (fst l) n) links 0.
Definition count_nat (x : nat) (l : list nat) : nat := length (filter (Nat.eqb x) l).
Definition perm_eqb (a b : list nat) : bool :=
  Nat.eqb (length a) (length b) && forallb (fun x => Nat.eqb (count_nat x a) (count_nat x b)) a.
(* a dumped implementation row is the mass balance of node n: base leaf, minus exactly the inlets, plus exactly the
   outlets (and the leak variable when the leak is active) -- in any order *)
Definition row_ok (links : list link) (n : nat) (e : expr rleaf) (leak : option nat) : bool :=
  match mb_parse e with
  | Some (ELeaf _, ms, ps) =>
      perm_eqb ms (ins_idx links n) &&
      perm_eqb ps (match leak with Some k => k :: outs_idx links n | None => outs_idx links n end)
  | _ => false
  end.

(* ---------- (4) executable predicates on reported tables (Q) -------------------- *)
Section Check.
Local Open Scope Q_scope.
Fixpoint inflowQ (q : list Q) (links : list link) (n : nat) : Q :=
  match links, q with
  | (s, e) :: r, x :: qs => (if Nat.eqb e n then x else 0) + inflowQ qs r n
  | _, _ => 0
  end.
Fixpoint outflowQ (q : list Q) (links : list link) (n : nat) : Q :=
  match links, q with
  | (s, e) :: r, x :: qs => (if Nat.eqb s n then x else 0) + outflowQ qs r n
  | _, _ => 0
  end.
(* inflow - outflow = reported demand + reported leak demand, for EVERY node kind:
   junction: the mass balance; tank: demand := net inflow - leak; reservoir: demand := net inflow, leak = 0 *)
Definition node_balance_ok (tol : Q) (links : list link) (q : list Q) (n : nat) (demand leak : Q) : bool :=
  Qle_bool (Qabs (inflowQ q links n - outflowQ q links n - demand - leak)) tol.
Fixpoint all_balance_ok (tol : Q) (links : list link) (q : list Q) (n : nat) (dl : list (Q * Q)) : bool :=
  match dl with
  | [] => true
  | (d, l) :: r => node_balance_ok tol links q n d l && all_balance_ok tol links q (S n) r
  end.
Definition dd_demand_ok (tol : Q) (es : list entry) (step pattern_start t : Z) (mult reported : Q) : bool :=
  Qle_bool (Qabs (expected_demand es step pattern_start t mult - reported)) tol.
End Check.
