(* C01 -- property theorems only. *)
From Coq Require Import Reals QArith ZArith List Bool.
From WNTRV Require Import Lib.Expr Lib.ExprR C01.Model C01.Proofs.
Import ListNotations.

(* the residual row built for a junction means: D - sum(inlets) + sum(outlets) + leak *)
Theorem C01_row_meaning : forall env d ins outs leak,
  evalR env (mb_expr d ins outs leak) =
  (evalR env d - sumR env ins + sumR env outs + match leak with Some k => env k | None => 0 end)%R.
Proof. exact mb_expr_eval. Qed.

(* a converged row (|residual| < tol) is the junction mass balance within the same tolerance *)
Theorem C01_junction_balance : forall env d ins outs leak tol,
  (Rabs (evalR env (mb_expr d ins outs leak)) < tol)%R ->
  (Rabs (sumR env ins - sumR env outs - (evalR env d + match leak with Some k => env k | None => 0 end)) < tol)%R.
Proof. exact junction_balance. Qed.

(* any row that the correspondence check reads back as (base, minus-list, plus-list) has that meaning *)
Theorem C01_row_readback : forall env e d ms ps,
  mb_parse e = Some (d, ms, ps) -> evalR env e = (evalR env d - sumR env ms + sumR env ps)%R.
Proof. exact mb_parse_eval. Qed.

(* no link is counted on one side only: net inflows over all nodes sum to zero, for every topology
   (loops, parallel links, self-consistent end nodes) *)
Theorem C01_global_balance : forall q links nodes,
  NoDup nodes -> (forall s e, In (s, e) links -> In s nodes /\ In e nodes) ->
  sum_nodes (netinR q links) nodes = 0%R.
Proof. exact global_balance. Qed.

Theorem C01_reported_totals_balance : forall q links nodes (dem leak : nat -> R) tol,
  NoDup nodes -> (forall s e, In (s, e) links -> In s nodes /\ In e nodes) ->
  (forall n, In n nodes -> (Rabs (netinR q links n - dem n - leak n) <= tol)%R) ->
  (Rabs (sum_nodes (fun n => dem n + leak n) nodes) <= INR (length nodes) * tol)%R.
Proof. exact reported_totals_balance. Qed.

(* demand patterns repeat with period (number of multipliers) x (pattern timestep) *)
Theorem C01_pattern_periodic : forall mult step t k,
  (0 < step)%Z -> pattern_at mult step (t + k * (Z.of_nat (length mult) * step)) = pattern_at mult step t.
Proof. exact pattern_periodic. Qed.

Print Assumptions C01_row_meaning.
Print Assumptions C01_junction_balance.
Print Assumptions C01_row_readback.
Print Assumptions C01_global_balance.
Print Assumptions C01_reported_totals_balance.
Print Assumptions C01_pattern_periodic.
