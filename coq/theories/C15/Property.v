(* C15 -- property theorems only. *)
From Coq Require Import Reals ZArith List Bool.
From Coquelicot Require Import Coquelicot.
From WNTRV Require Import Lib.Expr Lib.ExprProofs Lib.ExprR Lib.ExprRProofs C15.Model C15.Proofs.
Import ListNotations.

(* the compiled evaluator (stack machine over the RPN emitted by get_rpn) returns the direct
   evaluation of the expression, for every tree and every value domain (binary64 included) *)
Theorem C15_rpn_correct :
  forall (L V : Type) usem bsem ineq_sem if_sem (leafval : L -> V) (ndx : L -> Z) (values : Z -> V),
    (forall l, values (ndx l) = leafval l) ->
    forall e, (forall l, In l (leaves e) -> (0 <= ndx l)%Z) ->
    exec usem bsem ineq_sem if_sem values (rpn ndx e) = Some (eval usem bsem ineq_sem if_sem leafval e).
Proof. intros L V usem bsem ineq_sem if_sem leafval ndx values Hv e Hl. apply rpn_correct; assumption. Qed.

Theorem C15_stack_discipline :
  forall (L V : Type) usem bsem ineq_sem if_sem (leafval : L -> V) (ndx : L -> Z) (values : Z -> V),
    (forall l, values (ndx l) = leafval l) ->
    forall e stk, (forall l, In l (leaves e) -> (0 <= ndx l)%Z) ->
    run usem bsem ineq_sem if_sem values (rpn ndx e) stk = Some (eval usem bsem ineq_sem if_sem leafval e :: stk).
Proof. intros L V usem bsem ineq_sem if_sem leafval ndx values Hv e stk Hl. apply rpn_preserves_stack; assumption. Qed.

(* the symbolic derivative (reverse_sd rules) is the true partial derivative on the differentiability domain;
   _partial: asin/acos and if-else nodes are outside `diffable` (their Jacobian entries are tied numerically only) *)
Theorem C15_sd_correct_partial :
  forall env v e, diffable env e ->
    is_derive (fun x : R => evalR (upd env v x) e) (env v) (evalR env (D v e)).
Proof. exact sd_correct. Qed.

Theorem C15_conditional_selects_first_true :
  forall (A : Type) env (brs : list (option (expr rleaf) * A)) pre c a post,
    brs = pre ++ (Some c, a) :: post ->
    (forall c' a', In (Some c', a') pre -> evalR env c' <> 1%R) ->
    (forall a', ~ In (None, a') pre) ->
    evalR env c = 1%R -> cond_select env brs = Some a.
Proof. exact @conditional_selects_first_true. Qed.

(* after any register/remove history a leaf's reference count is the number of live constraints
   referencing it, and it has a C++ object iff that number is positive *)
Theorem C15_refcount_inv :
  forall ops l, hist_ok m0 ops ->
    let s := fold_left mstep ops m0 in
    (refc s l = count_refs l (live s) /\ (cobj s l = true <-> 0 < count_refs l (live s)))%nat.
Proof. exact refcount_from_empty. Qed.

Print Assumptions C15_rpn_correct.
Print Assumptions C15_stack_discipline.
Print Assumptions C15_sd_correct_partial.
Print Assumptions C15_conditional_selects_first_true.
Print Assumptions C15_refcount_inv.
