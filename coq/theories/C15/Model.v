(* C15 model: (a) conditional constraints (first true condition selects the
   branch, evaluator.cpp evaluate / evaluate_csr_jacobian), (b) the
   reference-counting state machine of aml.Model (register / remove). *)
From Coq Require Import Reals ZArith List Bool Arith.
From WNTRV Require Import Lib.Expr Lib.ExprR.
Import ListNotations.

(* ---- (a) conditional constraints over R ------------------------------------ *)
Local Open Scope R_scope.
(* branches: (condition, expression); an empty condition RPN in the evaluator = "else" = None here *)
Fixpoint cond_select {A} (env : nat -> R) (brs : list (option (expr rleaf) * A)) : option A :=
  match brs with
  | [] => None
  | (None, a) :: _ => Some a
  | (Some c, a) :: r => if Req_EM_T (evalR env c) 1 then Some a else cond_select env r
  end.
Definition cond_eval (env : nat -> R) (brs : list (option (expr rleaf) * expr rleaf)) : option R :=
  option_map (evalR env) (cond_select env brs).
Definition cond_jac (env : nat -> R) (v : nat) (brs : list (option (expr rleaf) * expr rleaf)) : option R :=
  option_map (fun e => evalR env (D v e)) (cond_select env brs).

(* variables occurring in a tree: the columns of its Jacobian row *)
Fixpoint vars_of (e : expr rleaf) : list nat :=
  match e with
  | ELeaf (RV n) => [n]
  | ELeaf (RC _) => []
  | EUn _ a => vars_of a
  | EBin _ a b => vars_of a ++ vars_of b
  | EIneq b lo hi => vars_of b ++ vars_of lo ++ vars_of hi
  | EIf c t f => vars_of c ++ vars_of t ++ vars_of f
  end.

(* ---- (b) reference counting ------------------------------------------------ *)
Local Open Scope nat_scope.
(* leaves and constraints are identified by numbers (Python object identity).
   _refcounts is a dict whose entries are deleted at 0: modelled as a total
   function with default 0; the C++-object maps (_var_cvar_map, ...) as a predicate. *)
Record mstate := { live : list (nat * list nat);      (* registered constraints with their referenced leaves *)
                   refc : nat -> nat;                 (* _refcounts (absent = 0) *)
                   cobj : nat -> bool }.              (* leaf has a C++ object in the evaluator *)
Definition m0 : mstate := {| live := []; refc := fun _ => 0; cobj := fun _ => false |}.

(* _increment_var / _increment_param / _increment_float *)
Definition incr (s : mstate) (l : nat) : mstate :=
  {| live := live s;
     refc := fun k => if Nat.eqb k l then S (refc s l) else refc s k;
     cobj := fun k => if Nat.eqb k l then (if Nat.eqb (refc s l) 0 then true else cobj s l) else cobj s k |}.
(* _decrement_*: the C++ object is deleted when the count reaches 0 *)
Definition decr (s : mstate) (l : nat) : mstate :=
  {| live := live s;
     refc := fun k => if Nat.eqb k l then refc s l - 1 else refc s k;
     cobj := fun k => if Nat.eqb k l then (if Nat.eqb (refc s l - 1) 0 then false else cobj s l) else cobj s k |}.

Inductive mop := Reg (c : nat) (leaves : list nat) | Rem (c : nat).

Fixpoint find_con (c : nat) (l : list (nat * list nat)) : option (list nat) :=
  match l with [] => None | (c', ls) :: r => if Nat.eqb c c' then Some ls else find_con c r end.
Fixpoint del_con (c : nat) (l : list (nat * list nat)) : list (nat * list nat) :=
  match l with [] => [] | (c', ls) :: r => if Nat.eqb c c' then r else (c', ls) :: del_con c r end.

Definition mstep (s : mstate) (o : mop) : mstate :=
  match o with
  | Reg c ls =>
      let s' := fold_left incr ls s in
      {| live := (c, ls) :: live s'; refc := refc s'; cobj := cobj s' |}
  | Rem c =>
      match find_con c (live s) with
      | None => s
      | Some ls =>
          let s' := fold_left decr ls s in
          {| live := del_con c (live s'); refc := refc s'; cobj := cobj s' |}
      end
  end.

(* specification: number of live constraints that reference leaf l *)
Definition refs (l : nat) (p : nat * list nat) : bool := existsb (Nat.eqb l) (snd p).
Definition count_refs (l : nat) (lv : list (nat * list nat)) : nat := length (filter (refs l) lv).

(* well-formed histories: a constraint is registered once, with a duplicate-free leaf set *)
Fixpoint wf_hist (lv : list nat) (ops : list mop) : Prop :=
  match ops with
  | [] => True
  | Reg c ls :: r => ~ In c lv /\ NoDup ls /\ wf_hist (c :: lv) r
  | Rem c :: r => wf_hist (remove Nat.eq_dec c lv) r
  end.
