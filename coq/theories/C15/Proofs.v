From Coq Require Import Reals ZArith List Bool Arith Lia Lra.
From WNTRV Require Import Lib.Expr Lib.ExprR C15.Model.
Import ListNotations.

(* ---------- R-evaluation helpers used by the correspondence tactic ---------- *)
Local Open Scope R_scope.
Lemma pw_pos a b : 0 < a -> pw a b = Rpower a b.
Proof. intro H. unfold pw. destruct (Rlt_dec 0 a); [reflexivity|lra]. Qed.
Lemma pw_2 a : pw a 2 = a * a.
Proof.
  unfold pw. destruct (Rlt_dec 0 a) as [H|H].
  - replace 2 with (INR 2) by (simpl; lra). rewrite Rpower_pow by exact H. simpl. ring.
  - destruct (Req_EM_T a 0) as [E|E].
    + destruct (Req_EM_T 2 0); [lra|]. subst. ring.
    + destruct (Req_EM_T 2 2); [reflexivity|lra].
Qed.
Lemma pw_3 a : pw a 3 = a * a * a.
Proof.
  unfold pw. destruct (Rlt_dec 0 a) as [H|H].
  - replace 3 with (INR 3) by (simpl; lra). rewrite Rpower_pow by exact H. simpl. ring.
  - destruct (Req_EM_T a 0) as [E|E].
    + destruct (Req_EM_T 3 0); [lra|]. subst. ring.
    + destruct (Req_EM_T 3 2); [lra|]. destruct (Req_EM_T 3 3); [reflexivity|lra].
Qed.
Lemma pw_1 a : pw a 1 = a.
Proof.
  unfold pw. destruct (Rlt_dec 0 a) as [H|H].
  - apply Rpower_1; exact H.
  - destruct (Req_EM_T a 0) as [E|E].
    + destruct (Req_EM_T 1 0); [lra|]. subst. reflexivity.
    + destruct (Req_EM_T 1 2); [lra|]. destruct (Req_EM_T 1 3); [lra|]. destruct (Req_EM_T 1 1); [reflexivity|lra].
Qed.
Lemma sgn_pos a : 0 <= a -> sgn a = 1.
Proof. intro H. unfold sgn. destruct (Rle_dec 0 a); [reflexivity|lra]. Qed.
Lemma sgn_neg a : a < 0 -> sgn a = -1.
Proof. intro H. unfold sgn. destruct (Rle_dec 0 a); [lra|reflexivity]. Qed.
Lemma ineq_in b lo hi : lo <= b -> b <= hi -> ineqR b lo hi = 1.
Proof. intros. unfold ineqR. destruct (Rle_dec lo b); [|lra]. destruct (Rle_dec b hi); [reflexivity|lra]. Qed.
Lemma ineq_below b lo hi : b < lo -> ineqR b lo hi = 0.
Proof. intros. unfold ineqR. destruct (Rle_dec lo b); [lra|reflexivity]. Qed.
Lemma ineq_above b lo hi : hi < b -> ineqR b lo hi = 0.
Proof. intros. unfold ineqR. destruct (Rle_dec lo b); [|reflexivity]. destruct (Rle_dec b hi); [lra|reflexivity]. Qed.
Lemma ifR_1 t f : ifR 1 t f = t.
Proof. unfold ifR. destruct (Req_EM_T 1 1); [reflexivity|lra]. Qed.
Lemma ifR_0 t f : ifR 0 t f = f.
Proof. unfold ifR. destruct (Req_EM_T 0 1); [lra|reflexivity]. Qed.
Lemma asin_mid x : -1 < x -> x < 1 -> asin x = atan (x / sqrt (1 - x * x)).
Proof. intros. unfold asin. destruct (Rle_dec x (-1)); [lra|]. destruct (Rle_dec 1 x); [lra|]. reflexivity. Qed.
Lemma acos_mid x : -1 < x -> x < 1 -> acos x = PI / 2 - atan (x / sqrt (1 - x * x)).
Proof. intros. unfold acos. destruct (Rle_dec x (-1)); [lra|]. destruct (Rle_dec 1 x); [lra|]. reflexivity. Qed.

(* conditional constraints: the first true condition selects the branch *)
Lemma cond_select_first {A} env c (a : A) r : evalR env c = 1 -> cond_select env ((Some c, a) :: r) = Some a.
Proof. intro H. cbn [cond_select]. destruct (Req_EM_T (evalR env c) 1); [reflexivity|contradiction]. Qed.
Lemma cond_select_skip {A} env c (a : A) r : evalR env c <> 1 -> cond_select env ((Some c, a) :: r) = cond_select env r.
Proof. intro H. cbn [cond_select]. destruct (Req_EM_T (evalR env c) 1); [contradiction|reflexivity]. Qed.
Lemma cond_select_else {A} env (a : A) r : cond_select env ((None, a) :: r) = Some a.
Proof. reflexivity. Qed.

Theorem conditional_selects_first_true {A} env (brs : list (option (expr rleaf) * A)) pre c a post :
  brs = pre ++ (Some c, a) :: post ->
  (forall c' a', In (Some c', a') pre -> evalR env c' <> 1) ->
  (forall a', ~ In (None, a') pre) ->
  evalR env c = 1 -> cond_select env brs = Some a.
Proof.
  intros -> Hpre Hnone Hc. induction pre as [|[[c'|] a'] pre IH]; cbn [app].
  - apply cond_select_first; exact Hc.
  - rewrite cond_select_skip.
    + apply IH; intros; [eapply Hpre; right; eassumption|intro; eapply Hnone; right; eassumption].
    + eapply Hpre; left; reflexivity.
  - exfalso. eapply Hnone. left. reflexivity.
Qed.

(* ---------- reference counting ------------------------------------------------ *)
Local Open Scope nat_scope.

Definition Inv (s : mstate) : Prop :=
  forall l, refc s l = count_refs l (live s) /\ (cobj s l = true <-> 0 < refc s l).

Lemma fold_incr_live ls s : live (fold_left incr ls s) = live s.
Proof. revert s; induction ls as [|x ls IH]; intro s; simpl; [reflexivity|rewrite IH; reflexivity]. Qed.
Lemma fold_decr_live ls s : live (fold_left decr ls s) = live s.
Proof. revert s; induction ls as [|x ls IH]; intro s; simpl; [reflexivity|rewrite IH; reflexivity]. Qed.

Definition inb (l : nat) (ls : list nat) : bool := existsb (Nat.eqb l) ls.

Lemma inb_In l ls : inb l ls = true <-> In l ls.
Proof.
  unfold inb. rewrite existsb_exists. split.
  - intros [x [Hx He]]. apply Nat.eqb_eq in He. subst. exact Hx.
  - intro H. exists l. split; [exact H|apply Nat.eqb_refl].
Qed.

Lemma fold_incr_refc ls : NoDup ls -> forall s l,
  refc (fold_left incr ls s) l = refc s l + (if inb l ls then 1 else 0) /\
  ((cobj s l = true <-> 0 < refc s l) -> (cobj (fold_left incr ls s) l = true <-> 0 < refc (fold_left incr ls s) l)).
Proof.
  induction 1 as [|x ls Hx Hnd IH]; intros s l; cbn [fold_left].
  - unfold inb; simpl. split; [lia|tauto].
  - destruct (IH (incr s x) l) as [IH1 IH2]. split.
    + rewrite IH1. unfold inb in *. cbn [existsb incr refc].
      destruct (Nat.eqb_spec l x) as [->|Hne]; cbn [orb].
      * assert (Hn : existsb (Nat.eqb x) ls = false).
        { destruct (existsb (Nat.eqb x) ls) eqn:E; [|reflexivity]. exfalso. apply Hx. apply inb_In. exact E. }
        rewrite Hn. lia.
      * reflexivity.
    + intro Hc. apply IH2. cbn [incr cobj refc].
      destruct (Nat.eqb_spec l x) as [->|Hne]; [|exact Hc].
      destruct (Nat.eqb_spec (refc s x) 0) as [Hz|Hz]; split; intro; try lia; try reflexivity.
      apply Hc. lia.
Qed.

Lemma fold_decr_refc ls : NoDup ls -> forall s l,
  refc (fold_left decr ls s) l = refc s l - (if inb l ls then 1 else 0) /\
  ((cobj s l = true <-> 0 < refc s l) -> (cobj (fold_left decr ls s) l = true <-> 0 < refc (fold_left decr ls s) l)).
Proof.
  induction 1 as [|x ls Hx Hnd IH]; intros s l; cbn [fold_left].
  - unfold inb; simpl. split; [lia|tauto].
  - destruct (IH (decr s x) l) as [IH1 IH2]. split.
    + rewrite IH1. unfold inb in *. cbn [existsb decr refc].
      destruct (Nat.eqb_spec l x) as [->|Hne]; cbn [orb].
      * assert (Hn : existsb (Nat.eqb x) ls = false).
        { destruct (existsb (Nat.eqb x) ls) eqn:E; [|reflexivity]. exfalso. apply Hx. apply inb_In. exact E. }
        rewrite Hn. lia.
      * reflexivity.
    + intro Hc. apply IH2. cbn [decr cobj refc].
      destruct (Nat.eqb_spec l x) as [->|Hne]; [|exact Hc].
      destruct (Nat.eqb_spec (refc s x - 1) 0) as [Hz|Hz]; split; intro; try lia; try discriminate.
      apply Hc. lia.
Qed.

Lemma count_refs_cons l c ls lv : count_refs l ((c, ls) :: lv) = (if inb l ls then 1 else 0) + count_refs l lv.
Proof. unfold count_refs, refs, inb. cbn [filter snd]. destruct (existsb (Nat.eqb l) ls); reflexivity. Qed.

Lemma count_refs_del l c lv ls :
  NoDup (map fst lv) -> find_con c lv = Some ls ->
  count_refs l (del_con c lv) = count_refs l lv - (if inb l ls then 1 else 0).
Proof.
  induction lv as [|[c' ls'] lv IH]; intros Hnd Hf; cbn [find_con del_con] in *; [discriminate|].
  destruct (Nat.eqb_spec c c') as [->|Hne].
  - injection Hf as ->. rewrite count_refs_cons. lia.
  - rewrite !count_refs_cons. inversion Hnd; subst. rewrite IH by assumption.
    assert (Hin : In (c, ls) lv).
    { clear -Hf. induction lv as [|[c2 l2] lv IH]; cbn [find_con] in Hf; [discriminate|].
      destruct (Nat.eqb_spec c c2) as [->|]; [injection Hf as ->; left; reflexivity|right; auto]. }
    assert (Hge : (if inb l ls then 1 else 0) <= count_refs l lv).
    { destruct (inb l ls) eqn:E; [|lia]. unfold count_refs.
      assert (In (c, ls) (filter (refs l) lv)) by (apply filter_In; split; [exact Hin|exact E]).
      destruct (filter (refs l) lv); [contradiction|simpl; lia]. }
    lia.
Qed.

Definition LiveOK (s : mstate) : Prop := NoDup (map fst (live s)) /\ forall c ls, In (c, ls) (live s) -> NoDup ls.

Lemma find_con_In c lv ls : find_con c lv = Some ls -> In (c, ls) lv.
Proof.
  induction lv as [|[c2 l2] lv IH]; cbn [find_con]; [discriminate|].
  destruct (Nat.eqb_spec c c2) as [->|]; [intro H; injection H as ->; left; reflexivity|right; auto].
Qed.

Lemma del_con_subset c lv x : In x (del_con c lv) -> In x lv.
Proof.
  induction lv as [|[c2 l2] lv IH]; cbn [del_con]; [tauto|].
  destruct (Nat.eqb c c2); [right; assumption|]. intros [H|H]; [left; exact H|right; auto].
Qed.
Lemma del_con_nodup c lv : NoDup (map fst lv) -> NoDup (map fst (del_con c lv)).
Proof.
  induction lv as [|[c2 l2] lv IH]; cbn [del_con map fst]; intro H; [constructor|].
  inversion H; subst. destruct (Nat.eqb c c2); [assumption|]. cbn [map fst]. constructor; [|auto].
  intro Hin. apply H2. apply in_map_iff in Hin. destruct Hin as [[a b] [E Hin]]. simpl in E. subst.
  apply in_map_iff. exists (c2, b). split; [reflexivity|eapply del_con_subset; eassumption].
Qed.

Lemma mstep_inv s o :
  Inv s -> LiveOK s ->
  match o with Reg c ls => ~ In c (map fst (live s)) /\ NoDup ls | Rem _ => True end ->
  Inv (mstep s o) /\ LiveOK (mstep s o).
Proof.
  intros HI [Hnd Hls] Hpre. destruct o as [c ls|c]; cbn [mstep].
  - destruct Hpre as [Hc Hl]. split.
    + intro l. cbn [live refc cobj]. destruct (fold_incr_refc ls Hl s l) as [H1 H2]. destruct (HI l) as [HI1 HI2].
      rewrite fold_incr_live. rewrite count_refs_cons. split; [rewrite H1, HI1; lia|apply H2; exact HI2].
    + split; cbn [live]; rewrite fold_incr_live; cbn [map fst].
      * constructor; assumption.
      * intros c' ls' [E|Hin]; [injection E as <- <-; exact Hl|eapply Hls; eassumption].
  - destruct (find_con c (live s)) as [ls|] eqn:Hf; [|split; [exact HI|split; assumption]].
    assert (Hl : NoDup ls) by (eapply Hls; eapply find_con_In; eassumption).
    split.
    + intro l. cbn [live refc cobj]. destruct (fold_decr_refc ls Hl s l) as [H1 H2]. destruct (HI l) as [HI1 HI2].
      rewrite fold_decr_live. rewrite (count_refs_del l c (live s) ls Hnd Hf).
      split; [rewrite H1, HI1; reflexivity|apply H2; exact HI2].
    + split; cbn [live]; rewrite fold_decr_live.
      * apply del_con_nodup; assumption.
      * intros c' ls' Hin. eapply Hls. eapply del_con_subset. eassumption.
Qed.

(* every reachable state: induction over the operation history *)
Fixpoint hist_ok (s : mstate) (ops : list mop) : Prop :=
  match ops with
  | [] => True
  | o :: r => match o with Reg c ls => ~ In c (map fst (live s)) /\ NoDup ls | Rem _ => True end /\ hist_ok (mstep s o) r
  end.

Theorem refcount_inv ops : forall s, Inv s -> LiveOK s -> hist_ok s ops -> Inv (fold_left mstep ops s).
Proof.
  induction ops as [|o ops IH]; intros s HI HL Hh; cbn [fold_left]; [exact HI|].
  destruct Hh as [Hpre Hr]. destruct (mstep_inv s o HI HL Hpre) as [HI' HL']. apply IH; assumption.
Qed.

Lemma inv_m0 : Inv m0 /\ LiveOK m0.
Proof. split; [intro l; cbn; split; [reflexivity|split; [discriminate|lia]]|split; cbn; [constructor|tauto]]. Qed.

Corollary refcount_from_empty ops l :
  hist_ok m0 ops ->
  let s := fold_left mstep ops m0 in
  refc s l = count_refs l (live s) /\ (cobj s l = true <-> 0 < count_refs l (live s)).
Proof.
  intros Hh s. destruct inv_m0 as [HI HL]. destruct (refcount_inv ops m0 HI HL Hh l) as [H1 H2].
  fold s in H1, H2. split; [exact H1|rewrite <- H1; exact H2].
Qed.

(* non-vacuity: a concrete history with a shared leaf, a removal and a re-registration *)
Example hist_example :
  hist_ok m0 [Reg 0 [10; 11; 12]; Reg 1 [11; 13]; Rem 0; Reg 2 [10; 13]] /\
  let s := fold_left mstep [Reg 0 [10; 11; 12]; Reg 1 [11; 13]; Rem 0; Reg 2 [10; 13]] m0 in
  (refc s 11, refc s 12, refc s 13, cobj s 12, cobj s 10) = (1, 0, 2, false, true).
Proof.
  split; [|vm_compute; reflexivity].
  cbn. repeat split; try (repeat constructor; cbn; intuition (try discriminate; try lia)); cbn; intuition lia.
Qed.
