(* C18 -- property theorems only. *)
From Coq Require Import List Bool Arith.
From WNTRV Require Import C09.Model C09.Proofs C18.Model C18.Proofs C18.Total.

(* every labelling the correspondence check accepts assigns positive segment numbers, and two elements (nodes or links)
   share a segment exactly when they can be joined without passing a valve *)
Theorem C18_labels_exact : forall inc elts lab,
  labels_ok inc elts lab = true ->
  forall x, In x elts -> 0 < lab x /\ forall y, In y elts -> (lab y = lab x <-> joinable inc x y).
Proof. exact labels_exact. Qed.
Theorem C18_component_exact : forall inc elts x S,
  component inc elts x = Some S -> forall y, In y S <-> joinable inc x y.
Proof. exact component_exact. Qed.
(* the component computation always answers (its fuel suffices) when the uncut incidences join listed elements: the two theorems above are
   never vacuous *)
Theorem C18_component_total : forall inc elts x, (forall s e, In (s, e, true) inc -> In s elts /\ In e elts) -> exists S, component inc elts x = Some S.
Proof. exact component_total. Qed.
Print Assumptions C18_labels_exact.
Print Assumptions C18_component_total.
Print Assumptions C18_component_exact.
