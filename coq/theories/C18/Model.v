(* C18 -- valve segmentation = connected components of the incidence graph between links and their end nodes,
   where the incidence (link l, node n) is cut iff a valve sits on l at n.  Elements are numbered: nodes 0..N-1,
   link i is element N+i.  The graph machinery (closure, closedness, reach) is the one of C09. *)
From Coq Require Import QArith Qabs List Bool Arith.
From WNTRV Require Import C09.Model.
Import ListNotations.
Local Open Scope nat_scope.

(* links: (start node, end node); valves: (link index, node) *)
Definition has_valve (valves : list (nat * nat)) (l n : nat) : bool :=
  existsb (fun v => Nat.eqb (fst v) l && Nat.eqb (snd v) n) valves.
Definition incidence (N : nat) (links : list (nat * nat)) (valves : list (nat * nat)) : list glink :=
  let fix go (ls : list (nat * nat)) (i : nat) : list glink :=
    match ls with
    | [] => []
    | (s, e) :: r => (N + i, s, negb (has_valve valves i s)) :: (N + i, e, negb (has_valve valves i e)) :: go r (S i)
    end in go links 0.
Definition elements (N : nat) (links : list (nat * nat)) : list nat := seq 0 (N + length links).

(* component of x: everything joinable with x without passing a valve (None: fuel insufficient; checked per case) *)
Definition component (inc : list glink) (elts : list nat) (x : nat) : option (list nat) :=
  let cs := iter inc elts (length elts) [x] in if closedb inc cs then Some cs else None.

(* the implementation's labelling `lab` is exactly the partition into components, with positive labels *)
Definition labels_ok (inc : list glink) (elts : list nat) (lab : nat -> nat) : bool :=
  forallb (fun x => Nat.ltb 0 (lab x) &&
     match component inc elts x with
     | Some cs => forallb (fun y => Bool.eqb (memb y cs) (Nat.eqb (lab y) (lab x))) elts
     | None => false
     end) elts.
Definition lab_of (l : list nat) : nat -> nat := fun x => nth x l 0.

(* segment sizes: (label, #links, #nodes) *)
Definition count_lab (lab : nat -> nat) (xs : list nat) (k : nat) : nat := length (filter (fun x => Nat.eqb (lab x) k) xs).
Definition sizes_ok (N : nat) (links : list (nat * nat)) (lab : nat -> nat) (sizes : list (nat * nat * nat)) : bool :=
  forallb (fun r => match r with (k, nl, nn) =>
     Nat.eqb (count_lab lab (seq N (length links)) k) nl && Nat.eqb (count_lab lab (seq 0 N) k) nn end) sizes &&
  forallb (fun x => existsb (fun r => Nat.eqb (fst (fst r)) (lab x)) sizes) (seq 0 (N + length links)).

(* valve attributes.  valve i = (link, node); the two segments it separates: label of its node and of its link *)
Definition num_surround (N : nat) (links : list (nat * nat)) (valves : list (nat * nat)) (lab : nat -> nat) (v : nat * nat) : nat :=
  let ns := lab (snd v) in let ls := lab (N + fst v) in
  if Nat.eqb ns ls then 0
  else length (filter (fun w => let lw := lab (N + fst w) in let nw := lab (snd w) in
                                Nat.eqb lw ls || Nat.eqb lw ns || Nat.eqb nw ls || Nat.eqb nw ns) valves) - 1.
Local Open Scope Q_scope.
Definition sum_where (lab : nat -> nat) (xs : list nat) (w : nat -> Q) (k : nat) : Q :=
  fold_right (fun x a => if Nat.eqb (lab x) k then w x + a else a) 0 xs.
Definition increase (a b : Q) : Q := if Qeq_bool a 0 && Qeq_bool b 0 then 0 else (a + b) / (if Qle_bool a b then b else a) - 1.
Definition demand_increase (N : nat) (lab : nat -> nat) (dem : nat -> Q) (v : nat * nat) : Q :=
  let ns := lab (snd v) in let ls := lab (N + fst v)%nat in
  if Nat.eqb ns ls then 0 else increase (sum_where lab (seq 0 N) dem ls) (sum_where lab (seq 0 N) dem ns).
Definition length_increase (N : nat) (nl : nat) (lab : nat -> nat) (len : nat -> Q) (v : nat * nat) : Q :=
  let ns := lab (snd v) in let ls := lab (N + fst v)%nat in
  if Nat.eqb ns ls then 0 else increase (sum_where lab (seq N nl) (fun x => len (x - N)%nat) ls) (sum_where lab (seq N nl) (fun x => len (x - N)%nat) ns).
Definition closeQ (a b : Q) : bool := Qle_bool (Qabs (a - b)) (1 # 1000000000).
