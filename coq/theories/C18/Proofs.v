From Coq Require Import List Bool Arith Lia.
From WNTRV Require Import C09.Model C09.Proofs C18.Model.
Import ListNotations.

(* joinable without passing a valve = reach in the incidence graph from x *)
Definition joinable (inc : list glink) (x y : nat) : Prop := reach inc [x] y.

Lemma component_exact inc elts x S :
  component inc elts x = Some S -> forall y, In y S <-> joinable inc x y.
Proof.
  unfold component. destruct (closedb inc (iter inc elts (length elts) [x])) eqn:Hc; [|discriminate].
  intro H. injection H as <-. intro y. split.
  - intro Hy. eapply iter_sound; [|exact Hy]. intros v Hv. apply reach_src. exact Hv.
  - intro Hr. eapply closed_complete; [exact Hc| |exact Hr]. intros s Hs. apply iter_incl. exact Hs.
Qed.

(* a labelling accepted by labels_ok is exactly the partition induced by the valve layer, with positive labels *)
Theorem labels_exact inc elts lab :
  labels_ok inc elts lab = true ->
  forall x, In x elts -> 0 < lab x /\ forall y, In y elts -> (lab y = lab x <-> joinable inc x y).
Proof.
  unfold labels_ok. rewrite forallb_forall. intros H x Hx. specialize (H x Hx).
  apply andb_true_iff in H. destruct H as [Hp H]. apply Nat.ltb_lt in Hp. split; [exact Hp|].
  destruct (component inc elts x) as [S|] eqn:Hc; [|discriminate].
  rewrite forallb_forall in H. intros y Hy. specialize (H y Hy). apply eqb_prop in H.
  rewrite <- (component_exact inc elts x S Hc y). rewrite <- memb_In. rewrite H. symmetry. apply Nat.eqb_eq.
Qed.

Example seg_example :
  (* A -p0- B -p1- C, valve on p1 at B: {A, p0, B} and {p1, C} *)
  let inc := incidence 3 [(0, 1); (1, 2)] [(1, 1)] in
  labels_ok inc (elements 3 [(0, 1); (1, 2)]) (lab_of [1; 1; 2; 1; 2]) = true /\
  labels_ok inc (elements 3 [(0, 1); (1, 2)]) (lab_of [1; 1; 1; 1; 1]) = false.
Proof. split; vm_compute; reflexivity. Qed.
