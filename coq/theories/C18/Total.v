From Coq Require Import List Bool Arith Lia.
From WNTRV Require Import C09.Model C09.Proofs C09.Total C18.Model.
Import ListNotations.
(* the component computation always answers when the uncut incidences join listed elements: C18_component_exact / C18_labels_exact are never vacuous *)
Theorem component_total inc elts x : (forall s e, In (s, e, true) inc -> In s elts /\ In e elts) -> exists S, component inc elts x = Some S.
Proof.
  intro H. unfold component. rewrite (enough_fuel inc elts H (length elts) [x]) by lia. eexists. reflexivity.
Qed.
