From Coq Require Import ZArith List Bool Arith Lia Sorted.
From WNTRV Require Import C16.Model.
Import ListNotations.

Inductive prefix {A} : list A -> list A -> Prop :=
  | pre_nil l : prefix [] l
  | pre_cons x a b : prefix a b -> prefix (x :: a) (x :: b).

(* whatever the fault sequence: the reported times are a prefix of the fault-free reported times *)
Lemma run_steps_prefix backup fails mt steps : forall i,
  prefix (fst (run_steps backup fails mt steps i)) (reported_times steps).
Proof.
  induction steps as [|s r IH]; intro i; cbn [run_steps reported_times filter map fst]; [constructor|].
  destruct (do_solves backup fails mt (s_solves s) i 0) as [ok i'].
  destruct ok; [|constructor].
  specialize (IH i'). destruct (run_steps backup fails mt r i') as [ts ok'].
  cbn [fst] in *. destruct (s_report s); cbn [map]; [constructor|]; exact IH.
Qed.

Theorem failure_prefix backup conv_err fails mt steps :
  prefix (snd (outcome backup conv_err fails mt steps)) (reported_times steps).
Proof.
  unfold outcome. pose proof (run_steps_prefix backup fails mt steps 0) as H.
  destruct (run_steps backup fails mt steps 0) as [ts ok]. cbn [fst] in H.
  destruct ok; cbn [snd]; [exact H|]. destruct conv_err; cbn [snd]; [constructor|exact H].
Qed.

(* a failed step always shows: RuntimeError with convergence_error, otherwise warning + error_code; never Completed *)
Theorem failure_reported backup conv_err fails mt steps :
  snd (run_steps backup fails mt steps 0) = false ->
  fst (outcome backup conv_err fails mt steps) = (if conv_err then Raised else Warned).
Proof.
  unfold outcome. destruct (run_steps backup fails mt steps 0) as [ts ok]. cbn [snd]. intros ->.
  destruct conv_err; reflexivity.
Qed.

(* no fault and a sufficient trial limit: the run completes with every reported time *)
Lemma do_solves_nofault backup fails mt n : forall i trial,
  (forall k, fails k = false) -> (trial + n <= S mt)%nat -> do_solves backup fails mt n i trial = (true, (i + n)%nat).
Proof.
  induction n as [|n IH]; intros i trial Hf Hm; cbn [do_solves]; [rewrite Nat.add_0_r; reflexivity|].
  unfold attempt. rewrite Hf. cbn [negb]. destruct n as [|n'].
  - f_equal. lia.
  - destruct (Nat.ltb_spec mt (S trial)); [lia|]. rewrite IH by (assumption || lia). f_equal. lia.
Qed.

Theorem no_fault_completes backup conv_err fails mt steps :
  (forall k, fails k = false) -> (forall s, In s steps -> (s_solves s <= S mt)%nat) ->
  outcome backup conv_err fails mt steps = (Completed, reported_times steps).
Proof.
  intros Hf Hm. unfold outcome.
  assert (H : forall i, run_steps backup fails mt steps i = (reported_times steps, true)).
  { induction steps as [|s r IH]; intro i; cbn [run_steps reported_times filter map]; [reflexivity|].
    rewrite do_solves_nofault by (try assumption; cbn; apply Hm; left; reflexivity).
    rewrite IH by (intros; apply Hm; right; assumption).
    destruct (s_report s); reflexivity. }
  rewrite H. reflexivity.
Qed.

(* strictly increasing step times give a strictly increasing reported index *)
Lemma prefix_sorted (a b : list Z) : prefix a b -> StronglySorted Z.lt b -> StronglySorted Z.lt a.
Proof.
  induction 1 as [l|x a b Hp IH]; intro Hs; [constructor|].
  inversion Hs as [|? ? Hs' Hall]; subst. constructor; [apply IH; exact Hs'|].
  clear -Hp Hall. induction Hp as [l|y a b Hp IH]; [constructor|].
  inversion Hall; subst. constructor; [assumption|apply IH; assumption].
Qed.
Lemma filter_sorted (f : step -> bool) steps :
  StronglySorted Z.lt (map s_time steps) -> StronglySorted Z.lt (map s_time (filter f steps)).
Proof.
  induction steps as [|s r IH]; cbn [filter map]; intro H; [constructor|].
  inversion H as [|? ? Hs Hall]; subst. destruct (f s); cbn [map]; [|apply IH; exact Hs].
  constructor; [apply IH; exact Hs|].
  clear -Hall. induction r as [|s' r IH]; cbn [filter map]; [constructor|].
  cbn [map] in Hall. inversion Hall; subst. destruct (f s'); cbn [map]; [constructor; [assumption|]|]; apply IH; assumption.
Qed.
Theorem time_index_strict backup conv_err fails mt steps :
  StronglySorted Z.lt (map s_time steps) ->
  StronglySorted Z.lt (snd (outcome backup conv_err fails mt steps)).
Proof.
  intro H. eapply prefix_sorted; [apply failure_prefix|]. unfold reported_times. apply filter_sorted. exact H.
Qed.

Example fault_example :
  (* 3 steps, the second needs 2 solves; the 3rd solver call (first solve of step 3) fails, no backup *)
  outcome false false (fails_of [3%nat]) 40
     [{| s_time := 0; s_solves := 1; s_report := true |}; {| s_time := 3600; s_solves := 2; s_report := true |};
      {| s_time := 7200; s_solves := 1; s_report := true |}]%Z = (Warned, [0; 3600]%Z).
Proof. vm_compute. reflexivity. Qed.
