(* C16 -- property theorems only. *)
From Coq Require Import ZArith List Bool Sorted.
From WNTRV Require Import C16.Model C16.Proofs.

Theorem C16_failure_prefix : forall backup conv_err fails mt steps,
  prefix (snd (outcome backup conv_err fails mt steps)) (reported_times steps).
Proof. exact failure_prefix. Qed.
Theorem C16_failure_reported : forall backup conv_err fails mt steps,
  snd (run_steps backup fails mt steps 0) = false ->
  fst (outcome backup conv_err fails mt steps) = (if conv_err then Raised else Warned).
Proof. exact failure_reported. Qed.
Theorem C16_no_fault_completes : forall backup conv_err fails mt steps,
  (forall k, fails k = false) -> (forall s, In s steps -> (s_solves s <= S mt)%nat) ->
  outcome backup conv_err fails mt steps = (Completed, reported_times steps).
Proof. exact no_fault_completes. Qed.
Theorem C16_time_index_strict : forall backup conv_err fails mt steps,
  StronglySorted Z.lt (map s_time steps) ->
  StronglySorted Z.lt (snd (outcome backup conv_err fails mt steps)).
Proof. exact time_index_strict. Qed.
Print Assumptions C16_failure_prefix.
Print Assumptions C16_failure_reported.
Print Assumptions C16_no_fault_completes.
Print Assumptions C16_time_index_strict.
