(* C16 -- the step/solve/trial skeleton of run_sim under an explicit fault sequence.
   A step of the fault-free run needs `s_solves` solver calls (1 + number of re-solves forced by postsolve controls).
   `fails i` says whether the i-th call of _solver_helper reports an error; with a backup solver a failed primary call is
   followed by one backup call.  Outputs: reported times, and how the run ended. *)
From Coq Require Import ZArith List Bool Arith.
Import ListNotations.

Inductive ending := Completed | Warned | Raised.
Record step := { s_time : Z; s_solves : nat; s_report : bool }.

(* one solve (core.py 1287-1298): returns (solved?, next call index) *)
Definition attempt (backup : bool) (fails : nat -> bool) (i : nat) : bool * nat :=
  if fails i then (if backup then (negb (fails (S i)), S (S i)) else (false, S i)) else (true, S i).

(* the solves of one step: after each solve but the last the postsolve controls force a re-solve: trial += 1,
   and trial > max_trials ends the run (core.py 1310-1325) *)
Fixpoint do_solves (backup : bool) (fails : nat -> bool) (max_trials : nat) (n : nat) (i trial : nat) : bool * nat :=
  match n with
  | O => (true, i)
  | S k =>
    let '(ok, i') := attempt backup fails i in
    if negb ok then (false, i')
    else match k with
         | O => (true, i')
         | S _ => if Nat.ltb max_trials (S trial) then (false, i') else do_solves backup fails max_trials k i' (S trial)
         end
  end.

Fixpoint run_steps (backup : bool) (fails : nat -> bool) (max_trials : nat) (steps : list step) (i : nat) : list Z * bool :=
  match steps with
  | [] => ([], true)
  | s :: r =>
    let '(ok, i') := do_solves backup fails max_trials (s_solves s) i 0 in
    if ok then
      let '(ts, ok') := run_steps backup fails max_trials r i' in
      ((if s_report s then s_time s :: ts else ts), ok')
    else ([], false)
  end.

Definition outcome (backup conv_err : bool) (fails : nat -> bool) (max_trials : nat) (steps : list step) : ending * list Z :=
  let '(ts, ok) := run_steps backup fails max_trials steps 0 in
  if ok then (Completed, ts) else if conv_err then (Raised, []) else (Warned, ts).

Definition reported_times (steps : list step) : list Z :=
  map s_time (filter s_report steps).

Fixpoint prefixb (a b : list Z) : bool :=
  match a, b with
  | [], _ => true
  | x :: r, y :: s => Z.eqb x y && prefixb r s
  | _, _ => false
  end.
Fixpoint increasingb (l : list Z) : bool :=
  match l with
  | x :: ((y :: _) as r) => Z.ltb x y && increasingb r
  | _ => true
  end.
Definition on_grid (step : Z) (l : list Z) : bool := forallb (fun t => Z.eqb (t mod step) 0) l.
Definition ending_eqb (a b : ending) : bool :=
  match a, b with Completed, Completed | Warned, Warned | Raised, Raised => true | _, _ => false end.
Fixpoint zlist_eqb (a b : list Z) : bool :=
  match a, b with [], [] => true | x :: r, y :: s => Z.eqb x y && zlist_eqb r s | _, _ => false end.
Definition fails_of (l : list nat) : nat -> bool := fun i => existsb (Nat.eqb i) l.
