(* C11 -- property theorems only. *)
From Coq Require Import String List Bool.
From WNTRV Require Import Gen.SimWrites C11.Model C11.Proofs.
Import ListNotations.
Local Open Scope string_scope.

Theorem C11_sim_frame : forall V (writes reads : list string),
  disjointb writes reads = true ->
  forall (ops : list (string * V)) (s : string -> V),
    (forall o, In o ops -> In (fst o) writes) -> forall k, In k reads -> run_writes V ops s k = s k.
Proof. exact frame. Qed.
Theorem C11_reset_covers_sim_writes : subsetb sim_writes reset_writes = true.
Proof. exact reset_covers_sim_writes. Qed.
Theorem C11_reset_covers_action_targets : subsetb (map action_target ["status"; "setting"; "leak_status"]) reset_writes = true.
Proof. exact reset_covers_action_targets. Qed.
(* known finding: ControlAction(pump, 'base_speed', v) writes the definition itself and reset does not restore it *)
Theorem C11_action_on_definition_attribute_refuted : action_target "base_speed" = "base_speed" /\ smemb "base_speed" reset_writes = false.
Proof. exact action_on_definition_attribute_refuted. Qed.
Print Assumptions C11_sim_frame.
Print Assumptions C11_reset_covers_sim_writes.
Print Assumptions C11_action_on_definition_attribute_refuted.
