From Coq Require Import String List Bool.
From WNTRV Require Import Gen.SimWrites C11.Model.
Import ListNotations.
Local Open Scope string_scope.

Lemma smemb_In x l : smemb x l = true <-> In x l.
Proof.
  unfold smemb. rewrite existsb_exists. split.
  - intros [y [Hy He]]. apply String.eqb_eq in He. subst. exact Hy.
  - intro H. exists x. split; [exact H|apply String.eqb_refl].
Qed.

(* frame: a history of writes to attributes disjoint from the read set leaves every read attribute unchanged,
   hence the dictionary (a function of the read attributes) is the same before and after *)
Theorem frame V (writes reads : list string) :
  disjointb writes reads = true ->
  forall (ops : list (string * V)) (s : string -> V),
    (forall o, In o ops -> In (fst o) writes) ->
    forall k, In k reads -> run_writes V ops s k = s k.
Proof.
  intros Hd ops. unfold run_writes. induction ops as [|o ops IH]; intros s Hops k Hk; cbn [fold_left]; [reflexivity|].
  rewrite IH; [|intros; apply Hops; right; assumption|exact Hk].
  unfold upd. destruct (String.eqb_spec k (fst o)) as [E|E]; [|reflexivity].
  exfalso. unfold disjointb in Hd. rewrite forallb_forall in Hd.
  assert (Hw : In (fst o) writes) by (apply Hops; left; reflexivity).
  specialize (Hd _ Hw). apply negb_true_iff in Hd.
  assert (smemb (fst o) reads = true) by (apply smemb_In; rewrite <- E; exact Hk). congruence.
Qed.

(* everything the simulation and the standard control actions write is re-initialised by reset_initial_values *)
Lemma reset_covers_sim_writes : subsetb sim_writes reset_writes = true.
Proof. vm_compute. reflexivity. Qed.
Lemma reset_covers_action_targets : subsetb (map action_target ["status"; "setting"; "leak_status"]) reset_writes = true.
Proof. vm_compute. reflexivity. Qed.
(* a control action on any OTHER attribute writes that attribute itself: e.g. base_speed is a definition attribute *)
Lemma action_on_definition_attribute_refuted : action_target "base_speed" = "base_speed" /\ smemb "base_speed" reset_writes = false.
Proof. split; vm_compute; reflexivity. Qed.
