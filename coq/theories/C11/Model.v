(* C11 -- simulating never alters the model definition.
   The definition (dictionary) of an element is a function of the attributes that to_dict reads; the simulation is a
   history of assignments to attributes in `sim_writes` and to the targets of control actions (Gen/SimWrites.v, regenerated
   from hydraulics.py, core.py, model.py and controls.py). *)
From Coq Require Import String List Bool.
From WNTRV Require Import Gen.SimWrites.
Import ListNotations.
Local Open Scope string_scope.

Definition smemb (x : string) (l : list string) : bool := existsb (String.eqb x) l.
Definition disjointb (a b : list string) : bool := forallb (fun x => negb (smemb x b)) a.
Definition subsetb (a b : list string) : bool := forallb (fun x => smemb x b) a.

(* a dictionary key k is produced from attribute k, which may be a property backed by _k *)
Definition reads_of (keys : list string) : list string := keys ++ map (fun k => "_" ++ k) keys.

(* ControlAction.run_control_action writes setattr(target, _private_attribute) *)
Fixpoint lookup (k : string) (m : list (string * string)) : option string :=
  match m with [] => None | (a, b) :: r => if String.eqb k a then Some b else lookup k r end.
Definition action_target (attr : string) : string := match lookup attr action_map with Some p => p | None => attr end.

(* state of one element: attribute -> value; an assignment history *)
Section Frame.
  Variable V : Type.
  Definition upd (s : string -> V) (a : string) (v : V) : string -> V := fun k => if String.eqb k a then v else s k.
  Definition run_writes (ops : list (string * V)) (s : string -> V) : string -> V := fold_left (fun st o => upd st (fst o) (snd o)) ops s.
End Frame.
