(* C06 -- tank volume integration (update_tank_heads) and the partial time step that stops a tank at a level threshold
   (TankLevelCondition backtrack), cylindrical tanks; volume-curve tanks through a clamped piecewise-linear interpolation. *)
From Coq Require Import Reals ZArith Lra.
From Flocq Require Import Core.Raux.
Local Open Scope R_scope.

Definition area (d : R) : R := PI * d ^ 2 / 4.
Definition volume (d level : R) : R := area d * level.
(* update_tank_heads, cylindrical tank: h' = h_prev + 4 q dt / (pi d^2) *)
Definition new_head (h q dt d : R) : R := h + 4 * (q * dt) / (PI * d ^ 2).
(* TankLevelCondition: whole seconds to go back so that the level sits at the threshold *)
Definition backtrack (cur thr d q : R) : Z := Zfloor ((cur - thr) * PI / 4 * d ^ 2 / q).
(* level reached when the step is shortened by b seconds (flow q constant over the step) *)
Definition level_back (cur d q : R) (b : Z) : R := cur - IZR b * q / area d.
