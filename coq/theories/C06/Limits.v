(* C06 -- the level of a cylindrical tank over a whole run, as the time-stepping treats its minimum (maximum) level:
   while the level is above the minimum the step is integrated with the flow of the last solve; the step in which the level would
   reach the minimum is cut by the whole-second backtrack of the closing control (TankLevelCondition); once the level is at or below the
   minimum the tank's links are closed, which -- the assumption on the hydraulics, cf. C02 closed_zero_flow -- leaves no net outflow.
   Then the level never falls more than one second of the largest flow below the minimum; symmetrically for the maximum. *)
From Coq Require Import Reals ZArith Lra Lia.
From Flocq Require Import Core.Raux.
From WNTRV Require Import C06.Model C06.Proofs C05.Tank.
Local Open Scope R_scope.

Section Run.
Variables (d mn mx qmax : R).
Hypothesis Hd : 0 < d.
Hypothesis Hq : 0 <= qmax.

(* one solved step: level before, net inflow q of the last solve (|q| <= qmax), dt whole seconds, level after *)
Inductive step : R -> R -> Prop :=
| s_free L q dt : mn < L -> mn < level_after L q (IZR dt) d -> Rabs q <= qmax -> (0 < dt)%Z ->
    step L (level_after L q (IZR dt) d)                                                  (* stays above the minimum: full step *)
| s_cut L q dt : mn < L -> level_after L q (IZR dt) d <= mn -> q < 0 -> Rabs q <= qmax -> (0 < dt)%Z ->
    step L (level_back (level_after L q (IZR dt) d) d q (backtrack (level_after L q (IZR dt) d) mn d q))   (* cut at the crossing *)
| s_closed L q dt : L <= mn -> 0 <= q -> (0 < dt)%Z ->
    step L (level_after L q (IZR dt) d).                                                 (* links closed: no net outflow *)

Inductive reach (L0 : R) : R -> Prop :=
| r_init : reach L0 L0
| r_step L L' : reach L0 L -> step L L' -> reach L0 L'.

Lemma level_after_mono L q dt : 0 <= q -> 0 <= dt -> L <= level_after L q dt d.
Proof.
  intros H1 H2. unfold level_after. pose proof (area_pos d Hd).
  assert (0 <= q * dt / area d) by (apply Rmult_le_pos; [apply Rmult_le_pos; assumption|left; apply Rinv_0_lt_compat; assumption]). lra.
Qed.

Theorem min_level_invariant L0 L : mn <= L0 -> reach L0 L -> mn - qmax / area d < L \/ (mn - qmax / area d <= L /\ qmax = 0).
Proof.
  intros H0 Hr. pose proof (area_pos d Hd) as Ha.
  assert (Hbound : 0 <= qmax / area d) by (apply Rmult_le_pos; [exact Hq|left; apply Rinv_0_lt_compat; exact Ha]).
  induction Hr as [|L L' Hr IH Hs].
  - destruct (Req_dec qmax 0) as [E|N]; [right; split; [lra|exact E]|left].
    assert (0 < qmax / area d) by (apply Rdiv_lt_0_compat; lra). lra.
  - destruct Hs as [L q dt H1 H2 H3 H4|L q dt H1 H2 H3 H4 H5|L q dt H1 H2 H3].
    + left. lra.
    + left. destruct (backtrack_no_overshoot_falling (level_after L q (IZR dt) d) mn d q Hd H3 H2) as (_ & _ & Hlow).
      assert ((- q) / area d <= qmax / area d).
      { unfold Rdiv. apply Rmult_le_compat_r; [left; apply Rinv_0_lt_compat; exact Ha|]. rewrite <- (Rabs_left q) by exact H3. exact H4. }
      lra.
    + pose proof (level_after_mono L q (IZR dt) H2 ltac:(apply IZR_le; lia)). destruct IH as [IH|[IH E]]; [left; lra|right; split; [lra|exact E]].
Qed.

(* the symmetric statement for the maximum level *)
Inductive step_max : R -> R -> Prop :=
| m_free L q dt : L < mx -> level_after L q (IZR dt) d < mx -> Rabs q <= qmax -> (0 < dt)%Z -> step_max L (level_after L q (IZR dt) d)
| m_cut L q dt : L < mx -> mx <= level_after L q (IZR dt) d -> 0 < q -> Rabs q <= qmax -> (0 < dt)%Z ->
    step_max L (level_back (level_after L q (IZR dt) d) d q (backtrack (level_after L q (IZR dt) d) mx d q))
| m_closed L q dt : mx <= L -> q <= 0 -> (0 < dt)%Z -> step_max L (level_after L q (IZR dt) d).
Inductive reach_max (L0 : R) : R -> Prop :=
| rm_init : reach_max L0 L0
| rm_step L L' : reach_max L0 L -> step_max L L' -> reach_max L0 L'.

Theorem max_level_invariant L0 L : L0 <= mx -> reach_max L0 L -> L < mx + qmax / area d \/ (L <= mx + qmax / area d /\ qmax = 0).
Proof.
  intros H0 Hr. pose proof (area_pos d Hd) as Ha.
  assert (Hbound : 0 <= qmax / area d) by (apply Rmult_le_pos; [exact Hq|left; apply Rinv_0_lt_compat; exact Ha]).
  induction Hr as [|L L' Hr IH Hs].
  - destruct (Req_dec qmax 0) as [E|N]; [right; split; [lra|exact E]|left].
    assert (0 < qmax / area d) by (apply Rdiv_lt_0_compat; lra). lra.
  - destruct Hs as [L q dt H1 H2 H3 H4|L q dt H1 H2 H3 H4 H5|L q dt H1 H2 H3].
    + left. lra.
    + left. destruct (backtrack_no_overshoot_rising (level_after L q (IZR dt) d) mx d q Hd H3 H2) as (_ & _ & Hup).
      assert (q / area d <= qmax / area d).
      { unfold Rdiv. apply Rmult_le_compat_r; [left; apply Rinv_0_lt_compat; exact Ha|]. rewrite <- (Rabs_pos_eq q) by lra. exact H4. }
      lra.
    + assert (level_after L q (IZR dt) d <= L).
      { unfold level_after. assert (0 <= (- q) * IZR dt / area d).
        { apply Rmult_le_pos; [apply Rmult_le_pos; [lra|apply IZR_le; lia]|left; apply Rinv_0_lt_compat; exact Ha]. }
        replace (q * IZR dt / area d) with (- ((- q) * IZR dt / area d)) by (field; lra). lra. }
      destruct IH as [IH|[IH E]]; [left; lra|right; split; [lra|exact E]].
Qed.
End Run.
