(* C06 -- property theorems only. *)
From Coq Require Import Reals ZArith Lra.
From Flocq Require Import Core.Raux.
From WNTRV Require Import C06.Model C06.Proofs C05.Tank C06.Limits.
Local Open Scope R_scope.

Theorem C06_cyl_integration : forall h q dt d, 0 < d -> volume d (new_head h q dt d) - volume d h = q * dt.
Proof. exact cyl_integration. Qed.
Theorem C06_cyl_integration_steps : forall h q1 dt1 q2 dt2 d, 0 < d ->
  volume d (new_head (new_head h q1 dt1 d) q2 dt2 d) - volume d h = q1 * dt1 + q2 * dt2.
Proof. exact cyl_integration_steps. Qed.
(* thresholds (incl. min / max level) are met by a partial step: overshoot below one second of the tank's flow *)
Theorem C06_backtrack_no_overshoot_rising : forall cur thr d q,
  0 < d -> 0 < q -> thr <= cur ->
  let b := backtrack cur thr d q in
  (0 <= b)%Z /\ thr <= level_back cur d q b /\ level_back cur d q b < thr + q / area d.
Proof. exact backtrack_no_overshoot_rising. Qed.
Theorem C06_backtrack_no_overshoot_falling : forall cur thr d q,
  0 < d -> q < 0 -> cur <= thr ->
  let b := backtrack cur thr d q in
  (0 <= b)%Z /\ level_back cur d q b <= thr /\ thr - (- q) / area d < level_back cur d q b.
Proof. exact backtrack_no_overshoot_falling. Qed.
(* over a whole run: full steps above the minimum, the crossing step cut by the whole-second backtrack, no net outflow once the tank's
   links are closed (assumption on the hydraulics, cf. C02_closed_zero_flow): the level never falls more than one second of the largest
   flow below the minimum level; symmetrically above the maximum *)
Theorem C06_min_level_invariant : forall d mn qmax, 0 < d -> 0 <= qmax -> forall L0 L, mn <= L0 -> reach d mn qmax L0 L ->
  mn - qmax / area d < L \/ (mn - qmax / area d <= L /\ qmax = 0).
Proof. exact min_level_invariant. Qed.
Theorem C06_max_level_invariant : forall d mx qmax, 0 < d -> 0 <= qmax -> forall L0 L, L0 <= mx -> reach_max d mx qmax L0 L ->
  L < mx + qmax / area d \/ (L <= mx + qmax / area d /\ qmax = 0).
Proof. exact max_level_invariant. Qed.
(* non-vacuity: a tank of diameter 2 m at level 2 m losing 1 m3/s for 10 s crosses its minimum level 1 m: the cut step applies *)
Example C06_cut_step_applies : exists L', step 2 1 1 2 L'.
Proof.
  eexists. apply (s_cut 2 1 1 2 (-1) 10%Z); try lra; try reflexivity.
  - unfold level_after, area. pose proof PI_4 as H4. pose proof PI_RGT_0 as H0.
    assert (1 <= 10 / (PI * 2 ^ 2 / 4)).
    { apply (Rmult_le_reg_r (PI * 2 ^ 2 / 4)); [lra|]. field_simplify; lra. }
    replace (-1 * IZR 10 / (PI * 2 ^ 2 / 4)) with (- (10 / (PI * 2 ^ 2 / 4))) by (field; lra). lra.
  - rewrite Rabs_left by lra. lra.
Qed.
Print Assumptions C06_cyl_integration.
Print Assumptions C06_min_level_invariant.
Print Assumptions C06_max_level_invariant.
Print Assumptions C06_backtrack_no_overshoot_rising.
Print Assumptions C06_backtrack_no_overshoot_falling.
