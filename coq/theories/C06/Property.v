(* C06 -- property theorems only. *)
From Coq Require Import Reals ZArith.
From Flocq Require Import Core.Raux.
From WNTRV Require Import C06.Model C06.Proofs.
Local Open Scope R_scope.

Theorem C06_cyl_integration : forall h q dt d, 0 < d -> volume d (new_head h q dt d) - volume d h = q * dt.
Proof. exact cyl_integration. Qed.
Theorem C06_cyl_integration_steps : forall h q1 dt1 q2 dt2 d, 0 < d ->
  volume d (new_head (new_head h q1 dt1 d) q2 dt2 d) - volume d h = q1 * dt1 + q2 * dt2.
Proof. exact cyl_integration_steps. Qed.
(* thresholds (incl. min / max level) are met by a partial step: overshoot below one second of the tank's flow *)
Theorem C06_backtrack_no_overshoot_rising : forall cur thr d q,
  0 < d -> 0 < q -> thr <= cur ->
  let b := backtrack cur thr d q in
  (0 <= b)%Z /\ thr <= level_back cur d q b /\ level_back cur d q b < thr + q / area d.
Proof. exact backtrack_no_overshoot_rising. Qed.
Theorem C06_backtrack_no_overshoot_falling : forall cur thr d q,
  0 < d -> q < 0 -> cur <= thr ->
  let b := backtrack cur thr d q in
  (0 <= b)%Z /\ level_back cur d q b <= thr /\ thr - (- q) / area d < level_back cur d q b.
Proof. exact backtrack_no_overshoot_falling. Qed.
Print Assumptions C06_cyl_integration.
Print Assumptions C06_backtrack_no_overshoot_rising.
Print Assumptions C06_backtrack_no_overshoot_falling.
