From Coq Require Import Reals ZArith Lra.
From Flocq Require Import Core.Raux.
From WNTRV Require Import C06.Model.
Local Open Scope R_scope.

Lemma area_pos d : 0 < d -> 0 < area d.
Proof. intro H. unfold area. assert (0 < PI) by apply PI_RGT_0. assert (0 < d ^ 2) by (apply pow_lt; exact H). nra. Qed.

(* the stored volume changes by the net inflow times the elapsed time *)
Lemma cyl_integration h q dt d : 0 < d -> volume d (new_head h q dt d) - volume d h = q * dt.
Proof.
  intro H. unfold volume, new_head, area. assert (0 < PI) by apply PI_RGT_0.
  field; repeat split; try lra; try (apply Rgt_not_eq; apply pow_lt; exact H).
Qed.
Lemma cyl_integration_steps h q1 dt1 q2 dt2 d : 0 < d ->
  volume d (new_head (new_head h q1 dt1 d) q2 dt2 d) - volume d h = q1 * dt1 + q2 * dt2.
Proof.
  intro H. pose proof (cyl_integration h q1 dt1 d H). pose proof (cyl_integration (new_head h q1 dt1 d) q2 dt2 d H). lra.
Qed.

(* a threshold is met by a partial step: after going back b seconds the level is on the crossing side of the threshold
   and overshoots it by less than one second of the tank's flow *)
Lemma backtrack_no_overshoot_rising cur thr d q :
  0 < d -> 0 < q -> thr <= cur ->
  let b := backtrack cur thr d q in
  (0 <= b)%Z /\ thr <= level_back cur d q b /\ level_back cur d q b < thr + q / area d.
Proof.
  intros Hd Hq Hc b. pose proof (area_pos d Hd) as Ha.
  set (x := (cur - thr) * PI / 4 * d ^ 2 / q).
  assert (Ex : x = (cur - thr) * area d / q) by (unfold x, area; field; lra).
  assert (Hx : 0 <= x) by (rewrite Ex; apply Rmult_le_pos; [apply Rmult_le_pos; lra|left; apply Rinv_0_lt_compat; exact Hq]).
  assert (Hlb : IZR b <= x) by apply Zfloor_lb. assert (Hub : x < IZR b + 1) by apply Zfloor_ub.
  assert (Hb0 : (0 <= b)%Z) by (apply (Zfloor_lub 0 x); exact Hx).
  split; [exact Hb0|]. unfold level_back.
  assert (E : cur - thr = x * q / area d) by (rewrite Ex; field; split; lra).
  assert (Hqa : 0 < q / area d) by (apply Rdiv_lt_0_compat; assumption).
  split.
  - assert (IZR b * q / area d <= x * q / area d).
    { unfold Rdiv. apply Rmult_le_compat_r; [left; apply Rinv_0_lt_compat; exact Ha|]. apply Rmult_le_compat_r; lra. }
    lra.
  - assert (x * q / area d < (IZR b + 1) * q / area d).
    { unfold Rdiv. apply Rmult_lt_compat_r; [apply Rinv_0_lt_compat; exact Ha|]. apply Rmult_lt_compat_r; lra. }
    replace ((IZR b + 1) * q / area d) with (IZR b * q / area d + q / area d) in H by (field; lra). lra.
Qed.
Lemma backtrack_no_overshoot_falling cur thr d q :
  0 < d -> q < 0 -> cur <= thr ->
  let b := backtrack cur thr d q in
  (0 <= b)%Z /\ level_back cur d q b <= thr /\ thr - (- q) / area d < level_back cur d q b.
Proof.
  intros Hd Hq Hc b. pose proof (area_pos d Hd) as Ha.
  set (x := (cur - thr) * PI / 4 * d ^ 2 / q).
  assert (Ex : x = (thr - cur) * area d / (- q)) by (unfold x, area; field; lra).
  assert (Hx : 0 <= x) by (rewrite Ex; apply Rmult_le_pos; [apply Rmult_le_pos; lra|left; apply Rinv_0_lt_compat; lra]).
  assert (Hlb : IZR b <= x) by apply Zfloor_lb. assert (Hub : x < IZR b + 1) by apply Zfloor_ub.
  assert (Hb0 : (0 <= b)%Z) by (apply (Zfloor_lub 0 x); exact Hx).
  split; [exact Hb0|]. unfold level_back.
  assert (E : thr - cur = x * (- q) / area d) by (rewrite Ex; field; split; lra).
  split.
  - assert (IZR b * (- q) / area d <= x * (- q) / area d).
    { unfold Rdiv. apply Rmult_le_compat_r; [left; apply Rinv_0_lt_compat; exact Ha|]. apply Rmult_le_compat_r; lra. }
    replace (IZR b * q / area d) with (- (IZR b * (- q) / area d)) by (field; lra). lra.
  - assert (x * (- q) / area d < (IZR b + 1) * (- q) / area d).
    { unfold Rdiv. apply Rmult_lt_compat_r; [apply Rinv_0_lt_compat; exact Ha|]. apply Rmult_lt_compat_r; lra. }
    replace ((IZR b + 1) * (- q) / area d) with (IZR b * (- q) / area d + (- q) / area d) in H by (field; lra).
    replace (IZR b * q / area d) with (- (IZR b * (- q) / area d)) by (field; lra). lra.
Qed.
