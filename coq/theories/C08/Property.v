(* C08 -- property theorems only. *)
From Coq Require Import Reals ZArith List Bool Lra.
From Coquelicot Require Import Coquelicot.
From WNTRV Require Import C04.Window.
From WNTRV Require Import Lib.ExprR Gen.Formulas Lib.Spline Lib.SplineMono Lib.Sched C08.Model C08.Proofs C08.Mono.
Local Open Scope R_scope.

Theorem C08_leak_law : forall area cd p, ldelta < p -> leak_rate area cd p = cd * area * sqrt (2 * (981 / 100) * p).
Proof. exact leak_law. Qed.
Theorem C08_leak_zero : forall area cd p,
  p <= 0 -> leak_rate area cd p = lslope * p /\ Rabs (leak_rate area cd p) <= 1 / 100000000000 * Rabs p.
Proof. exact leak_zero. Qed.
Theorem C08_leak_inactive : forall area cd p, reported_leak false area cd p = 0.
Proof. exact leak_inactive. Qed.
Theorem C08_leak_C0_C1 : forall area cd,
  poly (leak_coeffs area cd) 0 = lslope * 0 /\
  poly (leak_coeffs area cd) ldelta = cd * area * sqrt (g2 * ldelta) /\
  dpoly (leak_coeffs area cd) 0 = lslope /\
  dpoly (leak_coeffs area cd) ldelta = 1 / 2 * cd * area * sqrt (2 * (981 / 100)) * pw ldelta (- (1 / 2)).
Proof. exact leak_C0_C1. Qed.
Theorem C08_sqrt_law_derivative : forall area cd p,
  0 < p -> is_derive (fun x => cd * area * sqrt (2 * (981 / 100) * x)) p (1 / 2 * cd * area * sqrt (2 * (981 / 100)) * pw p (- (1 / 2))).
Proof. exact sqrt_law_derivative. Qed.
(* the start control fires exactly in the step that contains start_time, cutting the step back to it (same for end_time) *)
(* the discharge is non-decreasing in the pressure head everywhere -- zero branch, smoothing cubic, square-root law -- for every leak whose
   regularising slope does not exceed three times the secant slope of the band (the slope matched at the right end is exactly half of it) *)
Theorem C08_leak_slope_half_secant : forall area cd, lm2 area cd = lsec area cd / 2.
Proof. exact lm2_half_secant. Qed.
Theorem C08_leak_monotone : forall area cd, 0 <= cd * area -> leak_box area cd ->
  forall p q, p <= q -> leak_rate area cd p <= leak_rate area cd q.
Proof. exact leak_monotone. Qed.
(* a leak of 1 cm2 with discharge coefficient 0.75 satisfies the premise of the monotonicity theorem *)
Example C08_leak_box_typical : 0 <= 3 / 4 * (1 / 10000) /\ leak_box (1 / 10000) (3 / 4).
Proof.
  split; [lra|]. unfold leak_box, lsec, lf2, lslope, ldelta, c_leak_slope, c_leak_delta.
  assert (H : 1 / 25 <= sqrt (2 * (981 / 100) * (0 + 1 / 10000))).
  { replace (1 / 25) with (sqrt ((1 / 25) * (1 / 25))) by (rewrite sqrt_square; lra). apply sqrt_le_1_alt. lra. }
  replace (0 + 1 / 10000 - 0) with (1 / 10000) by lra.
  assert (3 / 4 * (1 / 10000) * (1 / 25) <= 3 / 4 * (1 / 10000) * sqrt (2 * (981 / 100) * (0 + 1 / 10000))) by (apply Rmult_le_compat_l; lra).
  lra.
Qed.
Theorem C08_leak_start_fires : forall start cur prev,
  (prev < start <= cur)%Z -> eval_sim Req start 0 cur prev = (true, (cur - start)%Z).
Proof. exact leak_start_fires. Qed.
(* the leak window over the WHOLE run: add_leak(start_time, end_time) registers "leak_status := True AT TIME start" and
   "leak_status := False AT TIME end" (one priority); with no other control on it the leak status (slot l of the scheduler model,
   initially off) is on at a solved step exactly when start <= time < end, and steps are solved at exactly start and at exactly end
   when the run reaches them -- for every hydraulic / rule grid and also when both instants fall inside one hydraulic step *)
Theorem C08_leak_window_exact : forall start stop hs rs sc D l st0 p f tr sf,
  (0 < rs)%Z -> (0 < hs)%Z -> (0 < start < stop)%Z -> (l < length st0)%nat -> nth l st0 true = false ->
  steps f (Window.gw start stop hs rs sc D l st0 p) D (init_state (Window.gw start stop hs rs sc D l st0 p)) = Some (tr, sf) ->
  (forall e, In e tr -> nth l (snd e) false = Window.active start stop (fst e)) /\
  ((start <= Window.s_prev sf)%Z -> In start (map fst tr)) /\ ((stop <= Window.s_prev sf)%Z -> In stop (map fst tr)).
Proof.
  intros start stop hs rs sc D l st0 p f tr sf H1 H2 H3 H4 H5 H6.
  destruct (window_exact start stop hs rs sc D l st0 p H1 H2 H3 H4 f tr sf H5 H6) as (Ha & Hb & Hc).
  split; [intros e He; exact (proj1 (Ha e He))|split; assumption].
Qed.
Theorem C08_leak_window_total : forall start stop hs rs sc D l st0 p,
  (0 < rs)%Z -> (0 < hs)%Z -> (0 < start < stop)%Z -> (l < length st0)%nat -> (0 < D)%Z -> (D mod hs = 0)%Z -> nth l st0 true = false ->
  exists f tr sf, steps f (Window.gw start stop hs rs sc D l st0 p) D (init_state (Window.gw start stop hs rs sc D l st0 p)) = Some (tr, sf) /\
    (forall e, In e tr -> nth l (snd e) false = Window.active start stop (fst e)) /\
    ((start <= D)%Z -> In start (map fst tr)) /\ ((stop <= D)%Z -> In stop (map fst tr)) /\ In D (map fst tr).
Proof. intros start stop hs rs sc D l st0 p H1 H2 H3 H4 H5 H6 H7. exact (window_total start stop hs rs sc D l st0 p H1 H2 H3 H4 H5 H6 H7). Qed.
Print Assumptions C08_leak_law.
Print Assumptions C08_leak_window_exact.
Print Assumptions C08_leak_window_total.
Print Assumptions C08_leak_C0_C1.
Print Assumptions C08_sqrt_law_derivative.
Print Assumptions C08_leak_monotone.
Print Assumptions C08_leak_start_fires.
