(* C08 -- leak discharge: the three branches of leak_constraint with the smoothing coefficients of leak_poly_coeffs_param
   (Gen/Formulas.v, regenerated from the source), and the activation window as two AT TIME controls (Lib/Sched). *)
From Coq Require Import Reals ZArith List Bool Lra.
From WNTRV Require Import Lib.ExprR Gen.Formulas Lib.Spline Lib.Sched.
Import ListNotations.
Local Open Scope R_scope.

Definition ldelta := c_leak_delta.
Definition lslope := c_leak_slope.
Definition g2 : R := 2 * (981 / 100).        (* 2 g *)

(* leak flow at gauge pressure head p for an ACTIVE leak *)
Definition leak_rate (area cd p : R) : R :=
  if Rle_dec p 0 then lslope * p
  else if Rle_dec p ldelta then poly (leak_coeffs area cd) p
  else cd * area * sqrt (g2 * p).
(* residual of the row: leak_rate_var - leak_rate(h - elev) *)
Definition leak_row (area cd elev q h : R) : R := q - leak_rate area cd (h - elev).
(* reported leak demand: 0 unless the leak is active (store_results_in_network) *)
Definition reported_leak (active : bool) (area cd p : R) : R := if active then leak_rate area cd p else 0.

(* activation: add_leak(start, end) = control AT TIME start -> true, control AT TIME end -> false, on one flag *)
Local Open Scope Z_scope.
Definition leak_cfg (hyd rule_step dur start stop : Z) : cfg :=
  {| hyd_step := hyd; rule_step := rule_step; duration := dur; start_clock := 0;
     controls := [ {| c_cond := CSim Req start 0; c_prio := 3; c_act := (0%nat, true) |};
                   {| c_cond := CSim Req stop 0; c_prio := 3; c_act := (0%nat, false) |} ];
     rules := []; init_status := [false] |}.
(* the flag at each solved time is true exactly on [start, stop) *)
Definition window_ok (start stop : Z) (tr : list (Z * list bool)) : bool :=
  forallb (fun e => Bool.eqb (nth 0 (snd e) false) ((start <=? fst e) && (fst e <? stop))) tr.
Definition has_time (t : Z) (tr : list (Z * list bool)) : bool := existsb (fun e => fst e =? t) tr.
